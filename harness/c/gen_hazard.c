/* gen_hazard.c -- M1 harness of the regeneration tie (lib/verif/props/_gen.py): binary_search of the working tree's
 * src/hazardptrs.c (white-box include).  Only used when Gen/Tie_Hazard.v no longer checks.
 *   S findme n v0 v1 ... v(n-1)   -> s <binary_search(list, findme, n)>
 */
#include <stdio.h>
#include <stdlib.h>
#include <string.h>
#include <stdint.h>
#include "hazardptrs.c"

int main(void)
{
    static char      line[1 << 16];
    static uintptr_t v[4096];

    while (fgets(line, sizeof line, stdin)) {
        if (line[0] == 'S') {
            char         *p = line + 1;
            unsigned long f = strtoul(p, &p, 10);
            unsigned long n = strtoul(p, &p, 10);
            for (unsigned long i = 0; i < n && i < 4096; i++) { v[i] = strtoul(p, &p, 10); }
            printf("s %d\n", binary_search(v, f, n));
        } else if (line[0] == 'Q') {
            break;
        }
        fflush(stdout);
    }
    return 0;
}
