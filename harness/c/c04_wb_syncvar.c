#include "c04_ipose.h"
#define C04_TU 2
#include "syncvar.c"
