#define C04_TU 2
#include "c04_ipose.h"
#include "syncvar.c"
