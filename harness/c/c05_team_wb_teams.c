/* white-box teams.c of the working tree (C05 extension T): FREE_TEAM, the watcher words and the shut-down signal are
 * logged (wrappers in c05_team.c); the sinc operations are interposed at link level (c05_team_wb_sinc.c). */
#define C05T_TU 1
#include "c05_team_ipose.h"
#include "teams.c"
void *c05t_watcher_fn(void) { return (void *)qt_team_watcher; }
