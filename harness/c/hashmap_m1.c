/* Hashmap M1 harness: drives the real qt_hash code (white-box include of the working-tree src/hashmap.c) without a
 * runtime.  stdin: one command per line; stdout: one result line per command (see lib/verif/props/_hashmap.py).
 *
 *   I                      print the machine's own cacheline / pagesize:            "I <linesize> <pagesize>"
 *   N <line> <page> <sync> <dump>   destroy the current table, set the two machine parameters hashmap.c reads
 *                          (static linesize/bucketsize/bucketmask; _pagesize), qt_hash_create(sync)  "N <bs> <me> | state"
 *   p k v / g k / r k / c  qt_hash_put / get / remove / count                                       "<ret> | state"
 *   P k v / G k / R k      qt_hash_lock; *_locked variant; qt_hash_unlock                           "<ret> | state"
 *   b                      qt_hash_callback: pairs in call order                                    "b k:v ... | state"
 *   D                      qt_hash_destroy_deallocate: values in call order (table is gone)         "D v ..."
 *   d                      full dump                                                                "d | state E i:k:v ..."
 *   h k                    qt_hash64(k)                                                             "h <hash>"
 * state = "H mask nent pop dels grow shrink tidy has0 has1 val0 val1 C checksum" (+ " E i:k:v ..." of every slot with a
 * non-zero key or value, in index order, when dump=1). */
#include "hashmap.c"
#include <stdio.h>
#include <string.h>
#include <unistd.h>
#include <signal.h>

extern size_t _pagesize;
static qt_hash H = NULL;
static int     dumpmode = 0;

static void on_alarm(int s)
{
    static const char m[] = "\nTIMEOUT\n";
    (void)!write(1, m, sizeof(m) - 1);
    _exit(3);
}

static void entries_out(void)
{
    printf(" E");
    for (size_t i = 0; i < H->num_entries; i++) {
        if (H->entries[i].key != 0 || H->entries[i].value != 0) {
            printf(" %lu:%lu:%lu", (unsigned long)i, (unsigned long)(uintptr_t)H->entries[i].key,
                   (unsigned long)(uintptr_t)H->entries[i].value);
        }
    }
}

static void state_out(int full)
{
    uint64_t cs = 0;
    for (size_t i = 0; i < H->num_entries; i++) {
        uint64_t k = (uint64_t)(uintptr_t)H->entries[i].key, v = (uint64_t)(uintptr_t)H->entries[i].value;
        if (k != 0 || v != 0) {
            uint64_t c = (uint64_t)i % 2147483648u;
            c = (c * 1000003u + (k % 1073741824u)) % 2147483648u;
            c = (c * 1000003u + ((k >> 30) % 1073741824u)) % 2147483648u;
            c = (c * 1000003u + (v % 1073741824u)) % 2147483648u;
            c = (c * 1000003u + ((v >> 30) % 1073741824u)) % 2147483648u;
            cs = (cs + c) % 2147483648u;
        }
    }
    printf(" | H %lu %lu %lu %lu %lu %lu %lu %d %d %lu %lu C %lu", (unsigned long)H->mask, (unsigned long)H->num_entries,
           (unsigned long)H->population, (unsigned long)H->deletes, (unsigned long)H->grow_size,
           (unsigned long)H->shrink_size, (unsigned long)H->tidy_up_size, (int)H->has_key[0], (int)H->has_key[1],
           (unsigned long)(uintptr_t)H->value[0], (unsigned long)(uintptr_t)H->value[1], (unsigned long)cs);
    if (full || dumpmode) { entries_out(); }
}

static void cb_pair(const qt_key_t k, void *v, void *arg)
{
    printf(" %lu:%lu", (unsigned long)(uintptr_t)k, (unsigned long)(uintptr_t)v);
}

static void cb_val(void *v)
{
    printf(" %lu", (unsigned long)(uintptr_t)v);
}

int main(void)
{
    char          line[256];
    unsigned long a, b, c, d;

    signal(SIGALRM, on_alarm);
    setvbuf(stdout, NULL, _IOFBF, 1 << 16);
    qt_internal_alignment_init();
    qt_hash_initialize_subsystem();
    while (fgets(line, sizeof(line), stdin)) {
        alarm(60);
        switch (line[0]) {
            case 'I':
                printf("I %lu %lu\n", (unsigned long)linesize, (unsigned long)_pagesize);
                break;
            case 'N':
                if (sscanf(line + 1, "%lu %lu %lu %lu", &a, &b, &c, &d) != 4) { printf("ERR\n"); break; }
                if (H) { qt_hash_destroy(H); H = NULL; }
                linesize   = (uint_fast8_t)a;
                bucketsize = linesize / sizeof(hash_entry);
                bucketmask = bucketsize - 1;
                _pagesize  = b;
                dumpmode   = (int)d;
                H          = qt_hash_create((int)c);
                printf("N %lu %lu", (unsigned long)bucketsize, (unsigned long)(2 * pagesize / sizeof(hash_entry)));
                state_out(0);
                printf("\n");
                break;
            case 'p': case 'P':
                if (!H || sscanf(line + 1, "%lu %lu", &a, &b) != 2) { printf("ERR\n"); break; }
                if (line[0] == 'p') {
                    c = (unsigned long)qt_hash_put(H, (qt_key_t)(uintptr_t)a, (void *)(uintptr_t)b);
                } else {
                    qt_hash_lock(H);
                    c = (unsigned long)qt_hash_put_locked(H, (qt_key_t)(uintptr_t)a, (void *)(uintptr_t)b);
                    qt_hash_unlock(H);
                }
                printf("%lu", c); state_out(0); printf("\n");
                break;
            case 'g': case 'G':
                if (!H || sscanf(line + 1, "%lu", &a) != 1) { printf("ERR\n"); break; }
                if (line[0] == 'g') {
                    c = (unsigned long)(uintptr_t)qt_hash_get(H, (qt_key_t)(uintptr_t)a);
                } else {
                    qt_hash_lock(H);
                    c = (unsigned long)(uintptr_t)qt_hash_get_locked(H, (qt_key_t)(uintptr_t)a);
                    qt_hash_unlock(H);
                }
                printf("%lu", c); state_out(0); printf("\n");
                break;
            case 'r': case 'R':
                if (!H || sscanf(line + 1, "%lu", &a) != 1) { printf("ERR\n"); break; }
                if (line[0] == 'r') {
                    c = (unsigned long)qt_hash_remove(H, (qt_key_t)(uintptr_t)a);
                } else {
                    qt_hash_lock(H);
                    c = (unsigned long)qt_hash_remove_locked(H, (qt_key_t)(uintptr_t)a);
                    qt_hash_unlock(H);
                }
                printf("%lu", c); state_out(0); printf("\n");
                break;
            case 'c':
                if (!H) { printf("ERR\n"); break; }
                printf("%lu", (unsigned long)qt_hash_count(H)); state_out(0); printf("\n");
                break;
            case 'b':
                if (!H) { printf("ERR\n"); break; }
                printf("b"); qt_hash_callback(H, cb_pair, NULL); state_out(0); printf("\n");
                break;
            case 'D':
                if (!H) { printf("ERR\n"); break; }
                printf("D"); qt_hash_destroy_deallocate(H, cb_val); H = NULL; printf("\n");
                break;
            case 'd':
                if (!H) { printf("ERR\n"); break; }
                printf("d"); state_out(1); printf("\n");
                break;
            case 'h':
                if (sscanf(line + 1, "%lu", &a) != 1) { printf("ERR\n"); break; }
                printf("h %lu\n", (unsigned long)qt_hash64((uint64_t)a));
                break;
            default:
                printf("ERR\n");
        }
    }
    if (H) { qt_hash_destroy(H); }
    fflush(stdout);
    return 0;
}
