/* white-box qthread.c of the working tree (C05 extension T): the enqueue of a new task, qt_internal_team_new and the
 * delivery of the return value in qthread_wrapper are logged (wrappers in c05_team.c). */
#define C05T_TU 0
#include "c05_team_ipose.h"
#include "qthread.c"
