/* C13 harness: drives the REAL reductions (qloop.c, qutil.c), sorts (qutil.c, qloop.c) and qt_allpairs
 * (white-box include of the working tree's patterns/allpairs.c with its queue calls interposed so that the
 * worker protocol can be logged).  stdin: one command per line, stdout: one result line per command
 * (lib/verif/props/c13.py).  The array generator is the same as in ocaml/c13_driver.ml. */
#include <stdio.h>
#include <stdlib.h>
#include <string.h>
#include <stdint.h>
#include <unistd.h>
#include <signal.h>
#include <math.h>
#include <float.h>
#include <qthread/qthread.h>
#include <qthread/qloop.h>
#include <qthread/qutil.h>
#include <qthread/qarray.h>
#include <qthread/qdqueue.h>
#include <qthread/allpairs.h>

/* ------------------------------------------------------------------ allpairs white box */
typedef struct { int kind; unsigned w; int f; long u; } ev_t;     /* kind: 0 enq, 1 deq, 2 done */
#define EVCAP (1 << 20)
static ev_t         *evlog;
static volatile aligned_t evn = 0;
static volatile int  ev_overflow = 0;
static struct { int valid, f; } lastnull[256];
static int           ap_delay = 0;
static size_t        ap_n2 = 0;

static void ev_add(int kind, unsigned w, int f, long u)
{
    aligned_t i = __sync_fetch_and_add(&evn, 1);
    if (i >= EVCAP) { ev_overflow = 1; return; }
    evlog[i].kind = kind; evlog[i].w = w; evlog[i].f = f; evlog[i].u = u;
}

static void *c13_deq(qdqueue_t *q, aligned_t *flagp);
static int   c13_enq(qdqueue_t *q, void *e);
static int   c13_enq_there(qdqueue_t *q, void *e, qthread_shepherd_id_t s);
static aligned_t c13_incr(aligned_t *p, aligned_t v);
static void  c13_constloop(const qarray *a, const size_t s, const size_t e, const qa_cloop_f f, void *arg);

#define qdqueue_dequeue(q)                 c13_deq((q), (aligned_t *)args->no_more_work)
#define qdqueue_enqueue(q, e)              c13_enq((q), (e))
#define qdqueue_enqueue_there(q, e, s)     c13_enq_there((q), (e), (s))
#define qarray_iter_constloop(a, s, e, f, g) c13_constloop((a), (s), (e), (f), (g))
#ifdef qthread_incr
# undef qthread_incr
#endif
#define qthread_incr(p, v)                 c13_incr((aligned_t *)(p), (v))
#include "patterns/allpairs.c"
#undef qdqueue_dequeue
#undef qdqueue_enqueue
#undef qdqueue_enqueue_there
#undef qarray_iter_constloop
#undef qthread_incr

static inline aligned_t real_incr(aligned_t *p, aligned_t v) { return __sync_fetch_and_add(p, v); }

static long unit_id(const struct qt_ap_workunit *wu) { return (long)(wu->a1_start * (ap_n2 + 1) + wu->a2_start); }

static void *c13_deq(qdqueue_t *q, aligned_t *flagp)
{
    unsigned w   = qthread_shep();
    int      f   = (int)(*(volatile aligned_t *)flagp != 0);
    void    *ret = (qdqueue_dequeue)(q);
    if (ret) {
        lastnull[w & 255].valid = 0;
        ev_add(1, w, f, unit_id((struct qt_ap_workunit *)ret));
    } else {
        /* runs of identical empty polls of one worker are logged once (only the last one matters) */
        if (!(lastnull[w & 255].valid && lastnull[w & 255].f == f)) {
            lastnull[w & 255].valid = 1; lastnull[w & 255].f = f;
            ev_add(1, w, f, -1);
        }
    }
    return ret;
}

static int c13_enq(qdqueue_t *q, void *e)
{
    ev_add(0, 0, 0, unit_id((struct qt_ap_workunit *)e));
    return (qdqueue_enqueue)(q, e);
}

static int c13_enq_there(qdqueue_t *q, void *e, qthread_shepherd_id_t s)
{
    ev_add(0, 0, 0, unit_id((struct qt_ap_workunit *)e));
    return (qdqueue_enqueue_there)(q, e, s);
}

static aligned_t c13_incr(aligned_t *p, aligned_t v)
{   /* the only qthread_incr of allpairs.c is the worker's donecount increment */
    ev_add(2, qthread_shep(), 0, 0);
    return real_incr(p, v);
}

static void c13_constloop(const qarray *a, const size_t s, const size_t e, const qa_cloop_f f, void *arg)
{
    if (ap_delay > 0) {      /* let the workers poll the still empty queue before any work is generated */
        int d = ap_delay; ap_delay = 0;
        for (int i = 0; i < d; i++) { qthread_yield(); usleep(200); }
    }
    (qarray_iter_constloop)(a, s, e, f, arg);
}

static uint8_t           *pair_cnt;
static volatile aligned_t ap_active = 0;
static void dist(const void *u1, const void *u2)
{
    __sync_fetch_and_add(&ap_active, 1);
    size_t i = *(const size_t *)u1, j = *(const size_t *)u2;
    __sync_fetch_and_add(&pair_cnt[i * ap_n2 + j], 1);
    __sync_fetch_and_sub(&ap_active, 1);
}

/* ------------------------------------------------------------------ generator (= c13_driver.ml) */
static uint64_t sm_next(uint64_t *s)
{
    uint64_t z = (*s += 0x9E3779B97F4A7C15ULL);
    z = (z ^ (z >> 30)) * 0xBF58476D1CE4E5B9ULL;
    z = (z ^ (z >> 27)) * 0x94D049BB133111EBULL;
    return z ^ (z >> 31);
}
static uint64_t dbits(double d) { uint64_t b; memcpy(&b, &d, 8); return b; }
static double   bitsd(uint64_t b) { double d; memcpy(&d, &b, 8); return d; }
static const uint64_t ext_u[6]  = { 0, 1, ~0ULL, 1ULL << 63, (1ULL << 63) - 1, ~0ULL - 1 };
static const uint64_t ext_d[10] = { 0, 0x7FEFFFFFFFFFFFFFULL, 0xFFEFFFFFFFFFFFFFULL, 1, 0x000FFFFFFFFFFFFFULL, 0x8000000000000001ULL,
                                    0x3FF0000000000000ULL, 0xBFF0000000000000ULL, 0x7FF0000000000000ULL, 0xFFF0000000000000ULL };
static uint64_t *explicit_arr = NULL; static size_t explicit_n = 0;
#define TAIL 80
#define OOB 0x4141414141414141ULL

static size_t xpos(int pat, size_t n) { size_t p = pat == 11 ? 7 : pat == 12 ? n / 2 : (n >= 3 ? n - 3 : 0); return p >= n ? n - 1 : p; }
/* n values followed by TAIL sentinels */
static uint64_t *gen(char ty, int pat, size_t n, uint64_t seed)
{
    uint64_t *a = malloc((n + TAIL) * 8);
    uint64_t  s = seed, sd = seed % 1000, k24 = (seed * 2654435761ULL) & 0xFFFFFF;
    for (size_t i = 0; i < n; i++) {
        uint64_t r = sm_next(&s), v;
        if (ty == 'd') {
            switch (pat) {
                case 0: v = ((r >> 63) << 63) | ((993 + ((r >> 52) & 63)) << 52) | (r & 0xFFFFFFFFFFFFFULL); break;
                case 1: v = 0x3FF0000000000000ULL + (uint64_t)(i * 0x10000000ULL + sd); break;
                case 2: v = 0x3FF0000000000000ULL + (uint64_t)((n - i) * 0x10000000ULL + sd); break;
                case 3: v = 0x4000000000000000ULL + ((k24 & 0xFFFFF) << 20); break;
                case 4: v = (r & 1) ? 0x3FF8000000000000ULL : 0x4004000000000000ULL; break;
                case 5: { unsigned j = r % 9; v = (j == 8) ? ext_d[8 + (seed & 1)] : ext_d[j]; break; }
                case 6: v = dbits((double)(r % 16)); break;
                case 7: v = dbits((double)(r % 1000003)); break;
                case 9: v = (r % 64 == 0) ? 0x3FF0000000000000ULL : 0x4000000000000000ULL; break;
                case 10: v = (i > 0 && (i % 40 < 16 || i % 40 >= 32)) ? 0x4000000000000000ULL : 0x3FF0000000000000ULL; break;
                case 11: case 12: case 13: {
                    size_t pos = xpos(pat, n);
                    if (i == pos) v = (seed & 1) == 0 ? 0x7FF0000000000000ULL : dbits(1e300);
                    else if (i == pos + 1) v = (seed & 1) == 1 ? 0xFFF0000000000000ULL : dbits(-1e300);
                    else v = dbits((double)((long)(r % 2001) - 1000));
                    break; }
                case 14: { size_t j = (i == n / 3) ? 2 * n / 3 : (i == 2 * n / 3) ? n / 3 : i; v = 0x3FF0000000000000ULL + (uint64_t)(j * 0x10000000ULL + sd); break; }
                case 15: { size_t j = (i == n - 1) ? 0 : i + 1; v = 0x3FF0000000000000ULL + (uint64_t)(j * 0x10000000ULL + sd); break; }
                default: v = explicit_arr[i]; break;
            }
        } else {
            switch (pat) {
                case 0: v = r; break;
                case 1: v = i * 7919 + sd; break;
                case 2: v = (n - i) * 7919 + sd; break;
                case 3: v = (seed * 0x9E3779B97F4A7C15ULL) >> 4; break;
                case 4: v = (r & 1) ? k24 : k24 + 1000; break;
                case 5: v = ext_u[r % 6]; break;
                case 6: v = r % 16; break;
                case 7: v = r % 1000003; break;
                case 9: v = (r % 64 == 0) ? 5 : 9; break;
                case 10: v = (i > 0 && (i % 40 < 16 || i % 40 >= 32)) ? 2 : 1; break;
                case 11: case 12: case 13: {
                    size_t pos = xpos(pat, n);
                    if (i == pos) v = (uint64_t)(1000000 + (long)sd);
                    else if (i == pos + 1) v = (uint64_t)(-(1000000 + (long)sd));
                    else v = (uint64_t)((long)(r % 2001) - 1000);
                    break; }
                case 14: { size_t j = (i == n / 3) ? 2 * n / 3 : (i == 2 * n / 3) ? n / 3 : i; v = j * 7919 + sd; break; }
                case 15: { size_t j = (i == n - 1) ? 0 : i + 1; v = j * 7919 + sd; break; }
                default: v = explicit_arr[i]; break;
            }
        }
        a[i] = v;
    }
    for (size_t i = n; i < n + TAIL; i++) a[i] = OOB;
    return a;
}

/* ------------------------------------------------------------------ reductions */
static char g_ty; static int g_op;   /* 0 sum 1 prod 2 max 3 min */
#define KERNEL(T, name)                                                                            \
    static void name(const size_t startat, const size_t stopat, void *arg, void *ret) {            \
        T *a = (T *)arg; T acc = a[startat];                                                       \
        for (size_t i = startat + 1; i < stopat; i++) {                                            \
            switch (g_op) { case 0: acc = acc + a[i]; break; case 1: acc = acc * a[i]; break;       \
                            case 2: acc = (acc > a[i]) ? acc : a[i]; break; default: acc = (acc < a[i]) ? acc : a[i]; } } \
        *(T *)ret = acc; }                                                                         \
    static void name ## _acc(void *a, const void *b) {                                             \
        T x = *(T *)a, y = *(const T *)b;                                                           \
        switch (g_op) { case 0: x = x + y; break; case 1: x = x * y; break;                         \
                        case 2: x = (x > y) ? x : y; break; default: x = (x < y) ? x : y; }          \
        *(T *)a = x; }
KERNEL(aligned_t, kern_u)
KERNEL(saligned_t, kern_i)
KERNEL(double, kern_d)

static int opcode(const char *op) { return !strcmp(op, "sum") ? 0 : !strcmp(op, "prod") ? 1 : !strcmp(op, "max") ? 2 : 3; }

static uint64_t seqref(char ty, int op, const uint64_t *a, size_t start, size_t stop, double *abssum)
{
    uint64_t r;
    g_op = op;
    if (ty == 'u') kern_u(start, stop, (void *)a, &r);
    else if (ty == 'i') kern_i(start, stop, (void *)a, &r);
    else kern_d(start, stop, (void *)a, &r);
    *abssum = 0;
    if (ty == 'd') for (size_t i = start; i < stop; i++) *abssum += fabs(bitsd(a[i]));
    return r;
}

static void show(char ty, uint64_t v)
{
    if (ty == 'd' && isnan(bitsd(v))) printf("nan"); else printf("%016llx", (unsigned long long)v);
}

static void on_alarm(int s) { printf("TIMEOUT\n"); fflush(stdout); _exit(3); }

/* Watchdog in CPU time, not wall-clock time.  A qthreads process that hangs keeps all its workers spinning, so its
 * CPU time (all threads, ITIMER_PROF) grows at `workers` CPU-seconds per second; a process that is merely starved by
 * other jobs on the machine accumulates CPU time slowly and is given correspondingly more wall-clock time.  Budget:
 * `seconds` CPU-seconds per worker.  A very generous wall-clock alarm stays as the last resort. */
#include <sys/time.h>
static void watchdog(int seconds)
{
    struct itimerval it;
    long budget = (long)seconds * (long)(qthread_num_workers() > 0 ? qthread_num_workers() : 1);
    memset(&it, 0, sizeof it);
    it.it_value.tv_sec = seconds > 0 ? budget : 0;
    setitimer(ITIMER_PROF, &it, NULL);
    alarm(seconds > 0 ? 1800 : 0);
}

static int cmp_u64(const void *a, const void *b)
{
    uint64_t x = *(const uint64_t *)a, y = *(const uint64_t *)b; return x < y ? -1 : x > y;
}

int main(void)
{
    char  *line = NULL; size_t cap = 0;
    signal(SIGALRM, on_alarm);
    signal(SIGPROF, on_alarm);
    evlog = malloc(sizeof(ev_t) * EVCAP);
    if (qthread_initialize() != 0) { printf("INITFAIL\n"); return 2; }
    printf("H %u %u %u\n", (unsigned)qthread_num_shepherds(), (unsigned)qthread_num_workers(), (unsigned)qthread_cacheline());
    fflush(stdout);
    while (getline(&line, &cap, stdin) > 0) {
        char cmd[32] = "";
        sscanf(line, "%31s", cmd);
        if (!strcmp(cmd, "explicit")) {
            free(explicit_arr); explicit_n = 0; explicit_arr = malloc(strlen(line) / 2 * 8 + 8);
            char *p = line + 8;
            for (;;) { char *e; unsigned long long v = strtoull(p, &e, 16); if (e == p) break; p = e; explicit_arr[explicit_n++] = v; }
            printf("explicit\n");
        } else if (!strcmp(cmd, "red")) {
            /* red <flavour> <op> <ty> <pat> <n> <seed> <start> <stop> <checkfeb> */
            char fl[16], op[16], tys[4]; int pat, checkfeb; size_t n, start, stop; unsigned long long seed;
            sscanf(line, "%*s %15s %15s %3s %d %zu %llu %zu %zu %d", fl, op, tys, &pat, &n, &seed, &start, &stop, &checkfeb);
            char ty = tys[0]; int o = opcode(op);
            uint64_t *a = gen(ty, pat, n, seed); uint64_t res = 0; double abssum;
            watchdog(60);
            g_ty = ty; g_op = o;
            if (!strcmp(fl, "api")) {
                if (ty == 'u') { aligned_t (*f[4])(aligned_t *, size_t, int) = { qt_uint_sum, qt_uint_prod, qt_uint_max, qt_uint_min };
                                 res = f[o]((aligned_t *)a, n, checkfeb); }
                else if (ty == 'i') { saligned_t (*f[4])(saligned_t *, size_t, int) = { qt_int_sum, qt_int_prod, qt_int_max, qt_int_min };
                                      res = (uint64_t)f[o]((saligned_t *)a, n, checkfeb); }
                else { double (*f[4])(double *, size_t, int) = { qt_double_sum, qt_double_prod, qt_double_max, qt_double_min };
                       res = dbits(f[o]((double *)a, n, checkfeb)); }
            } else if (!strcmp(fl, "qutil")) {
                if (ty == 'u') { aligned_t (*f[4])(const aligned_t *, size_t, int) = { qutil_uint_sum, qutil_uint_mult, qutil_uint_max, qutil_uint_min };
                                 res = f[o]((aligned_t *)a, n, checkfeb); }
                else if (ty == 'i') { saligned_t (*f[4])(const saligned_t *, size_t, int) = { qutil_int_sum, qutil_int_mult, qutil_int_max, qutil_int_min };
                                      res = (uint64_t)f[o]((saligned_t *)a, n, checkfeb); }
                else { double (*f[4])(const double *, size_t, int) = { qutil_double_sum, qutil_double_mult, qutil_double_max, qutil_double_min };
                       res = dbits(f[o]((double *)a, n, checkfeb)); }
            } else {
                qt_loopr_f k = ty == 'u' ? kern_u : ty == 'i' ? kern_i : kern_d;
                qt_accum_f ac = ty == 'u' ? kern_u_acc : ty == 'i' ? kern_i_acc : kern_d_acc;
                if (!strcmp(fl, "sinc")) {          /* the sinc combines with the initial value of *out: the identity */
                    if (o == 0) res = 0;
                    else if (o == 1) res = ty == 'd' ? dbits(1.0) : 1;
                    else if (o == 2) res = ty == 'u' ? 0 : ty == 'i' ? (1ULL << 63) : 0xFFF0000000000000ULL;
                    else res = ty == 'u' ? ~0ULL : ty == 'i' ? (1ULL << 63) - 1 : 0x7FF0000000000000ULL;
                    qt_loopaccum_balance_sinc(start, stop, 8, &res, k, a, ac);
                } else if (!strcmp(fl, "dc")) qt_loopaccum_balance_dc(start, stop, 8, &res, k, a, ac);
                else if (!strcmp(fl, "sv")) qt_loopaccum_balance_sv(start, stop, 8, &res, k, a, ac);
                else qt_loopaccum_balance(start, stop, 8, &res, k, a, ac);
            }
            watchdog(0);
            uint64_t ref = seqref(ty, o, a, start, stop, &abssum);
            int ok;
            if (ty != 'd' || o >= 2) ok = (res == ref);
            else {
                double x = bitsd(res), y = bitsd(ref);
                if (res == ref || (isnan(x) && isnan(y))) ok = 1;
                else if (pat == 5 || !isfinite(x) || !isfinite(y)) ok = 1;      /* overflow/underflow: re-association may change the class */
                else if (o == 0) ok = fabs(x - y) <= 4.0 * (double)(stop - start) * DBL_EPSILON * abssum;
                else ok = fabs(x - y) <= 4.0 * (double)(stop - start) * DBL_EPSILON * fabs(y) + DBL_MIN;
            }
            printf("r "); show(ty, res); printf(" ref "); show(ty, ref); printf(" ok %d\n", ok);
            free(a);
        } else if (!strcmp(cmd, "sort")) {
            /* sort <which> <pat> <n> <seed> <watchdog seconds> */
            char which[16]; int pat, wd; size_t n; unsigned long long seed;
            sscanf(line, "%*s %15s %d %zu %llu %d", which, &pat, &n, &seed, &wd);
            char ty = !strcmp(which, "aligned") ? 'u' : 'd';
            uint64_t *a = gen(ty, pat, n, seed);
            uint64_t *orig = malloc(n * 8); memcpy(orig, a, n * 8);
            watchdog(wd);
            if (!strcmp(which, "qutil")) qutil_qsort((double *)a, n);
            else if (!strcmp(which, "aligned")) qutil_aligned_qsort((aligned_t *)a, n);
            else if (!strcmp(which, "qt")) qt_qsort((double *)a, n);
            else qutil_mergesort((double *)a, n);
            watchdog(0);
            int sorted = 1;
            for (size_t i = 1; i < n; i++) {
                if (ty == 'd' ? !(bitsd(a[i - 1]) <= bitsd(a[i])) : !(a[i - 1] <= a[i])) { sorted = 0; break; }
            }
            uint64_t h = 0xcbf29ce484222325ULL;
            for (size_t i = 0; i < n; i++) h = (h ^ a[i]) * 0x100000001b3ULL;
            int tail_ok = 1;
            for (size_t i = n; i < n + TAIL; i++) if (a[i] != OOB) tail_ok = 0;
            uint64_t *c = malloc(n * 8); memcpy(c, a, n * 8);
            qsort(c, n, 8, cmp_u64); qsort(orig, n, 8, cmp_u64);
            int mset = !memcmp(c, orig, n * 8) && tail_ok;
            printf("s ok %016llx %d %d\n", (unsigned long long)h, sorted, mset);
            free(a); free(orig); free(c);
        } else if (!strcmp(cmd, "ap")) {
            /* ap <n1> <n2> <unit bytes> <seg_pages> <delay> */
            size_t n1, n2, unit; int segpages, delay;
            sscanf(line, "%*s %zu %zu %zu %d %d", &n1, &n2, &unit, &segpages, &delay);
            qarray *a1 = qarray_create_configured(n1, unit, FIXED_HASH, 1, segpages);
            qarray *a2 = qarray_create_configured(n2, unit, FIXED_HASH, 1, segpages);
            for (size_t i = 0; i < n1; i++) *(size_t *)qarray_elem_nomigrate(a1, i) = i;
            for (size_t j = 0; j < n2; j++) *(size_t *)qarray_elem_nomigrate(a2, j) = j;
            pair_cnt = calloc(n1 * n2 + 1, 1);
            ap_n2 = n2; evn = 0; ev_overflow = 0; ap_active = 0; ap_delay = delay;
            memset(lastnull, 0, sizeof lastnull);
            watchdog(getenv("C13_AP_WATCHDOG") ? atoi(getenv("C13_AP_WATCHDOG")) : 30);
            qt_allpairs(a1, a2, dist);
            aligned_t act = ap_active;
            watchdog(0);
            size_t bad = 0, firstbad = 0;
            for (size_t k = 0; k < n1 * n2; k++) if (pair_cnt[k] != 1) { if (!bad) firstbad = k; bad++; }
            size_t nenq = 0, ne = evn < EVCAP ? evn : EVCAP;
            for (size_t k = 0; k < ne; k++) if (evlog[k].kind == 0) nenq++;
            printf("a %zu bad=%zu first=%zu:%zu cnt=%d active=%lu overflow=%d ev", nenq, bad, firstbad / n2, firstbad % n2,
                   bad ? (int)pair_cnt[firstbad] : 1, (unsigned long)act, ev_overflow);
            for (size_t k = 0; k < ne; k++) {
                if (evlog[k].kind == 0) printf(" e%ld", evlog[k].u);
                else if (evlog[k].kind == 1) { if (evlog[k].u < 0) printf(" d%u:%d:-", evlog[k].w, evlog[k].f); else printf(" d%u:%d:%ld", evlog[k].w, evlog[k].f, evlog[k].u); }
                else printf(" x%u", evlog[k].w);
            }
            printf("\n");
            free(pair_cnt); qarray_destroy(a1); qarray_destroy(a2);
        } else if (!strcmp(cmd, "Q")) break;
        else printf("ERR\n");
        fflush(stdout);
    }
    fflush(stdout);
    return 0;
}
