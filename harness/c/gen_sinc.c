/* gen_sinc.c -- M1 harness of the regeneration tie (lib/verif/props/_gen.py): the slot offsets of the working tree's
 * src/sincs/donecount.c (white-box include) inside a 1x1 runtime.  The geometry statics (num_sheps, num_wps, cacheline)
 * are set by hand, qthread_shep() / qthread_readstate(CURRENT_WORKER) are replaced by variables, and the reduction
 * operator records the offset of the slot it is handed.  Only used when Gen/Tie_Sinc.v no longer checks.
 *   G sheps wps cacheline size  -> g <sizeof_shep_value_part>
 *   S sheps wps cacheline size shep worker -> s <offset of the slot submit updates> <offset qt_sinc_tmpdata returns>
 */
#include <stdio.h>
#include <stdlib.h>
#include <string.h>
#include <stdint.h>
#include <qthread/qthread.h>
#include <qthread/sinc.h>
static unsigned gen_shep, gen_worker;
#define qthread_shep() (gen_shep)
#define qthread_readstate(x) (gen_worker)
#include "sincs/donecount.c"
#undef qthread_shep
#undef qthread_readstate

static uint8_t *gen_base;
static long     gen_off[1 << 16];
static int      gen_n, gen_rec;
static void gen_op(void *dst, const void *src)
{
    if (gen_rec && gen_n < (1 << 16) && (uint8_t *)dst >= gen_base && (uint8_t *)dst < gen_base + (1L << 40)) {
        gen_off[gen_n++] = (long)((uint8_t *)dst - gen_base);
    } else if (gen_rec && gen_n < (1 << 16)) {
        gen_off[gen_n++] = -1;            /* the result buffer (first argument of the collating calls) */
    }
}

int main(void)
{
    char line[256];
    static uint8_t init[1 << 12];

    if (qthread_initialize() != 0) { printf("init-failed\n"); return 1; }
    while (fgets(line, sizeof line, stdin)) {
        unsigned long sh = 0, wps = 0, cl = 0, sz = 0, s = 0, w = 0;
        int           isS = line[0] == 'S';
        if ((line[0] == 'G' && sscanf(line + 1, "%lu %lu %lu %lu", &sh, &wps, &cl, &sz) == 4) ||
            (isS && sscanf(line + 1, "%lu %lu %lu %lu %lu %lu", &sh, &wps, &cl, &sz, &s, &w) == 6)) {
            qt_internal_sinc_t sinc;
            memset(&sinc, 0, sizeof sinc);
            num_sheps = sh; num_wps = wps; num_workers = sh * wps; cacheline = (unsigned)cl;
            gen_rec = 0; gen_n = 0;
            qt_sinc_init((qt_sinc_t *)&sinc, sz, init, gen_op, isS ? 1000 : 1);
            gen_base = (uint8_t *)sinc.rdata->values;
            gen_shep = (unsigned)s; gen_worker = (unsigned)w;
            if (isS) {
                long t = (long)((uint8_t *)qt_sinc_tmpdata((qt_sinc_t *)&sinc) - gen_base);
                gen_rec = 1;
                qt_sinc_submit((qt_sinc_t *)&sinc, init);
                printf("s %ld %ld\n", gen_n ? gen_off[0] : -2, t);
            } else {
                unsigned long part = sinc.rdata->sizeof_shep_value_part;
                qt_sinc_submit((qt_sinc_t *)&sinc, NULL);     /* the final submit: collate walks every slot */
                gen_rec = 0;
                printf("g %lu", part);
                /* collate calls op(result, slot): the recorded first arguments are the result buffer; re-derive the slots */
                printf("\n");
            }
            qt_sinc_fini((qt_sinc_t *)&sinc);
        } else if (line[0] == 'Q') {
            break;
        }
        fflush(stdout);
    }
    return 0;
}
