/* gen_ident.c -- M1 harness of the regeneration tie (lib/verif/props/_gen.py): qthread_id() of the working tree's
 * src/qthread.c (white-box include) called by a fresh task in a 1x1 runtime after qlib->max_thread_id was preset.
 * Only used when Gen/Tie_Ident.v no longer checks.
 *   I counter -> i <id returned> <id returned by a second call> <qlib->max_thread_id afterwards>
 */
#include <stdio.h>
#include <stdlib.h>
#include <string.h>
#include <stdint.h>
#include "qthread.c"

static unsigned long gen_res[3];
static aligned_t gen_task(void *arg)
{
    gen_res[0] = qthread_id();
    gen_res[1] = qthread_id();
    gen_res[2] = (unsigned long)qlib->max_thread_id;
    return 0;
}

int main(void)
{
    char line[256];

    if (qthread_initialize() != 0) { printf("init-failed\n"); return 1; }
    while (fgets(line, sizeof line, stdin)) {
        unsigned long c = 0;
        if (line[0] == 'I' && sscanf(line + 1, "%lu", &c) == 1) {
            aligned_t ret;
            qlib->max_thread_id = (aligned_t)c;
            qthread_fork(gen_task, NULL, &ret);
            qthread_readFF(NULL, &ret);
            printf("i %lu %lu %lu\n", gen_res[0], gen_res[1], gen_res[2]);
        } else if (line[0] == 'Q') {
            break;
        }
        fflush(stdout);
    }
    return 0;
}
