/* C11 extension S harness: the life cycle of the real barrier (white-box include of the working-tree src/barrier/feb.c):
 * qt_barrier_create / resize / destroy and the global-barrier wrappers interleaved with qt_barrier_enter / qt_global_barrier.
 * Participants: as in c11_barrier.c (every shared access of qt_barrier_enter is a schedule point).  The controller of the
 * model (thread id = number of participants) is played by the main task for the one-step operations (create, resize, the
 * global init, join, new group) and by a DESTROYER task for qt_barrier_destroy, whose schedule points are: the call (up to
 * the first evaluation of the loop condition), every qthread_yield() of its wait loop, the two fills and qt_mpool_free.
 * The free itself is deferred to the end of the session (the block is only recorded as freed), so that accesses of
 * participants to a freed barrier are observable (column uaf) instead of undefined.
 * stdin : L <gm> | <op> <op> ... | <r1> <r2> ...       (identical to ocaml/c11life_driver.ml)
 * stdout: see ocaml/c11life_driver.ml */
#ifdef HAVE_CONFIG_H
# include "config.h"
#endif
#include <stdlib.h>
#include <stdio.h>
#include <string.h>
#include <unistd.h>
#include <signal.h>
#include <stdint.h>
#include "qthread-int.h"
#include "qthread/qthread.h"
#include "qthread/barrier.h"
#include "qt_barrier.h"
#include "qt_atomics.h"
#include "qt_mpool.h"
#include "qt_visibility.h"
#include "qt_initialized.h"
#include "qt_debug.h"
#include "qt_asserts.h"
#include "qt_subsystems.h"

static aligned_t v_incr(aligned_t *addr, int64_t v);
static int       v_readFF(aligned_t *dest, const aligned_t *src);
static int       v_empty(const aligned_t *a);
static int       v_fill(const aligned_t *a);
static void      v_yield_(int k);
static void      v_mpool_free(qt_mpool pool, void *mem);

static inline aligned_t real_incr(aligned_t *a, int64_t v) { return qthread_incr(a, v); }
static inline int real_readFF(aligned_t *d, const aligned_t *s) { return qthread_readFF(d, s); }
static inline int real_empty(const aligned_t *a) { return qthread_empty(a); }
static inline int real_fill(const aligned_t *a) { return qthread_fill(a); }
static inline void real_yield_(int k) { qthread_yield_(k); }
static inline void real_mpool_free(qt_mpool pool, void *mem) { qt_mpool_free(pool, mem); }

#undef qthread_incr
#define qthread_incr(a, v) v_incr((aligned_t *)(a), (int64_t)(v))
#define qthread_readFF v_readFF
#define qthread_empty  v_empty
#define qthread_fill   v_fill
#define qthread_yield_ v_yield_
#define qt_mpool_free  v_mpool_free
#include "barrier/feb.c"
#undef qthread_incr
#undef qthread_readFF
#undef qthread_empty
#undef qthread_fill
#undef qthread_yield_
#undef qt_mpool_free

#define MAXT 64
#define LIFE (MAXT - 1)          /* slot of the destroyer task */
#define MAXOPS 64
#define LIMIT 600
enum { K_INIT, K_CALL, K_IN, K_INW, K_INC, K_EMPIN, K_FILLOUT, K_OUT, K_OUTW, K_DEC, K_EMPOUT, K_FILLIN, K_RUN, K_DONE, K_UNK,
       K_DYIELD, K_DFILLOUT, K_DFILLIN, K_DFREE, K_NEXT };
static const char *kname[] = { "Init", "Call", "In", "InW", "Inc", "EmpIn", "FillOut", "Out", "OutW", "Dec", "EmpOut", "FillIn", "Run", "Call", "Unknown",
                               "Yield", "DFillOut", "DFillIn", "Free", "Next" };
typedef struct { char kind[3]; long a, b; } lop_t;

static qt_barrier_t      *B;           /* the object the session talks about (kept after its destruction for display) */
static volatile int       alive;
static int                gm, uaf;
static int                N, E;
static volatile int       st[MAXT], ep[MAXT], retflag[MAXT], retmin[MAXT];
static volatile aligned_t callsv[MAXT];
static volatile int       turn = -1;
static aligned_t          rets[MAXT];
static aligned_t          go[MAXT];
static aligned_t          ctl;
static unsigned           wd_secs = 20;
static void              *deferred[MAXOPS];
static int                ndeferred;
static int                joined = 1;
static int                mode;        /* 0 baton, 1 free-running (random yields before every access, no controller) */
static int                pdestroy;    /* free-running: participant 0 destroys the barrier right after its last return */
static unsigned           rstate[MAXT];
static int                yield_den;
static volatile int       fr_bad, fr_t, fr_k, fr_min;

static int who(void)
{
    aligned_t *r = qthread_retloc();
    if (r >= rets && r < rets + MAXT) return (int)(r - rets);
    return -1;
}

static void sp(int me, int kind)
{
    st[me] = kind;
    __sync_synchronize();
    real_fill(&ctl);
    qthread_readFE(NULL, &go[me]);
}

static void sp_done(int me, int next)
{
    st[me] = next;
    __sync_synchronize();
    turn = -1;
    real_fill(&ctl);
}

static void perturb(int me)
{
    if (yield_den <= 0) return;
    rstate[me] = rstate[me] * 1103515245u + 12345u;
    if (((rstate[me] >> 16) % (unsigned)yield_den) == 0) real_yield_(0);
}

static int on_barrier(const void *a)
{
    return B && (const char *)a >= (const char *)B && (const char *)a < (const char *)B + sizeof(struct qt_barrier_s);
}

static void touch(int me, const void *a)
{
    if (me != LIFE && !alive && on_barrier(a)) __sync_fetch_and_add(&uaf, 1);   /* a participant's access to the freed object */
}

static int gate_kind(const aligned_t *a, int kin, int kout)
{
    if (B && a == &B->in_gate) return kin;
    if (B && a == &B->out_gate) return kout;
    return K_UNK;
}

static aligned_t v_incr(aligned_t *addr, int64_t v)
{
    int me = who();
    if (me < 0) return real_incr(addr, v);
    if (mode) { perturb(me); touch(me, addr); return real_incr(addr, v); }
    sp(me, (B && addr == &B->blockers) ? (v == 1 ? K_INC : (v == -1 ? K_DEC : K_UNK)) : K_UNK);
    touch(me, addr);
    aligned_t r = real_incr(addr, v);
    sp_done(me, K_RUN);
    return r;
}

static int v_empty(const aligned_t *a)
{
    int me = who();
    if (me < 0) return real_empty(a);
    if (mode) { perturb(me); touch(me, a); return real_empty(a); }
    sp(me, gate_kind(a, K_EMPIN, K_EMPOUT));
    touch(me, a);
    int r = real_empty(a);
    sp_done(me, K_RUN);
    return r;
}

static int v_fill(const aligned_t *a)
{
    int me = who();
    if (me < 0) return real_fill(a);
    if (mode) { perturb(me); touch(me, a); return real_fill(a); }
    int k = (me == LIFE) ? gate_kind(a, K_DFILLIN, K_DFILLOUT) : gate_kind(a, K_FILLIN, K_FILLOUT);
    sp(me, k);
    touch(me, a);
    int wk = (k == K_FILLIN || k == K_DFILLIN) ? K_INW : ((k == K_FILLOUT || k == K_DFILLOUT) ? K_OUTW : -1);
    for (int j = 0; j < N; j++) if (wk >= 0) __sync_bool_compare_and_swap(&st[j], wk, K_RUN);
    int r = real_fill(a);
    sp_done(me, K_RUN);
    return r;
}

static int v_readFF(aligned_t *dest, const aligned_t *src)
{
    int me = who();
    if (me < 0) return real_readFF(dest, src);
    if (mode) { perturb(me); touch(me, src); return real_readFF(dest, src); }
    int k = gate_kind(src, K_IN, K_OUT);
    sp(me, k);
    touch(me, src);
    if (qthread_feb_status(src)) {
        int r = real_readFF(dest, src);
        sp_done(me, K_RUN);
        return r;
    }
    sp_done(me, k == K_IN ? K_INW : (k == K_OUT ? K_OUTW : K_UNK));
    return real_readFF(dest, src);
}

/* qthread_yield() inside the wait loop of qt_barrier_destroy: the destroyer gives way; when it is granted the next
 * step the loop condition is evaluated again */
static void v_yield_(int k)
{
    int me = who();
    if (me != LIFE || mode) { real_yield_(k); return; }
    sp(me, K_DYIELD);
    sp_done(me, K_RUN);
}

static void v_mpool_free(qt_mpool pool, void *mem)
{
    int me = who();
    if (me == LIFE && !mode) sp(me, K_DFREE);
    if (mem == (void *)B) { alive = 0; __sync_synchronize(); }
    if (ndeferred < MAXOPS) deferred[ndeferred++] = mem; else real_mpool_free(pool, mem);
    if (me == LIFE && !mode) sp_done(me, K_RUN);
}

static int min_calls(void)
{
    aligned_t m = callsv[0];
    for (int j = 1; j < N; j++) if (callsv[j] < m) m = callsv[j];
    return (int)m;
}

static aligned_t participant(void *arg)
{
    int me = (int)(intptr_t)arg;
    for (int k = 1; k <= E; k++) {
        if (!mode) sp(me, K_CALL); else perturb(me);
        __sync_fetch_and_add(&callsv[me], 1);
        if (!mode) sp_done(me, K_RUN);
        if (gm) qt_global_barrier();
        else if (me & 1) qt_barrier_enter_id(B, (size_t)me);
        else qt_barrier_enter(B);
        int m = min_calls();
        ep[me]     = k;
        retmin[me] = m;
        retflag[me] = 1;
        if (mode && m < k) {
            if (__sync_fetch_and_add(&fr_bad, 1) == 0) { fr_t = me; fr_k = k; fr_min = m; }
        }
    }
    if (mode && pdestroy && me == 0) {     /* the usual pattern: "I am back from my last enter, I destroy the barrier" */
        if (gm) qt_global_barrier_destroy(); else qt_barrier_destroy(B);
    }
    __sync_synchronize();
    st[me] = K_DONE;
    if (!mode) real_fill(&ctl);
    return 0;
}

static aligned_t destroyer(void *arg)
{
    if (arg) qt_global_barrier_destroy(); else qt_barrier_destroy(B);
    __sync_synchronize();
    st[LIFE] = K_NEXT;
    real_fill(&ctl);
    return 0;
}

static void on_alarm(int s)
{
    printf("TIMEOUT turn=%d", turn);
    for (int j = 0; j < N; j++) printf(" %s:%d", kname[st[j]], ep[j]);
    printf(" | %s\n", kname[st[LIFE]]);
    fflush(stdout);
    _exit(3);
}

static int anyrun(void)
{
    if (turn != -1) return 1;
    for (int j = 0; j < N; j++) if (st[j] == K_RUN || st[j] == K_INIT) return 1;
    if (st[LIFE] == K_RUN || st[LIFE] == K_INIT) return 1;
    return 0;
}

static void settle(void) { while (anyrun()) qthread_readFE(NULL, &ctl); }

static void join_all(void)
{
    if (joined) return;
    for (int j = 0; j < N; j++) qthread_readFF(NULL, &rets[j]);
    joined = 1;
}

static void spawn_all(int nsheps)
{
    for (int j = 0; j < N; j++) {
        st[j] = K_INIT; ep[j] = 0; retflag[j] = 0; callsv[j] = 0;
        real_empty(&go[j]);
    }
    __sync_synchronize();
    for (int j = 0; j < N; j++) qthread_fork_to(participant, (void *)(intptr_t)j, &rets[j], (qthread_shepherd_id_t)(j % nsheps));
    joined = (N == 0);
}

static void set_B(qt_barrier_t *b) { B = b; alive = (b != NULL); }

int main(void)
{
    static char line[1 << 16];
    signal(SIGALRM, on_alarm);
    if (getenv("VERIF_WATCHDOG")) wd_secs = (unsigned)atoi(getenv("VERIF_WATCHDOG"));
    if (qthread_initialize() != 0) { printf("INITFAIL\n"); return 2; }
    int nsheps = (int)qthread_num_shepherds();
    printf("H %d %d\n", nsheps, (int)qthread_num_workers());
    fflush(stdout);
    while (fgets(line, sizeof line, stdin)) {
        if (line[0] == 'L') {
            static lop_t ops[MAXOPS];
            static int   rs[1 << 14];
            int          nops = 0, nr = 0, cur = 0;
            char *bar1 = strchr(line, '|'), *bar2 = bar1 ? strchr(bar1 + 1, '|') : NULL;
            if (!bar1 || !bar2) { printf("ERR\n"); fflush(stdout); continue; }
            gm = atoi(line + 1);
            *bar1 = 0; *bar2 = 0;
            for (char *p = strtok(bar1 + 1, " \n"); p && nops < MAXOPS; p = strtok(NULL, " \n")) {
                lop_t *o = &ops[nops++];
                char  *c1 = strchr(p, ':'), *c2 = c1 ? strchr(c1 + 1, ':') : NULL;
                size_t kl = c1 ? (size_t)(c1 - p) : strlen(p);
                memset(o, 0, sizeof *o);
                memcpy(o->kind, p, kl > 2 ? 2 : kl);
                if (c1) o->a = atol(c1 + 1);
                if (c2) o->b = atol(c2 + 1);
            }
            { char *p = bar2 + 1, *e; for (;;) { long r = strtol(p, &e, 10); if (e == p) break; p = e; if (nr < (1 << 14)) rs[nr++] = (int)r; } }
            N = 0; E = 0; B = NULL; alive = 0; uaf = 0; turn = -1; ndeferred = 0; joined = 1; mode = 0; yield_den = 0;
            st[LIFE] = K_NEXT;
            real_empty(&ctl);
            real_empty(&go[LIFE]);
            alarm(wd_secs);
            int k = 0, bad = 0;
            for (;;) {
                settle();
                if (k >= LIMIT) { printf("END runaway %d\n", k); bad = 1; break; }
                int en[MAXT + 1], ne = 0, nd = 0;
                for (int j = 0; j < N; j++) {
                    int s = st[j];
                    if (s == K_DONE) nd++;
                    else if (s != K_INW && s != K_OUTW) en[ne++] = j;
                }
                int cen = 0; /* controller enabled? */
                if (st[LIFE] != K_NEXT) cen = 1;
                else if (cur < nops) {
                    const char *ok = ops[cur].kind;   /* join, new group and creation wait for the participants */
                    int gated = !strcmp(ok, "w") || !strcmp(ok, "e") || !strcmp(ok, "c") || (!strcmp(ok, "gi") && global_barrier == NULL);
                    cen = gated ? (nd == N) : 1;
                }
                if (cen) en[ne++] = N;
                if (ne == 0) {
                    int fin = (cur >= nops && st[LIFE] == K_NEXT && nd == N);
                    printf("END %s %d\n", fin ? "done" : "deadlock", k);
                    bad = !fin;
                    break;
                }
                int r = nr ? rs[k % nr] : 0;
                int pref = r / 1024, i = en[(r % 1024) % ne];
                if (pref > 0 && pref - 1 <= N) {
                    int q = pref - 1, ok = 0;
                    for (int z = 0; z < ne; z++) if (en[z] == q) ok = 1;
                    if (ok) i = q;
                }
                const char *kind;
                int         epold = 0;
                if (i < N) {
                    kind = kname[st[i]]; epold = ep[i];
                    retflag[i] = 0;
                    __sync_synchronize();
                    turn = i;
                    real_fill(&go[i]);
                    settle();
                } else if (st[LIFE] != K_NEXT) {
                    kind = kname[st[LIFE]];
                    __sync_synchronize();
                    turn = LIFE;
                    real_fill(&go[LIFE]);
                    settle();
                    if (st[LIFE] == K_NEXT) { qthread_readFF(NULL, &rets[LIFE]); cur++; }
                } else {
                    lop_t *o = &ops[cur];
                    if (!strcmp(o->kind, "w")) { kind = "Wait"; join_all(); cur++; }
                    else if (!strcmp(o->kind, "e")) { kind = "Era"; join_all(); N = (int)o->a; E = (int)o->b; spawn_all(nsheps); settle(); cur++; }
                    else if (!strcmp(o->kind, "r")) { kind = "Resize"; qt_barrier_resize(B, (size_t)o->a); cur++; }
                    else if (!strcmp(o->kind, "gr")) { kind = "GResize"; qt_global_barrier_resize((size_t)o->a); cur++; }
                    else if (!strcmp(o->kind, "c")) { kind = "Create"; set_B(qt_barrier_create((size_t)o->a, REGION_BARRIER)); cur++; }
                    else if (!strcmp(o->kind, "gi")) {
                        kind = "GInit";
                        int was = (global_barrier != NULL);
                        qt_global_barrier_init((size_t)o->a, 0);
                        if (!was) set_B(global_barrier);
                        cur++;
                    } else if (!strcmp(o->kind, "gd") && global_barrier == NULL) {
                        kind = "GDestroy"; qt_global_barrier_destroy(); cur++;
                    } else { /* d, gd: the destroyer task runs up to its first schedule point */
                        kind = (o->kind[0] == 'g') ? "GDestroy" : "Destroy";
                        st[LIFE] = K_INIT;
                        __sync_synchronize();
                        qthread_fork_to(destroyer, (void *)(intptr_t)(o->kind[0] == 'g'), &rets[LIFE], 0);
                        settle();
                        if (st[LIFE] == K_NEXT) { qthread_readFF(NULL, &rets[LIFE]); cur++; }
                    }
                }
                k++;
                if (B) printf("%d %s %d %d %ld %ld %d %d |", i, kind, qthread_feb_status(&B->in_gate) ? 1 : 0,
                              qthread_feb_status(&B->out_gate) ? 1 : 0, (long)B->blockers, (long)B->max_blockers, alive, uaf);
                else printf("%d %s 1 0 0 0 0 %d |", i, kind, uaf);
                for (int j = 0; j < N; j++) printf(" %s:%d", kname[st[j]], ep[j]);
                printf(" | %s", kname[st[LIFE]]);
                if (i < N && ep[i] > epold) printf(" R %d %d", ep[i], retmin[i]);
                printf("\n");
            }
            alarm(0);
            if (!bad) {
                join_all();
                for (int j = 0; j < ndeferred; j++) real_mpool_free(fbp.pool, deferred[j]);
                if (global_barrier) { global_barrier = NULL; }
                B = NULL; alive = 0;
            } else {
                fflush(stdout);
                _exit(0);      /* blocked tasks are left behind: one session per process from here on */
            }
        } else if (line[0] == 'F') {
            /* F <gm> <pdestroy> <seed> <yield_den> | e:<n>:<E> [r:<m> e:..]...   free-running groups, joined in between, then destroy
             * (by main after the join, or by participant 0 right after its last return when pdestroy).
             * -> "FR <early returns> <t> <k> <min> <short episodes> <blockers> <uaf>" */
            unsigned seed;
            char    *bar1 = strchr(line, '|');
            if (!bar1) { printf("ERR\n"); fflush(stdout); continue; }
            *bar1 = 0;
            sscanf(line + 1, "%d %d %u %d", &gm, &pdestroy, &seed, &yield_den);
            mode = 1; fr_bad = 0; fr_t = fr_k = fr_min = 0; uaf = 0; ndeferred = 0; B = NULL; alive = 0;
            for (int j = 0; j < MAXT; j++) rstate[j] = seed * 2654435761u + (unsigned)j * 40503u + 1u;
            alarm(wd_secs);
            int short_ep = 0, first = 1, want_pd = pdestroy;
            char *save = NULL;
            /* pdestroy applies to the LAST group only */
            int ngroups = 0;
            for (char *q = bar1 + 1; *q; q++) if (*q == 'e' && q[1] == ':') ngroups++;
            int gi = 0;
            for (char *p = strtok_r(bar1 + 1, " \n", &save); p; p = strtok_r(NULL, " \n", &save)) {
                long a = 0, b = 0;
                char *c1 = strchr(p, ':'), *c2 = c1 ? strchr(c1 + 1, ':') : NULL;
                if (c1) a = atol(c1 + 1);
                if (c2) b = atol(c2 + 1);
                if (p[0] == 'r') { if (gm) qt_global_barrier_resize((size_t)a); else qt_barrier_resize(B, (size_t)a); }
                else if (p[0] == 'e') {
                    gi++;
                    if (first) {
                        if (gm) { qt_global_barrier_init((size_t)a, 0); set_B(global_barrier); }
                        else set_B(qt_barrier_create((size_t)a, REGION_BARRIER));
                        first = 0;
                    }
                    N = (int)a; E = (int)b;
                    pdestroy = (want_pd && gi == ngroups);
                    for (int j = 0; j < N; j++) { st[j] = K_INIT; ep[j] = 0; callsv[j] = 0; }
                    __sync_synchronize();
                    for (int j = 0; j < N; j++) qthread_fork_to(participant, (void *)(intptr_t)j, &rets[j], (qthread_shepherd_id_t)(j % nsheps));
                    for (int j = 0; j < N; j++) qthread_readFF(NULL, &rets[j]);
                    for (int j = 0; j < N; j++) if (ep[j] != E) short_ep++;
                }
            }
            if (!want_pd && B) { if (gm) qt_global_barrier_destroy(); else qt_barrier_destroy(B); }
            alarm(0);
            printf("FR %d %d %d %d %d %ld %d\n", fr_bad, fr_t, fr_k, fr_min, short_ep, B ? (long)B->blockers : 0L, uaf);
            for (int j = 0; j < ndeferred; j++) real_mpool_free(fbp.pool, deferred[j]);
            global_barrier = NULL; B = NULL; alive = 0; mode = 0; pdestroy = 0; N = 0;
        } else if (line[0] == 'Q') break;
        fflush(stdout);
    }
    fflush(stdout);
    return 0;
}
