/* gen_mpool.c -- M1 harness of the regeneration tie (lib/verif/props/_gen.py): the size arithmetic of
 * qt_mpool_create_aligned of the working tree's src/mpool.c (white-box include), observed on real pools inside a
 * 1x1 runtime (the page size and the allocator need the library initialised).  The function-static max_alloc_size
 * carries over from call to call, exactly as the model threads it.  Only used when Gen/Tie_Mpool.v no longer checks.
 *   (first line printed)   p <pagesize>
 *   C item_size alignment  -> c <item_size> <alignment> <alloc_size> <items_per_alloc>
 */
#include <stdio.h>
#include <stdlib.h>
#include <string.h>
#include <stdint.h>
#include <qthread/qthread.h>
#include "mpool.c"

int main(void)
{
    char line[256];

    if (qthread_initialize() != 0) { printf("init-failed\n"); return 1; }
    printf("p %lu\n", (unsigned long)pagesize);
    fflush(stdout);
    while (fgets(line, sizeof line, stdin)) {
        unsigned long a = 0, b = 0;
        if (line[0] == 'C' && sscanf(line + 1, "%lu %lu", &a, &b) == 2) {
            qt_mpool p = qt_mpool_create_aligned(a, b);
            if (p == NULL) { printf("c NULL\n"); } else {
                printf("c %lu %lu %lu %lu\n", (unsigned long)p->item_size, (unsigned long)p->alignment,
                       (unsigned long)p->alloc_size, (unsigned long)p->items_per_alloc);
                qt_mpool_destroy(p);
            }
        } else if (line[0] == 'Q') {
            break;
        }
        fflush(stdout);
    }
    return 0;
}
