/* C19 harness: init / workload / finalize cycles on the real runtime (white-box include of the working-tree qthread.c:
 * access to qlib and the three cleanup lists, atexit() counted through a macro).
 * stdin: one line per cycle:  C <workload,workload,...|none> [ri] [rf]     (ri/rf: redundant initialize / finalize calls)
 * stdout per cycle:  Y ..., G (registered cleanups, head first), N (cleanups in the order they ran, with the number of OS
 * threads alive at that moment), Z (what is left after finalize).  Addresses are resolved to names by the check (nm). */
#include <stdlib.h>
static int c19_atexit_calls = 0;
static int c19_atexit(void (*f)(void)) { c19_atexit_calls++; return (c19_atexit_calls == 1) ? atexit(f) : 0; }
#define atexit(f) c19_atexit(f)
#include "qthread.c"
#undef atexit
#include <qthread/qlfqueue.h>
#include <qthread/qdqueue.h>
#include <qthread/qpool.h>
#include <qthread/qarray.h>
#include <qthread/dictionary.h>
#include <qthread/sinc.h>
#include <qthread/barrier.h>
#include <qthread/qt_syscalls.h>
#include <stdio.h>
#include <string.h>
#include <unistd.h>
#include <dirent.h>
#include <malloc.h>
#include <signal.h>
#include <pthread.h>

extern unsigned c19_cycle;
extern int      c19_poison;
void c19_ledger_live(size_t *blocks, size_t *bytes);
size_t c19_ledger_my_allocs(void);
void c19_ledger_dump(unsigned cycle, int max);
int  c19_lfq_pool_set(void);
int  c19_proxy_exit(void);
long c19_io_workers(void);
int  c19_dict_pool_set(void);
int  c19_barrier_pool_set(void);

static int count_dir(const char *p)
{
    int n = 0; DIR *d = opendir(p); struct dirent *e;
    if (!d) return -1;
    while ((e = readdir(d))) if (e->d_name[0] != '.') n++;
    closedir(d);
    return n;
}
static int nthreads(void) { return count_dir("/proc/self/task"); }
static int nfds(void) { return count_dir("/proc/self/fd") - 1; /* minus the DIR's own descriptor */ }

/* ---------------------------------------------------------------- cleanup logging through trampolines */
#define MAXCL 32
static void (*cl_orig[MAXCL])(void);
static int   cl_n, cl_early, cl_base_thr, run_n, run_idx[MAXCL], run_thr[MAXCL];
static void  cl_run(int k)
{
    if (k >= cl_early && run_n == cl_early) {
        /* first cleanup after the join: a joined (or detached, exiting) thread can stay listed in /proc/self/task for a
         * moment after pthread_join returned; wait for the listing to settle before counting */
        for (int ms = 0; nthreads() != cl_base_thr && ms < 10000; ms++) usleep(1000);
    }
    if (run_n < MAXCL) { run_idx[run_n] = k; run_thr[run_n] = nthreads(); run_n++; }
    cl_orig[k]();
}
#define TR(k) static void tr##k(void) { cl_run(k); }
TR(0) TR(1) TR(2) TR(3) TR(4) TR(5) TR(6) TR(7) TR(8) TR(9) TR(10) TR(11) TR(12) TR(13) TR(14) TR(15)
TR(16) TR(17) TR(18) TR(19) TR(20) TR(21) TR(22) TR(23) TR(24) TR(25) TR(26) TR(27) TR(28) TR(29) TR(30) TR(31)
static void (*tramp[MAXCL])(void) = { tr0, tr1, tr2, tr3, tr4, tr5, tr6, tr7, tr8, tr9, tr10, tr11, tr12, tr13, tr14, tr15,
                                      tr16, tr17, tr18, tr19, tr20, tr21, tr22, tr23, tr24, tr25, tr26, tr27, tr28, tr29, tr30, tr31 };
static void hook_list(const char *name, struct qt_cleanup_funcs_s *l)
{
    printf(" %s=", name);
    for (; l; l = l->next) {
        if (cl_n < MAXCL) { printf("%d:%p,", cl_n, (void *)l->func); cl_orig[cl_n] = l->func; l->func = tramp[cl_n]; cl_n++; }
    }
}

/* ---------------------------------------------------------------- workloads */
static aligned_t counter;
static aligned_t t_incr(void *a) { qthread_incr(&counter, (aligned_t)(uintptr_t)a); return (aligned_t)(uintptr_t)a + 1; }
static int wl_spawn(void)
{
    enum { N = 60 }; aligned_t rets[N]; aligned_t sum = 0;
    counter = 0;
    for (long i = 0; i < N; i++) qthread_fork(t_incr, (void *)(i + 1), &rets[i]);
    for (long i = 0; i < N; i++) { aligned_t v; qthread_readFF(&v, &rets[i]); if (v != (aligned_t)i + 2) return 0; sum += i + 1; }
    return counter == sum;
}
static aligned_t feb_word, feb_sum;
static aligned_t t_feb_cons(void *a) { aligned_t v, s = 0; for (int i = 0; i < 100; i++) { qthread_readFE(&v, &feb_word); s += v; } feb_sum = s; return 0; }
static int wl_feb(void)
{
    aligned_t r;
    qthread_empty(&feb_word);
    qthread_fork(t_feb_cons, NULL, &r);
    for (aligned_t i = 1; i <= 100; i++) qthread_writeEF_const(&feb_word, i);
    qthread_readFF(NULL, &r);
    return feb_sum == 5050;
}
static syncvar_t sv; static uint64_t sv_sum;
static aligned_t t_sv_cons(void *a) { uint64_t v, s = 0; for (int i = 0; i < 100; i++) { qthread_syncvar_readFE(&v, &sv); s += v; } sv_sum = s; return 0; }
static int wl_syncvar(void)
{
    aligned_t r;
    sv = SYNCVAR_EMPTY_INITIALIZER;
    qthread_fork(t_sv_cons, NULL, &r);
    for (uint64_t i = 1; i <= 100; i++) qthread_syncvar_writeEF_const(&sv, i);
    qthread_readFF(NULL, &r);
    return sv_sum == 5050;
}
static void sinc_add(void *t, const void *s) { *(aligned_t *)t += *(const aligned_t *)s; }
static aligned_t t_sinc(void *a) { aligned_t one = 3; qt_sinc_submit((qt_sinc_t *)a, &one); return 0; }
static int wl_sinc(void)
{
    aligned_t zero = 0, res = 0;
    qt_sinc_t *s = qt_sinc_create(sizeof(aligned_t), &zero, sinc_add, 20);
    for (int i = 0; i < 20; i++) qthread_fork(t_sinc, s, NULL);
    qt_sinc_wait(s, &res);
    qt_sinc_destroy(s);
    return res == 60;
}
static int wl_qpool(void)
{
    qpool *p = qpool_create(48); void *b[100]; int ok = 1;
    for (int i = 0; i < 100; i++) { b[i] = qpool_alloc(p); if (!b[i]) ok = 0; else memset(b[i], i, 48); }
    for (int i = 0; i < 100; i++) qpool_free(p, b[i]);
    qpool_destroy(p);
    return ok;
}
static int wl_lfq(void)
{
    qlfqueue_t *q = qlfqueue_create(); long s = 0; void *p;
    if (!q) return 0;
    for (long i = 1; i <= 100; i++) qlfqueue_enqueue(q, (void *)i);
    while ((p = qlfqueue_dequeue(q))) s += (long)p;
    qlfqueue_destroy(q);
    return s == 5050;
}
static int wl_dq(void)
{
    qdqueue_t *q = qdqueue_create(); long s = 0; void *p;
    if (!q) return 0;
    for (long i = 1; i <= 50; i++) qdqueue_enqueue(q, (void *)i);
    while ((p = qdqueue_dequeue(q))) s += (long)p;
    qdqueue_destroy(q);
    return s == 1275;
}
static int d_eq(void *a, void *b) { return a == b; }
static int d_hash(void *a) { return (int)(long)a * 31; }
static int wl_dict(void)
{
    qt_dictionary *d = qt_dictionary_create(d_eq, d_hash, NULL); long s = 0;
    for (long i = 1; i <= 100; i++) qt_dictionary_put(d, (void *)i, (void *)(i * 2));
    for (long i = 1; i <= 100; i++) s += (long)qt_dictionary_get(d, (void *)i);
    qt_dictionary_destroy(d);
    return s == 10100;
}
static aligned_t qa_count;
static aligned_t t_qa(void *e) { *(aligned_t *)e = 7; qthread_incr(&qa_count, 1); return 0; }
static int wl_qarray(void)
{
    qarray *a = qarray_create(600, sizeof(aligned_t)); int ok;
    if (!a) return 0;
    qa_count = 0;
    qarray_iter(a, 0, 600, t_qa);
    ok = (qa_count == 600) && *(aligned_t *)qarray_elem(a, 599) == 7;
    qarray_destroy(a);
    return ok;
}
static qt_barrier_t *bar; static aligned_t bar_cnt;
static aligned_t t_bar(void *a) { for (int i = 0; i < 3; i++) { qthread_incr(&bar_cnt, 1); qt_barrier_enter(bar); } return 0; }
static int wl_barrier(void)
{
    aligned_t r[3];
    bar = qt_barrier_create(4, REGION_BARRIER); bar_cnt = 0;
    for (int i = 0; i < 3; i++) qthread_fork(t_bar, NULL, &r[i]);
    t_bar(NULL);
    for (int i = 0; i < 3; i++) qthread_readFF(NULL, &r[i]);
    qt_barrier_destroy(bar);
    return bar_cnt == 12;
}
static aligned_t t_io(void *a) { int *fds = a; char b[8] = { 0 }; if (qt_write(fds[1], "hello", 5) != 5) return 0; return qt_read(fds[0], b, 5) == 5 && !memcmp(b, "hello", 5); }
static int wl_io(void)
{
    int fds[2]; aligned_t r, v;
    if (pipe(fds)) return 0;
    qthread_fork(t_io, fds, &r);
    qthread_readFF(&v, &r);
    close(fds[0]); close(fds[1]);
    return v == 1;
}
static struct { const char *name; int (*f)(void); } WL[] = {
    { "spawn", wl_spawn }, { "feb", wl_feb }, { "syncvar", wl_syncvar }, { "sinc", wl_sinc }, { "qpool", wl_qpool }, { "lfq", wl_lfq },
    { "dq", wl_dq }, { "dict", wl_dict }, { "qarray", wl_qarray }, { "barrier", wl_barrier }, { "io", wl_io }, { NULL, NULL } };

static aligned_t t_fin(void *a) { qthread_finalize(); return 0; }   /* finalize from a task that is not the main task: ignored */
static void *p_fin(void *a) { qthread_finalize(); qthread_initialize(); return NULL; }  /* from a foreign pthread */
static const char *phase = "start";
static void on_alarm(int s) { printf("TIMEOUT in %s\n", phase); fflush(stdout); _exit(3); }

int main(void)
{
    static char line[4096];
    int cyc = 0;
    signal(SIGALRM, on_alarm);
    c19_poison = getenv("C19_POISON") != NULL;
    int base_thr = nthreads();
    printf("B threads=%d fds=%d\n", base_thr, nfds());
    while (fgets(line, sizeof line, stdin)) {
        char *save, *tok = strtok_r(line, " \n", &save);
        if (!tok || strcmp(tok, "C")) continue;
        char *wls = strtok_r(NULL, " \n", &save); int ri = 0, rf = 0, dw = 0;
        while ((tok = strtok_r(NULL, " \n", &save))) { if (!strcmp(tok, "ri")) ri = 1; if (!strcmp(tok, "rf")) rf = 1; if (!strcmp(tok, "dw")) dw = 1; }
        cyc++; c19_cycle = cyc;
        alarm(60);
        phase = "initialize";
        if (qthread_initialize() != QTHREAD_SUCCESS) { printf("ERR initialize\n"); return 2; }
        int thr_run = nthreads();
        int ri_ok = 1, ri_why = 0;
        if (ri) {          /* redundant initialize: nothing may change.  Only observables that the concurrently starting workers
                            * cannot disturb: return codes, qlib, shepherd/worker counts, exit-handler registrations, allocations
                            * made BY THE CALLING THREAD (the process-wide live-block count moves while fresh workers bind
                            * themselves), and no additional OS thread (an exiting one may disappear meanwhile) */
            qlib_t q0 = qlib; int t0 = nthreads(), a0 = c19_atexit_calls;
            int s0 = qthread_num_shepherds(), w0 = qthread_num_workers();
            size_t m0 = c19_ledger_my_allocs();
            if (!(qthread_initialize() == QTHREAD_SUCCESS && qthread_initialize() == QTHREAD_SUCCESS)) ri_why |= 1;
            if (c19_ledger_my_allocs() != m0) ri_why |= 2;
            if (qlib != q0) ri_why |= 4;
            if (nthreads() > t0) ri_why |= 8;
            if (c19_atexit_calls != a0) ri_why |= 16;
            if ((int)qthread_num_shepherds() != s0 || (int)qthread_num_workers() != w0) ri_why |= 32;
            ri_ok = ri_why == 0;
        }
        phase = "smoke";
        int smoke = wl_spawn();
        char bad[256] = "";
        for (char *s2, *w = strtok_r(wls, ",", &s2); w; w = strtok_r(NULL, ",", &s2)) {
            for (int i = 0; WL[i].name; i++) if (!strcmp(WL[i].name, w)) { phase = w; if (!WL[i].f()) { strcat(bad, w); strcat(bad, ","); } }
        }
        int rf_ok = 1;
        if (rf) {          /* finalize from a non-main task and from a foreign pthread: ignored, the runtime keeps working */
            aligned_t r; pthread_t th; qlib_t q0 = qlib;
            phase = "redundant-finalize";
            qthread_fork(t_fin, NULL, &r); qthread_readFF(NULL, &r);
            pthread_create(&th, NULL, p_fin, NULL); pthread_join(th, NULL);
            rf_ok = qlib == q0 && qlib != NULL && wl_spawn();
        }
        if (dw) {          /* finalize with an individually disabled worker (index >= 1 of an enabled shepherd): finalize has to
                            * wake it so that it takes its terminator; the runtime is used once more so that the worker has
                            * gone round its loop and really sits in its inactive wait */
            phase = "disable-worker";
            int ns_ = (int)qthread_num_shepherds(), nw_ = (int)qthread_num_workers();
            if (nw_ > ns_) {
                qthread_disable_worker((qthread_worker_id_t)(nw_ - 1));
                for (int k = 0; k < 3; k++) if (!wl_spawn()) smoke = 0;
                usleep(20000);
            }
        }
        printf("Y cycle=%d sheps=%d workers=%d threads_run=%d io_workers_run=%ld smoke=%d wl_bad=%s ri_ok=%d ri_why=%d rf_ok=%d\n", cyc,
               (int)qthread_num_shepherds(), (int)qthread_num_workers(), thr_run, c19_io_workers(), smoke, bad[0] ? bad : "-", ri_ok, ri_why, rf_ok);
        cl_n = 0; run_n = 0;
        cl_base_thr = base_thr;
        printf("G"); hook_list("early", qt_cleanup_early_funcs); cl_early = cl_n; hook_list("normal", qt_cleanup_funcs); hook_list("late", qt_cleanup_late_funcs); printf("\n");
        fflush(stdout);
        phase = "finalize";
        qthread_finalize();
        alarm(0);
        printf("N ran=");
        for (int i = 0; i < run_n; i++) printf("%d:%d,", run_idx[i], run_thr[i]);
        printf("\n");
        int post_ok = 1;
        if (rf) { qthread_finalize(); qthread_finalize(); post_ok = qlib == NULL; }    /* redundant finalize: no-op */
        /* blocking-call proxy threads are detached: stopwork waits for their count, not for the OS threads to be gone.
         * Give an exiting proxy up to 20 s to disappear from /proc/self/task (workers were joined: they are gone). */
        int settle_ms = 0;
        while (nthreads() != base_thr && settle_ms < 20000) { usleep(1000); settle_ms++; }
        size_t lb, ly; c19_ledger_live(&lb, &ly);
        struct mallinfo2 mi = mallinfo2();
        printf("Z cycle=%d threads=%d fds=%d ledger_blocks=%zu ledger_bytes=%zu uordblks=%zu atexit_calls=%d lists_empty=%d qlib_null=%d "
               "lfq_pool=%d proxy_exit=%d io_workers=%ld dict_pool=%d barrier_pool=%d post_ok=%d settle_ms=%d\n",
               cyc, nthreads(), nfds(), lb, ly, mi.uordblks, c19_atexit_calls,
               qt_cleanup_early_funcs == NULL && qt_cleanup_funcs == NULL && qt_cleanup_late_funcs == NULL, qlib == NULL,
               c19_lfq_pool_set(), c19_proxy_exit(), c19_io_workers(), c19_dict_pool_set(), c19_barrier_pool_set(), post_ok, settle_ms);
        if (cyc >= 3) c19_ledger_dump(cyc, 12);
        fflush(stdout);
    }
    printf("END\n");
    return 0;
}
