/* C17 harness: drives the real qarray code (white-box include of the working-tree qarray.c).
 * stdin: one command per line; stdout: one result line per command (see lib/verif/props/c17.py). */
#include "ds/qarray.c"
#include <stdio.h>
#include <string.h>
#include <unistd.h>
#include <signal.h>

#define MAXSHEP 64
typedef struct { size_t lo, hi; } rng_t;
typedef struct { rng_t *r; size_t n, cap; volatile int lock; } log_t;
static log_t     logs[MAXSHEP];
static aligned_t active = 0, calls = 0;
static qarray   *A      = NULL;
static int       yield_every = 0;

static void log_add(unsigned shep, size_t lo, size_t hi, int merge)
{
    log_t *l = &logs[shep % MAXSHEP];
    while (__sync_lock_test_and_set(&l->lock, 1)) ;
    if (merge && l->n && l->r[l->n - 1].hi == lo) {
        l->r[l->n - 1].hi = hi;
    } else {
        if (l->n == l->cap) { l->cap = l->cap ? 2 * l->cap : 64; l->r = realloc(l->r, l->cap * sizeof(rng_t)); }
        l->r[l->n].lo = lo; l->r[l->n].hi = hi; l->n++;
    }
    __sync_lock_release(&l->lock);
}

static size_t index_of(const qarray *a, const void *p)
{
    size_t off = (const char *)p - a->base_ptr;
    size_t seg = off / a->segment_bytes;
    return seg * a->segment_size + (off % a->segment_bytes) / a->unit_size;
}

static void maybe_yield(void)
{
    aligned_t c = qthread_incr(&calls, 1);
    if (yield_every && (c % yield_every) == 0) qthread_yield();
}

static aligned_t cb_elem(void *p)
{
    qthread_incr(&active, 1);
    size_t i = index_of(A, p);
    log_add(qthread_shep(), i, i + 1, 1);
    maybe_yield();
    qthread_incr(&active, -1);
    return 0;
}

static void cb_loop(const size_t lo, const size_t hi, qarray *a, void *arg)
{
    qthread_incr(&active, 1);
    log_add(qthread_shep(), lo, hi, 0);
    maybe_yield();
    qthread_incr(&active, -1);
}

static void cb_cloop(const size_t lo, const size_t hi, const qarray *a, void *arg)
{
    cb_loop(lo, hi, (qarray *)a, arg);
}

/* loopaccum: ret = number of indices covered; acc adds */
static void cb_loopr(const size_t lo, const size_t hi, qarray *a, void *arg, void *ret)
{
    qthread_incr(&active, 1);
    log_add(qthread_shep(), lo, hi, 0);
    *(aligned_t *)ret = (hi > lo) ? hi - lo : 0;
    maybe_yield();
    qthread_incr(&active, -1);
}

static void acc_add(void *a, const void *b) { *(aligned_t *)a += *(const aligned_t *)b; }

static void on_alarm(int s) { printf("TIMEOUT\n"); fflush(stdout); _exit(3); }

int main(void)
{
    char line[1 << 16];
    signal(SIGALRM, on_alarm);
    if (qthread_initialize() != 0) { printf("INITFAIL\n"); return 2; }
    printf("H %u %u %zu\n", (unsigned)qthread_num_shepherds(), (unsigned)qthread_num_workers(), (size_t)pagesize);
    while (fgets(line, sizeof line, stdin)) {
        if (line[0] == 'A') {
            size_t count, obj; int d, tight, segpages;
            sscanf(line + 1, "%zu %zu %d %d %d", &count, &obj, &d, &tight, &segpages);
            A = qarray_create_configured(count, obj, (distribution_t)d, (char)tight, segpages);
            if (!A) { printf("D NULL\n"); continue; }
            size_t sc = A->count / A->segment_size + ((A->count % A->segment_size) ? 1 : 0);
            size_t slot = 0;
            if (A->dist_type == DIST) slot = (char *)qarray_internal_segment_shep(A, A->base_ptr) - A->base_ptr;
            printf("D %zu %zu %zu %d %zu %zu %u %zu %zu\n", A->unit_size, A->segment_bytes, A->segment_size, (int)A->dist_type,
                   A->dist_type == FIXED_FIELDS ? A->dist_specific.stripes.segs_per_shep : (size_t)0,
                   A->dist_type == FIXED_FIELDS ? A->dist_specific.stripes.extras : (size_t)0,
                   A->dist_type == ALL_SAME ? (unsigned)A->dist_specific.dist_shep : 0u, sc, slot);
        } else if (line[0] == 'S') {
            size_t sc = A->count / A->segment_size + ((A->count % A->segment_size) ? 1 : 0);
            printf("S");
            for (size_t s = 0; s < sc; s++) printf(" %u", (unsigned)qarray_shepof(A, s * A->segment_size));
            printf("\n");
        } else if (line[0] == 's') { /* shepof for explicit indices */
            char *p = line + 1; printf("s");
            for (;;) { char *e; size_t i = strtoull(p, &e, 10); if (e == p) break; p = e; printf(" %u", (unsigned)qarray_shepof(A, i)); }
            printf("\n");
        } else if (line[0] == 'e') {
            char *p = line + 1; printf("e");
            for (;;) { char *e; size_t i = strtoull(p, &e, 10); if (e == p) break; p = e; printf(" %zu", (size_t)((char *)qarray_elem(A, i) - A->base_ptr)); }
            printf("\n");
        } else if (line[0] == 'Y') {
            sscanf(line + 1, "%d", &yield_every); printf("Y\n");
        } else if (line[0] == 'I') {
            int k; size_t st, sp; aligned_t accret = 0;
            sscanf(line + 1, "%d %zu %zu", &k, &st, &sp);
            for (int i = 0; i < MAXSHEP; i++) logs[i].n = 0;
            active = 0;
            alarm(120);
            switch (k) {
                case 0: qarray_iter(A, st, sp, cb_elem); break;
                case 1: qarray_iter_loop(A, st, sp, cb_loop, NULL); break;
                case 2: qarray_iter_constloop(A, st, sp, cb_cloop, NULL); break;
                default: qarray_iter_loopaccum(A, st, sp, cb_loopr, NULL, &accret, sizeof(aligned_t), acc_add); break;
            }
            aligned_t act = active; /* invocations still running when the call returned */
            alarm(0);
            for (int i = 0; i < MAXSHEP; i++) {
                if (!logs[i].n) continue;
                printf("R %d", i);
                for (size_t j = 0; j < logs[i].n; j++) printf(" %zu:%zu", logs[i].r[j].lo, logs[i].r[j].hi);
                printf("\n");
            }
            printf(". %lu %lu\n", (unsigned long)act, (unsigned long)accret);
        } else if (line[0] == 'F') {
            if (A) qarray_destroy(A);
            A = NULL; printf("F\n");
        } else if (line[0] == 'Q') break;
        fflush(stdout);
    }
    fflush(stdout);
    return 0;
}
