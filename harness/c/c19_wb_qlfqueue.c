/* C19 white-box accessor: the lazily created static of ds/qlfqueue.c */
#include "ds/qlfqueue.c"
int c19_lfq_pool_set(void) { return qlfqueue_node_pool != NULL; }
