/* C08 harness: drives the REAL sherwood thread queue code (white-box include of the working-tree
 * src/threadqueues/sherwood_threadqueues.c; no edits to /repo).
 *
 *   c08_tqueue m1              script on stdin (same lines as ocaml/c08_driver.ml), one result line per command:
 *                              fake shepherds/workers inside an initialised 1x1 runtime, fake qthread_t descriptors,
 *                              real qt_threadqueue_{new,enqueue,enqueue_yielded,dequeue_steal,enqueue_multiple,
 *                              dequeue_specific}, qthread_steal, qt_scheduler_get_thread; pointer walk + recount audit
 *                              (both directions, both counters, stealing flags) after every command.
 *   c08_tqueue stress ...      real pthreads as fake workers: concurrent enqueue / owner dequeue / steal; conservation
 *                              and final audit.
 *   c08_tqueue live            live runtime: P lines (1x1 yield-order scenarios), N lines (scenarios that need a steal).
 */
#include "config.h"
#include <setjmp.h>
#include <stdio.h>
#include <string.h>
#include <unistd.h>
#include <signal.h>
#include <pthread.h>
#include <time.h>
#include <sched.h>
#include "qthread/qthread.h"
#include "qt_atomics.h"

/* every spin point of the included file (wait on `stealing`, steal loop, ticket-lock wait) goes through this hook */
static void c08_spin(void);
#undef SPINLOCK_BODY
#define SPINLOCK_BODY() c08_spin()

static __thread int         spin_armed = 0;
static __thread long        spin_count = 0, lock_count = 0;
static __thread sigjmp_buf  spin_jb;
static long                 spin_limit = 400, lock_limit = 20000;
static volatile int         stress_done = 0;

/* lock discipline (m1): the three trylock macros are wrapped (the originals are captured in functions first, so the
 * working tree's own lock implementation is what runs); after every command a queue whose content or counters
 * changed without its lock having been taken, or whose lock/unlock events do not balance, is reported */
static inline void c08_orig_lock(QTHREAD_TRYLOCK_TYPE *x) { QTHREAD_TRYLOCK_LOCK(x); }
static inline void c08_orig_unlock(QTHREAD_TRYLOCK_TYPE *x) { QTHREAD_TRYLOCK_UNLOCK(x); }
static inline int  c08_orig_try(QTHREAD_TRYLOCK_TYPE *x) { return QTHREAD_TRYLOCK_TRY(x); }
#define C08_MAXQ 16
static int   c08_track = 0;
static void *c08_lk_ptr[C08_MAXQ];
static long  c08_lk_n[C08_MAXQ], c08_ul_n[C08_MAXQ];
static void c08_note(void *x, int unlock)
{
    if (!c08_track) return;
    for (int i = 0; i < C08_MAXQ; i++) if (c08_lk_ptr[i] == x) { if (unlock) c08_ul_n[i]++; else c08_lk_n[i]++; return; }
}
static inline void c08_lock(QTHREAD_TRYLOCK_TYPE *x)
{
    /* m1: a call that keeps polling its queue under the lock without ever getting a task (only the McCoy task is queued and
     * the caller is not worker 0) is reported as SPIN; the escape happens before the lock is requested, no lock is held */
    if (spin_armed == 1 && ++lock_count > lock_limit) { spin_armed = 0; siglongjmp(spin_jb, 1); }
    c08_orig_lock(x);
    c08_note(x, 0);
}
static inline void c08_unlock(QTHREAD_TRYLOCK_TYPE *x) { c08_note(x, 1); c08_orig_unlock(x); }
static inline int  c08_try(QTHREAD_TRYLOCK_TYPE *x) { int r = c08_orig_try(x); if (r) c08_note(x, 0); return r; }
#undef QTHREAD_TRYLOCK_LOCK
#undef QTHREAD_TRYLOCK_UNLOCK
#define QTHREAD_TRYLOCK_LOCK(x)   c08_lock(x)
#define QTHREAD_TRYLOCK_UNLOCK(x) c08_unlock(x)
#define QTHREAD_TRYLOCK_TRY(x)    c08_try(x)

#include "threadqueues/sherwood_threadqueues.c"


static void c08_spin(void)
{
    if (spin_armed == 1) {                 /* m1: a call that keeps spinning is reported as SPIN */
        if (++spin_count > spin_limit) { spin_armed = 0; siglongjmp(spin_jb, 1); }
    } else if (spin_armed == 2) {          /* stress: leave once everything was consumed */
        if (stress_done) { spin_armed = 0; siglongjmp(spin_jb, 1); }
        sched_yield();                     /* the machine is shared: a descheduled ticket holder must get the CPU */
    }
    __asm__ __volatile__ ("pause" ::: "memory");
}

static void on_alarm(int s) { printf("TIMEOUT\n"); fflush(stdout); _exit(3); }

/* ------------------------------------------------------------------ audit */
/* walk head->tail by next and tail->head by prev; both walks must see the same nodes; returns text */
static int audit_queue(qt_threadqueue_t *q, char *buf, size_t cap, long *cnt, long *cst)
{
    qt_threadqueue_node_t *fw[4096];
    long                   n = 0, st = 0;
    size_t                 o = 0;
    const char            *bad = NULL;

    buf[0] = 0;
    if ((q->head == NULL) != (q->tail == NULL)) bad = "head/tail";
    if (q->head && q->head->prev != NULL) bad = "head->prev";
    if (q->tail && q->tail->next != NULL) bad = "tail->next";
    for (qt_threadqueue_node_t *c = q->head; c && n < 4096; c = c->next) fw[n++] = c;
    if (n == 4096) bad = "cycle";
    if (!bad) {
        long k = n;
        for (qt_threadqueue_node_t *c = q->tail; c; c = c->prev) {
            if (k == 0 || fw[k - 1] != c) { bad = "prev-chain"; break; }
            k--;
        }
        if (!bad && k != 0) bad = "prev-chain-short";
    }
    if (bad) { snprintf(buf, cap, " CORRUPT(%s)", bad); *cnt = -1; *cst = -1; return 1; }
    for (long i = 0; i < n; i++) {
        st += fw[i]->stealable ? 1 : 0;
        if (o + 32 < cap) o += snprintf(buf + o, cap - o, " %u:%d", fw[i]->value->thread_id, (int)fw[i]->stealable);
    }
    *cnt = n; *cst = st;
    return 0;
}

/* ------------------------------------------------------------------ m1 */
#define MAXT 100000
static qthread_shepherd_t *fsh = NULL;
static int                 FN = 0, FW = 1;
static qthread_t         **desc;
static void               *real_tls;
static unsigned int        real_nsheps;
static qthread_shepherd_t *real_sheps;

static qthread_t *get_desc(long tid, int flags, long ret)
{
    if (tid < 0 || tid >= MAXT) { printf("ERR tid\n"); exit(2); }
    if (!desc[tid]) desc[tid] = calloc(1, sizeof(qthread_t) + 64);
    qthread_t *t = desc[tid];
    t->thread_id = (unsigned)tid;
    if (flags >= 0) {
        t->flags = (uint16_t)(((flags & 1) ? QTHREAD_UNSTEALABLE : 0) | ((flags & 2) ? QTHREAD_REAL_MCCOY : 0));
        t->ret   = (void *)(uintptr_t)ret;
        t->thread_state = QTHREAD_STATE_RUNNING;
        t->target_shepherd = NO_SHEPHERD;
    }
    return t;
}

static void fake_setup(int n, int w, long chunk)
{
    FN = n; FW = w;
    fsh = calloc(n ? n : 1, sizeof(qthread_shepherd_t));
    for (int i = 0; i < n; i++) {
        fsh[i].shepherd_id = i;
        fsh[i].workers     = calloc(w, sizeof(qthread_worker_t));
        for (int j = 0; j < w; j++) {
            fsh[i].workers[j].shepherd         = &fsh[i];
            fsh[i].workers[j].worker_id        = j;
            fsh[i].workers[j].packed_worker_id = j + i * w;
            fsh[i].workers[j].unique_id        = NO_WORKER;
        }
        fsh[i].ready           = qt_threadqueue_new();
        fsh[i].sorted_sheplist = calloc(n, sizeof(qthread_shepherd_id_t));
        for (int k = 1; k < n; k++) fsh[i].sorted_sheplist[k - 1] = (qthread_shepherd_id_t)((i + k) % n);
        fsh[i].stealing = 0;
    }
    for (int i = 0; i < C08_MAXQ; i++) { c08_lk_ptr[i] = (i < n) ? (void *)&fsh[i].ready->qlock : NULL; c08_lk_n[i] = c08_ul_n[i] = 0; }
    qlib->nshepherds = n;
    qlib->shepherds  = fsh;
    steal_chunksize  = chunk;
    steal_disable    = 0;
}

static char *c08_prev_txt[C08_MAXQ];
static long  c08_prev_lk[C08_MAXQ];

/* ---- extension (pointer layer, mode m1p): the heap SHAPE is printed, not only the list: both counters, head, tail,
 * the forward walk (next pointers from head) and, independently, the backward walk (prev pointers from tail); the
 * pointer-level model (coq/theories/TQueue/PtrScan.v, pm_step) prints the same from its own heap */
static int dump_ptr = 0;
static void print_audit_ptr(void)
{
    for (int i = 0; i < FN; i++) {
        qt_threadqueue_t *q = fsh[i].ready;
        long              n = 0;
        printf(" q%d[%ld,%ld] H=", i, q->qlength, q->qlength_stealable);
        if (q->head) printf("%u", q->head->value->thread_id); else printf("-");
        printf(" T=");
        if (q->tail) printf("%u", q->tail->value->thread_id); else printf("-");
        printf(" F:");
        for (qt_threadqueue_node_t *c = q->head; c && n < 4096; c = c->next, n++) printf(" %u:%d", c->value->thread_id, (int)c->stealable);
        if (n == 4096) printf(" CYCLE");
        printf(" B:");
        n = 0;
        for (qt_threadqueue_node_t *c = q->tail; c && n < 4096; c = c->prev, n++) printf(" %u", c->value->thread_id);
        if (n == 4096) printf(" CYCLE");
    }
    printf("\n");
}

static void print_audit(void)
{
    static char buf[1 << 16], cur[1 << 16];
    if (dump_ptr) { print_audit_ptr(); return; }
    for (int i = 0; i < FN; i++) {
        long c, s;
        audit_queue(fsh[i].ready, buf, sizeof buf, &c, &s);
        snprintf(cur, sizeof cur, "[%ld,%ld]%s", fsh[i].ready->qlength, fsh[i].ready->qlength_stealable, buf);
        printf(" q%d[%ld,%ld,%u]%s", i, fsh[i].ready->qlength, fsh[i].ready->qlength_stealable, fsh[i].stealing, buf);
        if (c >= 0 && (c != fsh[i].ready->qlength || s != fsh[i].ready->qlength_stealable))
            printf(" RECOUNT(%ld,%ld)", c, s);
        if (i < C08_MAXQ && c08_track) {
            if (c08_prev_txt[i] && strcmp(c08_prev_txt[i], cur) != 0 && c08_lk_n[i] == c08_prev_lk[i]) printf(" NOLOCK(q%d)", i);
            if (c08_lk_n[i] != c08_ul_n[i]) { printf(" LOCKLEAK(q%d:%ld/%ld)", i, c08_lk_n[i], c08_ul_n[i]); c08_ul_n[i] = c08_lk_n[i]; }
            free(c08_prev_txt[i]);
            c08_prev_txt[i] = strdup(cur);
            c08_prev_lk[i]  = c08_lk_n[i];
        }
    }
    printf("\n");
}

static int mode_m1(void)
{
    char line[4096];
    desc        = calloc(MAXT, sizeof(qthread_t *));
    real_tls    = TLS_GET(shepherd_structs);
    real_nsheps = qlib->nshepherds;
    real_sheps  = qlib->shepherds;
    signal(SIGALRM, on_alarm);
    while (fgets(line, sizeof line, stdin)) {
        char c = line[0];
        long a = 0, b = 0, d = 0, e = 0;
        char m[256] = "";
        alarm(20);
        if (c == 'I') {
            sscanf(line + 1, "%ld %ld %ld", &a, &b, &d);
            fake_setup((int)a, (int)b, d);
            for (int i = 0; i < C08_MAXQ; i++) { free(c08_prev_txt[i]); c08_prev_txt[i] = NULL; c08_prev_lk[i] = 0; }
            c08_track = 1;
            printf("I |");
        } else if (c == 'E' || c == 'Y') {
            sscanf(line + 1, "%ld %ld %ld %ld", &a, &b, &d, &e);
            if (a >= 0 && a < FN) {
                qthread_t *t = get_desc(b, (int)d, e);
                if (c == 'E') qt_threadqueue_enqueue(fsh[a].ready, t); else qt_threadqueue_enqueue_yielded(fsh[a].ready, t);
            }
            printf("%c |", c);
        } else if (c == 'G') {
            sscanf(line + 1, "%ld %ld %ld", &a, &b, &d);
            if (a < 0 || a >= FN || b < 0 || b >= FW) { printf("G |"); print_audit(); continue; }
            qt_threadqueue_t *q      = fsh[a].ready;
            long              packed = b + a * FW;
            int               allmc  = (q->head != NULL && q->head != q->tail);      /* two or more nodes, all McCoy */
            for (qt_threadqueue_node_t *n = q->head; n; n = n->next)
                if (!(n->value->flags & QTHREAD_REAL_MCCOY)) allmc = 0;
            /* the divergences that have no spin point and no lock request in the code are recognised up front */
            if (packed != 0 && allmc) {
                printf("G LIVE |");
            } else if (q->head == NULL && fsh[a].stealing == 2 && packed == 0) {
                printf("G SPIN |");
            } else if (q->head == NULL && fsh[a].stealing == 0 && (!d || FN <= 1)) {
                printf("G SPIN |");
            } else {
                qthread_t *volatile t = NULL;
                TLS_SET(shepherd_structs, &fsh[a].workers[b]);
                spin_count = 0; lock_count = 0;
                if (sigsetjmp(spin_jb, 0) == 0) {
                    spin_armed = 1;
                    t          = qt_scheduler_get_thread(q, NULL, (uint_fast8_t)d);
                    spin_armed = 0;
                    printf("G %u |", t->thread_id);
                } else {
                    printf("G SPIN |");
                }
                TLS_SET(shepherd_structs, real_tls);
            }
        } else if (c == 'S') {
            sscanf(line + 1, "%ld %ld %ld", &a, &b, &d);
            printf("S");
            if (a >= 0 && a < FN && b >= 0 && b < FN) {
                if (d) { QTHREAD_TRYLOCK_LOCK(&fsh[b].ready->qlock); }
                qt_threadqueue_node_t *first = qt_threadqueue_dequeue_steal(fsh[a].ready, fsh[b].ready);
                if (d) { QTHREAD_TRYLOCK_UNLOCK(&fsh[b].ready->qlock); }
                for (qt_threadqueue_node_t *n = first; n; n = n->next) printf(" %u", n->value->thread_id);
                if (first) qt_threadqueue_enqueue_multiple(fsh[a].ready, first);
            }
            printf(" |");
        } else if (c == 'T') {
            sscanf(line + 1, "%ld %255s", &a, m);
            if (a >= 0 && a < FN && FN > 1) {
                int nm = (m[0] == '-') ? 0 : (int)strlen(m);
                for (int i = 0; i < nm && i < FN; i++) if (m[i] == '1') { QTHREAD_TRYLOCK_LOCK(&fsh[i].ready->qlock); }
                qt_threadqueue_node_t *volatile first = NULL;
                spin_count = 0; lock_count = 0;
                if (sigsetjmp(spin_jb, 0) == 0) {
                    spin_armed = 1;
                    first      = qthread_steal(&fsh[a]);
                    spin_armed = 0;
                    if (first) {
                        printf("T %u |", first->value->thread_id);
                        FREE_TQNODE(first);
                    } else {
                        printf("T NULL |");
                    }
                } else {
                    printf("T SPIN |");
                }
                for (int i = 0; i < nm && i < FN; i++) if (m[i] == '1') { QTHREAD_TRYLOCK_UNLOCK(&fsh[i].ready->qlock); }
            } else {
                printf("T |");
            }
        } else if (c == 'X') {
            sscanf(line + 1, "%ld %ld", &a, &b);
            if (a >= 0 && a < FN) {
                qthread_t *t = qt_threadqueue_dequeue_specific(fsh[a].ready, (void *)(uintptr_t)b);
                if (t) printf("X %u |", t->thread_id); else printf("X NULL |");
            } else {
                printf("X |");
            }
        } else if (c == 'Z') {
            sscanf(line + 1, "%ld %ld", &a, &b);
            if (a >= 0 && a < FN) fsh[a].stealing = (unsigned)b;
            printf("Z |");
        } else if (c == 'C') {
            sscanf(line + 1, "%ld", &a);
            steal_chunksize = a;
            printf("C |");
        } else if (c == 'D') {
            sscanf(line + 1, "%ld", &a);
            if (a) qthread_steal_disable(); else qthread_steal_enable();
            printf("D |");
        } else if (c == '\n') {
            continue;
        } else {
            printf("ERR\n");
            continue;
        }
        print_audit();
    }
    alarm(0);
    fflush(stdout);
    qlib->nshepherds = real_nsheps;
    qlib->shepherds  = real_sheps;
    TLS_SET(shepherd_structs, real_tls);
    _exit(0);
}

/* ------------------------------------------------------------------ stress (concurrent, fake workers) */
typedef struct { int s, w; unsigned long long rng; } sarg_t;
static long           S_total, S_left, S_consumed, S_avail;
static int           *S_seen, *S_want, *S_home, *S_badshep, *S_yleft;
static int            S_ymax, S_unst_pct;

static unsigned long long sm64(unsigned long long *s)
{
    unsigned long long z = (*s += 0x9E3779B97F4A7C15ULL);
    z = (z ^ (z >> 30)) * 0xBF58476D1CE4E5B9ULL; z = (z ^ (z >> 27)) * 0x94D049BB133111EBULL; return z ^ (z >> 31);
}

static void *stress_thread(void *p)
{
    sarg_t            *a = p;
    qthread_shepherd_t *me = &fsh[a->s];
    TLS_SET(shepherd_structs, &me->workers[a->w]);
    spin_armed = 2;
    if (sigsetjmp(spin_jb, 0) != 0) return NULL;
    while (!stress_done) {
        unsigned long long r = sm64(&a->rng);
        int produce = (S_left > 0 && (r % 3) != 0);
        if (!produce && S_left > 0) {
            /* while work is still being produced a worker goes looking for a task only if one is outstanding that no other
             * looking worker has counted on: otherwise every worker could wait in the scheduler with nothing produced yet */
            if (__sync_sub_and_fetch(&S_avail, 1) < 0) { __sync_add_and_fetch(&S_avail, 1); produce = 1; }
        }
        if (produce) {
            long k = __sync_fetch_and_sub(&S_left, 1);
            if (k > 0) {
                long       tid  = k;               /* 1..S_total */
                int        unst = (int)((r >> 8) % 100) < S_unst_pct;
                int        dest = ((r >> 20) % 4 == 0) ? (int)((r >> 24) % FN) : a->s;
                qthread_t *t    = get_desc(tid, unst ? 1 : 0, 0);
                S_home[tid]  = unst ? dest : -1;
                S_yleft[tid] = (int)((r >> 32) % (S_ymax + 1));
                S_want[tid]  = 1 + S_yleft[tid];
                __sync_synchronize();
                qt_threadqueue_enqueue(fsh[dest].ready, t);
                __sync_add_and_fetch(&S_avail, 1);
                continue;
            }
        }
        qthread_t *t   = qt_scheduler_get_thread(me->ready, NULL, 1);
        long       tid = t->thread_id;
        __sync_fetch_and_add(&S_seen[tid], 1);
        if (S_home[tid] >= 0 && S_home[tid] != a->s) S_badshep[tid] = 1;
        if (S_yleft[tid] > 0) {
            S_yleft[tid]--;
            if (r & 1) qt_threadqueue_enqueue_yielded(me->ready, t); else qt_threadqueue_enqueue(me->ready, t);
            __sync_add_and_fetch(&S_avail, 1);
            if (S_home[tid] >= 0) S_home[tid] = a->s;
        } else if (__sync_add_and_fetch(&S_consumed, 1) == S_total) {
            stress_done = 1;
        }
    }
    return NULL;
}

static int mode_stress(int n, int w, long total, long chunk, int ymax, int unst_pct, unsigned long long seed)
{
    desc = calloc(MAXT, sizeof(qthread_t *));
    real_tls = TLS_GET(shepherd_structs);
    if (total >= MAXT) total = MAXT - 1;
    fake_setup(n, w, chunk);
    S_total = S_left = total; S_consumed = 0; S_avail = 0; S_ymax = ymax; S_unst_pct = unst_pct;
    S_seen = calloc(total + 2, sizeof(int)); S_want = calloc(total + 2, sizeof(int)); S_home = calloc(total + 2, sizeof(int));
    S_badshep = calloc(total + 2, sizeof(int)); S_yleft = calloc(total + 2, sizeof(int));
    for (long i = 1; i <= total; i++) get_desc(i, 0, 0);
    signal(SIGALRM, on_alarm);
    alarm(60);
    pthread_t *th = calloc(n * w, sizeof(pthread_t));
    sarg_t    *sa = calloc(n * w, sizeof(sarg_t));
    for (int i = 0; i < n * w; i++) {
        sa[i].s = i / w; sa[i].w = i % w; sa[i].rng = seed * 7919 + i;
        pthread_create(&th[i], NULL, stress_thread, &sa[i]);
    }
    for (int i = 0; i < n * w; i++) pthread_join(th[i], NULL);
    alarm(0);
    long dup = 0, lost = 0, bad = 0;
    for (long i = 1; i <= total; i++) {
        if (S_seen[i] > S_want[i]) dup++;
        if (S_seen[i] < S_want[i]) lost++;
        if (S_badshep[i]) bad++;
    }
    printf("STRESS total=%ld consumed=%ld dup=%ld lost=%ld unstealable_ran_elsewhere=%ld |", total, S_consumed, dup, lost, bad);
    for (int i = 0; i < FN; i++) fsh[i].stealing = 0;     /* thieves that left through the hook keep their flag */
    print_audit();
    fflush(stdout);
    _exit(0);
}

/* ------------------------------------------------------------------ live runtime scenarios */
#define LMAXT 256
#define LMAXP 64
typedef struct { char k; int arg; } lact_t;
static lact_t          lprog[LMAXT][LMAXP];
static int             lplen[LMAXT];
static volatile int    lflag;
static aligned_t       llive;
static int             llog[1 << 16];
static aligned_t       llogn;

static void llog_add(int tid) { aligned_t i = qthread_incr(&llogn, 1); if (i < (1 << 16)) llog[i] = tid; }

static aligned_t ltask(void *arg)
{
    int tid = (int)(intptr_t)arg;
    if (tid != 0) llog_add(tid);
    for (int pc = 0; pc < lplen[tid]; pc++) {
        lact_t a = lprog[tid][pc];
        switch (a.k) {
            case 'y': qthread_yield(); llog_add(tid); break;
            case 'n': qthread_yield_near(); llog_add(tid); break;
            case 's': qthread_incr(&llive, 1); qthread_fork(ltask, (void *)(intptr_t)a.arg, NULL); break;
            case 'f': lflag = 1; break;
            case 'w': while (!lflag) { qthread_yield(); llog_add(tid); } break;
            case 'd': while (llive > 0) { qthread_yield(); llog_add(tid); } break;
        }
    }
    if (tid != 0) qthread_incr(&llive, -1);
    return 0;
}

static void parse_prog(int tid, const char *s)
{
    int n = 0;
    if (strcmp(s, "-") != 0) {
        while (*s && n < LMAXP) {
            lprog[tid][n].k = *s++;
            lprog[tid][n].arg = 0;
            while (*s >= '0' && *s <= '9') lprog[tid][n].arg = lprog[tid][n].arg * 10 + (*s++ - '0');
            if (*s == ',') s++;
            n++;
        }
    }
    lplen[tid] = n;
}

/* audit of the real shepherds' queues at quiescence (under the queue lock) */
static int live_audit(void)
{
    static char buf[1 << 14];
    int bad = 0;
    for (unsigned i = 0; i < qlib->nshepherds; i++) {
        qt_threadqueue_t *q = qlib->shepherds[i].ready;
        long c, s;
        QTHREAD_TRYLOCK_LOCK(&q->qlock);
        int r = audit_queue(q, buf, sizeof buf, &c, &s);
        long ql = q->qlength, qs = q->qlength_stealable;
        QTHREAD_TRYLOCK_UNLOCK(&q->qlock);
        if (r || c != ql || s != qs) { bad = 1; printf(" q%u[%ld,%ld] walk(%ld,%ld)%s", i, ql, qs, c, s, buf); }
    }
    return bad;
}

/* N: need-steal scenario.  N <K stealable> <U unstealable> */
static volatile int nrelease;
static aligned_t    nstarted, nexited, ndone_s, ndone_u;
static int          nshep[LMAXT], ncnt[LMAXT];
static aligned_t nblocker(void *a) { qthread_incr(&nstarted, 1); while (!nrelease) { __asm__ __volatile__ ("pause" ::: "memory"); } qthread_incr(&nexited, 1); return 0; }
static aligned_t nchild(void *a)
{
    int id = (int)(intptr_t)a;
    nshep[id] = (int)qthread_shep();
    __sync_fetch_and_add(&ncnt[id], 1);
    if (id >= 128) qthread_incr(&ndone_u, 1); else qthread_incr(&ndone_s, 1);
    return 0;
}

static double now(void)
{ struct timespec ts; clock_gettime(CLOCK_MONOTONIC, &ts); return ts.tv_sec + ts.tv_nsec * 1e-9; }

static double now(void);

/* M: McCoy yield-wait scenario (multi-worker shepherd 0).  M <Y yielders> <k main yields> <rescue seconds>
 * Y tasks on shepherd 0 spin on qthread_yield() until `mflag`, which the main (REAL_MCCOY) task sets after
 * yielding k times itself.  A rescue pthread sets the flag after <rescue> seconds so that the run always ends;
 * `starved=1` means main did not get the worker back within that time. */
static volatile int mflag, mrescued, mstop;
static aligned_t    mstarted, mfinished, myields;
static double       mrescue_after;
static aligned_t myielder(void *a)
{
    qthread_incr(&mstarted, 1);
    while (!mflag) { qthread_yield(); qthread_incr(&myields, 1); }
    qthread_incr(&mfinished, 1);
    return 0;
}
static void *mrescuer(void *a)
{
    double t0 = now();
    while (!mstop) {
        if (now() - t0 > mrescue_after && !mflag) { mrescued = 1; mflag = 1; }
        usleep(2000);
    }
    return NULL;
}

static int mode_live(void)
{
    char line[8192];
    qthread_initialize();
    signal(SIGALRM, on_alarm);
    printf("H %u %u %ld\n", (unsigned)qthread_num_shepherds(), (unsigned)qthread_num_workers(), steal_chunksize);
    fflush(stdout);
    while (fgets(line, sizeof line, stdin)) {
        if (line[0] == 'P') {
            /* P fuel mainprog ; tid prog ; ... */
            char *save = NULL, *g = strtok_r(line + 1, ";\n", &save);
            char  mp[1024]; long fuel;
            memset(lplen, 0, sizeof lplen);
            if (!g || sscanf(g, "%ld %1023s", &fuel, mp) != 2) { printf("ERR\n"); continue; }
            parse_prog(0, mp);
            while ((g = strtok_r(NULL, ";\n", &save))) {
                int t; char pp[1024];
                if (sscanf(g, "%d %1023s", &t, pp) == 2 && t > 0 && t < LMAXT) parse_prog(t, pp);
            }
            lflag = 0; llive = 0; llogn = 0;
            alarm(15);
            llog_add(0);
            ltask((void *)(intptr_t)0);
            alarm(0);
            printf("P");
            for (aligned_t i = 0; i < llogn && i < (1 << 16); i++) printf(" %d", llog[i]);
            printf(" DONE");
            if (live_audit()) printf(" AUDIT-BAD");
            printf("\n");
            fflush(stdout);
        } else if (line[0] == 'M') {
            int Y = 2, k = 3; double resc = 10.0;
            sscanf(line + 1, "%d %d %lf", &Y, &k, &resc);
            mflag = 0; mrescued = 0; mstop = 0; mstarted = 0; mfinished = 0; myields = 0; mrescue_after = resc;
            alarm((unsigned)(resc * 2 + 40));
            for (int i = 0; i < Y; i++) qthread_fork_to(myielder, NULL, NULL, 0);
            pthread_t rt;
            pthread_create(&rt, NULL, mrescuer, NULL);
            {   /* let the other workers of shepherd 0 pick yielders up before main starts to yield */
                unsigned Wm = qthread_num_workers() / qthread_num_shepherds();
                aligned_t need = (aligned_t)((unsigned)Y < Wm - 1 ? (unsigned)Y : Wm - 1);
                while (mstarted < need) { __asm__ __volatile__ ("pause" ::: "memory"); }
            }
            double t0 = now(), maxlat = 0;
            aligned_t maxbypass = 0;
            for (int i = 0; i < k && !mrescued; i++) {
                double a = now();
                aligned_t y0 = myields;
                qthread_yield();
                double d = now() - a;
                aligned_t by = myields - y0;      /* yields of the waiting tasks while main waited for its turn */
                if (d > maxlat) maxlat = d;
                if (by > maxbypass) maxbypass = by;
            }
            int starved = mrescued;
            mflag = 1;
            while (mfinished < (aligned_t)Y) qthread_yield();
            mstop = 1;
            pthread_join(rt, NULL);
            alarm(0);
            printf("M Y=%d k=%d starved=%d max_yield_latency=%.3f total=%.3f yielder_yields=%lu max_bypass=%lu\n", Y, k, starved, maxlat, now() - t0,
                   (unsigned long)myields, (unsigned long)maxbypass);
            fflush(stdout);
        } else if (line[0] == 'N') {
            int K = 0, U = 0;
            sscanf(line + 1, "%d %d", &K, &U);
            if (K > 100) K = 100; if (U > 100) U = 100;
            unsigned W = qthread_num_workers() / qthread_num_shepherds();
            nrelease = 0; nstarted = 0; nexited = 0; ndone_s = 0; ndone_u = 0;
            memset(ncnt, 0, sizeof ncnt); memset(nshep, -1, sizeof nshep);
            alarm(60);
            /* occupy every other worker of shepherd 0 with an unstealable spinning task */
            for (unsigned j = 1; j < W; j++) qthread_fork_to(nblocker, NULL, NULL, 0);
            while (nstarted < W - 1) { __asm__ __volatile__ ("pause" ::: "memory"); }
            /* queue the work on shepherd 0: its workers are all busy (this task does not yield) */
            for (int i = 0; i < U; i++) qthread_fork_to(nchild, (void *)(intptr_t)(128 + i), NULL, 0);
            for (int i = 0; i < K; i++) qthread_fork(nchild, (void *)(intptr_t)i, NULL);
            for (int i = 0; i < U / 2; i++) qthread_fork_to(nchild, (void *)(intptr_t)(128 + U + i), NULL, 0);
            int Ut = U + U / 2;
            double t0 = now();
            int stranded = 0;
            while (ndone_s < (aligned_t)K) {
                if (now() - t0 > 20.0) { stranded = 1; break; }
                __asm__ __volatile__ ("pause" ::: "memory");
            }
            double dt = now() - t0;
            aligned_t u_early = ndone_u;
            nrelease = 1;
            t0 = now();
            while ((ndone_s < (aligned_t)K || ndone_u < (aligned_t)Ut || nexited < W - 1) && now() - t0 < 20.0) qthread_yield();
            alarm(0);
            printf("N K=%d U=%d stranded=%d u_ran_before_release=%lu done_s=%lu done_u=%lu |", K, Ut, stranded,
                   (unsigned long)u_early, (unsigned long)ndone_s, (unsigned long)ndone_u);
            for (int i = 0; i < K; i++) printf(" s%d:%d@%d", i, ncnt[i], nshep[i]);
            for (int i = 0; i < Ut; i++) printf(" u%d:%d@%d", i, ncnt[128 + i], nshep[128 + i]);
            printf(" |");
            /* let the workers go idle, then audit */
            for (int i = 0; i < 50; i++) qthread_yield();
            if (live_audit()) printf(" AUDIT-BAD"); else printf(" AUDIT-OK");
            printf(" wait=%.3f\n", dt);
            fflush(stdout);
        }
    }
    fflush(stdout);
    _exit(0);
}

int main(int argc, char **argv)
{
    setvbuf(stdout, NULL, _IOFBF, 1 << 16);
    if (argc >= 2 && !strcmp(argv[1], "live")) return mode_live();
    qthread_initialize();
    if (argc >= 2 && !strcmp(argv[1], "m1")) return mode_m1();
    if (argc >= 2 && !strcmp(argv[1], "m1p")) { dump_ptr = 1; return mode_m1(); }
    if (argc >= 9 && !strcmp(argv[1], "stress"))
        return mode_stress(atoi(argv[2]), atoi(argv[3]), atol(argv[4]), atol(argv[5]), atoi(argv[6]), atoi(argv[7]), strtoull(argv[8], NULL, 10));
    fprintf(stderr, "usage: c08_tqueue m1|live|stress n w total chunk ymax unst_pct seed\n");
    return 2;
}
