/* gen_qarray.c -- M1 harness of the regeneration tie (lib/verif/props/_gen.py): the pure kernels of
 * src/ds/qarray.c, called directly (white-box include of the working tree's file) on descriptors filled in by hand.
 * Only run when Gen/Tie_Qarray.v no longer checks, to look for a concrete input where the model function and the C
 * kernel differ.  No runtime is started: qthread_num_shepherds() is replaced by a variable.
 *   E count ss sb us index                -> e <offset of qarray_elem_nomigrate from base_ptr | NULL>
 *   S kind sps extras dist_shep nsheps seg -> s <qarray_internal_shepof_segidx>     (kind 0,1,2)
 *   L ss us sb                             -> l <offset of qarray_internal_segment_shep from the head | NULL>
 */
#include <stdio.h>
#include <stdlib.h>
#include <string.h>
#include <stdint.h>
#include <qthread/qthread.h>
static qthread_shepherd_id_t gen_nsheps = 1;
#define qthread_num_shepherds() (gen_nsheps)
#include "ds/qarray.c"
#undef qthread_num_shepherds

int main(void)
{
    char   line[512];
    qarray a;
    char  *base = (char *)(uintptr_t)0x10000000UL;        /* never dereferenced; a multiple of 4096 */

    while (fgets(line, sizeof line, stdin)) {
        unsigned long x[8] = { 0 };
        memset(&a, 0, sizeof a);
        if (line[0] == 'E' && sscanf(line + 1, "%lu %lu %lu %lu %lu", x, x + 1, x + 2, x + 3, x + 4) == 5) {
            a.count = x[0]; a.segment_size = x[1]; a.segment_bytes = x[2]; a.unit_size = x[3]; a.base_ptr = base;
            char *p = qarray_elem_nomigrate(&a, x[4]);
            if (p == NULL) { printf("e NULL\n"); } else { printf("e %lu\n", (unsigned long)(p - base)); }
        } else if (line[0] == 'S' && sscanf(line + 1, "%lu %lu %lu %lu %lu %lu", x, x + 1, x + 2, x + 3, x + 4, x + 5) == 6) {
            a.dist_type = (distribution_t)x[0]; a.segment_size = 1; a.count = ~0UL;
            if (a.dist_type == ALL_SAME) { a.dist_specific.dist_shep = (qthread_shepherd_id_t)x[3]; } else {
                a.dist_specific.stripes.segs_per_shep = x[1]; a.dist_specific.stripes.extras = x[2];
            }
            gen_nsheps = (qthread_shepherd_id_t)x[4];
            printf("s %u\n", (unsigned)qarray_internal_shepof_segidx(&a, x[5]));
        } else if (line[0] == 'L' && sscanf(line + 1, "%lu %lu %lu", x, x + 1, x + 2) == 3) {
            a.dist_type = DIST; a.segment_size = x[0]; a.unit_size = x[1]; a.segment_bytes = x[2]; a.base_ptr = base;
            char *p = (char *)qarray_internal_segment_shep(&a, base);
            if (p == NULL) { printf("l NULL\n"); } else { printf("l %lu\n", (unsigned long)(p - base)); }
        } else if (line[0] == 'Q') {
            break;
        } else {
            printf("? %s", line);
        }
        fflush(stdout);
    }
    return 0;
}
