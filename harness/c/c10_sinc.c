/* C10 harness: drives the real donecount sinc (white-box include of the working-tree src/sincs/donecount.c).
 * Every shared access of submit / expect / wait / collate (qthread_incr, readFF, empty, fill, memcpy, and every call
 * of the user operator) is a schedule point: a controller (main task) grants one access at a time to one participant,
 * following the same adaptive schedule as the model, and prints after every access: who, which access, counter,
 * ready, result, all slots, every participant's position, and the values delivered by waits that completed.
 *   S <hd> <size> <opk> <inithex> <c0>      create a sinc (hd=0: void sinc)
 *   T <op> ...                              program of the next participant: s:<hex> n e:<n> w v
 *   R <r1> <r2> ...                         run the programs under the adaptive schedule
 *   Z <n>                                   qt_sinc_reset(n) (only after a run that ended "done"), then T.., R
 *   F <nsub> <nwait> <size> <opk> <seed> <yield_den> <dyn>    free-running case (oracle only)
 * Waiting is by blocking on FEB words (see c11_barrier.c). */
#ifdef HAVE_CONFIG_H
# include "config.h"
#endif
#include <stdlib.h>
#include <stdio.h>
#include <string.h>
#include <assert.h>
#include <unistd.h>
#include <signal.h>
#include <stdint.h>
#include "qthread/qthread.h"
#include "qthread/sinc.h"
#include "qthread/cacheline.h"
#include "qt_asserts.h"
#include "qt_shepherd_innards.h"
#include "qt_expect.h"
#include "qt_visibility.h"
#include "qt_alloc.h"
#include "qt_debug.h"
#include "qt_int_ceil.h"

static aligned_t v_incr(aligned_t *addr, int64_t v);
static int       v_readFF(aligned_t *dest, const aligned_t *src);
static int       v_empty(const aligned_t *a);
static int       v_fill(const aligned_t *a);
static void     *v_memcpy(void *d, const void *s, size_t n);

static inline aligned_t real_incr(aligned_t *a, int64_t v) { return qthread_incr(a, v); }
static inline int real_readFF(aligned_t *d, const aligned_t *s) { return qthread_readFF(d, s); }
static inline int real_empty(const aligned_t *a) { return qthread_empty(a); }
static inline int real_fill(const aligned_t *a) { return qthread_fill(a); }
static inline void *real_memcpy(void *d, const void *s, size_t n) { return memcpy(d, s, n); }

#undef qthread_incr
#define qthread_incr(a, v) v_incr((aligned_t *)(a), (int64_t)(v))
#define qthread_readFF v_readFF
#define qthread_empty  v_empty
#define qthread_fill   v_fill
#define memcpy         v_memcpy
#include "sincs/donecount.c"
#undef qthread_incr
#undef qthread_readFF
#undef qthread_empty
#undef qthread_fill
#undef memcpy

#define MAXT 16
#define MAXOPS 64
#define MAXV 64
enum { K_INIT, K_SLOT, K_DEC, K_C0, K_COL, K_FILL, K_ADD, K_EMPTY, K_READ, K_BLK, K_COPY, K_RUN, K_IDLE, K_UNK };
static const char *kname[] = { "Init", "Slot", "Dec", "C0", "Col", "Fill", "Add", "Empty", "Read", "Blk", "Copy", "Run", "Idle", "Unknown" };

typedef struct { char kind; unsigned char val[MAXV]; long n; } op_t;

static qt_sinc_t         *S;
static qt_internal_sinc_t *SI;
static int                hasdata, opk, mode, N;
static size_t             vsize;
static unsigned char      initv[MAXV];
static op_t               prog[MAXT][MAXOPS];
static int                nops[MAXT];
static volatile int       st[MAXT], colk[MAXT];
static volatile int       turn = -1;
static aligned_t          rets[MAXT], go[MAXT], ctl;
static unsigned char      deliv[MAXT][MAXOPS][MAXV];
static int                delivkind[MAXT][MAXOPS]; /* 1 value, 0 none */
static volatile int       ndeliv[MAXT];
static int                printed[MAXT];
static volatile int       pl_slot[MAXT], pl_shep[MAXT], pl_worker[MAXT], pl_new[MAXT];
static unsigned           wd_secs = 20;
static unsigned           rstate[256];
static int                yield_den;

static int who(void)
{
    aligned_t *r = qthread_retloc();
    if (r >= rets && r < rets + MAXT) return (int)(r - rets);
    return -1;
}

static void sp(int me, int kind)
{
    st[me] = kind;
    __sync_synchronize();
    real_fill(&ctl);
    qthread_readFE(NULL, &go[me]);
}

static void sp_done(int me, int next)
{
    st[me] = next;
    __sync_synchronize();
    turn = -1;
    real_fill(&ctl);
}

static void apply_op(unsigned char *d, const unsigned char *s)
{
    if (opk == 4 && vsize == 8) {
        uint64_t a, b; real_memcpy(&a, d, 8); real_memcpy(&b, s, 8); a += b; real_memcpy(d, &a, 8);
        return;
    }
    for (size_t i = 0; i < vsize; i++) {
        unsigned x = d[i], y = s[i];
        switch (opk) {
            case 0: d[i] = (unsigned char)(x + y); break;
            case 1: d[i] = (unsigned char)(x > y ? x : y); break;
            case 2: d[i] = (unsigned char)(x ^ y); break;
            default: d[i] = (unsigned char)(x < y ? x : y); break;
        }
    }
}

static long slot_index(const void *p)
{
    qt_sinc_reduction_t *rd = SI->rdata;
    size_t off = (const uint8_t *)p - (const uint8_t *)rd->values;
    size_t sh = off / rd->sizeof_shep_value_part, w = (off % rd->sizeof_shep_value_part) / rd->sizeof_value;
    if ((const uint8_t *)p < (const uint8_t *)rd->values || sh >= num_sheps || w >= num_wps ||
        (off % rd->sizeof_shep_value_part) % rd->sizeof_value) return -1;
    return (long)(sh * num_wps + w);
}

static void perturb(int me)
{
    if (yield_den <= 0) return;
    rstate[me & 255] = rstate[me & 255] * 1103515245u + 12345u;
    if (((rstate[me & 255] >> 16) % (unsigned)yield_den) == 0) qthread_yield();
}

/* the user's operator: dest := dest (op) src */
static void user_op(void *dest, const void *src)
{
    int me = mode ? -1 : who();
    if (me < 0) { apply_op(dest, src); return; }
    qt_sinc_reduction_t *rd = SI->rdata;
    if (dest == rd->result) {
        colk[me] = (int)slot_index(src);
        sp(me, K_COL);
    } else {
        pl_slot[me]   = (int)slot_index(dest);
        pl_shep[me]   = (int)qthread_shep();
        pl_worker[me] = (int)qthread_readstate(CURRENT_WORKER);
        pl_new[me]    = 1;
        sp(me, K_SLOT);
    }
    apply_op(dest, src);
    sp_done(me, K_RUN);
}

static aligned_t v_incr(aligned_t *addr, int64_t v)
{
    int me = who();
    if (me < 0 || mode) { if (mode && me >= 0) perturb(me); return real_incr(addr, v); }
    sp(me, (addr == &SI->counter) ? (v == -1 ? K_DEC : K_ADD) : K_UNK);
    aligned_t r = real_incr(addr, v);
    sp_done(me, K_RUN);
    return r;
}

static int v_empty(const aligned_t *a)
{
    int me = who();
    if (me < 0 || mode) return real_empty(a);
    sp(me, (a == &SI->ready) ? K_EMPTY : K_UNK);
    int r = real_empty(a);
    sp_done(me, K_RUN);
    return r;
}

static int v_fill(const aligned_t *a)
{
    int me = who();
    if (me < 0 || mode) { if (mode && me >= 0) perturb(me); return real_fill(a); }
    sp(me, (a == &SI->ready) ? K_FILL : K_UNK);
    for (int j = 0; j < N; j++) __sync_bool_compare_and_swap(&st[j], K_BLK, K_RUN);
    int r = real_fill(a);
    sp_done(me, K_RUN);
    return r;
}

static int v_readFF(aligned_t *dest, const aligned_t *src)
{
    int me = who();
    if (me < 0 || mode) return real_readFF(dest, src);
    sp(me, (src == &SI->ready) ? K_READ : K_UNK);
    if (qthread_feb_status(src)) {
        int r = real_readFF(dest, src);
        sp_done(me, K_RUN);
        return r;
    }
    sp_done(me, K_BLK);
    return real_readFF(dest, src);
}

static void *v_memcpy(void *d, const void *s, size_t n)
{
    int me = who();
    if (me < 0 || mode || !SI || !SI->rdata) return real_memcpy(d, s, n);
    int k = (d == SI->rdata->result) ? K_C0 : ((s == SI->rdata->result) ? K_COPY : K_UNK);
    sp(me, k);
    real_memcpy(d, s, n);
    sp_done(me, K_RUN);
    return d;
}

static aligned_t participant(void *arg)
{
    int me = (int)(intptr_t)arg;
    for (int k = 0; k < nops[me]; k++) {
        op_t *o = &prog[me][k];
        switch (o->kind) {
            case 's': qt_sinc_submit(S, o->val); break;
            case 'n': qt_sinc_submit(S, NULL); break;
            case 'e': qt_sinc_expect(S, (size_t)o->n); break;
            case 'w': {
                unsigned char buf[MAXV];
                real_memcpy(buf, "\xee\xee\xee\xee\xee\xee\xee\xee\xee\xee\xee\xee\xee\xee\xee\xee\xee\xee\xee\xee\xee\xee\xee\xee\xee\xee\xee\xee\xee\xee\xee\xee"
                                 "\xee\xee\xee\xee\xee\xee\xee\xee\xee\xee\xee\xee\xee\xee\xee\xee\xee\xee\xee\xee\xee\xee\xee\xee\xee\xee\xee\xee\xee\xee\xee\xee", MAXV);
                qt_sinc_wait(S, buf);
                real_memcpy(deliv[me][ndeliv[me]], buf, MAXV);
                delivkind[me][ndeliv[me]] = hasdata ? 1 : 0;
                __sync_synchronize();
                ndeliv[me]++;
                break;
            }
            default:
                qt_sinc_wait(S, NULL);
                delivkind[me][ndeliv[me]] = 0;
                __sync_synchronize();
                ndeliv[me]++;
                break;
        }
    }
    __sync_synchronize();
    st[me] = K_IDLE;
    real_fill(&ctl);
    return 0;
}

static void on_alarm(int s)
{
    printf("TIMEOUT turn=%d", turn);
    for (int j = 0; j < N; j++) printf(" %s", kname[st[j]]);
    printf("\n");
    fflush(stdout);
    _exit(3);
}

static int anyrun(void)
{
    if (turn != -1) return 1;
    for (int j = 0; j < N; j++) if (st[j] == K_RUN || st[j] == K_INIT) return 1;
    return 0;
}

static void hexout(const unsigned char *p, size_t n) { for (size_t i = 0; i < n; i++) printf("%02x", p[i]); }

static int unhex(const char *h, unsigned char *out)
{
    int n = 0;
    while (h[0] && h[1] && n < MAXV) { unsigned v; if (sscanf(h, "%2x", &v) != 1) break; out[n++] = (unsigned char)v; h += 2; }
    return n;
}

static void dump_shared(void)
{
    printf("%lu %d ", (unsigned long)SI->counter, qthread_feb_status(&SI->ready) ? 1 : 0);
    if (!SI->rdata) { printf("- -"); return; }
    qt_sinc_reduction_t *rd = SI->rdata;
    hexout(rd->result, rd->sizeof_value);
    printf(" ");
    for (size_t s = 0; s < num_sheps; s++)
        for (size_t w = 0; w < num_wps; w++) {
            if (s || w) printf(",");
            hexout((uint8_t *)rd->values + s * rd->sizeof_shep_value_part + w * rd->sizeof_value, rd->sizeof_value);
        }
}

/* ---------- free-running case ---------- */
static aligned_t          f_began;
static volatile int       f_badwait, f_badval;
static long               f_total;
static unsigned char      f_expected[MAXV];
static aligned_t          f_cret[512];
static void f_value(unsigned j, unsigned char *v) { for (size_t i = 0; i < vsize; i++) v[i] = (unsigned char)((j * 37u + i * 11u + 1u) & 0x7f); }

static aligned_t f_child(void *arg)
{
    unsigned char v[MAXV];
    unsigned j = (unsigned)(uintptr_t)arg;
    f_value(j, v);
    perturb((int)j);
    __sync_fetch_and_add(&f_began, 1);
    qt_sinc_submit(S, hasdata ? v : NULL);
    return 0;
}

static aligned_t f_submitter(void *arg)
{
    unsigned j = (unsigned)(uintptr_t)arg;
    unsigned char v[MAXV];
    f_value(j & 0xffff, v);
    perturb((int)j);
    if (j >> 16) { /* dynamic: announce one more submission, then create it */
        qt_sinc_expect(S, 1);
        qthread_fork(f_child, (void *)(uintptr_t)((j & 0xffff) + 1000), &f_cret[j & 0x1ff]);
    }
    perturb((int)j);
    __sync_fetch_and_add(&f_began, 1);
    qt_sinc_submit(S, hasdata ? v : NULL);
    return 0;
}

static aligned_t f_waiter(void *arg)
{
    unsigned char buf[MAXV];
    perturb((int)(uintptr_t)arg + 100);
    qt_sinc_wait(S, hasdata ? buf : NULL);
    long b = (long)f_began;
    if (b < f_total) __sync_fetch_and_add(&f_badwait, 1);
    if (hasdata && memcmp(buf, f_expected, vsize) != 0) __sync_fetch_and_add(&f_badval, 1);
    return 0;
}

int main(void)
{
    static char line[1 << 16];
    signal(SIGALRM, on_alarm);
    if (getenv("VERIF_WATCHDOG")) wd_secs = (unsigned)atoi(getenv("VERIF_WATCHDOG"));
    if (qthread_initialize() != 0) { printf("INITFAIL\n"); return 2; }
    int nsheps = (int)qthread_num_shepherds();
    printf("H %d %d\n", nsheps, (int)qthread_num_workers());
    fflush(stdout);
    int ended_done = 0, abandoned = 0;
    while (fgets(line, sizeof line, stdin)) {
        if (abandoned && (line[0] == 'T' || line[0] == 'R' || line[0] == 'Z')) continue;
        if (line[0] == 'S') {
            abandoned = 0;
            char ih[256]; long c0; int hd; unsigned long sz;
            sscanf(line + 1, "%d %lu %d %255s %ld", &hd, &sz, &opk, ih, &c0);
            hasdata = hd; vsize = sz; mode = 0; N = 0;
            if (hd) unhex(ih, initv);
            S  = hd ? qt_sinc_create(vsize, initv, user_op, (size_t)c0) : qt_sinc_create(0, NULL, NULL, (size_t)c0);
            SI = (qt_internal_sinc_t *)S;
            printf("C %d %d ", (int)num_sheps, (int)num_wps);
            dump_shared();
            printf("\n");
        } else if (line[0] == 'T') {
            char *p = strtok(line + 1, " \n");
            int   me = N++;
            nops[me] = 0;
            while (p && nops[me] < MAXOPS) {
                op_t *o = &prog[me][nops[me]++];
                o->kind = p[0];
                if (p[0] == 's') unhex(p + 2, o->val);
                if (p[0] == 'e') o->n = atol(p + 2);
                p = strtok(NULL, " \n");
            }
        } else if (line[0] == 'Z') {
            long n = atol(line + 1);
            N = 0;
            if (ended_done) qt_sinc_reset(S, (size_t)n); else abandoned = 1; /* blocked participants left: no reuse */
            printf("Z %d\n", ended_done);
        } else if (line[0] == 'R') {
            char *p = line + 1, *e;
            static int rs[1 << 14];
            int        nr = 0;
            for (;;) { long r = strtol(p, &e, 10); if (e == p) break; p = e; if (nr < (1 << 14)) rs[nr++] = (int)r; }
            mode = 0; turn = -1;
            printf("I "); dump_shared(); printf("\n");
            alarm(wd_secs);
            for (int j = 0; j < N; j++) { st[j] = K_INIT; ndeliv[j] = 0; printed[j] = 0; pl_new[j] = 0; real_empty(&go[j]); }
            real_empty(&ctl);
            __sync_synchronize();
            for (int j = 0; j < N; j++) qthread_fork_to(participant, (void *)(intptr_t)j, &rets[j], (qthread_shepherd_id_t)(j % nsheps));
            int k = 0;
            ended_done = 0;
            for (;;) {
                while (anyrun()) qthread_readFE(NULL, &ctl);
                int en[MAXT], ne = 0, nd = 0;
                for (int j = 0; j < N; j++) {
                    int s = st[j];
                    if (s == K_IDLE) nd++;
                    else if (s != K_BLK) en[ne++] = j;
                }
                if (ne == 0) { printf("END %s %d\n", nd == N ? "done" : "deadlock", k); ended_done = (nd == N); break; }
                int r = nr ? rs[k % nr] : 0;
                int pref = r / 1024, i = en[(r % 1024) % ne];
                if (pref > 0 && pref - 1 < N) {
                    int s = st[pref - 1];
                    if (s != K_IDLE && s != K_BLK) i = pref - 1;
                }
                int kind = st[i];
                if (kind == K_SLOT && pl_new[i]) { printf("P %d %d %d %d\n", i, pl_slot[i], pl_shep[i], pl_worker[i]); pl_new[i] = 0; }
                __sync_synchronize();
                turn = i;
                real_fill(&go[i]);
                while (anyrun()) qthread_readFE(NULL, &ctl);
                k++;
                printf("%d %s ", i, kname[kind]);
                dump_shared();
                printf(" |");
                for (int j = 0; j < N; j++) {
                    if (st[j] == K_COL) printf(" Col%d", colk[j]); else printf(" %s", kname[st[j]]);
                }
                for (int j = 0; j < N; j++)
                    while (printed[j] < ndeliv[j]) {
                        printf(" ; W%d=", j);
                        if (delivkind[j][printed[j]]) hexout(deliv[j][printed[j]], vsize); else printf("-");
                        printed[j]++;
                    }
                printf("\n");
                if (k > 200000) { printf("END runaway %d\n", k); break; }
            }
            alarm(0);
            if (ended_done) for (int j = 0; j < N; j++) qthread_readFF(NULL, &rets[j]);
            N = 0;
        } else if (line[0] == 'D') {
            if (S && ended_done) qt_sinc_destroy(S);
            S = NULL; SI = NULL; abandoned = 0;
            printf("D\n");
        } else if (line[0] == 'F') {
            int nsub, nwait, dyn; unsigned seed; unsigned long sz;
            sscanf(line + 1, "%d %d %lu %d %u %d %d", &nsub, &nwait, &sz, &opk, &seed, &yield_den, &dyn);
            mode = 1; vsize = sz; hasdata = sz > 0; N = 0;
            for (int j = 0; j < 256; j++) rstate[j] = seed * 2654435761u + (unsigned)j * 40503u + 1u;
            for (size_t i = 0; i < MAXV; i++) initv[i] = (opk == 3) ? 0xff : 0;
            real_memcpy(f_expected, initv, MAXV);
            f_total = 0; f_began = 0; f_badwait = 0; f_badval = 0;
            static aligned_t fr[512];
            for (int j = 0; j < nsub; j++) {
                unsigned char v[MAXV];
                int d = dyn && (j % 3 == 0);
                f_value((unsigned)j, v); apply_op(f_expected, v); f_total++;
                if (d) { f_value((unsigned)j + 1000, v); apply_op(f_expected, v); f_total++; }
            }
            alarm(wd_secs);
            S  = hasdata ? qt_sinc_create(vsize, initv, user_op, (size_t)nsub) : qt_sinc_create(0, NULL, NULL, (size_t)nsub);
            SI = (qt_internal_sinc_t *)S;
            int nf = 0;
            for (int j = 0; j < nwait / 2; j++) qthread_fork_to(f_waiter, (void *)(uintptr_t)j, &fr[nf++], (qthread_shepherd_id_t)(j % nsheps));
            for (int j = 0; j < nsub; j++)
                qthread_fork_to(f_submitter, (void *)(uintptr_t)((unsigned)j | ((dyn && (j % 3 == 0)) ? 0x10000u : 0u)), &fr[nf++], (qthread_shepherd_id_t)(j % nsheps));
            for (int j = nwait / 2; j < nwait; j++) qthread_fork_to(f_waiter, (void *)(uintptr_t)j, &fr[nf++], (qthread_shepherd_id_t)(j % nsheps));
            unsigned char buf[MAXV];
            qt_sinc_wait(S, hasdata ? buf : NULL);
            long b = (long)f_began;
            int  mainbad = (b < f_total) + ((hasdata && memcmp(buf, f_expected, vsize) != 0) ? 2 : 0);
            for (int j = 0; j < nf; j++) qthread_readFF(NULL, &fr[j]);
            for (int j = 0; j < nsub; j++) if (dyn && (j % 3 == 0)) qthread_readFF(NULL, &f_cret[j & 0x1ff]);
            alarm(0);
            printf("FR %d %d %d %ld %ld %lu\n", f_badwait, f_badval, mainbad, (long)f_began, f_total, (unsigned long)SI->counter);
            qt_sinc_destroy(S);
            S = NULL; SI = NULL; mode = 0;
        } else if (line[0] == 'Q') break;
        fflush(stdout);
    }
    fflush(stdout);
    return 0;
}
