/* C04 progress (extension M): white-box sherwood_threadqueues.c of the working tree + one accessor that reads a ready
 * queue's private fields under its own lock (the struct is private to the TU).  No edits to /repo. */
#include "threadqueues/sherwood_threadqueues.c"

/* qlength, qlength_stealable, number of nodes found by walking head->next, head == NULL && tail == NULL */
void c04p_queue_obs(qt_threadqueue_t *q, long *ql, long *qs, long *walk, int *nohead)
{
    long n = 0;
    QTHREAD_TRYLOCK_LOCK(&q->qlock);
    *ql     = q->qlength;
    *qs     = q->qlength_stealable;
    *nohead = (q->head == NULL && q->tail == NULL);
    for (qt_threadqueue_node_t *p = q->head; p != NULL && n < 1000000; p = p->next) n++;
    *walk = n;
    QTHREAD_TRYLOCK_UNLOCK(&q->qlock);
}
