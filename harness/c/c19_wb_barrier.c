/* C19 white-box accessor: the lazily created pool of barrier/feb.c */
#include "barrier/feb.c"
int c19_barrier_pool_set(void) { return fbp.pool != NULL; }
