/* C19 white-box accessor: the lazily created static of ds/dictionary/dictionary_shavit.c */
#include "ds/dictionary/dictionary_shavit.c"
int c19_dict_pool_set(void) { return hash_entry_pool != NULL; }
