/* C01 / C02 micro-step probe with a pre-blocked third task (mode M3, two-hold baton; extension K): replays on the REAL feb.c a
 * schedule of the micro-step model coq/theories/Feb/Micro3.v:
 *     task A runs its call up to (not including) its k-th interposed shared access; task B then runs up to (not including) its
 *     j-th interposed access (j = 0: its whole call), or as far as it gets (it may have to wait for a lock A holds); A is
 *     released and runs to the end (or as far as it gets while B is held); B is released.  A third task G may already be
 *     blocked on the word (on EFQ / FEQ / FFQ / FFWQ) when the two calls start.
 * White-box: feb.c is included with its access macros / functions interposed (no edit of /repo):
 *     qt_hash_lock / qt_hash_unlock / qt_hash_get_locked / qt_hash_put_locked / qt_hash_remove_locked
 *                                                        -> "hlock" "hunlock" "hget_locked" "hput_locked" "hremove_locked"
 *     QTHREAD_FASTLOCK_LOCK / UNLOCK (the record lock)   -> "rlock" "runlock"
 *     MACHINE_FENCE (follows every word / buffer copy except writeF's memcpy and readXX) -> "fence"
 *     qt_threadqueue_enqueue (qt_feb_schedule: the hand-over of a waiter)               -> "sched" before, "scheddone" after
 *     qthread_addrstat_delete (release of the record)    -> "free"
 * Plain loads / stores (the word, m->full, the lists) cannot be interposed.
 * Run with 4 shepherds x 1 worker: the controller (main task) on 0, A on 1, B on 2, G on 3.
 *
 * stdin:  m <init: full|empty|fullEF|emptyFE|emptyFF|emptyFFW> <A op> <k> <B op> <j> <c1 0|1> <c2 0|1> <gw 0|1> <stuck_after seconds>
 *         (k / j = 0: not held; c1 = 1: the model says B will wait for a lock A holds while A is held, so B is only given a
 *          short time; c2 = 1: likewise for A while B is held; gw = 1: the model says G has been handed to the scheduler before A
 *          is released: G is given up to 0.5 s to return while A is still held -- no verdict depends on whether it does)
 * stdout: A=<rc:val|BLK:-> B=.. G=.. full=<status> word=<v> rec=<record present> EF=[tids] FE=[tids] FF=[tids] FFW=[tids]
 *         mfull=<m->full of the record, -1 without> orphan=<a blocked task is on no list of the table's record>
 *         stuck=<a task neither returned nor blocked> early=<B reached its hold point / its end while A was held>
 *         adone=<A reached its end while B was held> gret=<G returned while A was held>
 *         atA= atB=<kind of the access the task was held at> seqA= seqB=<the task's interposed accesses, run-length encoded>
 *         After a line with stuck=1 the process exits (a worker is spinning for ever); the caller restarts it.
 */
#define _GNU_SOURCE 1
#ifdef HAVE_CONFIG_H
# include "config.h"
#endif
#include <limits.h>
#include <sched.h>
#include <qthread/performance.h>
#include "qthread/qthread.h"
#include <qthread/hash.h>
#include "qt_feb.h"
#include "qt_subsystems.h"
#include "qt_hash.h"
#include "qt_alloc.h"
#include "qt_asserts.h"
#include "qthread_innards.h"
#include "qt_initialized.h"
#include "qt_profiling.h"
#include "qt_qthread_struct.h"
#include "qt_qthread_mgmt.h"
#include "qt_blocking_structs.h"
#include "qt_addrstat.h"
#include "qt_threadqueues.h"
#include "qt_debug.h"
#include "qt_output_macros.h"
#include "qt_atomics.h"
#undef HAVE_CONFIG_H            /* config.h has no include guard: feb.c must not bring the original macros back */

enum { SP_HLOCK, SP_HUNLOCK, SP_HGETL, SP_HPUTL, SP_HREML, SP_RLOCK, SP_RUNLOCK, SP_FENCE, SP_SCHED, SP_SCHEDDONE, SP_FREE, SP_N };
static const char *sp_name[SP_N] = { "hlock", "hunlock", "hget_locked", "hput_locked", "hremove_locked", "rlock", "runlock", "fence", "sched", "scheddone", "free" };
static void verif_sp(int kind);

static inline void verif_fastlock_lock(QTHREAD_FASTLOCK_TYPE *x) { QTHREAD_FASTLOCK_LOCK(x); }
static inline void verif_fastlock_unlock(QTHREAD_FASTLOCK_TYPE *x) { QTHREAD_FASTLOCK_UNLOCK(x); }
#undef QTHREAD_FASTLOCK_LOCK
#undef QTHREAD_FASTLOCK_UNLOCK
#define QTHREAD_FASTLOCK_LOCK(x)   do { verif_sp(SP_RLOCK); verif_fastlock_lock(x); } while (0)
#define QTHREAD_FASTLOCK_UNLOCK(x) do { verif_sp(SP_RUNLOCK); verif_fastlock_unlock(x); } while (0)
#undef MACHINE_FENCE
#define MACHINE_FENCE do { verif_sp(SP_FENCE); __sync_synchronize(); } while (0)
#define qt_hash_lock(h)               (verif_sp(SP_HLOCK), qt_hash_lock(h))
#define qt_hash_unlock(h)             (verif_sp(SP_HUNLOCK), qt_hash_unlock(h))
#define qt_hash_get_locked(h, k)      (verif_sp(SP_HGETL), qt_hash_get_locked((h), (k)))
#define qt_hash_put_locked(h, k, v)   (verif_sp(SP_HPUTL), qt_hash_put_locked((h), (k), (v)))
#define qt_hash_remove_locked(h, k)   (verif_sp(SP_HREML), qt_hash_remove_locked((h), (k)))
#define qt_threadqueue_enqueue(q, t)  do { verif_sp(SP_SCHED); qt_threadqueue_enqueue((q), (t)); verif_sp(SP_SCHEDDONE); } while (0)
#define qthread_addrstat_delete(m)    do { verif_sp(SP_FREE); qthread_addrstat_delete(m); } while (0)
#include "feb.c"
#undef qt_hash_lock
#undef qt_hash_unlock
#undef qt_hash_get_locked
#undef qt_hash_put_locked
#undef qt_hash_remove_locked
#undef qt_threadqueue_enqueue
#undef qthread_addrstat_delete
#undef QTHREAD_FASTLOCK_LOCK
#undef QTHREAD_FASTLOCK_UNLOCK
#define QTHREAD_FASTLOCK_LOCK(x)   verif_fastlock_lock(x)
#define QTHREAD_FASTLOCK_UNLOCK(x) verif_fastlock_unlock(x)
#undef MACHINE_FENCE
#define MACHINE_FENCE __sync_synchronize()

#include <stdio.h>
#include <string.h>
#include <unistd.h>
#include <signal.h>
#include <time.h>
#include <inttypes.h>

#define SENT ((aligned_t)0x5e5e5e5e5e5e5e5eULL)
typedef struct { volatile int start, done; volatile int rc; char op[16]; aligned_t val; volatile aligned_t out; qthread_t *volatile self; aligned_t *w; } ptask_t;

#define MAXSEQ 4096
typedef struct { qthread_t *volatile who; volatile int k, cnt, paused, go, kind; volatile int seq[MAXSEQ], n; } hold_t;
static hold_t HD[2];

static void verif_sp(int kind)
{
    qthread_t *me = NULL;
    for (int i = 0; i < 2; i++) {
        hold_t *h = &HD[i];
        if (!h->who) continue;
        if (!me) me = qthread_internal_self();
        if (me != h->who) continue;
        if (++h->cnt == h->k) {
            h->kind = kind;
            __sync_synchronize();
            h->paused = 1;
            while (!h->go) sched_yield();
        }
        if (h->n < MAXSEQ) h->seq[h->n++] = kind;
    }
}
static void show_seq(hold_t *h)
{
    for (int i = 0; i < h->n;) {
        int j = i; while (j < h->n && h->seq[j] == h->seq[i]) j++;
        printf("%s%s*%d", i ? "," : "", sp_name[h->seq[i]], j - i);
        i = j;
    }
}

static aligned_t ptask(void *arg)
{
    ptask_t   *T = (ptask_t *)arg;
    aligned_t *w = T->w;
    volatile aligned_t buf = SENT;
    int        rc = -99;
    T->self = qthread_internal_self();
    while (!T->start) sched_yield();
    if (!strcmp(T->op, "readFE")) rc = qthread_readFE((aligned_t *)&buf, w);
    else if (!strcmp(T->op, "readFE_nb")) rc = qthread_readFE_nb((aligned_t *)&buf, w);
    else if (!strcmp(T->op, "readFF")) rc = qthread_readFF((aligned_t *)&buf, w);
    else if (!strcmp(T->op, "readFF_nb")) rc = qthread_readFF_nb((aligned_t *)&buf, w);
    else if (!strcmp(T->op, "readXX")) rc = qthread_readXX((aligned_t *)&buf, w);
    else if (!strcmp(T->op, "status")) { buf = (aligned_t)qthread_feb_status(w); rc = 0; }
    else if (!strcmp(T->op, "fill")) rc = qthread_fill(w);
    else if (!strcmp(T->op, "empty")) rc = qthread_empty(w);
    else {
        buf = T->val;
        if (!strcmp(T->op, "writeEF")) rc = qthread_writeEF(w, (aligned_t *)&buf);
        else if (!strcmp(T->op, "writeEF_nb")) rc = qthread_writeEF_nb(w, (aligned_t *)&buf);
        else if (!strcmp(T->op, "writeF")) rc = qthread_writeF(w, (aligned_t *)&buf);
        else if (!strcmp(T->op, "writeFF")) rc = qthread_writeFF(w, (aligned_t *)&buf);
        else if (!strcmp(T->op, "purge_to")) rc = qthread_purge_to(w, (aligned_t *)&buf);
        buf = SENT;
    }
    T->out = buf;                 /* what the caller finds in its buffer at the moment the call returns */
    T->rc = rc;
    __sync_synchronize();
    T->done = 1;
    return 0;
}

static double now(void) { struct timespec ts; clock_gettime(CLOCK_MONOTONIC, &ts); return ts.tv_sec + 1e-9 * ts.tv_nsec; }
static int settled(ptask_t *T) { return !T || T->done || (T->self && T->self->thread_state == QTHREAD_STATE_FEB_BLOCKED); }
static int wait_settled(ptask_t *T, double secs) { double t0 = now(); while (!settled(T)) { if (now() - t0 > secs) return 0; sched_yield(); } return 1; }
static void on_alarm(int s) { printf("TIMEOUT\n"); fflush(stdout); _exit(3); }

static const char *rcname(int rc)
{
    switch (rc) { case QTHREAD_SUCCESS: return "OK"; case QTHREAD_OPFAIL: return "OPFAIL"; }
    return "RC?";
}
static void show(const char *name, ptask_t *T)
{
    if (!T || !T->done) { printf("%s=BLK:- ", name); return; }
    printf("%s=%s:", name, rcname(T->rc));
    if (T->out == SENT) printf("- "); else printf("%lld ", (long long)T->out);
}

static ptask_t *PT[3];
static int tid_of(qthread_t *q) { for (int i = 0; i < 3; i++) if (PT[i] && PT[i]->self == q) return i; return 9; }
/* the table's record of w: lists as task ids; returns present, *mfull = m->full (-1 when there is none) */
static int audit(aligned_t *w, char *buf, int *onlist, int *mfull)
{
    const int bin = QTHREAD_CHOOSE_STRIPE2(w);
    qthread_addrstat_t *m;
    int present = 0;
    char *p = buf;
    static const char *nm[4] = { "EF", "FE", "FF", "FFW" };
    onlist[0] = onlist[1] = onlist[2] = 0;
    *mfull = -1;
    qt_hash_lock(FEBs[bin]);
    m = (qthread_addrstat_t *)qt_hash_get_locked(FEBs[bin], (void *)w);
    if (m) { QTHREAD_FASTLOCK_LOCK(&m->lock); present = 1; *mfull = (int)m->full; }
    qthread_addrres_t *q[4] = { m ? m->EFQ : NULL, m ? m->FEQ : NULL, m ? m->FFQ : NULL, m ? m->FFWQ : NULL };
    for (int k = 0; k < 4; k++) {
        int n = 0;
        p += sprintf(p, "%s=[", nm[k]);
        for (qthread_addrres_t *x = q[k]; x && n < 8; x = x->next, n++) {
            int t = tid_of(x->waiter);
            if (t < 3) onlist[t] = 1;
            p += sprintf(p, n ? ",%d" : "%d", t);
        }
        p += sprintf(p, "] ");
    }
    if (m) QTHREAD_FASTLOCK_UNLOCK(&m->lock);
    qt_hash_unlock(FEBs[bin]);
    return present;
}

static aligned_t arena[1 << 16] __attribute__((aligned(64)));
static int       next_word = 16;

int main(void)
{
    char line[256];
    signal(SIGALRM, on_alarm);
    alarm(300);
    qthread_initialize();
    printf("H %d %d\n", (int)qthread_num_shepherds(), (int)qthread_num_workers());
    fflush(stdout);
    if (qthread_num_shepherds() < 4) { printf("ERR needs 4 shepherds\n"); return 1; }
    while (fgets(line, sizeof(line), stdin)) {
        char opa[16], opb[16], init[16]; int k, j = 0, c1 = 0, c2 = 0, gw = 0, stuck = 0; double stuck_after = 20.0;
        if (sscanf(line, "m %15s %15s %d %15s %d %d %d %d %lf", init, opa, &k, opb, &j, &c1, &c2, &gw, &stuck_after) < 5) { printf("ERR parse\n"); fflush(stdout); continue; }
        alarm(300);
        double t_probe = now();
        aligned_t *w = &arena[next_word]; next_word += 8;
        if (next_word > (1 << 16) - 16) { printf("ERR arena\n"); fflush(stdout); continue; }
        *w = 5;
        if (!strncmp(init, "empty", 5)) qthread_empty(w);
        ptask_t *A = calloc(1, sizeof(ptask_t)), *B = calloc(1, sizeof(ptask_t)), *G = NULL;
        strcpy(A->op, opa); A->val = 11; A->w = w; A->out = SENT;
        strcpy(B->op, opb); B->val = 22; B->w = w; B->out = SENT;
        PT[0] = A; PT[1] = B; PT[2] = NULL;
        memset((void *)HD, 0, sizeof HD); HD[0].k = k; HD[1].k = j; HD[0].kind = HD[1].kind = -1;
        if (strlen(init) > 5 || !strcmp(init, "fullEF")) {
            G = calloc(1, sizeof(ptask_t)); G->w = w; G->val = 33; G->out = SENT; PT[2] = G;
            strcpy(G->op, !strcmp(init, "fullEF") ? "writeEF" : !strcmp(init, "emptyFE") ? "readFE" : !strcmp(init, "emptyFF") ? "readFF" : "writeFF");
            qthread_fork_to(ptask, G, NULL, 3);
            while (!G->self) sched_yield();
            G->start = 1;
            double t0 = now();
            for (;;) {                      /* until G sits on its list and its worker has dropped the record lock */
                char b[160]; int on[3], mf;
                if (G->self->thread_state == QTHREAD_STATE_FEB_BLOCKED) { audit(w, b, on, &mf); if (on[2]) break; }
                if (now() - t0 > 30.0) { printf("ERR ghost did not block\n"); fflush(stdout); _exit(5); }
                sched_yield();
            }
        }
        qthread_fork_to(ptask, A, NULL, 1);
        qthread_fork_to(ptask, B, NULL, 2);
        while (!A->self || !B->self) sched_yield();
        HD[0].who = A->self; HD[1].who = B->self;
        __sync_synchronize();
        A->start = 1;
        { double t0 = now(); while (!HD[0].paused && !settled(A)) { if (now() - t0 > stuck_after) { stuck = 1; break; } sched_yield(); } }
        B->start = 1;
        { double t0 = now(), lim = c1 ? 0.03 : stuck_after;     /* c1: B is expected to wait for a lock A holds */
          while (!HD[1].paused && !settled(B)) { if (now() - t0 > lim) { if (!c1) stuck = 1; break; } sched_yield(); } }
        int b_early = HD[1].paused || settled(B);                /* B got to its hold point / its end while A was held */
        if (gw && G) { double t0 = now(); while (!G->done && now() - t0 < 0.5) sched_yield(); }
        int g_ret = G ? G->done : 0;
        HD[0].go = 1;
        { double t0 = now(), lim = c2 ? 0.03 : stuck_after;     /* c2: A is expected to wait for a lock B holds */
          while (!settled(A) && !stuck) { if (now() - t0 > lim) { if (!c2) stuck = 1; break; } sched_yield(); } }
        int a_done3 = settled(A);                                /* A got to its end while B was held */
        HD[1].go = 1;
        for (int round = 0; round < 3 && !stuck; round++) {    /* a call that returns may release another task */
            if (!wait_settled(A, stuck_after)) stuck = 1;
            if (!wait_settled(B, stuck_after)) stuck = 1;
            if (!wait_settled(G, stuck_after)) stuck = 1;
        }
        HD[0].who = HD[1].who = NULL;
        show("A", A); show("B", B); show("G", G);
        if (stuck) printf("full=-1 word=%lld rec=-1 EF=[] FE=[] FF=[] FFW=[] mfull=-1 orphan=0 ", (long long)*w);
        else {
            char b[160]; int on[3], orphan = 0, mf;
            int present = audit(w, b, on, &mf);
            for (int i = 0; i < 3; i++) if (PT[i] && !PT[i]->done && !on[i]) orphan = 1;
            printf("full=%d word=%lld rec=%d %smfull=%d orphan=%d ", qthread_feb_status(w), (long long)*w, present, b, mf, orphan);
        }
        printf("stuck=%d early=%d adone=%d gret=%d atA=%s atB=%s seqA=", stuck, b_early, a_done3, g_ret, HD[0].kind >= 0 ? sp_name[HD[0].kind] : "-", HD[1].kind >= 0 ? sp_name[HD[1].kind] : "-");
        show_seq(&HD[0]); printf(" seqB="); show_seq(&HD[1]);
        printf(" ms=%d\n", (int)((now() - t_probe) * 1000.0));
        fflush(stdout);
        if (stuck) _exit(4);
    }
    _exit(0);
}
