/* sincs/donecount.c of the working tree with qt_sinc_expect / submit / wait / reset / destroy defined under the names
 * c05t_real_sinc_*; the public names are the logging wrappers of c05_team.c (so the calls from qthread.c AND teams.c AND
 * everything else go through them). */
#define C05T_TU 2
#include "c05_team_ipose.h"
#include "sincs/donecount.c"
