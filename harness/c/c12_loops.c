/* C12 harness: white-box include of the working-tree qloop.c with interposed qthread_spawn / qthread_cas /
 * qthread_incr / qthread_num_workers / qthread_shep / qtimer_secs (macros, no edit of /repo).
 *   B/L/Q : the REAL loops in the live runtime; the user function logs (lo,hi); spawn events are recorded
 *   C/g/E : the static qqloop_get_iterations_* run by real pthreads under a baton (one interposed access per grant)
 * stdin: one command per line; stdout: canonical result lines (see lib/verif/props/c12.py). */
#ifdef HAVE_CONFIG_H
# include "config.h"
#endif
#include <stdlib.h>
#include <stdio.h>
#include <string.h>
#include <unistd.h>
#include <signal.h>
#include <pthread.h>
#include <semaphore.h>
#include <qthread/qthread.h>
#include <qthread/qloop.h>
#include <qthread/qtimer.h>
#include <qthread/barrier.h>
#include <qthread/sinc.h>
#include "qt_initialized.h"
#include "qloop_innards.h"
#include "qt_expect.h"
#include "qt_asserts.h"
#include "qt_debug.h"
#include "qt_alloc.h"
#include "qt_barrier.h"

static qthread_worker_id_t   c12_nw(void);
static qthread_shepherd_id_t c12_shep(void);
static double                c12_secs(qtimer_t t);
static int                   c12_spawn(qthread_f f, const void *arg, size_t arg_size, void *ret, size_t npreconds,
                                       void *preconds, qthread_shepherd_id_t target, unsigned int flags);
static int64_t c12_cas(volatile int64_t *addr, int64_t oldv, int64_t newv);
static int64_t c12_incr(volatile int64_t *addr, int64_t inc);

#define qthread_num_workers() c12_nw()
#define qthread_shep()        c12_shep()
#define qtimer_secs(t)        c12_secs(t)
#define qthread_spawn(f, a, s, r, n, p, t, fl) c12_spawn((f), (a), (s), (r), (n), (p), (t), (fl))
#undef qthread_cas
#define qthread_cas(A, O, N) c12_cas((volatile int64_t *)(A), (int64_t)(O), (int64_t)(N))
#undef qthread_incr
#define qthread_incr(A, I) c12_incr((volatile int64_t *)(A), (int64_t)(I))

#include "qloop.c"

/* ------------------------------------------------------------------ state */
#define MAXLOG (1 << 17)
#define MAXT   8
typedef struct { size_t lo, hi; } rng_t;
static rng_t            rlog[MAXLOG];
static volatile long    nlog, active, ncalls;
static int              yield_every;
typedef struct { long a, b; char kind; long slot; char slotk; } ev_t;   /* tree: (id, level); spawner: (lo, threadct) */
static ev_t             evs[MAXLOG];
static volatile long    nev;
static unsigned         fake_nw;
static unsigned         wd_secs = 15;   /* per-case watchdog; C12_ALARM overrides (scaled by the check to the machine load) */

/* M3 */
static __thread int     m3_tid = -1;
static volatile int     m3_free, m3_n, m3_nsheps;
static sem_t            m3_go[MAXT], m3_back;
static volatile int     m3_done[MAXT], m3_slow[MAXT];
static struct { int kind; long a, b; } m3_pend[MAXT];
static rng_t            m3_claims[MAXT][4096];
static volatile int     m3_nclaims[MAXT], m3_printed[MAXT];
static pthread_t        m3_thr[MAXT];
static qqloop_iteration_queue_t *IQ;
static struct qqloop_static_args SA;
static qq_getiter_f     GET;

/* ------------------------------------------------------------------ interposed functions */
static qthread_worker_id_t c12_nw(void) { return fake_nw ? (qthread_worker_id_t)fake_nw : (qthread_num_workers)(); }
static qthread_shepherd_id_t c12_shep(void) { return (m3_tid >= 0) ? (qthread_shepherd_id_t)(m3_tid % m3_nsheps) : (qthread_shep)(); }
static double c12_secs(qtimer_t t) { return (m3_tid >= 0) ? (m3_slow[m3_tid] ? 1.0 : 0.0) : (qtimer_secs)(t); }

static void m3_sp(int kind, long a, long b)
{
    if ((m3_tid < 0) || m3_free) return;
    m3_pend[m3_tid].kind = kind; m3_pend[m3_tid].a = a; m3_pend[m3_tid].b = b;
    sem_post(&m3_back);
    sem_wait(&m3_go[m3_tid]);
}

static int64_t c12_cas(volatile int64_t *addr, int64_t oldv, int64_t newv)
{
    if (m3_tid >= 0) m3_sp(((void *)addr == (void *)&IQ->start) ? 2 : 3, oldv, newv);
    return __sync_val_compare_and_swap(addr, oldv, newv);
}

static int64_t c12_incr(volatile int64_t *addr, int64_t inc)
{
    if (m3_tid >= 0) m3_sp(1, inc, 0);
    return __sync_fetch_and_add(addr, inc);
}

static void slot_of(synctype_t st, void *base, void *ret, ev_t *e)
{
    switch (st) {
        case SYNCVAR_T: e->slotk = 'i'; e->slot = (long)((syncvar_t *)ret - (syncvar_t *)base); break;
        case ALIGNED:   e->slotk = 'i'; e->slot = (long)((aligned_t *)ret - (aligned_t *)base); break;
        case SINC_T:    e->slotk = (ret == base) ? 's' : (ret == NULL) ? 'n' : '?'; e->slot = 0; break;
        default:        e->slotk = (ret == NULL) ? 'n' : '?'; e->slot = 0; break;
    }
}

static int c12_spawn(qthread_f f, const void *arg, size_t arg_size, void *ret, size_t npreconds,
                     void *preconds, qthread_shepherd_id_t target, unsigned int flags)
{
    if (f == (qthread_f)qloop_wrapper) {
        const struct qloop_wrapper_args *a = arg;
        long k = __sync_fetch_and_add(&nev, 1);
        if (k < MAXLOG) { evs[k].kind = 'T'; evs[k].a = (long)a->id; evs[k].b = (long)a->level; slot_of(a->sync_type, a->sync, ret, &evs[k]); }
    } else if (f == (qthread_f)qt_loop_wrapper) {
        const struct qt_loop_wrapper_args *a = arg;
        long k = __sync_fetch_and_add(&nev, 1);
        if (k < MAXLOG) { evs[k].kind = 'W'; evs[k].a = (long)a->startat; evs[k].b = (long)a->id; slot_of(a->sync_type, a->sync, ret, &evs[k]); }
    }
    return (qthread_spawn)(f, arg, arg_size, ret, npreconds, preconds, target, flags);
}

/* ------------------------------------------------------------------ user function */
static void cb(const size_t lo, const size_t hi, void *arg)
{
    __sync_fetch_and_add(&active, 1);
    long k = __sync_fetch_and_add(&nlog, 1);
    if (k < MAXLOG) { rlog[k].lo = lo; rlog[k].hi = hi; }
    if (yield_every && ((k % yield_every) == 0)) qthread_yield();
    __sync_fetch_and_add(&ncalls, 1);
    __sync_fetch_and_add(&active, -1);
}

static int cmp_rng(const void *x, const void *y)
{
    const rng_t *a = x, *b = y;
    return (a->lo < b->lo) ? -1 : (a->lo > b->lo) ? 1 : (a->hi < b->hi) ? -1 : (a->hi > b->hi);
}

static int cmp_ev(const void *x, const void *y)
{
    const ev_t *a = x, *b = y;
    if (a->kind != b->kind) return a->kind - b->kind;
    return (a->a < b->a) ? -1 : (a->a > b->a) ? 1 : (a->b < b->b) ? -1 : (a->b > b->b);
}

static void print_events(char kind)
{
    long n = nev < MAXLOG ? nev : MAXLOG;
    qsort(evs, n, sizeof(ev_t), cmp_ev);
    printf("%c", kind);
    for (long i = 0; i < n; i++) {
        if (evs[i].kind != kind) continue;
        if (evs[i].slotk == 'i') printf(" %ld:%ld:%ld", evs[i].a, evs[i].b, evs[i].slot);
        else printf(" %ld:%ld:%c", evs[i].a, evs[i].b, evs[i].slotk);
    }
    printf("\n");
}

static void print_ranges(void)
{
    long n = nlog < MAXLOG ? nlog : MAXLOG;
    qsort(rlog, n, sizeof(rng_t), cmp_rng);
    printf("R");
    for (long i = 0; i < n; i++) printf(" %zu:%zu", rlog[i].lo, rlog[i].hi);
    printf("\n");
}

static void on_alarm(int s) { printf("TIMEOUT\n"); fflush(stdout); if (getenv("C12_HANG_PAUSE")) { for (;;) pause(); } _exit(3); }

typedef void (*loopfn)(size_t, size_t, qt_loop_f, void *);
static loopfn balance_fn(const char *fl)
{
    if (!strcmp(fl, "plain")) return (loopfn)qt_loop_balance;
    if (!strcmp(fl, "simple")) return (loopfn)qt_loop_balance_simple;
    if (!strcmp(fl, "sv")) return (loopfn)qt_loop_balance_sv;
    if (!strcmp(fl, "dc")) return (loopfn)qt_loop_balance_dc;
    if (!strcmp(fl, "aligned")) return (loopfn)qt_loop_balance_aligned;
    if (!strcmp(fl, "sinc")) return (loopfn)qt_loop_balance_sinc;
    return NULL;
}
static loopfn loop_fn(const char *fl)
{
    if (!strcmp(fl, "plain")) return (loopfn)qt_loop;
    if (!strcmp(fl, "simple_sinc")) return (loopfn)qt_loop_simple;
    if (!strcmp(fl, "sv")) return (loopfn)qt_loop_sv;
    if (!strcmp(fl, "dc")) return (loopfn)qt_loop_dc;
    if (!strcmp(fl, "aligned")) return (loopfn)qt_loop_aligned;
    if (!strcmp(fl, "sinc")) return (loopfn)qt_loop_sinc;
    return NULL;
}

/* ------------------------------------------------------------------ M3 threads */
static void *m3_thread(void *x)
{
    int tid = (int)(intptr_t)x;
    m3_tid = tid;
    sem_wait(&m3_go[tid]);
    struct qqloop_wrapper_range range = { 0, 0, 0 };
    while (GET(IQ, &SA, &range)) {
        int k = m3_nclaims[tid];
        if (k < 4096) { m3_claims[tid][k].lo = range.startat; m3_claims[tid][k].hi = range.stopat; }
        m3_nclaims[tid] = k + 1;
    }
    m3_pend[tid].kind = 0; m3_pend[tid].a = 0; m3_pend[tid].b = 0;
    __sync_synchronize();
    m3_done[tid] = 1;
    sem_post(&m3_back);
    return NULL;
}

static void m3_print(int tid)
{
    printf("G %d %ld %ld %d:%ld:%ld", tid, (long)IQ->start, (IQ->type == FACTORED) ? (long)IQ->type_specific_data.phase : 0L,
           m3_pend[tid].kind, m3_pend[tid].a, m3_pend[tid].b);
    for (int k = m3_printed[tid]; k < m3_nclaims[tid] && k < 4096; k++) printf(" %ld:%ld", (long)m3_claims[tid][k].lo, (long)m3_claims[tid][k].hi);
    m3_printed[tid] = m3_nclaims[tid];
    printf("\n");
}

static void m3_end(void)
{
    if (!IQ) return;
    m3_free = 1;
    __sync_synchronize();
    for (int i = 0; i < m3_n; i++) if (!m3_done[i]) sem_post(&m3_go[i]);
    for (int i = 0; i < m3_n; i++) pthread_join(m3_thr[i], NULL);
    unsigned keep = fake_nw;
    qqloop_destroy_iq(IQ);
    fake_nw = keep;
    IQ = NULL; m3_n = 0; m3_free = 0;
}

int main(void)
{
    static char line[1 << 12];
    signal(SIGALRM, on_alarm);
    if (getenv("C12_ALARM")) { wd_secs = (unsigned)atoi(getenv("C12_ALARM")); if (wd_secs < 5) wd_secs = 5; }
    if (qthread_initialize() != 0) { printf("INITFAIL\n"); return 2; }
    printf("H %u %u\n", (unsigned)(qthread_num_shepherds)(), (unsigned)(qthread_num_workers)());
    fflush(stdout);
    while (fgets(line, sizeof line, stdin)) {
        char fl[32]; size_t st, sp; unsigned fnw; int ye;
        if ((line[0] == 'B') || (line[0] == 'L')) {
            sscanf(line + 1, "%31s %zu %zu %u %d", fl, &st, &sp, &fnw, &ye);
            loopfn f = (line[0] == 'B') ? balance_fn(fl) : loop_fn(fl);
            if (!f) { printf("ERR\n"); fflush(stdout); continue; }
            nlog = 0; nev = 0; active = 0; ncalls = 0; fake_nw = fnw;
            yield_every = ((line[0] == 'B') && !strcmp(fl, "simple")) ? 0 : ye;   /* SPAWN_SIMPLE tasks may not yield */
            alarm(wd_secs);
            f(st, sp, cb, NULL);
            long act = active, nc = ncalls;
            alarm(0);
            fake_nw = 0;
            print_events('T');
            if (line[0] == 'L') print_events('W');
            print_ranges();
            printf(". %ld %ld\n", act, nc);
        } else if (line[0] == 'Q') {
            size_t incr, chunk; int mode;
            sscanf(line + 1, "%31s %zu %zu %zu %zu %d %u %d", fl, &st, &sp, &incr, &chunk, &mode, &fnw, &ye);
            qt_loop_queue_type ty = !strcmp(fl, "chunk") ? CHUNK : !strcmp(fl, "guided") ? GUIDED : !strcmp(fl, "factored") ? FACTORED : TIMED;
            nlog = 0; nev = 0; active = 0; ncalls = 0; fake_nw = fnw; yield_every = ye;
            alarm(wd_secs);
            qqloop_handle_t *h = qt_loop_queue_create(ty, st, sp, incr, cb, NULL);
            if (chunk && (ty == CHUNK)) qt_loop_queue_setchunk(h, chunk);
            printf("K %zu\n", h->stat.chunksize);
            if (mode == 0) qt_loop_queue_run(h); else qt_loop_queue_run_there(h, (qthread_shepherd_id_t)(mode - 1));
            long act = active, nc = ncalls;
            alarm(0);
            fake_nw = 0;
            print_ranges();
            printf(". %ld %ld\n", act, nc);
        } else if (line[0] == 'C') {
            long a, b, nth, nw, sheps, chunk, step, nsheps, lb0;
            m3_end();
            sscanf(line + 1, "%31s %ld %ld %ld %ld %ld %ld %ld %ld %ld", fl, &a, &b, &nth, &nw, &sheps, &chunk, &step, &nsheps, &lb0);
            qt_loop_queue_type ty = !strcmp(fl, "chunk") ? CHUNK : !strcmp(fl, "guided") ? GUIDED : !strcmp(fl, "factored") ? FACTORED : TIMED;
            if (nth > MAXT) nth = MAXT;
            fake_nw = (unsigned)nw;
            IQ = qqloop_create_iq((size_t)a, (size_t)b, (size_t)step, ty);
            if (ty == TIMED) for (long i = 0; i < nw; i++) IQ->type_specific_data.timed.lastblocks[i] = lb0;
            memset(&SA, 0, sizeof SA);
            SA.iq = IQ; SA.activesheps = (aligned_t)sheps; SA.chunksize = (size_t)chunk;
            GET = (ty == CHUNK) ? qqloop_get_iterations_chunked : (ty == GUIDED) ? qqloop_get_iterations_guided :
                  (ty == FACTORED) ? qqloop_get_iterations_factored : qqloop_get_iterations_timed;
            m3_n = (int)nth; m3_nsheps = (int)nsheps; m3_free = 0;
            sem_init(&m3_back, 0, 0);
            for (int i = 0; i < m3_n; i++) {
                sem_init(&m3_go[i], 0, 0); m3_done[i] = 0; m3_slow[i] = 0; m3_nclaims[i] = 0; m3_printed[i] = 0;
                m3_pend[i].kind = 4; m3_pend[i].a = m3_pend[i].b = 0;
                pthread_create(&m3_thr[i], NULL, m3_thread, (void *)(intptr_t)i);
            }
            printf("C\n");
        } else if (line[0] == 'g') {
            int tid, slow;
            sscanf(line + 1, "%d %d", &tid, &slow);
            if (!IQ || (tid < 0) || (tid >= m3_n)) { printf("ERR\n"); fflush(stdout); continue; }
            if (!m3_done[tid]) {
                m3_slow[tid] = slow;
                alarm(20);
                sem_post(&m3_go[tid]);
                sem_wait(&m3_back);
                alarm(0);
            }
            m3_print(tid);
        } else if (line[0] == 'E') {
            int all = 1;
            for (int i = 0; i < m3_n; i++) all &= m3_done[i];
            alarm(20);
            m3_end();
            alarm(0);
            fake_nw = 0;
            printf("E %d\n", all);
        } else if (line[0] == 'X') {
            break;
        }
        fflush(stdout);
    }
    m3_end();
    fflush(stdout);
    _exit(0);
}
