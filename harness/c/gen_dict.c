/* gen_dict.c -- (1) a wrapper function that just applies the macro REVERSE_BYTE of src/ds/dictionary/dictionary_shavit.c,
 * so that tools/ctrans.py can translate it on its own (the other kernels -- so_regularkey, so_dummykey, GET_PARENT, the
 * key / bucket arithmetic of qt_hash_put -- are functions of that file and are translated from it directly);
 * (2) with -DGEN_MAIN the M1 harness of the regeneration tie (lib/verif/props/_gen.py): the same kernels called
 * directly.  White-box include of the working tree's file.
 *   R x -> r REVERSE_BYTE(x)      K x -> k so_regularkey(x)      D x -> d so_dummykey(x)      P x -> p GET_PARENT(x)
 *   B lkey size -> b <lkey after HASH_KEY> <bucket>     (HASH_KEY without USE_HASHWORD: lkey &= ~MSB; bucket = lkey % size)
 *   W cap n     -> w <h->size after each of n puts of distinct keys into a fresh dictionary with hard_max_buckets = cap>
 *                  (needs the runtime: started on the first W)
 */
#include <stdint.h>
#include <stdio.h>
#include "ds/dictionary/dictionary_shavit.c"

so_key_t gen_REVERSE_BYTE(so_key_t x)
{
    return REVERSE_BYTE(x);
}

#ifdef GEN_MAIN
static int gen_eq(void *a, void *b) { return a == b; }
static int gen_hashf(void *k) { return (int)(uintptr_t)k; }
int main(void)
{
    char line[256];
    int  inited = 0;

    while (fgets(line, sizeof line, stdin)) {
        unsigned long a = 0, b = 0;
        if (line[0] == 'R' && sscanf(line + 1, "%lu", &a) == 1) {
            printf("r %lu\n", (unsigned long)gen_REVERSE_BYTE(a));
        } else if (line[0] == 'K' && sscanf(line + 1, "%lu", &a) == 1) {
            printf("k %lu\n", (unsigned long)so_regularkey(a));
        } else if (line[0] == 'D' && sscanf(line + 1, "%lu", &a) == 1) {
            printf("d %lu\n", (unsigned long)so_dummykey(a));
        } else if (line[0] == 'P' && sscanf(line + 1, "%lu", &a) == 1) {
            printf("p %lu\n", (unsigned long)GET_PARENT(a));
        } else if (line[0] == 'B' && sscanf(line + 1, "%lu %lu", &a, &b) == 2) {
            uint64_t lkey = a;
            HASH_KEY(lkey);
            printf("b %lu %lu\n", (unsigned long)lkey, (unsigned long)(lkey % b));
        } else if (line[0] == 'W' && sscanf(line + 1, "%lu %lu", &a, &b) == 2) {
            if (!inited) { if (qthread_initialize() != 0) { printf("w init-failed\n"); continue; } inited = 1; }
            hard_max_buckets = a;
            qt_dictionary *d = qt_dictionary_create(gen_eq, gen_hashf, NULL);
            printf("w");
            for (unsigned long i = 0; i < b; i++) {
                qt_dictionary_put(d, (void *)(uintptr_t)(i + 1), (void *)(uintptr_t)(i + 1));
                printf(" %lu", (unsigned long)d->size);
            }
            printf("\n");
            qt_dictionary_destroy(d);
        } else if (line[0] == 'Q') {
            break;
        }
        fflush(stdout);
    }
    return 0;
}
#endif
