/* white-box feb.c of the working tree: wake-up / precondition-launch enqueues are logged (C04/C07) */
#include "c04_ipose.h"
#define C04_TU 1
#include "feb.c"
