/* white-box feb.c of the working tree: wake-up / precondition-launch enqueues are logged (C04/C07) */
#define C04_TU 1
#include "c04_ipose.h"
#include "feb.c"
