#!/bin/bash
# MANIFEST.setup_cmd: full clean build of the Coq development (.vo, never -vos) + extracted OCaml drivers
set -e
cd "$(dirname "$0")"
# gate: nothing admitted, no axioms declared, no checks switched off
if grep -rnE '\b(Admitted|admit|Axiom|Parameter|Conjecture|Admit Obligations|Unset Guard|bypass_check|type-in-type|impredicative-set)\b' coq/theories --include='*.v' | grep -v '^\S*:[0-9]*:\s*(\*' ; then
  echo "setup: forbidden construct in the Coq development" >&2; exit 1; fi
rm -f coq/_CoqProject coq/Makefile coq/Makefile.conf
find coq/theories \( -name '*.vo' -o -name '*.vok' -o -name '*.vos' -o -name '*.glob' -o -name '.*.aux' \) -delete
rm -rf ocaml/bin ocaml/build; mkdir -p ocaml/gen ocaml/bin
./tools/gen_coqproject.sh
mkdir -p .cache
(cd coq && timeout 3400 make -j16 > ../.cache/coq_build.log 2>&1) || { tail -60 .cache/coq_build.log; echo "setup: Coq build failed" >&2; exit 1; }
for d in ocaml/*_driver.ml; do [ -f "$d" ] || continue; n=$(basename $d .ml); make -s -C ocaml bin/$n; done
echo "setup ok"
