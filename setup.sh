#!/bin/bash
# MANIFEST.setup_cmd: full clean build of the Coq development (.vo, never -vos) + extracted OCaml drivers
set -e
cd "$(dirname "$0")"
# gate: nothing admitted, no axioms declared, no checks switched off
if grep -rnE '\b(Admitted|admit|Axiom|Parameter|Conjecture|Admit Obligations|Unset Guard|bypass_check|type-in-type|impredicative-set)\b' coq/theories --include='*.v' | grep -v '^\S*:[0-9]*:\s*(\*' ; then
  echo "setup: forbidden construct in the Coq development" >&2; exit 1; fi
rm -f coq/_CoqProject coq/Makefile coq/Makefile.conf
find coq/theories \( -name '*.vo' -o -name '*.vok' -o -name '*.vos' -o -name '*.glob' -o -name '.*.aux' \) -delete
rm -rf ocaml/bin ocaml/build; mkdir -p ocaml/gen ocaml/bin
./tools/gen_coqproject.sh
mkdir -p .cache
# full .vo build of everything (-k: a file of a property that is not yet claimed must not block the others)
(cd coq && timeout 3400 make -k -j16 > ../.cache/coq_build.log 2>&1) || echo "setup: some Coq files did not build (see .cache/coq_build.log); checking the claimed ones"
rc=0
for p in $(cat manifest/_accepted.txt); do
  [ -f "coq/theories/Properties/Properties_$p.vo" ] || { echo "setup: Properties_$p.vo was not built" >&2; grep -B2 -A12 "Error" .cache/coq_build.log | head -60; rc=1; }
done
for d in ocaml/*_driver.ml; do [ -f "$d" ] || continue; n=$(basename $d .ml); make -s -C ocaml bin/$n || { echo "setup: driver $n did not build" >&2; case " $(cat manifest/_accepted.txt | tr 'A-Z' 'a-z') " in *" ${n%%_driver} "*) rc=1;; esac; }; done
[ $rc = 0 ] && echo "setup ok"
exit $rc
