(* C03 micro-step layer (extension B): exhaustive sweep (src/syncvar.c as it is) of the 11 x 11 pairs of calls from initial state IEmptyFE
   (reachable-set certificates, MicroAllProofs.cert_sound); finite domain, by vm_compute. *)
From Coq Require Import List NArith Bool.
From QV Require Import Syncvar.Defs Syncvar.CellSpec Syncvar.MicroAll Syncvar.MicroAllProofs.

(* all pairs, strict *)
Lemma cur_IEmptyFE : sweep (mstep ITMO) good_final no_skip IEmptyFE = true.
Proof. vm_compute. reflexivity. Qed.
