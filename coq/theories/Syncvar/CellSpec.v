(* C03: the abstract full/empty cell, written from the property text (no state bits, no hash records, no bit packing).
   A syncvar is a cell (full?, 60-bit value) plus the sets of blocked operations, kept as lists in arrival order (most
   recent first).  One step = the caller's operation taking effect atomically (or blocking / failing / being rejected),
   followed by the wake-ups the property demands:
     - when the cell is full: EVERY blocked readFF returns the value, then exactly ONE blocked readFE (if any) returns the
       value and leaves the cell empty;
     - when the cell is empty: exactly ONE blocked writeEF (if any) stores its value and leaves the cell full.
   Values >= 2^60 are rejected with OVERFLOW and no state change.  incrF adds modulo 2^60, returns the new value, and
   (this is the code's documented-by-behaviour choice) marks the cell full iff readers are waiting. *)
From Coq Require Import List NArith Bool.
From QV Require Import Syncvar.Defs.
Import ListNotations.
Local Open Scope N_scope.

Record cell := mkC { c_full : bool; c_val : N }.
Record astate := mkA { a_cell : cell; pEF : list waiter; pFE : list waiter; pFF : list waiter }.

Definition wake (c : cell) (ef fe ff : list waiter) : astate * list event :=
  if c_full c then
    let evff := map (fun b => Ret (w_tid b) RC_SUCCESS (dval (w_dest b) (c_val c))) ff in
    match fe with
    | [] => (mkA c ef [] [], evff)
    | b :: rest => (mkA (mkC false (c_val c)) ef rest [], evff ++ [Ret (w_tid b) RC_SUCCESS (dval (w_dest b) (c_val c))])
    end
  else
    match ef with
    | [] => (mkA c [] fe ff, [])
    | b :: rest => (mkA (mkC true (w_val b)) rest fe ff, [Ret (w_tid b) RC_SUCCESS None])
    end.

Definition after (first : event) (r : astate * list event) : astate * list event := (fst r, first :: snd r).

Definition rejected (o : op) : bool :=
  match o with WriteF v | WriteEF v | WriteEF_nb v => two60 <=? v | _ => false end.

Definition spec_step (a : astate) (t : N) (o : op) : astate * list event :=
  if rejected o then (a, [Ret t RC_OVERFLOW None]) else
  let c := a_cell a in
  let v := c_val c in
  match o with
  | ReadFF d =>
      if c_full c then (a, [Ret t RC_SUCCESS (dval d v)])
      else (mkA c (pEF a) (pFE a) (mkW t 0 d :: pFF a), [Blocked t])
  | ReadFF_nb d =>
      if c_full c then (a, [Ret t RC_SUCCESS (dval d v)]) else (a, [Ret t RC_OPFAIL None])
  | ReadFE d =>
      if c_full c then after (Ret t RC_SUCCESS (dval d v)) (wake (mkC false v) (pEF a) (pFE a) (pFF a))
      else (mkA c (pEF a) (mkW t 0 d :: pFE a) (pFF a), [Blocked t])
  | ReadFE_nb d =>
      if c_full c then after (Ret t RC_SUCCESS (dval d v)) (wake (mkC false v) (pEF a) (pFE a) (pFF a))
      else (a, [Ret t RC_OPFAIL None])
  | WriteEF x =>
      if c_full c then (mkA c (mkW t x false :: pEF a) (pFE a) (pFF a), [Blocked t])
      else after (Ret t RC_SUCCESS None) (wake (mkC true x) (pEF a) (pFE a) (pFF a))
  | WriteEF_nb x =>
      if c_full c then (a, [Ret t RC_OPFAIL None])
      else after (Ret t RC_SUCCESS None) (wake (mkC true x) (pEF a) (pFE a) (pFF a))
  | WriteF x => after (Ret t RC_SUCCESS None) (wake (mkC true x) (pEF a) (pFE a) (pFF a))
  | Fill => after (Ret t RC_SUCCESS None) (wake (mkC true v) (pEF a) (pFE a) (pFF a))
  | Empty => after (Ret t RC_SUCCESS None) (wake (mkC false v) (pEF a) (pFE a) (pFF a))
  | IncrF inc =>
      let nv := wrap60 (v + inc) in
      let full' := c_full c || nonnil (pFE a) || nonnil (pFF a) in
      after (Ret t RC_SUCCESS (Some nv)) (wake (mkC full' nv) (pEF a) (pFE a) (pFF a))
  | Status => (a, [Ret t RC_SUCCESS (Some (if c_full c then 1 else 0))])
  end.

(* no blocked operation is enabled *)
Definition quiescent (a : astate) : Prop :=
  (c_full (a_cell a) = true -> pFE a = [] /\ pFF a = []) /\ (c_full (a_cell a) = false -> pEF a = []).

Theorem spec_quiescent : forall a t o a' evs,
  quiescent a -> spec_step a t o = (a', evs) -> quiescent a'.
Proof.
  intros [[f v] ef fe ff] t o a' evs [Hf He]. cbn in Hf, He.
  unfold spec_step. destruct (rejected o).
  { intro H; inversion H; subst. split; assumption. }
  destruct f.
  - destruct (Hf eq_refl) as [-> ->].
    destruct o; cbn; unfold after, wake; cbn; try (destruct ef as [|b ef]); cbn;
      intro H; inversion H; subst; split; cbn; intros; try discriminate; auto.
  - rewrite (He eq_refl).
    destruct o; cbn; unfold after, wake; cbn; try (destruct fe as [|b fe]); try (destruct ff as [|g ff]); cbn;
      intro H; inversion H; subst; split; cbn; intros; try discriminate; auto.
Qed.

(* the wake-up clauses, as facts about [wake] *)
Theorem wake_full_releases : forall v ef fe ff a' evs,
  wake (mkC true v) ef fe ff = (a', evs) ->
  evs = map (fun b => Ret (w_tid b) RC_SUCCESS (dval (w_dest b) v)) (ff ++ firstn 1 fe) /\
  pFF a' = [] /\ pFE a' = skipn 1 fe /\ pEF a' = ef /\
  c_full (a_cell a') = negb (nonnil fe) /\ c_val (a_cell a') = v.
Proof.
  intros v ef fe ff a' evs. unfold wake. cbn. destruct fe as [|b rest]; intro H; inversion H; subst; cbn.
  - rewrite app_nil_r. repeat split; reflexivity.
  - rewrite map_app. repeat split; reflexivity.
Qed.

Theorem wake_empty_releases : forall v ef fe ff a' evs,
  wake (mkC false v) ef fe ff = (a', evs) ->
  evs = map (fun b => Ret (w_tid b) RC_SUCCESS None) (firstn 1 ef) /\
  pEF a' = skipn 1 ef /\ pFE a' = fe /\ pFF a' = ff /\
  c_full (a_cell a') = nonnil ef /\ c_val (a_cell a') = match ef with b :: _ => w_val b | [] => v end.
Proof.
  intros v ef fe ff a' evs. unfold wake. cbn. destruct ef as [|b rest]; intro H; inversion H; subst; cbn; repeat split; reflexivity.
Qed.
