(* C03, micro-step layer: the syncvar word as a CAS lock.
   Each thread is a program counter over ATOMIC accesses to one 64-bit word (sequential consistency; an atomic CAS is the
   hardware assumption, as in C18).  Transcribed from qthread_mwaitc (amd64 branch) + the bodies of qthread_syncvar_incrF
   and qthread_syncvar_writeF (their no-readers-waiting branch, which touches nothing but the word):
       loop_start: tmp = *addr;                                   (PcRead: one load)
                   if (tmp.lock) goto loop_start;                 (spin)
                   locked = tmp | lock;
                   tmp = CAS(addr, tmp, locked)                   (PcCas: one CAS)
                   on failure: retry with the value the CAS returned (or goto loop_start when that value is locked)
       if (statemask & (1 << state)) ... else { addr->u.s.lock = 0; retry }     (PcLocked; SYNCFEB_ANY = states 0..3)
       incrF : newv = INT64TOINT60(operand->u.s.data + inc);      (PcLocked -> PcStore: one load of the data field)
               addr->u.w = BUILD_UNLOCKED_SYNCVAR(newv, (pf<<1)|sf);  return newv   (PcStore: one store, clears the lock)
       writeF: addr->u.w = BUILD_UNLOCKED_SYNCVAR(v, sf);  return 0                  (PcLocked: one store)
   The word is kept decoded (lock, state, data); Properties_C03.payload_roundtrip is what makes that faithful.
   Timeouts are INT_MAX for these calls and are not modelled (a thread may spin for ever; the theorems are about every
   reachable state, so they cover every finite prefix of every execution). *)
From Coq Require Import List NArith Bool Lia Arith.
From QV Require Import Syncvar.Defs Syncvar.BitProofs.
Import ListNotations.
Local Open Scope N_scope.

Record mword := mkMW { lk : bool; mst : N; mdat : N }.
Definition mword_eqb (a b : mword) : bool := Bool.eqb (lk a) (lk b) && N.eqb (mst a) (mst b) && N.eqb (mdat a) (mdat b).

Inductive prog := PIncr (inc : N) | PWriteF (v : N).
Inductive pc :=
| PcRead
| PcCas (unl : mword)
| PcLocked (l : mword)
| PcStore (d : N) (l : mword)
| PcDone (ret : N).
Record thread := mkT { t_prog : prog; t_pc : pc }.
(* hist is a ghost log (never read by a step): (thread, increment, returned value) in the order of the releasing stores *)
Record mstate := mkMS { mw : mword; thr : list thread; hist : list (nat * N * N) }.

Fixpoint upd (l : list thread) (t : nat) (x : thread) : list thread :=
  match l, t with
  | [], _ => []
  | _ :: r, O => x :: r
  | a :: r, S t' => a :: upd r t' x
  end.

Definition set_pc (s : mstate) (t : nat) (th : thread) (p : pc) : mstate :=
  mkMS (mw s) (upd (thr s) t (mkT (t_prog th) p)) (hist s).
Definition set_w_pc (s : mstate) (t : nat) (th : thread) (w : mword) (p : pc) : mstate :=
  mkMS w (upd (thr s) t (mkT (t_prog th) p)) (hist s).

Definition mstep (s : mstate) (t : nat) : option mstate :=
  match nth_error (thr s) t with
  | None => None
  | Some th =>
      match t_pc th with
      | PcRead => let tmp := mw s in
                  if lk tmp then Some s else Some (set_pc s t th (PcCas tmp))
      | PcCas unl =>
          if mword_eqb (mw s) unl
          then let l := mkMW true (mst unl) (mdat unl) in Some (set_w_pc s t th l (PcLocked l))
          else let tmp := mw s in
               if lk tmp then Some (set_pc s t th PcRead) else Some (set_pc s t th (PcCas tmp))
      | PcLocked l =>
          if mst l <? 4 then
            match t_prog th with
            | PIncr _ => Some (set_pc s t th (PcStore (mdat (mw s)) l))
            | PWriteF v => Some (set_w_pc s t th (mkMW false (N.land (mst l) 1) (wrap60 v)) (PcDone 0))
            end
          else Some (set_w_pc s t th (mkMW false (mst (mw s)) (mdat (mw s))) PcRead)
      | PcStore d l =>
          match t_prog th with
          | PIncr inc =>
              let newv := wrap60 (d + inc) in
              Some (mkMS (mkMW false (N.land (mst l) 3) newv) (upd (thr s) t (mkT (t_prog th) (PcDone newv)))
                         (hist s ++ [(t, inc, newv)]))
          | PWriteF _ => None
          end
      | PcDone _ => None
      end
  end.

(* a schedule is any list of thread ids; disabled threads (finished / non-existent) are skipped *)
Fixpoint mrun (s : mstate) (sched : list nat) : mstate :=
  match sched with
  | [] => s
  | t :: r => match mstep s t with Some s' => mrun s' r | None => mrun s r end
  end.

(* ---------- sums over the thread list ---------- *)
Definition sumf (f : thread -> N) (l : list thread) : N := fold_right (fun th a => f th + a) 0 l.

Lemma sumf_upd : forall f l t th x, nth_error l t = Some th -> sumf f (upd l t x) + f th = sumf f l + f x.
Proof.
  intros f l. induction l as [|a l IH]; intros t th x H.
  - destruct t; discriminate.
  - destruct t as [|t]; cbn in H.
    + inversion H; subst. unfold sumf. cbn. lia.
    + specialize (IH t th x H). unfold sumf in *. cbn. lia.
Qed.

Lemma sumf_zero : forall f l, sumf f l = 0 -> Forall (fun th => f th = 0) l.
Proof.
  intros f l. induction l as [|a l IH]; intro H; constructor; unfold sumf in *; cbn in H.
  - lia.
  - apply IH. lia.
Qed.

Lemma nth_upd_same : forall l t x th, nth_error l t = Some th -> nth_error (upd l t x) t = Some x.
Proof.
  induction l as [|a l IH]; intros t x th H; destruct t; cbn in *; try discriminate; [reflexivity|].
  eapply IH; eassumption.
Qed.

Lemma nth_upd_other : forall l t t' x, t <> t' -> nth_error (upd l t x) t' = nth_error l t'.
Proof.
  induction l as [|a l IH]; intros t t' x H; destruct t, t'; cbn; try reflexivity; try congruence.
  apply IH. congruence.
Qed.

Lemma Forall_upd : forall (P : thread -> Prop) l t x, Forall P l -> P x -> Forall P (upd l t x).
Proof.
  intros P l. induction l as [|a l IH]; intros t x Hl Hx; destruct t; cbn; inversion Hl; subst; constructor; auto.
Qed.

(* ---------- invariant ---------- *)
Definition holder (th : thread) : N := match t_pc th with PcLocked _ | PcStore _ _ => 1 | _ => 0 end.
Definition thread_ok (w : mword) (th : thread) : Prop :=
  match t_pc th with
  | PcCas unl => lk unl = false
  | PcLocked l => w = l /\ lk l = true
  | PcStore d l => w = l /\ lk l = true /\ d = mdat l /\ exists inc, t_prog th = PIncr inc
  | _ => True
  end.

(* lock_bit_mutex: the lock bit is set iff exactly one thread is between its successful CAS and its releasing store, and
   while it is there the word is exactly what that thread locked (nobody else has written it) *)
Definition mutex_inv (s : mstate) : Prop :=
  sumf holder (thr s) = (if lk (mw s) then 1 else 0) /\ Forall (thread_ok (mw s)) (thr s).

Lemma nonholder_ok : forall w w' th, holder th = 0 -> thread_ok w th -> thread_ok w' th.
Proof. intros w w' th H Ho. unfold holder, thread_ok in *. destruct (t_pc th); try exact I; try exact Ho; discriminate. Qed.

Lemma all_nonholders : forall w w' l, sumf holder l = 0 -> Forall (thread_ok w) l -> Forall (thread_ok w') l.
Proof.
  intros w w' l H0 Hl. apply sumf_zero in H0.
  induction l as [|a l IH]; constructor; inversion Hl; inversion H0; subst.
  - eapply nonholder_ok; eassumption.
  - apply IH; assumption.
Qed.

(* replacing the only holder by a non-holder leaves no holder *)
Lemma others_nonholders : forall w w' l t th x,
  nth_error l t = Some th -> holder th = 1 -> sumf holder l = 1 -> holder x = 0 -> thread_ok w' x ->
  Forall (thread_ok w) l -> Forall (thread_ok w') (upd l t x).
Proof.
  intros w w' l t th x Hn Hh Hs Hx Hxo Hl.
  pose proof (sumf_upd holder l t th x Hn) as E. rewrite Hh, Hs, Hx in E.
  assert (Z0 : sumf holder (upd l t x) = 0) by lia.
  assert (Hnh : Forall (fun th => holder th = 0) (upd l t x)) by (apply sumf_zero; exact Z0).
  assert (Hor : Forall (fun th => thread_ok w th \/ thread_ok w' th) (upd l t x)).
  { apply Forall_upd; [|right; exact Hxo]. eapply Forall_impl; [|exact Hl]. intros a Ha. left. exact Ha. }
  rewrite Forall_forall in *. intros a Ha.
  destruct (Hor a Ha) as [H|H]; [|exact H]. eapply nonholder_ok; [apply Hnh; exact Ha|exact H].
Qed.

Lemma mword_eqb_eq : forall a b, mword_eqb a b = true -> a = b.
Proof.
  intros [l1 s1 d1] [l2 s2 d2]. unfold mword_eqb. cbn. intro H.
  apply andb_true_iff in H. destruct H as [H Hd]. apply andb_true_iff in H. destruct H as [Hl Hs].
  apply eqb_prop in Hl. apply N.eqb_eq in Hs. apply N.eqb_eq in Hd. subst. reflexivity.
Qed.

Lemma nth_Forall : forall (P : thread -> Prop) l t th, Forall P l -> nth_error l t = Some th -> P th.
Proof.
  intros P l t th Hl Hn. rewrite Forall_forall in Hl. apply Hl. eapply nth_error_In; eassumption.
Qed.

Ltac holder_of Hpc := unfold holder; cbn [t_pc]; rewrite ?Hpc; cbn.

Lemma mstep_mutex : forall s t s', mutex_inv s -> mstep s t = Some s' -> mutex_inv s'.
Proof.
  intros s t s' [Hc Hf] Hstep. unfold mstep in Hstep.
  destruct (nth_error (thr s) t) as [th|] eqn:Hn; [|discriminate].
  pose proof (nth_Forall _ _ _ _ Hf Hn) as Hth. unfold thread_ok in Hth.
  assert (Hh : holder th = match t_pc th with PcLocked _ | PcStore _ _ => 1 | _ => 0 end) by reflexivity.
  destruct (t_pc th) as [|unl|l|d l|r] eqn:Hpc.
  - (* PcRead *)
    destruct (lk (mw s)) eqn:Hlk; inversion Hstep; subst; clear Hstep; [split; [rewrite Hlk|]; assumption|].
    unfold mutex_inv, set_pc; cbn [mw thr]. split.
    + pose proof (sumf_upd holder (thr s) t th (mkT (t_prog th) (PcCas (mw s))) Hn) as E.
      rewrite Hh in E. cbn in E. rewrite Hlk in *. lia.
    + apply Forall_upd; [assumption|]. unfold thread_ok; cbn. exact Hlk.
  - (* PcCas *)
    destruct (mword_eqb (mw s) unl) eqn:Heq.
    + apply mword_eqb_eq in Heq. injection Hstep as Hs'. subst s'.
      rewrite Heq, Hth in Hc.
      unfold mutex_inv, set_w_pc; cbn [mw thr lk]. split.
      * pose proof (sumf_upd holder (thr s) t th (mkT (t_prog th) (PcLocked (mkMW true (mst unl) (mdat unl)))) Hn) as E.
        rewrite Hh in E. cbn in E. lia.
      * apply Forall_upd.
        -- eapply all_nonholders; eassumption.
        -- unfold thread_ok; cbn. split; reflexivity.
    + destruct (lk (mw s)) eqn:Hlk; inversion Hstep; subst; clear Hstep; unfold mutex_inv, set_pc; cbn [mw thr]; split.
      * pose proof (sumf_upd holder (thr s) t th (mkT (t_prog th) PcRead) Hn) as E. rewrite Hh in E. cbn in E. rewrite Hlk in *. lia.
      * apply Forall_upd; [assumption|exact I].
      * pose proof (sumf_upd holder (thr s) t th (mkT (t_prog th) (PcCas (mw s))) Hn) as E. rewrite Hh in E. cbn in E. rewrite Hlk in *. lia.
      * apply Forall_upd; [assumption|]. unfold thread_ok; cbn. exact Hlk.
  - (* PcLocked: holds the lock *)
    destruct Hth as [Hw Hl]. rewrite Hw, Hl in Hc.
    destruct (mst l <? 4).
    + destruct (t_prog th) as [inc|v] eqn:Hp; inversion Hstep; subst; clear Hstep.
      * unfold mutex_inv, set_pc; cbn [mw thr]. split.
        -- pose proof (sumf_upd holder (thr s) t th (mkT (t_prog th) (PcStore (mdat (mw s)) (mw s))) Hn) as E.
           rewrite Hh in E. cbn in E. rewrite Hl. lia.
        -- apply Forall_upd; [assumption|]. unfold thread_ok; cbn. repeat split; try assumption. exists inc. exact Hp.
      * unfold mutex_inv, set_w_pc; cbn [mw thr lk]. split.
        -- pose proof (sumf_upd holder (thr s) t th (mkT (t_prog th) (PcDone 0)) Hn) as E. rewrite Hh in E. cbn in E. lia.
        -- eapply others_nonholders; try eassumption; try reflexivity; try exact I.
    + inversion Hstep; subst; clear Hstep. unfold mutex_inv, set_w_pc; cbn [mw thr lk]. split.
      * pose proof (sumf_upd holder (thr s) t th (mkT (t_prog th) PcRead) Hn) as E. rewrite Hh in E. cbn in E. lia.
      * eapply others_nonholders; try eassumption; try reflexivity; try exact I.
  - (* PcStore *)
    destruct Hth as [Hw [Hl [Hd [inc Hp]]]]. rewrite Hw, Hl in Hc. rewrite Hp in Hstep.
    injection Hstep as Hs'. subst s'. unfold mutex_inv; cbn [mw thr lk]. split.
    + pose proof (sumf_upd holder (thr s) t th (mkT (t_prog th) (PcDone (wrap60 (d + inc)))) Hn) as E. rewrite Hh, Hp in E. cbn in E. lia.
    + eapply others_nonholders; try eassumption; try reflexivity; try exact I.
  - discriminate.
Qed.

Lemma mrun_mutex : forall sched s, mutex_inv s -> mutex_inv (mrun s sched).
Proof.
  induction sched as [|t r IH]; intros s H; cbn; [exact H|].
  destruct (mstep s t) as [s'|] eqn:E; [apply IH; eapply mstep_mutex; eassumption|apply IH; exact H].
Qed.

(* ---------- incrF: no lost increment under any interleaving ---------- *)
Definition is_done (p : pc) : bool := match p with PcDone _ => true | _ => false end.
Definition inc_of (th : thread) : N := match t_prog th with PIncr i => i | PWriteF _ => 0 end.
Definition done_inc (th : thread) : N := if is_done (t_pc th) then inc_of th else 0.
Definition all_incr (l : list thread) : Prop := Forall (fun th => exists inc, t_prog th = PIncr inc) l.

(* what one step can do to the data: nothing, or (the releasing store of an incrF) add its increment and finish *)
Lemma mstep_frame : forall s t s',
  mutex_inv s -> all_incr (thr s) -> mstep s t = Some s' ->
  s' = s \/
  exists th p', nth_error (thr s) t = Some th /\ is_done (t_pc th) = false /\
                thr s' = upd (thr s) t (mkT (t_prog th) p') /\
    ((is_done p' = false /\ hist s' = hist s /\ mdat (mw s') = mdat (mw s)) \/
     (exists inc, t_prog th = PIncr inc /\ p' = PcDone (wrap60 (mdat (mw s) + inc)) /\
                  hist s' = hist s ++ [(t, inc, wrap60 (mdat (mw s) + inc))] /\
                  mdat (mw s') = wrap60 (mdat (mw s) + inc))).
Proof.
  intros s t s' [Hc Hf] Hai Hstep. unfold mstep in Hstep.
  destruct (nth_error (thr s) t) as [th|] eqn:Hn; [|discriminate].
  pose proof (nth_Forall _ _ _ _ Hf Hn) as Hth. unfold thread_ok in Hth.
  pose proof (nth_Forall _ _ _ _ Hai Hn) as [inc0 Hp0].
  destruct (t_pc th) as [|unl|l|d l|r] eqn:Hpc.
  - destruct (lk (mw s)); injection Hstep as Hs'; subst s'; [left; reflexivity|].
    right. exists th, (PcCas (mw s)). rewrite Hpc. repeat split; try reflexivity. left. repeat split; reflexivity.
  - destruct (mword_eqb (mw s) unl) eqn:Heq.
    + apply mword_eqb_eq in Heq. injection Hstep as Hs'; subst s'.
      right. exists th, (PcLocked (mkMW true (mst unl) (mdat unl))). rewrite Hpc. repeat split; try reflexivity.
      left. repeat split; try reflexivity. cbn. rewrite Heq. reflexivity.
    + destruct (lk (mw s)); injection Hstep as Hs'; subst s'; right.
      * exists th, PcRead. rewrite Hpc. repeat split; try reflexivity. left. repeat split; reflexivity.
      * exists th, (PcCas (mw s)). rewrite Hpc. repeat split; try reflexivity. left. repeat split; reflexivity.
  - rewrite Hp0 in Hstep. destruct (mst l <? 4); injection Hstep as Hs'; subst s'; right.
    + exists th, (PcStore (mdat (mw s)) l). rewrite Hpc. repeat split; try reflexivity. left. repeat split; reflexivity.
    + exists th, PcRead. rewrite Hpc. repeat split; try reflexivity. left. repeat split; reflexivity.
  - destruct Hth as [Hw [Hl [Hd _]]]. rewrite Hp0 in Hstep. injection Hstep as Hs'; subst s'. right.
    exists th, (PcDone (wrap60 (d + inc0))). rewrite Hpc. repeat split; try reflexivity.
    + cbn. rewrite Hp0. reflexivity.
    + right. exists inc0. subst d. rewrite <- Hw. repeat split; try reflexivity. exact Hp0.
  - discriminate.
Qed.

Lemma all_incr_upd : forall l t th p, all_incr l -> nth_error l t = Some th -> all_incr (upd l t (mkT (t_prog th) p)).
Proof.
  intros l t th p Ha Hn. apply Forall_upd; [exact Ha|]. exact (nth_Forall _ _ _ _ Ha Hn).
Qed.

(* running sums along the ghost log *)
Fixpoint hist_ok (d : N) (h : list (nat * N * N)) : Prop :=
  match h with
  | [] => True
  | (_, inc, r) :: rest => r = wrap60 (d + inc) /\ hist_ok r rest
  end.
Definition last_val (d : N) (h : list (nat * N * N)) : N := fold_left (fun _ e => snd e) h d.

Lemma hist_ok_app : forall h d t inc r,
  hist_ok d h -> r = wrap60 (last_val d h + inc) -> hist_ok d (h ++ [(t, inc, r)]).
Proof.
  induction h as [|[[t0 i0] r0] h IH]; intros d t inc r Hh Hr; cbn in *.
  - split; [exact Hr|exact I].
  - destruct Hh as [H0 Hrest]. split; [exact H0|]. apply IH; assumption.
Qed.

Lemma last_val_app : forall h d e, last_val d (h ++ [e]) = snd e.
Proof. intros h d e. unfold last_val. rewrite fold_left_app. reflexivity. Qed.

Definition tid_of (e : nat * N * N) : nat := fst (fst e).

Record data_inv (d0 : N) (s : mstate) : Prop := {
  di_incr : all_incr (thr s);
  di_sum  : mdat (mw s) = wrap60 (d0 + sumf done_inc (thr s));
  di_hist : hist_ok d0 (hist s);
  di_last : mdat (mw s) = last_val d0 (hist s);
  di_done : forall t th r, nth_error (thr s) t = Some th -> t_pc th = PcDone r -> In (t, inc_of th, r) (hist s);
  di_log  : forall t i r, In (t, i, r) (hist s) ->
                          exists th, nth_error (thr s) t = Some th /\ t_pc th = PcDone r /\ inc_of th = i;
  di_nodup : NoDup (map tid_of (hist s)) }.

Lemma NoDup_app_one : forall (l : list nat) x, NoDup l -> ~ In x l -> NoDup (l ++ [x]).
Proof.
  induction l as [|a l IH]; intros x Hn Hx; cbn.
  - constructor; [intros []|constructor].
  - inversion Hn; subst. constructor.
    + intro Hin. apply in_app_or in Hin. destruct Hin as [Hin|[Hin|[]]]; [contradiction|]. subst. apply Hx. left. reflexivity.
    + apply IH; [assumption|]. intro. apply Hx. right. assumption.
Qed.

Lemma mstep_data : forall d0 s t s',
  mutex_inv s -> data_inv d0 s -> mstep s t = Some s' -> data_inv d0 s'.
Proof.
  intros d0 s t s' Hm [Hai Hsum Hh Hlast Hdone Hlog Hnd] Hstep.
  destruct (mstep_frame _ _ _ Hm Hai Hstep) as [->|[th [p' [Hn [Hnd0 [Hthr Hcase]]]]]].
  { constructor; assumption. }
  assert (Hdi : done_inc th = 0) by (unfold done_inc; rewrite Hnd0; reflexivity).
  destruct Hcase as [[Hp' [Hhist Hdat]]|[inc [Hp [Hp' [Hhist Hdat]]]]].
  - (* no effect on the data *)
    constructor; rewrite ?Hthr, ?Hhist, ?Hdat.
    + apply all_incr_upd; assumption.
    + pose proof (sumf_upd done_inc (thr s) t th (mkT (t_prog th) p') Hn) as E.
      assert (Ex : done_inc (mkT (t_prog th) p') = 0) by (unfold done_inc; cbn; rewrite Hp'; reflexivity).
      rewrite Hdi, Ex in E.
      replace (sumf done_inc (upd (thr s) t (mkT (t_prog th) p'))) with (sumf done_inc (thr s)) by lia. exact Hsum.
    + exact Hh.
    + exact Hlast.
    + intros t1 th1 r H1 H2. destruct (Nat.eq_dec t t1) as [->|Hne].
      * rewrite (nth_upd_same _ _ _ _ Hn) in H1. inversion H1; subst. cbn in H2. rewrite H2 in Hp'. discriminate.
      * rewrite nth_upd_other in H1 by exact Hne. eapply Hdone; eassumption.
    + intros t1 i r Hin. destruct (Hlog _ _ _ Hin) as [th1 [H1 [H2 H3]]].
      destruct (Nat.eq_dec t t1) as [->|Hne].
      * rewrite Hn in H1. inversion H1; subst. rewrite H2 in Hnd0. discriminate.
      * exists th1. rewrite nth_upd_other by exact Hne. auto.
    + exact Hnd.
  - (* the releasing store of thread t's incrF *)
    assert (Hinc : inc_of th = inc) by (unfold inc_of; rewrite Hp; reflexivity).
    constructor; rewrite ?Hthr, ?Hhist, ?Hdat.
    + apply all_incr_upd; assumption.
    + pose proof (sumf_upd done_inc (thr s) t th (mkT (t_prog th) p') Hn) as E.
      assert (Ex : done_inc (mkT (t_prog th) p') = inc)
        by (rewrite Hp'; unfold done_inc, inc_of; cbn; rewrite Hp; reflexivity).
      rewrite Hdi, Ex in E.
      replace (sumf done_inc (upd (thr s) t (mkT (t_prog th) p'))) with (sumf done_inc (thr s) + inc) by lia.
      rewrite Hsum, wrap60_add_l. f_equal. lia.
    + apply hist_ok_app; [exact Hh|]. rewrite <- Hlast. reflexivity.
    + rewrite last_val_app. reflexivity.
    + intros t1 th1 r H1 H2. apply in_or_app. destruct (Nat.eq_dec t t1) as [->|Hne].
      * rewrite (nth_upd_same _ _ _ _ Hn) in H1. inversion H1; subst. cbn in H2. inversion H2; subst.
        right. left. unfold inc_of. cbn. rewrite Hp. reflexivity.
      * rewrite nth_upd_other in H1 by exact Hne. left. eapply Hdone; eassumption.
    + intros t1 i r Hin. apply in_app_or in Hin. destruct Hin as [Hin|[Hin|[]]].
      * destruct (Hlog _ _ _ Hin) as [th1 [H1 [H2 H3]]].
        destruct (Nat.eq_dec t t1) as [->|Hne].
        -- rewrite Hn in H1. inversion H1; subst. rewrite H2 in Hnd0. discriminate.
        -- exists th1. rewrite nth_upd_other by exact Hne. auto.
      * inversion Hin; subst. eexists. rewrite (nth_upd_same _ _ _ _ Hn).
        split; [reflexivity|]. split; [reflexivity|]. unfold inc_of. cbn. rewrite Hp. reflexivity.
    + rewrite map_app. cbn. apply NoDup_app_one; [exact Hnd|].
      intro Hin. apply in_map_iff in Hin. destruct Hin as [[[t1 i1] r1] [Ht Hin]]. cbn in Ht. subst t1.
      destruct (Hlog _ _ _ Hin) as [th1 [H1 [H2 _]]]. rewrite Hn in H1. inversion H1; subst. rewrite H2 in Hnd0. discriminate.
Qed.

Lemma mrun_inv : forall d0 sched s, mutex_inv s -> data_inv d0 s -> mutex_inv (mrun s sched) /\ data_inv d0 (mrun s sched).
Proof.
  induction sched as [|t r IH]; intros s Hm Hd; cbn; [split; assumption|].
  destruct (mstep s t) as [s'|] eqn:E; [|apply IH; assumption].
  apply IH; [eapply mstep_mutex; eassumption|eapply mstep_data; eassumption].
Qed.

(* ---------- initial states ---------- *)
Definition minit (w0 : mword) (progs : list prog) : mstate := mkMS w0 (map (fun p => mkT p PcRead) progs) [].

Lemma sumf_init_zero : forall f progs, (forall p, f (mkT p PcRead) = 0) -> sumf f (map (fun p => mkT p PcRead) progs) = 0.
Proof. intros f progs H. induction progs as [|p l IH]; [reflexivity|]. unfold sumf in *. cbn. rewrite H, IH. reflexivity. Qed.

Lemma minit_mutex : forall w0 progs, lk w0 = false -> mutex_inv (minit w0 progs).
Proof.
  intros w0 progs H. split; unfold minit; cbn [mw thr hist].
  - rewrite H. apply sumf_init_zero. reflexivity.
  - apply Forall_forall. intros th Hin. apply in_map_iff in Hin. destruct Hin as [p [<- _]]. exact I.
Qed.

Lemma minit_data : forall w0 incs, mdat w0 < two60 -> data_inv (mdat w0) (minit w0 (map PIncr incs)).
Proof.
  intros w0 incs H. constructor; unfold minit; cbn [mw thr hist].
  - apply Forall_forall. intros th Hin. apply in_map_iff in Hin. destruct Hin as [p [<- Hp]].
    apply in_map_iff in Hp. destruct Hp as [i [<- _]]. exists i. reflexivity.
  - rewrite sumf_init_zero by reflexivity. rewrite N.add_0_r. symmetry. apply wrap60_small. exact H.
  - exact I.
  - reflexivity.
  - intros t th r Hn Hpc. apply nth_error_In in Hn. apply in_map_iff in Hn. destruct Hn as [p [<- _]]. discriminate.
  - intros t i r [].
  - constructor.
Qed.

(* the programs never change *)
Lemma map_prog_upd : forall l t th p, nth_error l t = Some th -> map t_prog (upd l t (mkT (t_prog th) p)) = map t_prog l.
Proof.
  induction l as [|a l IH]; intros t th p H; destruct t; cbn in *; try discriminate.
  - inversion H; subst. reflexivity.
  - f_equal. eapply IH; eassumption.
Qed.

Lemma mstep_progs : forall s t s', mstep s t = Some s' -> map t_prog (thr s') = map t_prog (thr s).
Proof.
  intros s t s' H. unfold mstep in H. destruct (nth_error (thr s) t) as [th|] eqn:Hn; [|discriminate].
  destruct (t_pc th).
  - destruct (lk (mw s)); injection H as <-; [reflexivity|]. apply map_prog_upd; assumption.
  - destruct (mword_eqb (mw s) unl); [|destruct (lk (mw s))]; injection H as <-; apply map_prog_upd; assumption.
  - destruct (mst l <? 4); [destruct (t_prog th) eqn:Hp|]; injection H as <-; cbn; try rewrite <- Hp; apply map_prog_upd; assumption.
  - destruct (t_prog th) eqn:Hp; [|discriminate]. injection H as <-. cbn. rewrite <- Hp. apply map_prog_upd; assumption.
  - discriminate.
Qed.

Lemma mrun_progs : forall sched s, map t_prog (thr (mrun s sched)) = map t_prog (thr s).
Proof.
  induction sched as [|t r IH]; intro s; cbn; [reflexivity|].
  destruct (mstep s t) as [s'|] eqn:E; [|apply IH]. rewrite IH. eapply mstep_progs; eassumption.
Qed.

Definition all_done (s : mstate) : Prop := Forall (fun th => is_done (t_pc th) = true) (thr s).
Definition sum_list (l : list N) : N := fold_right N.add 0 l.

Lemma done_sum_all : forall l, Forall (fun th => is_done (t_pc th) = true) l ->
  sumf done_inc l = sum_list (map (fun p => match p with PIncr i => i | PWriteF _ => 0 end) (map t_prog l)).
Proof.
  induction l as [|a l IH]; intro H; [reflexivity|]. inversion H; subst.
  unfold sumf, sum_list in *. cbn. rewrite IH by assumption. unfold done_inc. rewrite H2. reflexivity.
Qed.

Lemma sum_list_incs : forall incs,
  sum_list (map (fun p => match p with PIncr i => i | PWriteF _ => 0 end) (map t_prog (map (fun p => mkT p PcRead) (map PIncr incs)))) = sum_list incs.
Proof. induction incs as [|i l IH]; [reflexivity|]. unfold sum_list in *. cbn. rewrite IH. reflexivity. Qed.

(* ---------- theorems ---------- *)
(* lock_bit_mutex: any mix of incrF / writeF threads, any schedule: the lock bit is set iff exactly one thread is inside its
   critical section, that thread sees the word exactly as it locked it, and two threads are never inside together *)
Lemma lock_bit_mutex_l : forall w0 progs sched,
  lk w0 = false ->
  let s := mrun (minit w0 progs) sched in
  mutex_inv s /\
  forall t1 t2 th1 th2, t1 <> t2 -> nth_error (thr s) t1 = Some th1 -> nth_error (thr s) t2 = Some th2 ->
                        holder th1 = 1 -> holder th2 = 1 -> False.
Proof.
  intros w0 progs sched H s.
  assert (Hm : mutex_inv s) by (apply mrun_mutex; apply minit_mutex; exact H).
  split; [exact Hm|]. intros t1 t2 th1 th2 Hne H1 H2 Hh1 Hh2.
  destruct Hm as [Hc _].
  set (dummy := mkT (t_prog th1) PcRead).
  pose proof (sumf_upd holder (thr s) t1 th1 dummy H1) as E1. rewrite Hh1 in E1. change (holder dummy) with 0 in E1.
  assert (H2' : nth_error (upd (thr s) t1 dummy) t2 = Some th2) by (rewrite nth_upd_other by exact Hne; exact H2).
  pose proof (sumf_upd holder _ t2 th2 dummy H2') as E2. rewrite Hh2 in E2. change (holder dummy) with 0 in E2.
  destruct (lk (mw s)); lia.
Qed.

(* incrF_atomic_micro: n threads each running one incrF, EVERY schedule (any list of thread ids, any length):
   - at every point the payload is init + (sum of the increments of the calls that have released the word) mod 2^60;
   - the ghost log, in lock-release (= lock-acquisition) order, holds the running sums, and it is exactly the set of
     finished calls with the values they returned, each thread once;
   - when all calls have returned: payload = init + sum of all increments mod 2^60, the word is unlocked, n log entries *)
Lemma incrF_atomic_micro_l : forall w0 incs sched,
  lk w0 = false -> mdat w0 < two60 ->
  let s := mrun (minit w0 (map PIncr incs)) sched in
  mutex_inv s /\ data_inv (mdat w0) s /\
  (all_done s -> mdat (mw s) = wrap60 (mdat w0 + sum_list incs) /\ lk (mw s) = false).
Proof.
  intros w0 incs sched Hl Hd s.
  destruct (mrun_inv (mdat w0) sched (minit w0 (map PIncr incs)) (minit_mutex _ _ Hl) (minit_data _ _ Hd)) as [Hm Hdi].
  fold s in Hm, Hdi. split; [exact Hm|]. split; [exact Hdi|]. intro Hall. split.
  - rewrite (di_sum _ _ Hdi). rewrite (done_sum_all _ Hall).
    unfold s. rewrite mrun_progs. cbn [minit thr]. rewrite sum_list_incs. reflexivity.
  - destruct Hm as [Hc _]. destruct (lk (mw s)); [|reflexivity]. exfalso.
    assert (Z : sumf holder (thr s) = 0).
    { clear Hc. unfold all_done in Hall. induction (thr s) as [|a l IH]; [reflexivity|]. inversion Hall; subst.
      unfold sumf in *. cbn. rewrite IH by assumption. unfold holder. destruct (t_pc a); try discriminate. reflexivity. }
    lia.
Qed.

(* non-vacuity: three threads, a schedule that interleaves their loads and CAS attempts (threads 1 and 2 read the word
   unlocked, lose the CAS to thread 0, spin while it is locked, retry), all finish; the sum crosses 2^60 *)
Example micro_three_threads :
  let s := mrun (minit (mkMW false 0 (two60 - 2)) (map PIncr [1; 2; 3]))
                [0; 1; 2; 0; 1; 2; 0; 0; 1; 1; 2; 1; 1; 1; 2; 2; 2; 2; 1; 1; 1; 2; 2; 2; 1; 1; 2; 2]%nat in
  all_done s /\ mw s = mkMW false 0 4 /\
  hist s = [(0%nat, 1, two60 - 1); (1%nat, 2, 1); (2%nat, 3, 4)].
Proof. vm_compute. split; [repeat constructor|split; reflexivity]. Qed.

Lemma incrF_atomic_micro_full : forall w0 incs sched,
  lk w0 = false -> mdat w0 < two60 ->
  let s := mrun (minit w0 (map PIncr incs)) sched in
  mdat (mw s) = wrap60 (mdat w0 + sumf done_inc (thr s)) /\
  hist_ok (mdat w0) (hist s) /\ mdat (mw s) = last_val (mdat w0) (hist s) /\
  (forall t th r, nth_error (thr s) t = Some th -> t_pc th = PcDone r -> In (t, inc_of th, r) (hist s)) /\
  (forall t i r, In (t, i, r) (hist s) -> exists th, nth_error (thr s) t = Some th /\ t_pc th = PcDone r /\ inc_of th = i) /\
  NoDup (map tid_of (hist s)) /\
  (all_done s -> mdat (mw s) = wrap60 (mdat w0 + sum_list incs) /\ lk (mw s) = false).
Proof.
  intros w0 incs sched Hl Hd s.
  destruct (incrF_atomic_micro_l w0 incs sched Hl Hd) as [_ [Hdi Hall]]. fold s in Hdi, Hall.
  destruct Hdi. repeat split; try assumption; apply Hall; assumption.
Qed.
