(* Proofs about the history acceptor of Syncvar/History.v (C03, mode M4): soundness of the certificate checker and of the
   acceptor, real-time order, quiescence. *)
From Coq Require Import List NArith Bool Permutation Sorted Lia.
Import ListNotations.
From QV Require Import Syncvar.Defs Syncvar.CellSpec Syncvar.History.
Local Open Scope N_scope.

(* ---------- small facts ---------- *)
Lemma cell_eqb_eq a b : cell_eqb a b = true -> a = b.
Proof.
  destruct a as [fa va], b as [fb vb]. unfold cell_eqb. simpl. intros H.
  apply andb_true_iff in H. destruct H as [H1 H2].
  apply eqb_prop in H1. apply N.eqb_eq in H2. subst. reflexivity.
Qed.

Lemma apply_op_inv s x s1 :
  apply_op s x = Some s1 ->
  (exists obs c1 r, h_out x = ODone obs /\ sv_rejected (h_op x) = false /\ atomic (seen_cell s x) (h_op x) = Some (c1, r) /\
                    obs_ok obs r = true /\ s1 = mkH c1 (next_just (seen_cell s x) x)) \/
  (h_out x = OFail /\ h_nb x = true /\ sv_rejected (h_op x) = false /\ atomic (hs_cell s) (h_op x) = None /\ s1 = mkH (hs_cell s) None) \/
  (h_out x = OOver /\ sv_rejected (h_op x) = true /\ s1 = mkH (hs_cell s) None).
Proof.
  unfold apply_op. destruct (h_out x) as [obs| |].
  - destruct (sv_rejected (h_op x)) eqn:Rj; [discriminate|].
    destruct (atomic (seen_cell s x) (h_op x)) as [[c1 r]|] eqn:A; [|discriminate].
    destruct (obs_ok obs r) eqn:O; [|discriminate]. intros H. inversion H; subst. left. exists obs, c1, r. auto.
  - destruct (h_nb x); [|discriminate]. destruct (sv_rejected (h_op x)) eqn:Rj; [discriminate|]. cbn [negb andb].
    destruct (atomic (hs_cell s) (h_op x)) eqn:A; [discriminate|].
    intros H. inversion H; subst. right. left. auto.
  - destruct (sv_rejected (h_op x)) eqn:Rj; [|discriminate]. intros H. inversion H; subst. right. right. auto.
Qed.

Lemma hrun_b_sound l : forall s s', hrun_b s l = Some s' -> hrun s l s'.
Proof.
  induction l as [|x l IH]; simpl; intros s s' H.
  - inversion H; subst. constructor.
  - destruct (apply_op s x) as [s1|] eqn:A; [|discriminate].
    apply apply_op_inv in A.
    destruct A as [(obs & c1 & r & Ho & Rj & Ha & Hk & ->)|[(Ho & Hn & Rj & Ha & ->)|(Ho & Rj & ->)]].
    + eapply hrun_done; eauto.
    + eapply hrun_fail; eauto.
    + eapply hrun_over; eauto.
Qed.

Lemma hrun_b_complete s l s' : hrun s l s' -> hrun_b s l = Some s'.
Proof.
  induction 1 as [s|s x l c1 r s2 obs Ho Rj Ha Hk _ IH|s x l s2 Ho Hn Rj Ha _ IH|s x l s2 Ho Rj _ IH]; simpl.
  - reflexivity.
  - unfold apply_op. rewrite Ho, Rj, Ha, Hk. exact IH.
  - unfold apply_op. rewrite Ho, Hn, Rj, Ha. exact IH.
  - unfold apply_op. rewrite Ho, Rj. exact IH.
Qed.

(* the step relation is a function of the state *)
Lemma hrun_cons_inv s x l s' :
  hrun s (x :: l) s' -> exists s1, apply_op s x = Some s1 /\ hrun s1 l s'.
Proof.
  intros H. apply hrun_b_complete in H. simpl in H.
  destruct (apply_op s x) as [s1|]; [|discriminate]. exists s1. split; [reflexivity|]. apply hrun_b_sound. exact H.
Qed.

Lemma hrun_det s l s1 s2 : hrun s l s1 -> hrun s l s2 -> s1 = s2.
Proof. intros A B. apply hrun_b_complete in A. apply hrun_b_complete in B. congruence. Qed.

Lemma hrun_app s l1 s1 l2 s2 : hrun s l1 s1 -> hrun s1 l2 s2 -> hrun s (l1 ++ l2) s2.
Proof.
  induction 1; simpl; intros; [assumption|eapply hrun_done; eauto|eapply hrun_fail; eauto|eapply hrun_over; eauto].
Qed.

Lemma hrun_app_inv l1 : forall s l2 s2, hrun s (l1 ++ l2) s2 -> exists s1, hrun s l1 s1 /\ hrun s1 l2 s2.
Proof.
  induction l1 as [|x l1 IH]; simpl; intros s l2 s2 H.
  - exists s. split; [constructor|exact H].
  - destruct (hrun_cons_inv _ _ _ _ H) as (sx & A & R). destruct (IH _ _ _ R) as (s1 & R1 & R2).
    exists s1. split; [|exact R2]. apply hrun_b_sound. simpl. rewrite A. apply hrun_b_complete. exact R1.
Qed.

Lemma take_perm i : forall pool x rest, take i pool = Some (x, rest) -> Permutation pool (x :: rest).
Proof.
  induction pool as [|y pool IH]; simpl; intros x rest H; [discriminate|].
  destruct (N.eqb (h_id y) i).
  - inversion H; subst. apply Permutation_refl.
  - destruct (take i pool) as [[z r]|] eqn:T; [|discriminate]. inversion H; subst.
    eapply perm_trans; [apply perm_skip; apply IH; reflexivity|]. apply perm_swap.
Qed.

Lemma pick_perm w : forall pool l, pick w pool = Some l -> Permutation l pool.
Proof.
  induction w as [|i w IH]; simpl; intros pool l H.
  - destruct pool; [|discriminate]. inversion H; subst. constructor.
  - destruct (take i pool) as [[x pool']|] eqn:T; [|discriminate].
    destruct (pick w pool') as [l'|] eqn:P; [|discriminate]. inversion H; subst.
    apply Permutation_sym. eapply perm_trans; [eapply take_perm; eassumption|].
    apply perm_skip. apply Permutation_sym. apply IH. exact P.
Qed.

Lemma rt_check_sound l : forall m, rt_check m l = true ->
  StronglySorted rt_compat l /\ Forall (fun y => forall r, h_ret y = Some r -> m <= r) l.
Proof.
  induction l as [|x l IH]; simpl; intros m H.
  - split; constructor.
  - destruct (h_ret x) as [r|] eqn:R; [|discriminate].
    apply andb_true_iff in H. destruct H as [H1 H2]. apply N.leb_le in H1.
    destruct (IH _ H2) as [S F]. split.
    + constructor; [exact S|].
      rewrite Forall_forall in *. intros y Hy. unfold rt_compat, rt_before. intros B.
      destruct (h_ret y) as [ry|] eqn:Ry; [|exact B].
      specialize (F y Hy ry Ry). lia.
    + constructor.
      * intros r' E. rewrite R in E. inversion E; subst. exact H1.
      * rewrite Forall_forall in *. intros y Hy ry Ry. specialize (F y Hy ry Ry). lia.
Qed.

Lemma quiescent_b_sound pend c : quiescent_b pend c = true -> forall p, In p pend -> enabled c (h_op p) = false.
Proof.
  unfold quiescent_b. rewrite forallb_forall. intros H p Hp. specialize (H p Hp).
  destruct (enabled c (h_op p)); [discriminate|reflexivity].
Qed.

(* ---------- soundness of the certificate checker and of the acceptor ---------- *)
Theorem check_lin_sound c0 h cfin w : check_lin c0 h cfin w = true -> explained c0 h cfin.
Proof.
  unfold check_lin. destruct (pick w (completed h)) as [l|] eqn:P; [|discriminate].
  intros H. apply andb_true_iff in H. destruct H as [H Q]. apply andb_true_iff in H. destruct H as [R E].
  destruct (hrun_b (mkH c0 None) l) as [[c j]|] eqn:B; [|discriminate]. cbn [hs_cell] in E. apply cell_eqb_eq in E. subst c.
  exists l. split; [|intros p Hp; eapply quiescent_b_sound; eassumption].
  split; [eapply pick_perm; eassumption|]. split; [apply (rt_check_sound l 0 R)|]. exists j. apply hrun_b_sound; exact B.
Qed.

Theorem decide_accept_sound fuel c0 h cfin w : decide fuel c0 h cfin = Accept w -> check_lin c0 h cfin w = true.
Proof.
  unfold decide. destruct (negb (wf_b h)); [discriminate|].
  destruct (fst (fsearch cfin (pending h) (S (length h)) (mkH c0 None) (completed h) fuel)) as [w1|].
  - destruct (check_lin c0 h cfin w1) eqn:C1.
    + intros H. inversion H; subst. exact C1.
    + destruct (fst (fst (search cfin (pending h) (S (length h)) (mkH c0 None) (completed h) [] fuel))) as [w2| |]; try discriminate.
      destruct (check_lin c0 h cfin w2) eqn:C2; [|discriminate]. intros H. inversion H; subst. exact C2.
  - destruct (fst (fst (search cfin (pending h) (S (length h)) (mkH c0 None) (completed h) [] fuel))) as [w2| |]; try discriminate.
    destruct (check_lin c0 h cfin w2) eqn:C2; [|discriminate]. intros H. inversion H; subst. exact C2.
Qed.

Theorem accepts_sound fuel c0 h cfin : accepts fuel c0 h cfin = true -> explained c0 h cfin.
Proof.
  unfold accepts. destruct (decide fuel c0 h cfin) as [w| | |] eqn:D; try discriminate.
  intros _. eapply check_lin_sound. eapply decide_accept_sound. exact D.
Qed.

(* every failed non-blocking call stands at a point of the linearisation where its blocking twin has to wait *)
Lemma hrun_failed_disabled s l s' : hrun s l s' ->
  forall l1 x l2, l = l1 ++ x :: l2 -> h_out x = OFail ->
  exists sx, hrun s l1 sx /\ enabled (hs_cell sx) (h_op x) = false /\ h_nb x = true.
Proof.
  induction 1 as [s|s y l c1 r s2 obs Ho Rj Ha Hk Hr IH|s y l s2 Ho Hn Rj Ha Hr IH|s y l s2 Ho Rj Hr IH]; intros l1 x l2 E F.
  - destruct l1; discriminate.
  - destruct l1 as [|z l1]; simpl in E; inversion E; subst.
    + rewrite Ho in F. discriminate.
    + destruct (IH l1 x l2 eq_refl F) as (sx & R & D & B). exists sx. split; [eapply hrun_done; eassumption|auto].
  - destruct l1 as [|z l1]; simpl in E; inversion E; subst.
    + exists s. split; [constructor|]. split; [unfold enabled; rewrite Rj, Ha; reflexivity|exact Hn].
    + destruct (IH l1 x l2 eq_refl F) as (sx & R & D & B). exists sx. split; [eapply hrun_fail; eassumption|auto].
  - destruct l1 as [|z l1]; simpl in E; inversion E; subst.
    + rewrite Ho in F. discriminate.
    + destruct (IH l1 x l2 eq_refl F) as (sx & R & D & B). exists sx. split; [eapply hrun_over; eassumption|auto].
Qed.

(* a call that reported QTHREAD_OVERFLOW carried a value that does not fit, and it changed nothing *)
Lemma hrun_over_no_change s l s' : hrun s l s' ->
  forall l1 x l2, l = l1 ++ x :: l2 -> h_out x = OOver ->
  sv_rejected (h_op x) = true /\ exists sx, hrun s l1 sx /\ hrun (mkH (hs_cell sx) None) l2 s'.
Proof.
  induction 1 as [s|s y l c1 r s2 obs Ho Rj Ha Hk Hr IH|s y l s2 Ho Hn Rj Ha Hr IH|s y l s2 Ho Rj Hr IH]; intros l1 x l2 E F.
  - destruct l1; discriminate.
  - destruct l1 as [|z l1]; simpl in E; inversion E; subst.
    + rewrite Ho in F. discriminate.
    + destruct (IH l1 x l2 eq_refl F) as (Rx & sx & R & D). split; [exact Rx|]. exists sx. split; [eapply hrun_done; eassumption|exact D].
  - destruct l1 as [|z l1]; simpl in E; inversion E; subst.
    + rewrite Ho in F. discriminate.
    + destruct (IH l1 x l2 eq_refl F) as (Rx & sx & R & D). split; [exact Rx|]. exists sx. split; [eapply hrun_fail; eassumption|exact D].
  - destruct l1 as [|z l1]; simpl in E; inversion E; subst.
    + split; [exact Rj|]. exists s. split; [constructor|exact Hr].
    + destruct (IH l1 x l2 eq_refl F) as (Rx & sx & R & D). split; [exact Rx|]. exists sx. split; [eapply hrun_over; eassumption|exact D].
Qed.

(* real-time order: whoever returned before another call was invoked stands before it *)
Lemma sorted_order l : StronglySorted rt_compat l ->
  forall l1 x l2 y l3, l = l1 ++ x :: l2 ++ y :: l3 -> ~ rt_before y x.
Proof.
  induction 1 as [|a l S IH F]; intros l1 x l2 y l3 E.
  - destruct l1; discriminate.
  - destruct l1 as [|z l1]; simpl in E; inversion E; subst.
    + rewrite Forall_forall in F. apply F. apply in_or_app. right. left. reflexivity.
    + eapply IH. reflexivity.
Qed.

(* ---------- lifted quiescence: a call still pending although the final state lets it proceed is never accepted ---------- *)
Theorem pending_disabled fuel c0 h cfin :
  accepts fuel c0 h cfin = true -> forall p, In p h -> h_ret p = None -> enabled cfin (h_op p) = false.
Proof.
  intros A p Hp Hr. destruct (accepts_sound _ _ _ _ A) as (l & _ & Q). apply Q.
  unfold pending. apply filter_In. split; [exact Hp|]. unfold is_done. rewrite Hr. reflexivity.
Qed.

Theorem lost_wakeup_rejected fuel c0 h cfin p :
  In p h -> h_ret p = None -> enabled cfin (h_op p) = true -> accepts fuel c0 h cfin = false.
Proof.
  intros Hp Hr E. destruct (accepts fuel c0 h cfin) eqn:A; [|reflexivity].
  rewrite (pending_disabled _ _ _ _ A p Hp Hr) in E. discriminate.
Qed.

(* the statement of accepts_sound with the definitions unfolded *)
Corollary accepts_sound_explicit fuel c0 h cfin :
  accepts fuel c0 h cfin = true ->
  exists l, Permutation l (completed h) /\ StronglySorted rt_compat l /\ (exists j, hrun (mkH c0 None) l (mkH cfin j)) /\
            (forall p, In p (pending h) -> enabled cfin (h_op p) = false).
Proof.
  intros A. destruct (accepts_sound _ _ _ _ A) as (l & (P & S & R) & Q). exists l. auto.
Qed.
