From Coq Require Import List NArith.
From QV Require Import Syncvar.Defs Syncvar.Model.
Require Extraction.
Require Import ExtrOcamlBasic.
Extraction Language OCaml.
Extraction "../ocaml/gen/c03_model.ml" step step_var status build_unlocked decode
  SYNCVAR_INITIALIZER SYNCVAR_EMPTY_INITIALIZER SYNCVAR_INITIALIZE_TO SYNCVAR_EMPTY_INITIALIZE_TO waiters_of.
