(* C03: non-vacuity.  The hypotheses of the theorems (a reachable state in each of the shapes, with waiters) are
   satisfiable: concrete runs of the model from initialised variables. *)
From Coq Require Import List NArith Bool.
From QV Require Import Syncvar.Defs Syncvar.Model Syncvar.BitProofs Syncvar.CellSpec Syncvar.Proofs.
Import ListNotations.
Local Open Scope N_scope.

Definition init1 : state := [(0, mkV (SYNCVAR_EMPTY_INITIALIZE_TO 5) None)].
Definition init2 : state := [(0, mkV (SYNCVAR_INITIALIZE_TO 5) None)].

Example init_ok : state_ok init1 /\ state_ok init2.
Proof. split; repeat constructor; cbn; apply (shape_init 5). Qed.

(* state 3 with two readFE waiters and one readFF waiter, reached by three blocking calls *)
Example reach_state3 :
  exists s tr x, run init1 [(1, 0, ReadFE true); (2, 0, ReadFF true); (3, 0, ReadFE false)] = (s, tr) /\
                 lookup s 0 = Some x /\ shape x /\ state_of (word x) = 3 /\
                 map w_tid (feq x) = [3; 1] /\ map w_tid (ffq x) = [2].
Proof.
  eexists. eexists. eexists. split; [vm_compute; reflexivity|]. split; [reflexivity|].
  split; [|split; vm_compute; try reflexivity; split; reflexivity].
  apply Sh3; vm_compute; reflexivity.
Qed.

(* ... from which a writeF releases the readFF waiter and exactly one readFE waiter, and the flag survives for the other *)
Example writeF_on_state3 :
  exists s tr, run init1 [(1, 0, ReadFE true); (2, 0, ReadFF true); (3, 0, ReadFE false); (4, 0, WriteF 9)] = (s, tr) /\
    nth 3 tr [] = [Ret 4 RC_SUCCESS None; Ret 2 RC_SUCCESS (Some 9); Ret 3 RC_SUCCESS None] /\
    exists x, lookup s 0 = Some x /\ state_of (word x) = 3 /\ map w_tid (feq x) = [1].
Proof.
  eexists. eexists. split; [vm_compute; reflexivity|]. split; [reflexivity|].
  eexists. split; [reflexivity|]. split; vm_compute; reflexivity.
Qed.

(* state 1 with two blocked writers; the scenario of the defect fixed by /repo 1091148: writeF keeps state 1, readFE wakes one *)
Example writeF_keeps_flag :
  exists s tr, run init2 [(1, 0, WriteEF 7); (2, 0, WriteEF 8); (3, 0, WriteF 9); (3, 0, ReadFE true)] = (s, tr) /\
    nth 2 tr [] = [Ret 3 RC_SUCCESS None] /\
    nth 3 tr [] = [Ret 3 RC_SUCCESS (Some 9); Ret 2 RC_SUCCESS None] /\
    exists x, lookup s 0 = Some x /\ state_of (word x) = 1 /\ data_of (word x) = 8 /\ map w_tid (efq x) = [1].
Proof.
  eexists. eexists. split; [vm_compute; reflexivity|]. split; [reflexivity|]. split; [reflexivity|].
  eexists. split; [reflexivity|]. repeat split; vm_compute; reflexivity.
Qed.

(* regression for the defect fixed by /repo 70f90aa (incrF returned and delivered the unreduced 64-bit sum): payload 2^60-1,
   a readFF and a readFE waiter, incrF 1 -> the call returns 0, both readers get 0, the variable holds 0 *)
Definition init3 : state := [(0, mkV (SYNCVAR_EMPTY_INITIALIZE_TO (two60 - 1)) None)].
Example incrF_wrap_regression :
  exists s tr, run init3 [(1, 0, ReadFF true); (2, 0, ReadFE true); (3, 0, IncrF 1)] = (s, tr) /\
    nth 2 tr [] = [Ret 3 RC_SUCCESS (Some 0); Ret 1 RC_SUCCESS (Some 0); Ret 2 RC_SUCCESS (Some 0)] /\
    exists x, lookup s 0 = Some x /\ data_of (word x) = 0 /\ state_of (word x) = 2 /\ rec x = None.
Proof.
  eexists. eexists. split; [vm_compute; reflexivity|]. split; [reflexivity|].
  eexists. split; [reflexivity|]. repeat split; vm_compute; reflexivity.
Qed.

Example incrF_wrap_regression_full :
  step_var (mkV (SYNCVAR_INITIALIZE_TO (two60 - 1)) None) 7 (IncrF 1) =
  (mkV (build_unlocked 0 0) None, [Ret 7 RC_SUCCESS (Some 0)]).
Proof. vm_compute. reflexivity. Qed.
