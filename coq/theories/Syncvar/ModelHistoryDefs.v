(* Extension R (C03): the history of a run of the op-atomic syncvar model.
   Syncvar/Model.v executes a script of (task, variable, call) steps; every step yields events: `Ret t c x` = the pending call
   of task t returns now with code c (the caller's own call first, then the waiters it released, in the order of effects),
   `Blocked t` = the caller was enqueued.  This file turns such a run into a history in the vocabulary of Syncvar/History.v
   (the one the free-running tier M4 builds from tickets logged by the real code).  Definitions only (executable, extracted
   by Feb/ExtractLink.v); the theorems are in Syncvar/ModelHistory.v. *)
From Coq Require Import List NArith Bool.
Import ListNotations.
From QV Require Import Syncvar.Defs Syncvar.CellSpec Syncvar.Model Syncvar.History.
Local Open Scope N_scope.

Record bst := mkB { b_clk : N; b_done : list hop; b_pend : list (N * hop) }.
Definition b0 : bst := mkB 1 [] [].

(* the cell operation of an API call; the _nb variants are the same operation with h_nb = true *)
Definition sop_of (o : op) : sop :=
  match o with
  | ReadFF _ | ReadFF_nb _ => SReadFF
  | ReadFE _ | ReadFE_nb _ => SReadFE
  | WriteF v => SWriteF v
  | WriteEF v | WriteEF_nb v => SWriteEF v
  | Fill => SFill | Empty => SEmpty | IncrF i => SIncrF i | Status => SStatus
  end.
Definition is_nb (o : op) : bool := match o with ReadFF_nb _ | ReadFE_nb _ | WriteEF_nb _ => true | _ => false end.

(* what the caller observes, given the value the model delivered (the encoding of lib/verif/props/_c03_free.py):
   reads with a destination and incrF see the value, reads into NULL see nothing, status sees the bit, the rest sees that
   there is no result *)
Definition obs_of (c : sop) (v : option N) : option sres :=
  match c with
  | SReadFE | SReadFF | SIncrF _ => match v with Some x => Some (RVal x) | None => None end
  | SStatus => match v with Some x => Some (RBit (negb (N.eqb x 0))) | None => None end
  | _ => Some RNone
  end.

Definition new_hop (o : op) (inv : N) : hop := mkHop inv (sop_of o) (is_nb o) inv None (ODone None).
Definition finish (p : hop) (r : N) (c : rcode) (v : option N) : hop :=
  mkHop (h_id p) (h_op p) (h_nb p) (h_inv p) (Some r)
        (match c with
         | RC_SUCCESS => ODone (obs_of (h_op p) v)
         | RC_OPFAIL => OFail
         | RC_OVERFLOW => OOver
         | RC_TIMEOUT => ODone (Some (RBit false))     (* never emitted by a model run (Syncvar/Proofs.v step_ok); explained by nothing *)
         end).

Fixpoint take_tid (t : N) (pend : list (N * hop)) : option (hop * list (N * hop)) :=
  match pend with
  | [] => None
  | (t', p) :: rest =>
      if N.eqb t t' then Some (p, rest)
      else match take_tid t rest with Some (q, r) => Some (q, (t', p) :: r) | None => None end
  end.

Definition on_event (b : bst) (e : event) : bst :=
  match e with
  | Ret t c v =>
      match take_tid t (b_pend b) with
      | Some (p, rest) => mkB (N.succ (b_clk b)) (b_done b ++ [finish p (b_clk b) c v]) rest
      | None => b
      end
  | _ => b
  end.
Definition on_events (b : bst) (evs : list event) : bst := fold_left on_event evs b.

Definition has_var (s : state) (v : N) : bool := match lookup s v with Some _ => true | None => false end.

(* one script step seen from variable v0 (s = the model state before the step, evs = the events the model emitted) *)
Definition bstep (v0 : N) (s : state) (b : bst) (t v : N) (o : op) (evs : list event) : bst :=
  if N.eqb v v0 && negb (busy s t) && has_var s v
  then on_events (mkB (N.succ (b_clk b)) (b_done b) ((t, new_hop o (b_clk b)) :: b_pend b)) evs
  else mkB (N.succ (b_clk b)) (b_done b) (b_pend b).

Fixpoint build (v0 : N) (s : state) (b : bst) (script : list (N * N * op)) : state * bst :=
  match script with
  | [] => (s, b)
  | (t, v, o) :: rest => let '(s1, evs) := step s t v o in build v0 s1 (bstep v0 s b t v o evs) rest
  end.

Fixpoint insert_inv (x : hop) (l : list hop) : list hop :=
  match l with
  | [] => [x]
  | y :: l' => if h_inv x <=? h_inv y then x :: l else y :: insert_inv x l'
  end.
Definition sort_inv (l : list hop) : list hop := fold_right insert_inv [] l.

Definition hist_of_bst (b : bst) : list hop := sort_inv (b_done b ++ map snd (b_pend b)).
(* the history of variable v0 in the run of the script from state s0, in invocation order *)
Definition sv_hist_of_run (s0 : state) (script : list (N * N * op)) (v0 : N) : list hop :=
  hist_of_bst (snd (build v0 s0 b0 script)).

(* the abstract cell of a variable: full = state bit 1 clear, value = the 60-bit payload *)
Definition cell_of_var (x : svar) : cell := mkC (negb (N.testbit (state_of (word x)) 1)) (data_of (word x)).
Definition cell_at (s : state) (v : N) : cell :=
  match lookup s v with Some x => cell_of_var x | None => mkC true 0 end.
Definition state_after (s0 : state) (script : list (N * N * op)) : state := fst (run s0 script).

(* ---------- the executable cross-check (ocaml/c01link_driver.ml) ---------- *)
Inductive smutation := SMNone | SMDropRet (i : nat) | SMSwapRet (i j : nat) | SMBumpVal (i : nat).
Definition set_ret (x : hop) (r : option N) : hop := mkHop (h_id x) (h_op x) (h_nb x) (h_inv x) r (h_out x).
Definition bump_out (x : hop) : hop :=
  mkHop (h_id x) (h_op x) (h_nb x) (h_inv x) (h_ret x)
        (match h_out x with ODone (Some (RVal v)) => ODone (Some (RVal (v + 1))) | o => o end).
Fixpoint map_nth {A} (f : A -> A) (i : nat) (l : list A) : list A :=
  match l, i with
  | [], _ => []
  | x :: l', O => f x :: l'
  | x :: l', S k => x :: map_nth f k l'
  end.
Definition ret_at (h : list hop) (i : nat) : option N := match nth_error h i with Some x => h_ret x | None => None end.
Definition mutate (m : smutation) (h : list hop) : list hop :=
  match m with
  | SMNone => h
  | SMDropRet i => map_nth (fun x => set_ret x None) i h
  | SMSwapRet i j =>
      let ri := ret_at h i in let rj := ret_at h j in
      map_nth (fun x => set_ret x ri) j (map_nth (fun x => set_ret x rj) i h)
  | SMBumpVal i => map_nth bump_out i h
  end.
Definition in_flight_at (x : hop) (tk : N) : bool :=
  (h_inv x <? tk) && match h_ret x with Some r => tk <? r | None => true end.
Definition has_overlap (h : list hop) : bool := existsb (fun x => existsb (fun y => in_flight_at x (h_inv y)) h) h.
Definition verdict_code (v : verdict) : N := match v with Accept _ => 0 | Reject => 1 | Unknown => 2 | Bug => 3 end.

(* variables are given by their initial words (the SYNCVAR_..._INITIALIZER macros), no waiter records *)
Definition init_state (vars : list (N * N)) : state := map (fun kv => (fst kv, mkV (snd kv) None)) vars.

Definition sv_link (fuel : N) (vars : list (N * N)) (script : list (N * N * op)) (m : smutation) (v0 : N)
  : N * (N * (N * bool)) :=
  let s0 := init_state vars in
  let h := mutate m (sv_hist_of_run s0 script v0) in
  (verdict_code (decide fuel (cell_at s0 v0) h (cell_at (state_after s0 script) v0)),
   (N.of_nat (length h), (N.of_nat (length (pending h)), has_overlap h))).
