(* C03 micro-step layer for all syncvar operations (extension B): the theorems. *)
From Coq Require Import List NArith Bool.
From QV Require Import Syncvar.Defs Syncvar.CellSpec Syncvar.MicroAll Syncvar.MicroAllProofs.
From QV Require Import Syncvar.MicroAllSweep_IFull Syncvar.MicroAllSweep_IEmpty Syncvar.MicroAllSweep_IFullEF
                       Syncvar.MicroAllSweep_IEmptyFE Syncvar.MicroAllSweep_IEmptyFF
                       Syncvar.MicroAllSweepOld_IFull Syncvar.MicroAllSweepOld_IEmpty Syncvar.MicroAllSweepOld_IFullEF
                       Syncvar.MicroAllSweepOld_IEmptyFE Syncvar.MicroAllSweepOld_IEmptyFF.
Import ListNotations.
Local Open Scope N_scope.

Lemma cur_all k : sweep (mstep ITMO) good_final no_skip k = true.
Proof. destruct k; [exact cur_IFull | exact cur_IEmpty | exact cur_IFullEF | exact cur_IEmptyFE | exact cur_IEmptyFF]. Qed.
Lemma old_all k : sweep (mstep_old ITMO) good_both uaf_class k = true.
Proof. destruct k; [exact old_IFull | exact old_IEmpty | exact old_IFullEF | exact old_IEmptyFE | exact old_IEmptyFF]. Qed.

(* the code as it is: the full statement, every pair, every initial state *)
Theorem sv_micro_atomic_pairs : forall k oa ob,
  In oa (ops_of va) -> In ob (ops_of vb) -> sv_micro_atomic k oa ob.
Proof. intros k oa ob Ha Hb. exact (sweep_sound _ _ _ k oa ob (cur_all k) Ha Hb eq_refl). Qed.

(* ================= regressions: the access order before /repo 8cdc001 and e1e6722 ================= *)
Definition sv_micro_atomic_old_all : Prop :=
  forall k oa ob, In oa (ops_of va) -> In ob (ops_of vb) -> sv_micro_atomic_old k oa ob.

(* the old order, strict reading, outside the two classes *)
Theorem sv_micro_atomic_old_pairs_partial : forall k oa ob,
  In oa (ops_of va) -> In ob (ops_of vb) -> racy k oa ob = false -> sv_micro_atomic_old k oa ob.
Proof.
  intros k oa ob Ha Hb Hr. unfold racy in Hr. apply orb_false_elim in Hr. destruct Hr as [Hu Hn].
  pose proof (sweep_sound _ _ _ k oa ob (old_all k) Ha Hb Hu) as H.
  intros sched s Hs Hrun Hf. specialize (H sched s Hs Hrun Hf). unfold good_both in H.
  apply andb_prop in H. destruct H as [_ H]. rewrite Hn in H. exact H.
Qed.

(* the old order, outside the use-after-free class, when a non-blocking call is allowed to give up *)
Theorem sv_micro_atomic_old_weaknb_partial : forall k oa ob,
  In oa (ops_of va) -> In ob (ops_of vb) -> uaf_class k oa ob = false -> sv_micro_atomic_old_weaknb k oa ob.
Proof.
  intros k oa ob Ha Hb Hu.
  pose proof (sweep_sound _ _ _ k oa ob (old_all k) Ha Hb Hu) as H.
  intros sched s Hs Hrun Hf. specialize (H sched s Hs Hrun Hf). unfold good_both in H.
  apply andb_prop in H. apply H.
Qed.

(* ---------------- refutations (the old order) ---------------- *)
Definition sched_of (l : list nat) : list N := map N.of_nat l.
Lemma is_sched_of l : forallb (fun t => Nat.leb t 1) l = true -> is_sched (sched_of l).
Proof.
  unfold is_sched, sched_of. induction l as [|t l IH]; cbn [forallb map]; intro H; constructor.
  - apply andb_prop in H. destruct H as [H _]. destruct t as [|[|t]]; [left | right | discriminate]; reflexivity.
  - apply IH. apply andb_prop in H. apply H.
Qed.

(* (1) task 2 is blocked in readFE on the empty variable.  Task 0: writeF(11) releases it (the variable is empty again), unlocks
   the record and is about to remove it.  Task 1: readFF has to wait; it fetched the record pointer with qt_hash_get before task 0
   removed and released the record, and locks / enqueues itself on the released record afterwards: use after free, and the
   blocked reader hangs on a record that the table no longer holds while the word says "waiters" *)
Definition uaf_schedule : list nat := [1;1;1;1;1;1;1;1;1;1;1;1;0;0;0;1;0;0;0;1;1;1;0;0;0;0;0;0;0;0;1;1;1;1]%nat.
Lemma old_uaf_witness :
  exists s, run_with (mstep_old ITMO) (minit IEmptyFE (WriteF va) (ReadFF true)) (sched_of uaf_schedule) = Some s /\
            final_with (mstep_old ITMO) s /\ good_final IEmptyFE (WriteF va) (ReadFF true) s = false /\
            g_uaf s = true /\ t_blk (g_t1 s) = true /\ g_hash s = None /\ w_st (g_w s) = 3 /\
            res_of (g_t0 s) = Some (RC_SUCCESS, None) /\ res_of (g_t2 s) = Some (RC_SUCCESS, Some va).
Proof. eexists. vm_compute. repeat split; reflexivity. Qed.

Theorem sv_micro_atomic_old_refuted : ~ sv_micro_atomic_old_all.
Proof.
  intro H. destruct old_uaf_witness as (s & R & F & B & _).
  assert (Ha : In (WriteF va) (ops_of va)) by (vm_compute; auto 12).
  assert (Hb : In (ReadFF true) (ops_of vb)) by (vm_compute; auto 12).
  pose proof (H IEmptyFE _ _ Ha Hb (sched_of uaf_schedule) s (is_sched_of uaf_schedule eq_refl) R F) as G. congruence.
Qed.

(* (2) the variable is full all the time; task 1's writeF holds the word lock while task 0's readFF_nb looks twice: OPFAIL *)
Definition nb_schedule : list nat := [1;1;1;0;0;0;0;1]%nat.
Lemma old_nb_witness :
  exists s, run_with (mstep_old ITMO) (minit IFull (ReadFF_nb true) (WriteF vb)) (sched_of nb_schedule) = Some s /\
            final_with (mstep_old ITMO) s /\ good_final IFull (ReadFF_nb true) (WriteF vb) s = false /\
            settled s = true /\ res_of (g_t0 s) = Some (RC_OPFAIL, None) /\ res_of (g_t1 s) = Some (RC_SUCCESS, None) /\
            g_w s = mkWd false 0 vb.
Proof. eexists. vm_compute. repeat split; reflexivity. Qed.

Theorem sv_micro_old_nb_spurious_refuted : ~ sv_micro_atomic_old IFull (ReadFF_nb true) (WriteF vb).
Proof.
  intro H. destruct old_nb_witness as (s & R & F & B & _).
  pose proof (H (sched_of nb_schedule) s (is_sched_of nb_schedule eq_refl) R F) as G. congruence.
Qed.

(* the code as it is, on the pairs of the two witnesses: no released record is touched, the non-blocking call succeeds *)
Example uaf_pair_now : sv_micro_atomic IEmptyFE (WriteF va) (ReadFF true).
Proof. apply sv_micro_atomic_pairs; vm_compute; auto 12. Qed.
Example nb_pair_now : sv_micro_atomic IFull (ReadFF_nb true) (WriteF vb).
Proof. apply sv_micro_atomic_pairs; vm_compute; auto 12. Qed.

(* both classes are inhabited only by triples the guards name *)
Lemma uaf_witness_in_class : uaf_class IEmptyFE (WriteF va) (ReadFF true) = true. Proof. reflexivity. Qed.
Lemma nb_witness_in_class : nb_class IFull (ReadFF_nb true) (WriteF vb) = true. Proof. vm_compute. reflexivity. Qed.
Lemma racy_count :
  length (filter (fun x => x) (flat_map (fun k => flat_map (fun oa => map (fun ob => uaf_class k oa ob) (ops_of vb)) (ops_of va)) ikinds)) = 10%nat /\
  length (filter (fun x => x) (flat_map (fun k => flat_map (fun oa => map (fun ob => negb (uaf_class k oa ob) && nb_class k oa ob) (ops_of vb)) (ops_of va)) ikinds)) = 90%nat.
Proof. vm_compute. split; reflexivity. Qed.

(* ---------------- non-vacuity ---------------- *)
(* a maximal interleaving in which a call really blocks and is released by the other call: readFE on the empty variable goes
   through both qthread_mwaitc attempts, inserts the record, publishes state 3, enqueues itself; writeEF_nb... here writeF(22)
   then finds state 3, releases it and removes the record *)
Fixpoint greedy (stp : gst -> N -> option gst) (fuel : nat) (s : gst) : list N :=
  match fuel with
  | O => []
  | S f => match stp s 0 with
           | Some s' => 0 :: greedy stp f s'
           | None => match stp s 1 with Some s' => 1 :: greedy stp f s' | None => [] end
           end
  end.
Lemma is_sched_b l : forallb (fun t => N.leb t 1) l = true -> is_sched l.
Proof.
  unfold is_sched. induction l as [|t l IH]; cbn [forallb]; intro H; constructor.
  - apply andb_prop in H. destruct H as [H _].
    destruct t as [|p]; [left; reflexivity|]. destruct p as [p|p|]; [destruct p; discriminate H | destruct p; discriminate H | right; reflexivity].
  - apply IH. apply andb_prop in H. apply H.
Qed.
Example blocks_and_is_released :
  exists sched s, is_sched sched /\ run_with (mstep ITMO) (minit IEmpty (ReadFE true) (WriteF vb)) sched = Some s /\
                  final_with (mstep ITMO) s /\ good_final IEmpty (ReadFE true) (WriteF vb) s = true /\
                  res_of (g_t0 s) = Some (RC_SUCCESS, Some vb) /\ g_w s = mkWd false 2 vb /\ length (g_heap s) = 1%nat /\ g_hash s = None.
Proof.
  exists (greedy (mstep ITMO) 200 (minit IEmpty (ReadFE true) (WriteF vb))). eexists.
  split; [apply is_sched_b; vm_compute; reflexivity|]. vm_compute. repeat split; reflexivity.
Qed.
(* the hypotheses of the guarded theorem are satisfiable by a pair with a blocking call and a releasing call *)
Example guard_satisfiable : In (ReadFE true) (ops_of va) /\ In (WriteF vb) (ops_of vb) /\ racy IEmpty (ReadFE true) (WriteF vb) = false.
Proof. vm_compute. auto 12. Qed.
