(* Completeness of the exhaustive search of Syncvar/History.v: when it answers NotFound (verdict Reject) the history has no
   linearisation at all.  The memo only ever holds configurations from which no linearisation can be completed. *)
From Coq Require Import List NArith Bool Permutation Sorted Lia.
Import ListNotations.
From QV Require Import Syncvar.Defs Syncvar.CellSpec Syncvar.History Syncvar.HistoryProofs.
Local Open Scope N_scope.

Lemma cell_eqb_refl c : cell_eqb c c = true.
Proof. destruct c as [f v]. unfold cell_eqb. simpl. rewrite eqb_reflx, N.eqb_refl. reflexivity. Qed.

Lemma key_eqb_eq a b : key_eqb a b = true -> a = b.
Proof.
  destruct a as [ra sa], b as [rb sb]. unfold key_eqb. simpl.
  destruct (hstate_eq_dec sa sb); [|discriminate]. destruct (list_eq_dec hop_eq_dec ra rb); [|discriminate]. intros _. congruence.
Qed.

Lemma mem_key_in k seen : mem_key k seen = true -> In k seen.
Proof.
  unfold mem_key. rewrite existsb_exists. intros (k' & I & E). apply key_eqb_eq in E. subst. exact I.
Qed.

Definition wf_l (l : list hop) : Prop := Forall (fun x => forall r, h_ret x = Some r -> h_inv x < r) l.

Lemma minret_in l : forall m, minret l = Some m -> exists y, In y l /\ h_ret y = Some m.
Proof.
  induction l as [|x l IH]; simpl; intros m H; [discriminate|].
  destruct (h_ret x) as [r|] eqn:R.
  - destruct (minret l) as [m'|] eqn:M.
    + inversion H; subst. destruct (N.min_spec r m') as [[_ E]|[_ E]]; rewrite E.
      * exists x. split; [left; reflexivity|exact R].
      * destruct (IH m' eq_refl) as (y & I & Y). exists y. split; [right; exact I|exact Y].
    + inversion H; subst. exists x. split; [left; reflexivity|exact R].
  - destruct (IH m H) as (y & I & Y). exists y. split; [right; exact I|exact Y].
Qed.

Section Complete.
  Variable cfin : cell.
  Variable pend : list hop.

  (* from state s the calls rem can still be linearised into the final cell, with the pending calls disabled there *)
  Definition live (s : hstate) (rem : list hop) : Prop :=
    exists l, Permutation l rem /\ StronglySorted rt_compat l /\ (exists j, hrun s l (mkH cfin j)) /\ quiescent_b pend cfin = true.
  Definition dead_keys (seen : list key) : Prop := forall rem s, In (rem, s) seen -> ~ live s rem.
  Definition rec_ok (rec : hstate -> list hop -> list key -> N -> sres_search * list key * N) : Prop :=
    forall s rem seen b r seen' b', wf_l rem -> dead_keys seen -> rec s rem seen b = (r, seen', b') ->
      dead_keys seen' /\ (r = NotFound -> ~ live s rem).

  (* x can be the first call of a linearisation of rem *)
  Definition first_ok (s : hstate) (rem : list hop) (x : hop) : Prop :=
    exists l', Permutation (x :: l') rem /\ StronglySorted rt_compat (x :: l') /\ (exists j, hrun s (x :: l') (mkH cfin j)) /\
               quiescent_b pend cfin = true.

  Lemma not_cand_not_first s rem x :
    wf_l rem -> In x rem -> cand (minret rem) x = false -> ~ first_ok s rem x.
  Proof.
    intros W Ix C (l' & P & S & _ & _). unfold cand in C. destruct (minret rem) as [m|] eqn:M; [|discriminate].
    apply N.leb_gt in C. destruct (minret_in _ _ M) as (y & Iy & Ry).
    assert (Nyx : y <> x).
    { intros ->. unfold wf_l in W. rewrite Forall_forall in W. specialize (W x Ix m Ry). lia. }
    assert (Iy' : In y l').
    { apply (Permutation_in _ (Permutation_sym P)) in Iy. destruct Iy as [E|I]; [congruence|exact I]. }
    inversion S as [|? ? _ F]; subst. rewrite Forall_forall in F. apply (F y Iy'). unfold rt_before. rewrite Ry. exact C.
  Qed.

  Lemma try_cands_ok rec s rem :
    rec_ok rec -> wf_l rem -> rem <> [] ->
    forall post pre seen b r seen' b',
      rem = rev pre ++ post -> dead_keys seen -> (forall x, In x pre -> ~ first_ok s rem x) ->
      try_cands rec s (minret rem) (rem, s) pre post seen b = (r, seen', b') ->
      dead_keys seen' /\ (r = NotFound -> ~ live s rem).
  Proof.
    intros RO W NE. induction post as [|x post IH]; intros pre seen b r seen' b' E D NF T; simpl in T.
    - inversion T; subst r seen' b'. rewrite app_nil_r in E.
      assert (NL : ~ live s rem).
      { intros (l & P & S & R & Q). destruct l as [|x l'].
        - apply Permutation_nil in P. congruence.
        - apply (NF x).
          + rewrite in_rev. rewrite <- E. eapply Permutation_in; [exact P|left; reflexivity].
          + exists l'. auto. }
      split; [|intros _; exact NL].
      intros rem1 s1 [K|I]; [inversion K; subst; exact NL|apply D; exact I].
    - assert (Ix : In x rem) by (rewrite E; apply in_or_app; right; left; reflexivity).
      assert (E' : rem = rev (x :: pre) ++ post) by (simpl; rewrite <- app_assoc; exact E).
      assert (step : ~ first_ok s rem x -> forall sn bb, dead_keys sn ->
                     try_cands rec s (minret rem) (rem, s) (x :: pre) post sn bb = (r, seen', b') ->
                     dead_keys seen' /\ (r = NotFound -> ~ live s rem)).
      { intros NX sn bb Ds Ts. eapply IH; [exact E'|exact Ds| |exact Ts].
        intros z [->|Iz]; [exact NX|apply NF; exact Iz]. }
      destruct (cand (minret rem) x) eqn:C.
      + destruct (apply_op s x) as [s1|] eqn:A.
        * destruct (rec s1 (rev_append pre post) seen b) as [[r1 sn1] b1] eqn:R.
          assert (W1 : wf_l (rev_append pre post)).
          { unfold wf_l in *. rewrite Forall_forall in *. intros z Iz. apply W. rewrite E.
            rewrite rev_append_rev in Iz. apply in_app_or in Iz. apply in_or_app. destruct Iz; [left|right; right]; assumption. }
          destruct (RO _ _ _ _ _ _ _ W1 D R) as [D1 N1].
          destruct r1 as [w| |].
          -- inversion T; subst. split; [exact D1|discriminate].
          -- apply (step) with (sn := sn1) (bb := b1); [|exact D1|exact T].
             intros (l' & P & S & (j & Hr) & Q). apply (N1 eq_refl).
             destruct (hrun_cons_inv _ _ _ _ Hr) as (s1' & A' & Hr'). rewrite A in A'. inversion A'; subst s1'.
             exists l'. split; [|split; [inversion S; assumption|split; [exists j; assumption|assumption]]].
             rewrite rev_append_rev. rewrite E in P. apply Permutation_cons_app_inv in P. exact P.
          -- inversion T; subst. split; [exact D1|discriminate].
        * apply (step) with (sn := seen) (bb := b); [|exact D|exact T].
          intros (l' & _ & _ & (j & Hr) & _). destruct (hrun_cons_inv _ _ _ _ Hr) as (s1' & A' & _). congruence.
      + apply (step) with (sn := seen) (bb := b); [|exact D|exact T].
        apply not_cand_not_first; assumption.
  Qed.

  Lemma search_ok depth : rec_ok (search cfin pend depth).
  Proof.
    induction depth as [|d IH]; intros s rem seen b r seen' b' W D S; simpl in S.
    - inversion S; subst. split; [exact D|discriminate].
    - destruct b as [|pb]; [inversion S; subst; split; [exact D|discriminate]|].
      destruct rem as [|x0 rem0].
      + destruct (final_ok cfin pend s) eqn:F; inversion S; subst; (split; [exact D|]); [discriminate|].
        intros _ (l & P & _ & (j & R) & Q). apply Permutation_sym, Permutation_nil in P. subst l. inversion R; subst.
        unfold final_ok in F. cbn [hs_cell] in F. rewrite cell_eqb_refl, Q in F. discriminate.
      + destruct (mem_key (x0 :: rem0, s) seen) eqn:M.
        * inversion S; subst. split; [exact D|]. intros _. apply D. apply mem_key_in. exact M.
        * eapply (try_cands_ok (search cfin pend d) s (x0 :: rem0) IH W); [discriminate| |exact D| |exact S].
          -- reflexivity.
          -- intros z [].
  Qed.
End Complete.

Lemma wf_b_completed h : wf_b h = true -> wf_l (completed h).
Proof.
  unfold wf_b, wf_l, completed. rewrite forallb_forall, Forall_forall. intros H x Ix r R.
  apply filter_In in Ix. destruct Ix as [Ix _]. specialize (H x Ix). rewrite R in H. apply N.ltb_lt. exact H.
Qed.

Theorem reject_complete fuel c0 h cfin : decide fuel c0 h cfin = Reject -> ~ explained c0 h cfin.
Proof.
  unfold decide. remember (S (length h)) as depth eqn:Hd. clear Hd.
  destruct (wf_b h) eqn:W; cbn [negb]; [|discriminate].
  destruct (match fst (fsearch cfin (pending h) depth (mkH c0 None) (completed h) fuel) with
            | Some w => if check_lin c0 h cfin w then Some w else None | None => None end); [discriminate|].
  destruct (search cfin (pending h) depth (mkH c0 None) (completed h) [] fuel) as [[r sn] b] eqn:S. cbn [fst].
  destruct r as [w| |]; [destruct (check_lin c0 h cfin w); discriminate| |discriminate].
  intros _ (l & (P & St & R) & Q).
  destruct (search_ok cfin (pending h) _ _ _ _ _ _ _ _ (wf_b_completed h W) (fun _ _ (I : In _ []) => match I with end) S) as [_ N].
  apply (N eq_refl). exists l. split; [exact P|]. split; [exact St|]. split; [exact R|].
  unfold quiescent_b. rewrite forallb_forall. intros p Ip. rewrite (Q p Ip). reflexivity.
Qed.
