(* C03, mode M4: acceptance of free-running syncvar traces (the development of Feb/History.v re-done for the syncvar cell).
   A history of one syncvar is a list of calls, each with the ticket drawn just before the call (h_inv), the ticket drawn
   just after it returned (h_ret; None = never returned: the task is still blocked when the runtime is quiescent), the cell
   operation and what the caller observed.  The cell is the (full?, 60-bit value) cell of Syncvar/CellSpec.v.
   Differences from the FEB cell: 60-bit payload; a write of a value >= 2^60 is REJECTED (QTHREAD_OVERFLOW, nothing changes,
   never waits); incrF adds modulo 2^60, returns the new value and - the code's documented-by-behaviour choice, see
   CellSpec.v - leaves the full bit alone unless readers are waiting on the (empty) variable, in which case it fills it and
   the readers are released.  "Readers are waiting" is not a function of the cell; in a history it means: the call placed
   immediately after the incrF is a blocking read that was invoked before the incrF returned.  The state of a history run
   therefore carries, besides the cell, the return ticket of an incrF on an empty cell whose fill is still undecided
   (hs_just): the next call decides it.  Syncvar/HistoryDecl.v proves this lazy formulation equivalent to the declarative
   one with an explicit "fills because the next call is a waiting reader" rule.
   Definitions only (executable, extracted by Syncvar/ExtractHist.v); proofs in Syncvar/HistoryProofs.v etc. *)
From Coq Require Import List NArith Bool Permutation Sorted.
Import ListNotations.
From QV Require Import Syncvar.Defs Syncvar.CellSpec.
Local Open Scope N_scope.

(* cell operations; the three _nb variants are the same operation with h_nb = true *)
Inductive sop := SReadFE | SReadFF | SWriteEF (v : N) | SWriteF (v : N) | SFill | SEmpty | SIncrF (inc : N) | SStatus.
(* result of a completed operation: the value read / the new value (incrF), the full bit (status) *)
Inductive sres := RNone | RVal (v : N) | RBit (b : bool).
(* what the caller saw: success (observed result, None = not observable: a read into a NULL destination), QTHREAD_OPFAIL
   (the _nb variants only), QTHREAD_OVERFLOW *)
Inductive outcome := ODone (obs : option sres) | OFail | OOver.

Record hop := mkHop { h_id : N; h_op : sop; h_nb : bool; h_inv : N; h_ret : option N; h_out : outcome }.

Definition is_done (x : hop) : bool := match h_ret x with Some _ => true | None => false end.
Definition completed (h : list hop) : list hop := filter is_done h.
Definition pending (h : list hop) : list hop := filter (fun x => negb (is_done x)) h.

(* ---------- the atomic cell ---------- *)
(* a write of a value that does not fit the 60-bit payload *)
Definition sv_rejected (o : sop) : bool := match o with SWriteEF v | SWriteF v => two60 <=? v | _ => false end.

(* [atomic c o]: the effect of o executed atomically on c and its result; None = the operation has to wait in this state.
   incrF as it behaves when no reader waits: the full bit is kept. *)
Definition atomic (c : cell) (o : sop) : option (cell * sres) :=
  match o with
  | SReadFE    => if c_full c then Some (mkC false (c_val c), RVal (c_val c)) else None
  | SReadFF    => if c_full c then Some (c, RVal (c_val c)) else None
  | SWriteEF v => if c_full c then None else Some (mkC true v, RNone)
  | SWriteF v  => Some (mkC true v, RNone)
  | SFill      => Some (mkC true (c_val c), RNone)
  | SEmpty     => Some (mkC false (c_val c), RNone)
  | SIncrF inc => Some (mkC (c_full c) (wrap60 (c_val c + inc)), RVal (wrap60 (c_val c + inc)))
  | SStatus    => Some (c, RBit (c_full c))
  end.

(* could a blocked caller of o proceed in state c (a rejected write never waits) *)
Definition enabled (c : cell) (o : sop) : bool :=
  sv_rejected o || match atomic c o with Some _ => true | None => false end.

(* ---------- the specification: linearisations of a history ---------- *)
Definition rt_before (x y : hop) : Prop := match h_ret x with Some r => r < h_inv y | None => False end.
Definition rt_compat (x y : hop) : Prop := ~ rt_before y x.

Definition sres_eqb (a b : sres) : bool :=
  match a, b with
  | RNone, RNone => true
  | RVal x, RVal y => N.eqb x y
  | RBit x, RBit y => Bool.eqb x y
  | _, _ => false
  end.
Definition obs_ok (obs : option sres) (r : sres) : bool :=
  match obs with None => true | Some r' => sres_eqb r' r end.

(* state of a run: the cell + (Some r: the previous call was an incrF on the empty cell that returned at ticket r) *)
Record hstate := mkH { hs_cell : cell; hs_just : option N }.

(* x is a completed blocking read: the only kind of call that can have been waiting on the variable *)
Definition waits_as_reader (x : hop) : bool :=
  match h_out x with
  | ODone _ => negb (h_nb x) && match h_op x with SReadFF | SReadFE => true | _ => false end
  | _ => false
  end.
(* ... and it was invoked before the undecided incrF returned: it may have been waiting when the incrF took effect *)
Definition justified (j : option N) (x : hop) : bool :=
  match j with Some r => waits_as_reader x && (h_inv x <? r) | None => false end.
(* the cell as x meets it: full if x is a reader that the preceding incrF found waiting *)
Definition seen_cell (s : hstate) (x : hop) : cell :=
  if justified (hs_just s) x then mkC true (c_val (hs_cell s)) else hs_cell s.
Definition next_just (c : cell) (x : hop) : option N :=
  match h_op x with SIncrF _ => if c_full c then None else h_ret x | _ => None end.

Inductive hrun : hstate -> list hop -> hstate -> Prop :=
| hrun_nil s : hrun s [] s
| hrun_done s x l c1 r s2 obs :
    h_out x = ODone obs -> sv_rejected (h_op x) = false ->
    atomic (seen_cell s x) (h_op x) = Some (c1, r) -> obs_ok obs r = true ->
    hrun (mkH c1 (next_just (seen_cell s x) x)) l s2 -> hrun s (x :: l) s2
| hrun_fail s x l s2 :
    h_out x = OFail -> h_nb x = true -> sv_rejected (h_op x) = false -> atomic (hs_cell s) (h_op x) = None ->
    hrun (mkH (hs_cell s) None) l s2 -> hrun s (x :: l) s2
| hrun_over s x l s2 :
    h_out x = OOver -> sv_rejected (h_op x) = true ->
    hrun (mkH (hs_cell s) None) l s2 -> hrun s (x :: l) s2.

(* l is a linearisation of the completed calls of h that starts in c0 and ends in cfin *)
Definition linearisation (c0 : cell) (h l : list hop) (cfin : cell) : Prop :=
  Permutation l (completed h) /\ StronglySorted rt_compat l /\ exists j, hrun (mkH c0 None) l (mkH cfin j).

(* no call that is still pending could proceed in the final state *)
Definition quiescent_ok (h : list hop) (cfin : cell) : Prop :=
  forall p, In p (pending h) -> enabled cfin (h_op p) = false.

Definition explained (c0 : cell) (h : list hop) (cfin : cell) : Prop :=
  exists l, linearisation c0 h l cfin /\ quiescent_ok h cfin.

(* ---------- executable side ---------- *)
Definition cell_eqb (a b : cell) : bool := Bool.eqb (c_full a) (c_full b) && N.eqb (c_val a) (c_val b).

Definition apply_op (s : hstate) (x : hop) : option hstate :=
  match h_out x with
  | ODone obs =>
      if sv_rejected (h_op x) then None else
      match atomic (seen_cell s x) (h_op x) with
      | Some (c1, r) => if obs_ok obs r then Some (mkH c1 (next_just (seen_cell s x) x)) else None
      | None => None
      end
  | OFail =>
      if h_nb x && negb (sv_rejected (h_op x)) then
        match atomic (hs_cell s) (h_op x) with None => Some (mkH (hs_cell s) None) | Some _ => None end
      else None
  | OOver => if sv_rejected (h_op x) then Some (mkH (hs_cell s) None) else None
  end.

Fixpoint hrun_b (s : hstate) (l : list hop) : option hstate :=
  match l with
  | [] => Some s
  | x :: l' => match apply_op s x with Some s1 => hrun_b s1 l' | None => None end
  end.

Fixpoint take (i : N) (pool : list hop) : option (hop * list hop) :=
  match pool with
  | [] => None
  | x :: pool' =>
      if N.eqb (h_id x) i then Some (x, pool')
      else match take i pool' with Some (y, rest) => Some (y, x :: rest) | None => None end
  end.

Fixpoint pick (w : list N) (pool : list hop) : option (list hop) :=
  match w with
  | [] => match pool with [] => Some [] | _ => None end
  | i :: w' =>
      match take i pool with
      | Some (x, pool') => match pick w' pool' with Some l => Some (x :: l) | None => None end
      | None => None
      end
  end.

Fixpoint rt_check (m : N) (l : list hop) : bool :=
  match l with
  | [] => true
  | x :: l' =>
      match h_ret x with
      | Some r => (m <=? r) && rt_check (N.max m (h_inv x)) l'
      | None => false
      end
  end.

Definition quiescent_b (pend : list hop) (c : cell) : bool := forallb (fun p => negb (enabled c (h_op p))) pend.

(* the certificate checker: w is an order of the completed calls of h *)
Definition check_lin (c0 : cell) (h : list hop) (cfin : cell) (w : list N) : bool :=
  match pick w (completed h) with
  | Some l =>
      rt_check 0 l &&
      match hrun_b (mkH c0 None) l with Some s => cell_eqb (hs_cell s) cfin | None => false end &&
      quiescent_b (pending h) cfin
  | None => false
  end.

(* ---------- the search (Wing & Gong with memoisation on (calls not yet linearised, state)) ---------- *)
Definition sres_eq_dec (a b : sres) : {a = b} + {a <> b}.
Proof. decide equality; [apply N.eq_dec | apply bool_dec]. Defined.
Definition sop_eq_dec (a b : sop) : {a = b} + {a <> b}.
Proof. decide equality; apply N.eq_dec. Defined.
Definition outcome_eq_dec (a b : outcome) : {a = b} + {a <> b}.
Proof. decide equality. decide equality. apply sres_eq_dec. Defined.
Definition hop_eq_dec (a b : hop) : {a = b} + {a <> b}.
Proof.
  decide equality; try apply N.eq_dec; try apply bool_dec; try apply sop_eq_dec; try apply outcome_eq_dec.
  decide equality. apply N.eq_dec.
Defined.
Definition cell_eq_dec (a b : cell) : {a = b} + {a <> b}.
Proof. decide equality; [apply N.eq_dec | apply bool_dec]. Defined.
Definition hstate_eq_dec (a b : hstate) : {a = b} + {a <> b}.
Proof. decide equality; [decide equality; apply N.eq_dec | apply cell_eq_dec]. Defined.

Definition key := (list hop * hstate)%type.
Definition key_eqb (a b : key) : bool :=
  if hstate_eq_dec (snd a) (snd b) then if list_eq_dec hop_eq_dec (fst a) (fst b) then true else false else false.
Definition mem_key (k : key) (seen : list key) : bool := existsb (key_eqb k) seen.

Inductive sres_search := Found (w : list N) | NotFound | NoFuel.

Fixpoint minret (l : list hop) : option N :=
  match l with
  | [] => None
  | x :: l' =>
      match h_ret x, minret l' with
      | Some r, Some m => Some (N.min r m)
      | Some r, None => Some r
      | None, m => m
      end
  end.
Definition cand (mr : option N) (x : hop) : bool := match mr with Some m => h_inv x <=? m | None => true end.

Section Search.
  Variable cfin : cell.
  Variable pend : list hop.

  Definition final_ok (s : hstate) : bool := cell_eqb (hs_cell s) cfin && quiescent_b pend cfin.

  (* ----- the complete search: every candidate is tried; b = number of nodes it may still visit ----- *)
  Section Try.
    Variable rec : hstate -> list hop -> list key -> N -> sres_search * list key * N.
    Variable s : hstate.
    Variable mr : option N.
    Variable k : key.
    Fixpoint try_cands (pre post : list hop) (seen : list key) (b : N) {struct post} : sres_search * list key * N :=
      match post with
      | [] => (NotFound, k :: seen, b)
      | x :: post' =>
          if cand mr x then
            match apply_op s x with
            | Some s1 =>
                match rec s1 (rev_append pre post') seen b with
                | (Found w, sn, b') => (Found (h_id x :: w), sn, b')
                | (NoFuel, sn, b') => (NoFuel, sn, b')
                | (NotFound, sn, b') => try_cands (x :: pre) post' sn b'
                end
            | None => try_cands (x :: pre) post' seen b
            end
          else try_cands (x :: pre) post' seen b
      end.
  End Try.

  Fixpoint search (depth : nat) (s : hstate) (rem : list hop) (seen : list key) (b : N) {struct depth}
    : sres_search * list key * N :=
    match depth with
    | O => (NoFuel, seen, b)
    | S d =>
        match b with
        | N0 => (NoFuel, seen, b)
        | _ =>
            let b := N.pred b in
            match rem with
            | [] => if final_ok s then (Found [], seen, b) else (NotFound, seen, b)
            | _ :: _ =>
                if mem_key (rem, s) seen then (NotFound, seen, b)
                else try_cands (search d) s (minret rem) (rem, s) [] rem seen b
            end
        end
    end.

  (* ----- the fast search: finds witnesses only (they are re-checked by check_lin); heuristics, no claim of completeness ----- *)
  (* calls that never change the cell wherever they stand: taken as soon as they are enabled (only while no incrF is undecided) *)
  Definition is_pure (x : hop) : bool :=
    match h_out x with
    | OFail | OOver => true
    | ODone _ => match h_op x with SReadFF | SStatus => true | _ => false end
    end.
  Definition is_incr (x : hop) : bool :=
    match h_out x with ODone _ => match h_op x with SIncrF _ => true | _ => false end | _ => false end.
  Definition need_val (x : hop) : option N :=
    match h_out x with
    | ODone (Some (RVal v)) => match h_op x with SReadFE | SReadFF => Some v | _ => None end
    | _ => None
    end.
  Definition gives_val (x : hop) : option N :=
    match h_out x with
    | ODone _ => match h_op x with SWriteEF v | SWriteF v => Some v | _ => None end
    | _ => None
    end.
  Definition wants_full (x : hop) : bool :=
    match h_out x with
    | ODone _ => match h_op x with SReadFE | SReadFF => true | _ => false end
    | OFail => match h_op x with SWriteEF _ => true | _ => false end
    | OOver => false
    end.
  Definition wants_empty (x : hop) : bool :=
    match h_out x with
    | ODone _ => match h_op x with SWriteEF _ => true | _ => false end
    | OFail => match h_op x with SReadFE | SReadFF => true | _ => false end
    | OOver => false
    end.
  Definition can_fill (x : hop) : bool :=
    match h_out x with
    | ODone _ => match h_op x with SWriteEF _ | SWriteF _ | SFill | SIncrF _ => true | _ => false end
    | _ => false
    end.
  Definition can_empty (x : hop) : bool :=
    match h_out x with ODone _ => match h_op x with SReadFE | SEmpty => true | _ => false end | _ => false end.
  Fixpoint vals_of (l : list hop) : list N :=
    match l with [] => [] | x :: l' => match gives_val x with Some v => v :: vals_of l' | None => vals_of l' end end.
  (* a remaining call can no longer get what it observed / the state it needs *)
  Definition stranded (s1 : hstate) (rem' : list hop) : bool :=
    let c1 := hs_cell s1 in
    let avail := c_val c1 :: vals_of rem' in
    (negb (existsb is_incr rem') &&
     existsb (fun y => match need_val y with Some v => negb (existsb (N.eqb v) avail) | None => false end) rem')
    || (if c_full c1 then existsb wants_empty rem' && negb (existsb can_empty rem')
        else existsb wants_full rem' && negb (existsb can_fill rem')).

  Definition fcand := (hop * hstate * list hop)%type.
  Fixpoint cands_of (s : hstate) (mr : option N) (pre post : list hop) : list fcand :=
    match post with
    | [] => []
    | x :: post' =>
        let rest := cands_of s mr (x :: pre) post' in
        if cand mr x then
          match apply_op s x with Some s1 => (x, s1, rev_append pre post') :: rest | None => rest end
        else rest
    end.
  Definition ret_of (x : hop) : N := match h_ret x with Some r => r | None => 0 end.
  Fixpoint insert_by_ret (a : fcand) (l : list fcand) : list fcand :=
    match l with
    | [] => [a]
    | y :: l' => if ret_of (fst (fst a)) <=? ret_of (fst (fst y)) then a :: l else y :: insert_by_ret a l'
    end.
  Definition sort_by_ret (l : list fcand) : list fcand := fold_right insert_by_ret [] l.
  Definition undecided (s : hstate) : bool := match hs_just s with Some _ => true | None => false end.

  Fixpoint fsearch (depth : nat) (s : hstate) (rem : list hop) (b : N) {struct depth} : option (list N) * N :=
    match depth with
    | O => (None, b)
    | S d =>
        match b with
        | N0 => (None, b)
        | _ =>
            let b := N.pred b in
            match rem with
            | [] => if final_ok s then (Some [], b) else (None, b)
            | _ :: _ =>
                let cs := cands_of s (minret rem) [] rem in
                match (if undecided s then None else find (fun a => is_pure (fst (fst a))) cs) with
                | Some (x, s1, rem') =>
                    match fsearch d s1 rem' b with
                    | (Some w, b') => (Some (h_id x :: w), b')
                    | (None, b') => (None, b')
                    end
                | None =>
                    (fix ftry (l : list fcand) (b : N) {struct l} : option (list N) * N :=
                       match l with
                       | [] => (None, b)
                       | (x, s1, rem') :: l' =>
                           match fsearch d s1 rem' b with
                           | (Some w, b') => (Some (h_id x :: w), b')
                           | (None, b') => ftry l' b'
                           end
                       end) (sort_by_ret (filter (fun a => negb (stranded (snd (fst a)) (snd a))) cs)) b
                end
            end
        end
    end.
End Search.

Inductive verdict := Accept (w : list N) | Reject | Unknown | Bug.

(* well-formed: a call returns after it was invoked *)
Definition wf_b (h : list hop) : bool :=
  forallb (fun x => match h_ret x with Some r => h_inv x <? r | None => true end) h.

Definition decide (fuel : N) (c0 : cell) (h : list hop) (cfin : cell) : verdict :=
  if negb (wf_b h) then Bug else
  let depth := S (length h) in
  let fast := match fst (fsearch cfin (pending h) depth (mkH c0 None) (completed h) fuel) with
              | Some w => if check_lin c0 h cfin w then Some w else None
              | None => None
              end in
  match fast with
  | Some w => Accept w
  | None =>
      match fst (fst (search cfin (pending h) depth (mkH c0 None) (completed h) [] fuel)) with
      | Found w => if check_lin c0 h cfin w then Accept w else Bug
      | NotFound => Reject
      | NoFuel => Unknown
      end
  end.

Definition accepts (fuel : N) (c0 : cell) (h : list hop) (cfin : cell) : bool :=
  match decide fuel c0 h cfin with Accept _ => true | _ => false end.
