(* Non-vacuity of the theorems about the syncvar history acceptor (Syncvar/History.v): concrete histories with real overlap. *)
From Coq Require Import List NArith Bool.
Import ListNotations.
From QV Require Import Syncvar.Defs Syncvar.CellSpec Syncvar.History Syncvar.HistoryProofs Syncvar.HistoryComplete Syncvar.HistoryIncr.
Local Open Scope N_scope.

Definition op (i : N) (o : sop) (nb : bool) (inv : N) (ret : option N) (out : outcome) : hop := mkHop i o nb inv ret out.

(* variable initially empty (value 5): two producers and two consumers overlap, one writeEF_nb fails while the variable is
   full, a write of 2^60 is rejected, a readFF with a NULL destination waits through the whole run *)
Definition h_ok : list hop :=
  [ op 1 (SWriteEF 11) false 2 (Some 3) (ODone (Some RNone));
    op 2 (SWriteEF 12) false 4 (Some 9) (ODone (Some RNone));
    op 3 SReadFE false 1 (Some 8) (ODone (Some (RVal 11)));
    op 4 SReadFE false 10 (Some 13) (ODone (Some (RVal 12)));
    op 5 (SWriteEF 13) true 5 (Some 6) OFail;
    op 6 SReadFF false 0 (Some 7) (ODone None);
    op 7 SStatus false 14 (Some 15) (ODone (Some (RBit false)));
    op 8 (SWriteF two60) false 11 (Some 12) OOver ].
Example accepted_history : accepts 1000 (mkC false 5) h_ok (mkC false 12) = true.
Proof. vm_compute. reflexivity. Qed.

(* the same run, but the second consumer claims to have received the first value again: no linearisation *)
Definition h_dup : list hop :=
  [ op 1 (SWriteEF 11) false 2 (Some 3) (ODone (Some RNone));
    op 2 (SWriteEF 12) false 4 (Some 9) (ODone (Some RNone));
    op 3 SReadFE false 1 (Some 8) (ODone (Some (RVal 11)));
    op 4 SReadFE false 10 (Some 13) (ODone (Some (RVal 11))) ].
Example rejected_history : decide 1000 (mkC false 5) h_dup (mkC false 12) = Reject.
Proof. vm_compute. reflexivity. Qed.
Example rejected_history_unexplained : ~ explained (mkC false 5) h_dup (mkC false 12).
Proof. apply (reject_complete 1000). exact rejected_history. Qed.

(* a lost wake-up: the writer returned, the variable is full, the reader that was invoked before is still blocked *)
Definition h_lost : list hop :=
  [ op 1 SReadFF false 0 None (ODone None); op 2 (SWriteEF 11) false 1 (Some 2) (ODone (Some RNone)) ].
Example lost_wakeup_is_rejected : decide 1000 (mkC false 5) h_lost (mkC true 11) = Reject.
Proof. vm_compute. reflexivity. Qed.
Example lost_wakeup_by_theorem : accepts 1000 (mkC false 5) h_lost (mkC true 11) = false.
Proof. apply (lost_wakeup_rejected _ _ _ _ (op 1 SReadFF false 0 None (ODone None))); [left; reflexivity|reflexivity|reflexivity]. Qed.
Example blocked_on_empty_accepted :
  accepts 1000 (mkC false 5) [ op 1 SReadFF false 0 None (ODone None); op 2 SEmpty false 1 (Some 2) (ODone (Some RNone)) ] (mkC false 5) = true.
Proof. vm_compute. reflexivity. Qed.

(* incrF on an EMPTY variable: payload 2^60-1, a readFF and a readFE were invoked before the incrF returned (they were
   waiting): the incrF wraps to 0, fills, both readers get 0, the readFE leaves the variable empty *)
Definition h_incr_wait : list hop :=
  [ op 1 SReadFF false 0 (Some 6) (ODone (Some (RVal 0)));
    op 2 SReadFE false 1 (Some 7) (ODone (Some (RVal 0)));
    op 3 (SIncrF 1) false 2 (Some 4) (ODone (Some (RVal 0))) ].
Example incrF_fills_for_waiters : accepts 1000 (mkC false (two60 - 1)) h_incr_wait (mkC false 0) = true.
Proof. vm_compute. reflexivity. Qed.
(* ... a reader invoked only after the incrF returned was not waiting: the incrF left the variable empty, so a readFF that
   claims to have returned is not explained *)
Definition h_incr_late : list hop :=
  [ op 1 (SIncrF 1) false 1 (Some 2) (ODone (Some (RVal 6))); op 2 SReadFF false 3 (Some 4) (ODone (Some (RVal 6))) ].
Example incrF_late_reader_rejected : decide 1000 (mkC false 5) h_incr_late (mkC true 6) = Reject.
Proof. vm_compute. reflexivity. Qed.
(* the defect repaired by /repo e1e6722 as a history: the variable is full all the time, a readFF_nb overlapping a writeF
   reports QTHREAD_OPFAIL: no atomic order of the two calls explains the failure *)
Definition h_nb_spurious : list hop :=
  [ op 1 (SWriteF 9) false 0 (Some 3) (ODone (Some RNone)); op 2 SReadFF true 1 (Some 2) OFail ].
Example nb_spurious_fail_rejected : decide 1000 (mkC true 5) h_nb_spurious (mkC true 9) = Reject.
Proof. vm_compute. reflexivity. Qed.

(* a counter hammered by three overlapping incrF calls with a reader in between: hypotheses of incrF_total hold *)
Definition h_ctr : list hop :=
  [ op 1 (SIncrF 2) false 0 (Some 5) (ODone (Some (RVal 10)));
    op 2 (SIncrF 3) false 1 (Some 4) (ODone (Some (RVal 8)));
    op 3 (SIncrF 1) false 2 (Some 7) (ODone (Some (RVal 11)));
    op 4 SReadFF false 3 (Some 6) (ODone (Some (RVal 10)));
    op 5 (SWriteEF (two60 + 1)) true 3 (Some 8) OOver ].
Example counter_accepted : accepts 1000 (mkC true 5) h_ctr (mkC true 11) = true.
Proof. vm_compute. reflexivity. Qed.
Example counter_hyp : forall x, In x h_ctr -> writes_value x = false.
Proof. intros x H. repeat (destruct H as [<-|H]; [reflexivity|]). destruct H. Qed.
Example counter_total :
  c_val (mkC true 11) = wrap60 (5 + sum_inc (completed h_ctr)) /\ NoDup (incr_rets (completed h_ctr)).
Proof.
  destruct (incrF_total 1000 (mkC true 5) h_ctr (mkC true 11) counter_accepted ltac:(vm_compute; reflexivity) counter_hyp) as (V & _ & D).
  split; [exact V|]. apply D.
  - intros x H. repeat (destruct H as [<-|H]; [vm_compute; try reflexivity; discriminate|]). destruct H.
  - vm_compute. reflexivity.
Qed.
(* the rejected write can be deleted *)
Example counter_without_overflow_explained :
  explained (mkC true 5) (firstn 4 h_ctr) (mkC true 11).
Proof.
  apply (overflow_no_effect (mkC true 5) (firstn 4 h_ctr) (op 5 (SWriteEF (two60 + 1)) true 3 (Some 8) OOver) [] (mkC true 11) eq_refl).
  apply (accepts_sound 1000). exact counter_accepted.
Qed.
