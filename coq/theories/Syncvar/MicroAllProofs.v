(* C03 micro-step layer for all syncvar operations (extension B): the certificate machinery.
   A checked reachable-set certificate (as Feb/MicroProofs.v; the set is indexed by a PositiveMap over a hash of the state, the
   hash only has to be a function: membership always ends in a decidable equality test on the states themselves). *)
From Coq Require Import List NArith PArith Bool Arith FMapPositive.
From QV Require Import Syncvar.Defs Syncvar.CellSpec Syncvar.MicroAll.
Import ListNotations.
Local Open Scope N_scope.

(* ---------- decidable equality of micro states (transparent: it computes) ---------- *)
Definition on_eq_dec (x y : option N) : {x = y} + {x <> y}. Proof. decide equality. apply N.eq_dec. Defined.
Definition onat_eq_dec (x y : option nat) : {x = y} + {x <> y}. Proof. decide equality. apply Nat.eq_dec. Defined.
Definition op_eq_dec (x y : op) : {x = y} + {x <> y}. Proof. decide equality; try apply Bool.bool_dec; apply N.eq_dec. Defined.
Definition rcode_eq_dec (x y : rcode) : {x = y} + {x <> y}. Proof. decide equality. Defined.
Definition wd_eq_dec (x y : wd) : {x = y} + {x <> y}. Proof. decide equality; try apply Bool.bool_dec; apply N.eq_dec. Defined.
Definition waiter_eq_dec (x y : waiter) : {x = y} + {x <> y}. Proof. decide equality; try apply Bool.bool_dec; apply N.eq_dec. Defined.
Definition rcd_eq_dec (x y : rcd) : {x = y} + {x <> y}.
Proof. decide equality; try apply Bool.bool_dec; try apply on_eq_dec; apply list_eq_dec, waiter_eq_dec. Defined.
Definition pc_eq_dec (x y : pc) : {x = y} + {x <> y}. Proof. decide equality; try apply Bool.bool_dec; apply N.eq_dec. Defined.
Definition thr_eq_dec (x y : thr) : {x = y} + {x <> y}.
Proof.
  decide equality; try apply Bool.bool_dec; try apply N.eq_dec; try apply Nat.eq_dec; try apply onat_eq_dec; try apply wd_eq_dec;
    try apply pc_eq_dec; try apply op_eq_dec.
  decide equality. decide equality; [apply on_eq_dec | apply rcode_eq_dec].
Defined.
Definition gst_eq_dec (x y : gst) : {x = y} + {x <> y}.
Proof.
  decide equality; try apply thr_eq_dec; try apply Bool.bool_dec; try apply on_eq_dec; try apply onat_eq_dec; try apply wd_eq_dec.
  apply list_eq_dec, rcd_eq_dec.
Defined.
Definition geqb (x y : gst) : bool := if gst_eq_dec x y then true else false.
Lemma geqb_eq x y : geqb x y = true -> x = y.
Proof. unfold geqb. destruct (gst_eq_dec x y); [auto | discriminate]. Qed.

(* ---------- a hash of the state (any function will do) ---------- *)
Definition mix (h x : N) : N := N.land (h * 131 + x) 281474976710655.
Definition pc_code (p : pc) : N :=
  match p with
  | PStart => 1 | PFast => 2 | PMwLoad => 3 | PMwCas => 4 | PMwUnl => 5 | PBlkHLock => 6 | PBlkHGet => 7 | PBlkRLock => 8 | PBlkHUnl => 9
  | PFFGet => 10 | PFFPut => 11 | PFFRLock => 12 | PBlkPub => 13 | PEnq => 14 | PSwitch => 15 | PRelGet => 16 | PRelRLock => 17
  | PRelPub => 18 | PRelBody => 19 | PEmpGet => 20 | PEmpRLock => 21 | PEmpBody => 22 | PRecUnl b => if b then 23 else 24
  | PRmHLock => 25 | PRmGet => 26 | PRmRLock => 27 | PRmCheck => 28 | PRmHUnl => 29 | PRmFree => 30 | PPub st d => 31 + st + 4 * d
  | PStUnl => 32 | PDone => 33
  end.
Definition onat_code (x : option nat) : N := match x with None => 0 | Some n => 1 + N.of_nat n end.
Definition on_code (x : option N) : N := match x with None => 0 | Some n => 1 + n end.
Definition wd_code (w : wd) : N := (if w_lk w then 1 else 0) + 2 * w_st w + 8 * w_dat w.
Definition thr_code (th : thr) : N :=
  mix (mix (mix (mix (mix (pc_code (t_pc th)) (onat_code (t_tmo th))) (wd_code (t_tmp th))) (t_ret th + 2 * N.of_nat (t_ph th)))
           (onat_code (t_m th) + 4 * (if t_blk th then 1 else 0))) (match t_res th with Some (_, v) => 1 + on_code v | None => 0 end).
Definition rcd_code (r : rcd) : N :=
  on_code (r_lock r) + 4 * N.of_nat (length (r_EFQ r)) + 16 * N.of_nat (length (r_FEQ r)) + 64 * N.of_nat (length (r_FFQ r)) + (if r_freed r then 256 else 0).
Definition enc (s : gst) : positive :=
  N.succ_pos (mix (mix (mix (mix (mix (mix (wd_code (g_w s)) (onat_code (g_hash s) + 4 * on_code (g_hlock s)))
                                       (fold_left (fun h r => mix h (rcd_code r)) (g_heap s) 7))
                                  (thr_code (g_t0 s))) (thr_code (g_t1 s))) (thr_code (g_t2 s))) (if g_uaf s then 1 else 0)).

(* ---------- sets of states ---------- *)
Definition sset := PositiveMap.t (list gst).
Definition smem (s : gst) (M : sset) : bool :=
  match PositiveMap.find (enc s) M with Some l => existsb (geqb s) l | None => false end.
Definition sins (s : gst) (M : sset) : sset :=
  PositiveMap.add (enc s) (s :: match PositiveMap.find (enc s) M with Some l => l | None => [] end) M.
Definition sbuild (L : list gst) : sset := fold_right sins (PositiveMap.empty _) L.

Lemma smem_sins x a M : smem x (sins a M) = true -> x = a \/ smem x M = true.
Proof.
  unfold smem, sins. destruct (Pos.eq_dec (enc x) (enc a)) as [e|ne].
  - rewrite e, PositiveMap.gss. cbn [existsb]. intro H. apply orb_prop in H. destruct H as [H|H].
    + left. apply geqb_eq, H.
    + right. destruct (PositiveMap.find (enc a) M); [exact H | discriminate].
  - rewrite PositiveMap.gso by exact ne. auto.
Qed.
Lemma smem_sbuild x L : smem x (sbuild L) = true -> In x L.
Proof.
  induction L as [|a L IH]; cbn [sbuild fold_right].
  - unfold smem. rewrite PositiveMap.gempty. discriminate.
  - intro H. apply smem_sins in H. destruct H as [->|H]; [left; reflexivity | right; apply IH, H].
Qed.

Section Reach.
  Variable stp : gst -> N -> option gst.

  Fixpoint run_with (s : gst) (sched : list N) : option gst :=
    match sched with
    | [] => Some s
    | t :: l => match stp s t with Some s' => run_with s' l | None => None end
    end.
  (* nothing can move any more *)
  Definition final_with (s : gst) : Prop := stp s 0 = None /\ stp s 1 = None.
  Definition is_sched (sched : list N) : Prop := Forall (fun t => t = 0 \/ t = 1) sched.

  Definition succs (s : gst) : list gst :=
    (match stp s 0 with Some x => [x] | None => [] end) ++ (match stp s 1 with Some x => [x] | None => [] end).
  Definition is_final (s : gst) : bool := match stp s 0, stp s 1 with None, None => true | _, _ => false end.

  (* the reachable set (computed, then checked) *)
  Fixpoint close (fuel : nat) (todo : list gst) (seen : sset) (acc : list gst) : list gst :=
    match fuel with
    | O => acc
    | S f => match todo with
             | [] => acc
             | s :: rest => if smem s seen then close f rest seen acc else close f (succs s ++ rest) (sins s seen) (s :: acc)
             end
    end.

  Definition cert_ok (chk : gst -> bool) (s0 : gst) (L : list gst) : bool :=
    let M := sbuild L in
    smem s0 M && forallb (fun s => forallb (fun x => smem x M) (succs s) && (if is_final s then chk s else true)) L.

  Lemma cert_sound chk s0 L : cert_ok chk s0 L = true ->
    forall sched s', is_sched sched -> run_with s0 sched = Some s' -> final_with s' -> chk s' = true.
  Proof.
    unfold cert_ok. intros C. apply andb_prop in C. destruct C as [C1 C2].
    rewrite forallb_forall in C2. apply smem_sbuild in C1.
    assert (R : forall sched s s', In s L -> is_sched sched -> run_with s sched = Some s' -> In s' L).
    { induction sched as [|t l IH]; intros s s' Hin Hs Hr; simpl in Hr; [inversion Hr; subst; exact Hin|].
      inversion Hs as [|? ? Ht Hl]; subst. destruct (stp s t) as [s1|] eqn:E; [|discriminate].
      apply (IH s1 s'); [|exact Hl | exact Hr]. specialize (C2 s Hin). apply andb_prop in C2. destruct C2 as [C2 _].
      rewrite forallb_forall in C2. apply smem_sbuild, C2.
      unfold succs. destruct Ht as [-> | ->]; rewrite E; [left; reflexivity | apply in_or_app; right; left; reflexivity]. }
    intros sched s' Hs Hr [F0 F1]. specialize (C2 s' (R sched s0 s' C1 Hs Hr)). apply andb_prop in C2. destruct C2 as [_ C3].
    unfold is_final in C3. rewrite F0, F1 in C3. exact C3.
  Qed.

  Definition check_with (chk : gst -> bool) (s0 : gst) : bool :=
    cert_ok chk s0 (close 20000 [s0] (PositiveMap.empty _) []).
  Lemma check_with_sound chk s0 : check_with chk s0 = true ->
    forall sched s', is_sched sched -> run_with s0 sched = Some s' -> final_with s' -> chk s' = true.
  Proof. unfold check_with. apply cert_sound. Qed.
End Reach.

(* ---------- the statements ---------- *)
Definition ITMO : nat := 2.       (* INITIAL_TIMEOUT of the first attempt of readFF / readFE / writeEF in the theorems (100 in the code) *)

(* every maximal interleaving of the two calls' shared accesses ends with: both calls returned or blocked; word, table lock and
   record locks free; no use of a released record, no NULL record; state bits = what the table holds; results of the three
   tasks, full/empty, payload and the waiter lists = those of the two atomic cell operations in one of the two orders *)
Definition sv_micro_atomic_with (stp : gst -> N -> option gst) (good : ikind -> op -> op -> gst -> bool) (k : ikind) (oa ob : op) : Prop :=
  forall sched s, is_sched sched -> run_with stp (minit k oa ob) sched = Some s -> final_with stp s -> good k oa ob s = true.
Definition sv_micro_atomic := sv_micro_atomic_with (mstep ITMO) good_final.                       (* the code as it is *)
Definition sv_micro_atomic_old := sv_micro_atomic_with (mstep_old ITMO) good_final.               (* before 8cdc001 / e1e6722 *)
Definition sv_micro_atomic_old_weaknb := sv_micro_atomic_with (mstep_old ITMO) good_final_weak.   (* ... when _nb calls may give up *)

Definition va : N := 11.
Definition vb : N := 22.
Definition ops_of (v : N) : list op :=
  [ReadFF true; ReadFF_nb true; ReadFE true; ReadFE_nb true; WriteF v; WriteEF v; WriteEF_nb v; Fill; Empty; IncrF v; Status].
Definition ikinds : list ikind := [IFull; IEmpty; IFullEF; IEmptyFE; IEmptyFF].
Lemma ikinds_all k : In k ikinds. Proof. destruct k; simpl; auto 6. Qed.

Definition check_triple (stp : gst -> N -> option gst) (good : ikind -> op -> op -> gst -> bool) (k : ikind) (oa ob : op) : bool :=
  check_with stp (good k oa ob) (minit k oa ob).
Lemma check_triple_sound stp good k oa ob : check_triple stp good k oa ob = true -> sv_micro_atomic_with stp good k oa ob.
Proof. intros H sched s Hs Hr Hf. exact (check_with_sound stp _ _ H sched s Hs Hr Hf). Qed.

(* sweep over all triples outside [skip] *)
Definition sweep (stp : gst -> N -> option gst) (good : ikind -> op -> op -> gst -> bool) (skip : ikind -> op -> op -> bool) (k : ikind) : bool :=
  forallb (fun oa => forallb (fun ob => skip k oa ob || check_triple stp good k oa ob) (ops_of vb)) (ops_of va).
Lemma sweep_sound stp good skip k oa ob :
  sweep stp good skip k = true -> In oa (ops_of va) -> In ob (ops_of vb) -> skip k oa ob = false -> sv_micro_atomic_with stp good k oa ob.
Proof.
  unfold sweep. intros H Ha Hb Hk. rewrite forallb_forall in H. specialize (H oa Ha). rewrite forallb_forall in H. specialize (H ob Hb).
  rewrite Hk in H. exact (check_triple_sound _ _ _ _ _ H).
Qed.

(* ---------- the two classes of interleavings that were NOT atomic before /repo 8cdc001 and e1e6722 ---------- *)
Definition is_readFF (o : op) := match o with ReadFF _ => true | _ => false end.
Definition fills (o : op) := match o with WriteF _ | WriteEF _ | WriteEF_nb _ | Fill | IncrF _ => true | _ => false end.
(* (1) the wait path of readFF (record looked up and locked WITHOUT the table lock) against the qthread_syncvar_remove of a
       fill-like call that has just released the last waiter (a readFE waiter: the variable is empty again, so readFF has to wait) *)
Definition uaf_class (k : ikind) (oa ob : op) : bool :=
  match k with IEmptyFE => (is_readFF oa && fills ob) || (is_readFF ob && fills oa) | _ => false end.
Definition no_skip (k : ikind) (oa ob : op) : bool := false.

(* (2) a non-blocking call answers QTHREAD_OPFAIL because it met the LOCK bit (qthread_mwaitc with timeout 1 gives up after two
       looks at a locked word / one failed CAS), although the variable is in the state the call needs whichever of the two calls
       comes first.  [x] is such a call and [y] the other one: x succeeds in both atomic orders, and y takes the word lock
       before x has it (everything except status and readFF / readFF_nb on a variable that starts full does: those only lock the
       word after they have seen it locked or empty, i.e. after x got the lock). *)
Definition ok_res (r : res) : bool := match r with Some (RC_SUCCESS, _) => true | _ => false end.
Definition takes_lock (k : ikind) (y : op) : bool :=
  match y with
  | Status => false
  | ReadFF _ | ReadFF_nb _ => negb (c_full (a_cell (ainit k)))
  | _ => true
  end.
Definition spurious (k : ikind) (oa ob : op) (x_is_a : bool) : bool :=
  let x := if x_is_a then oa else ob in let y := if x_is_a then ob else oa in
  let pick (r : res * res * res * astate) := let '(ra, rb, _, _) := r in if x_is_a then ra else rb in
  is_nb x && ok_res (pick (seq2 k oa ob true)) && ok_res (pick (seq2 k oa ob false)) && takes_lock k y.
Definition nb_class (k : ikind) (oa ob : op) : bool := spurious k oa ob true || spurious k oa ob false.
Definition racy (k : ikind) (oa ob : op) : bool := uaf_class k oa ob || nb_class k oa ob.

(* one pass for the old access order: outside the use-after-free class every final state is good under the weak reading of the
   _nb calls, and outside the spurious-OPFAIL class also under the strict one *)
Definition good_both (k : ikind) (oa ob : op) (s : gst) : bool :=
  good_final_weak k oa ob s && (nb_class k oa ob || good_final k oa ob s).
