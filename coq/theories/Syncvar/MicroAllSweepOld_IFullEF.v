(* C03 micro-step layer (extension B): exhaustive sweep (access order before /repo 8cdc001 and e1e6722) of the 11 x 11 pairs of calls from initial state IFullEF
   (reachable-set certificates, MicroAllProofs.cert_sound); finite domain, by vm_compute. *)
From Coq Require Import List NArith Bool.
From QV Require Import Syncvar.Defs Syncvar.CellSpec Syncvar.MicroAll Syncvar.MicroAllProofs.

(* the old order: all pairs outside the use-after-free class (weak reading; strict outside the spurious-OPFAIL class) *)
Lemma old_IFullEF : sweep (mstep_old ITMO) good_both uaf_class IFullEF = true.
Proof. vm_compute. reflexivity. Qed.
