(* C03: bit-level facts about the syncvar word (BUILD_UNLOCKED_SYNCVAR / bit-field decode). *)
From Coq Require Import List NArith Bool Lia.
From QV Require Import Syncvar.Defs Syncvar.Model.
Import ListNotations.
Local Open Scope N_scope.

Lemma small_bits : forall s k n, s < 2 ^ k -> k <= n -> N.testbit s n = false.
Proof.
  intros s k n Hs Hk. rewrite <- (N.mod_small s (2 ^ k)) by exact Hs.
  apply N.mod_pow2_bits_high. exact Hk.
Qed.

Lemma testbit_build : forall d s n, s < 8 ->
  N.testbit (build_unlocked d s) n =
  if n =? 0 then false else if n <? 4 then N.testbit s (n - 1) else if n <? 64 then N.testbit d (n - 4) else false.
Proof.
  intros d s n Hs. unfold build_unlocked, wrap64, two64.
  destruct (N.eqb_spec n 0) as [->|Hn0].
  - rewrite N.mod_pow2_bits_low by lia. rewrite N.lor_spec.
    rewrite !N.shiftl_spec_low by lia. reflexivity.
  - destruct (N.ltb_spec n 4) as [H4|H4].
    + rewrite N.mod_pow2_bits_low by lia. rewrite N.lor_spec.
      rewrite N.shiftl_spec_low by lia. rewrite N.shiftl_spec_high' by lia. reflexivity.
    + destruct (N.ltb_spec n 64) as [H64|H64].
      * rewrite N.mod_pow2_bits_low by lia. rewrite N.lor_spec.
        rewrite !N.shiftl_spec_high' by lia.
        rewrite (small_bits s 3 (n - 1)) by (try exact Hs; lia).
        apply orb_false_r.
      * apply N.mod_pow2_bits_high. lia.
Qed.

Lemma lock_of_build : forall d s, s < 8 -> lock_of (build_unlocked d s) = false.
Proof. intros d s Hs. unfold lock_of. rewrite testbit_build by exact Hs. reflexivity. Qed.

Lemma state_of_build : forall d s, s < 8 -> state_of (build_unlocked d s) = s.
Proof.
  intros d s Hs. unfold state_of. apply N.bits_inj. intro n.
  rewrite N.land_spec, N.shiftr_spec', testbit_build by exact Hs.
  destruct (N.ltb_spec n 3) as [H3|H3].
  - replace (n + 1 =? 0) with false by (symmetry; apply N.eqb_neq; lia).
    replace (n + 1 <? 4) with true by (symmetry; apply N.ltb_lt; lia).
    replace (n + 1 - 1) with n by lia.
    replace (N.testbit 7 n) with true. { apply andb_true_r. }
    assert (n = 0 \/ n = 1 \/ n = 2) as [->|[->| ->]] by lia; reflexivity.
  - rewrite (small_bits 7 3 n) by (try lia; reflexivity).
    rewrite (small_bits s 3 n) by (try exact Hs; lia). apply andb_false_r.
Qed.

Lemma data_of_build : forall d s, s < 8 -> data_of (build_unlocked d s) = wrap60 d.
Proof.
  intros d s Hs. unfold data_of, wrap60, two60. apply N.bits_inj. intro n.
  rewrite N.shiftr_spec', testbit_build by exact Hs.
  replace (n + 4 =? 0) with false by (symmetry; apply N.eqb_neq; lia).
  replace (n + 4 <? 4) with false by (symmetry; apply N.ltb_ge; lia).
  replace (n + 4 - 4) with n by lia.
  destruct (N.ltb_spec n 60) as [H|H].
  - replace (n + 4 <? 64) with true by (symmetry; apply N.ltb_lt; lia).
    rewrite N.mod_pow2_bits_low by exact H. reflexivity.
  - replace (n + 4 <? 64) with false by (symmetry; apply N.ltb_ge; lia).
    rewrite N.mod_pow2_bits_high by exact H. reflexivity.
Qed.

Lemma wrap60_small : forall v, v < two60 -> wrap60 v = v.
Proof. intros v H. apply N.mod_small. exact H. Qed.

Lemma wrap60_lt : forall v, wrap60 v < two60.
Proof. intro v. apply N.mod_lt. discriminate. Qed.

Lemma wrap60_wrap64 : forall a, wrap60 (wrap64 a) = wrap60 a.
Proof.
  intro a. unfold wrap60, wrap64, two60, two64.
  replace (2 ^ 64) with (2 ^ 60 * 16) by reflexivity.
  rewrite N.mod_mul_r by discriminate.
  rewrite (N.mul_comm (2 ^ 60) ((a / 2 ^ 60) mod 16)).
  rewrite N.mod_add by discriminate.
  apply N.mod_mod. discriminate.
Qed.

Lemma wrap60_idem : forall a, wrap60 (wrap60 a) = wrap60 a.
Proof. intro a. apply wrap60_small. apply wrap60_lt. Qed.

Lemma INT64TOINT60_wrap60 : forall x, INT64TOINT60 x = wrap60 x.
Proof.
  intro x. unfold INT64TOINT60, wrap60, two60.
  change 1152921504606846975 with (N.ones 60). apply N.land_ones.
Qed.

Lemma int60_wrap64 : forall a, INT64TOINT60 (wrap64 a) = wrap60 a.
Proof. intro a. rewrite INT64TOINT60_wrap60. apply wrap60_wrap64. Qed.

Lemma wrap60_add_l : forall a b, wrap60 (wrap60 a + b) = wrap60 (a + b).
Proof. intros. unfold wrap60. apply N.add_mod_idemp_l. discriminate. Qed.

Lemma overflows_spec : forall v, overflows v = true <-> two60 <= v.
Proof.
  intro v. unfold overflows, two60. rewrite N.shiftr_div_pow2, negb_true_iff, N.eqb_neq.
  split.
  - intro H. destruct (N.lt_ge_cases v (2 ^ 60)) as [Hlt|Hge]; [|exact Hge].
    exfalso. apply H. apply N.div_small. exact Hlt.
  - intros H Hz. apply N.div_small_iff in Hz; [lia|discriminate].
Qed.

Lemma overflows_false : forall v, overflows v = false <-> v < two60.
Proof.
  intro v. pose proof (overflows_spec v) as H. destruct (overflows v).
  - split; [discriminate|]. intro Hl. assert (two60 <= v) by (apply H; reflexivity). lia.
  - split; [|reflexivity]. intros _. destruct (N.lt_ge_cases v two60) as [Hl|Hg]; [exact Hl|].
    apply H in Hg. discriminate.
Qed.

(* decode of a data < 2^60 *)
Lemma data_of_lt : forall w, w < two64 -> data_of w < two60.
Proof.
  intros w H. unfold data_of. rewrite N.shiftr_div_pow2.
  apply N.div_lt_upper_bound; [discriminate|]. exact H.
Qed.

Lemma build_lt : forall d s, build_unlocked d s < two64.
Proof. intros. unfold build_unlocked, wrap64. apply N.mod_lt. discriminate. Qed.
