(* Extension R (C03): every run of the op-atomic syncvar model is a history the proved acceptor accepts.
   Syncvar/Proofs.v shows that each call of the concrete model (Syncvar/Model.v) is one step of the abstract cell with its
   wake-ups (step_refines: spec_step of Syncvar/CellSpec.v); Syncvar/History.v defines when a history with invocation /
   return tickets is explained by the cell and its acceptor is proved sound and Reject-complete.  Here the two are connected:
   the history of a model run (Syncvar/ModelHistoryDefs.v) is explained - the witness is the model's own order of effects.
   The only delicate point is incrF on an empty variable with waiting readers: the specification fills the variable and
   releases the readers; the history relation sees an incrF that leaves the variable empty, followed by a reader that was
   invoked before the incrF returned (the lazy encoding hs_just of History.v, equivalent to the declarative rule
   dlin_incr_fill by HistoryDecl.lazy_is_declarative). *)
From Coq Require Import List NArith Bool Lia Permutation Sorted.
Import ListNotations.
From QV Require Import Syncvar.Defs Syncvar.CellSpec Syncvar.Model Syncvar.Proofs Syncvar.History Syncvar.HistoryProofs
  Syncvar.HistoryComplete Syncvar.HistoryIncr Syncvar.HistoryDecl Syncvar.ModelHistoryDefs.
Local Open Scope N_scope.

(* ------------------------------------------------------------------ lists *)
Lemma perm_filter {A} (f : A -> bool) l l' : Permutation l l' -> Permutation (filter f l) (filter f l').
Proof.
  induction 1 as [|x l l' _ IH|x y l|l l' l'' _ IH1 _ IH2]; simpl.
  - constructor.
  - destruct (f x); [constructor|]; exact IH.
  - destruct (f x), (f y); try apply Permutation_refl. apply perm_swap.
  - eapply perm_trans; eassumption.
Qed.

Lemma sorted_snoc {A} (R : A -> A -> Prop) l x :
  StronglySorted R l -> Forall (fun y => R y x) l -> StronglySorted R (l ++ [x]).
Proof.
  induction 1 as [|a l S IH F]; intros H; simpl.
  - constructor; constructor.
  - inversion H as [|? ? Ha Hl]; subst. constructor; [apply IH; exact Hl|].
    apply Forall_app. split; [exact F|]. constructor; [exact Ha|constructor].
Qed.

Lemma take_tid_in t p : forall pend, NoDup (map fst pend) -> In (t, p) pend ->
  exists rest, take_tid t pend = Some (p, rest) /\ Permutation pend ((t, p) :: rest).
Proof.
  induction pend as [|[t' q] pend IH]; simpl; intros ND I; [contradiction|].
  inversion ND as [|? ? NI ND']; subst. destruct I as [E|I].
  - inversion E; subst. rewrite N.eqb_refl. exists pend. split; [reflexivity|apply Permutation_refl].
  - destruct (N.eqb t t') eqn:Q.
    + apply N.eqb_eq in Q. subst t'. exfalso. apply NI. change t with (fst (t, p)). apply in_map. exact I.
    + destruct (IH ND' I) as (rest & T & P). rewrite T. exists ((t', q) :: rest). split; [reflexivity|].
      eapply perm_trans; [apply perm_skip; exact P|apply perm_swap].
Qed.

(* ------------------------------------------------------------------ tickets *)
Record binv (b : bst) : Prop := mkBinv {
  bi_nodup : NoDup (map fst (b_pend b));
  bi_pend : Forall (fun tp => h_ret (snd tp) = None /\ h_inv (snd tp) < b_clk b) (b_pend b);
  bi_done : Forall (fun x => exists r, h_ret x = Some r /\ h_inv x < r /\ r < b_clk b) (b_done b);
  bi_sorted : StronglySorted rt_compat (b_done b) }.

Lemma binv_b0 : binv b0.
Proof. constructor; simpl; constructor. Qed.

Lemma binv_tick b : binv b -> binv (mkB (N.succ (b_clk b)) (b_done b) (b_pend b)).
Proof.
  intros [ND P D S]. constructor; simpl; try assumption.
  - eapply Forall_impl; [|exact P]. intros tp [H1 H2]. split; [exact H1|lia].
  - eapply Forall_impl; [|exact D]. intros x (r & H1 & H2 & H3). exists r. repeat split; try assumption. lia.
Qed.

Definition issue (b : bst) (t : N) (o : op) : bst := mkB (N.succ (b_clk b)) (b_done b) ((t, new_hop o (b_clk b)) :: b_pend b).

Lemma binv_issue b t o : binv b -> ~ In t (map fst (b_pend b)) -> binv (issue b t o).
Proof.
  intros BI NI. destruct (binv_tick b BI) as [ND P D S]. simpl in *. constructor; simpl; try assumption.
  - constructor; assumption.
  - constructor; [|exact P]. simpl. split; [reflexivity|lia].
Qed.

Lemma binv_finish b t p rest c v :
  binv b -> Permutation (b_pend b) ((t, p) :: rest) ->
  binv (mkB (N.succ (b_clk b)) (b_done b ++ [finish p (b_clk b) c v]) rest).
Proof.
  intros [ND P D S] Pm.
  assert (P' : Forall (fun tp => h_ret (snd tp) = None /\ h_inv (snd tp) < b_clk b) ((t, p) :: rest)).
  { rewrite Forall_forall in *. intros x Hx. apply P. eapply Permutation_in; [apply Permutation_sym; exact Pm|exact Hx]. }
  inversion P' as [|? ? [Hr Hi] Prest]; subst. simpl in Hr, Hi.
  constructor; simpl.
  - assert (Q : Permutation (map fst (b_pend b)) (t :: map fst rest)) by (apply (Permutation_map fst) in Pm; exact Pm).
    pose proof (Permutation_NoDup Q ND) as ND2. inversion ND2; assumption.
  - eapply Forall_impl; [|exact Prest]. intros tp [H1 H2]. split; [exact H1|lia].
  - apply Forall_app. split.
    + eapply Forall_impl; [|exact D]. intros x (r & H1 & H2 & H3). exists r. repeat split; try assumption. lia.
    + constructor; [|constructor]. exists (b_clk b). simpl. repeat split; [exact Hi|lia].
  - apply sorted_snoc; [exact S|]. eapply Forall_impl; [|exact D].
    intros x (r & H1 & H2 & H3). unfold rt_compat, rt_before. simpl. lia.
Qed.

Lemma on_events_app b l1 l2 : on_events b (l1 ++ l2) = on_events (on_events b l1) l2.
Proof. unfold on_events. apply fold_left_app. Qed.
Lemma on_events_cons b e l : on_events b (e :: l) = on_events (on_event b e) l.
Proof. reflexivity. Qed.

(* ------------------------------------------------------------------ what the history sees of a variable *)
Definition tagp (tp : N * hop) : N * sop * bool := (fst tp, h_op (snd tp), h_nb (snd tp)).
Definition tagEF (w : waiter) : N * sop * bool := (w_tid w, SWriteEF (w_val w), false).
Definition tagFE (w : waiter) : N * sop * bool := (w_tid w, SReadFE, false).
Definition tagFF (w : waiter) : N * sop * bool := (w_tid w, SReadFF, false).
Definition tags (ef fe ff : list waiter) := map tagEF ef ++ map tagFE fe ++ map tagFF ff.
Definition pend_ok (b : bst) (a : astate) : Prop := Permutation (map tagp (b_pend b)) (tags (pEF a) (pFE a) (pFF a)).
Definition vals_lt (l : list waiter) : Prop := Forall (fun w => w_val w < two60) l.

Section Sim.
  Variable S0 : hstate.      (* the run state the history starts in *)

  (* one `Ret` event of a pending call, given what the history relation makes of the finished call *)
  Lemma play_ret b t op nb rest rc v st st' :
    binv b -> NoDup (map fst (b_pend b)) -> Permutation (map tagp (b_pend b)) ((t, op, nb) :: rest) ->
    hrun S0 (b_done b) st ->
    (forall p, In (t, p) (b_pend b) -> h_op p = op -> h_nb p = nb ->
               apply_op st (finish p (b_clk b) rc v) = Some st') ->
    let b' := on_event b (Ret t rc v) in
    binv b' /\ hrun S0 (b_done b') st' /\ Permutation (map tagp (b_pend b')) rest /\ b_clk b' = N.succ (b_clk b).
  Proof.
    intros BI ND P HR AP.
    assert (I : In (t, op, nb) (map tagp (b_pend b))) by (eapply Permutation_in; [apply Permutation_sym; exact P|left; reflexivity]).
    apply in_map_iff in I. destruct I as ([t' p] & Et & Ip). unfold tagp in Et. simpl in Et. inversion Et; subst t' op nb.
    destruct (take_tid_in t p (b_pend b) ND Ip) as (rest' & T & Pm).
    simpl. rewrite T. simpl. split; [eapply binv_finish; eassumption|]. split; [|split; [|reflexivity]].
    - eapply hrun_app; [exact HR|]. apply hrun_b_sound. simpl. rewrite (AP p Ip eq_refl eq_refl). reflexivity.
    - apply (Permutation_map tagp) in Pm. simpl in Pm. unfold tagp at 2 in Pm. simpl in Pm.
      eapply Permutation_cons_inv. eapply perm_trans; [apply Permutation_sym; exact Pm|exact P].
  Qed.

  (* the run state represents cell c exactly: an undecided incrF, if any, returned in the past and nobody pending was
     invoked before it returned (so nobody will ever be taken for a reader it found waiting) *)
  Definition exact (st : hstate) (c : cell) (b : bst) : Prop :=
    hs_cell st = c /\ forall r, hs_just st = Some r -> r < b_clk b /\ Forall (fun tp => r < h_inv (snd tp)) (b_pend b).
  (* the run state stands for the FULL cell of value v by way of an undecided incrF every pending call was invoked before *)
  Definition virt (st : hstate) (v : N) (b : bst) : Prop :=
    hs_cell st = mkC false v /\ exists r, hs_just st = Some r /\ Forall (fun tp => h_inv (snd tp) < r) (b_pend b).

  Lemma exact_none c b : exact (mkH c None) c b.
  Proof. split; [reflexivity|]. intros r E. discriminate. Qed.

  Lemma seen_not_reader st x : waits_as_reader x = false -> seen_cell st x = hs_cell st.
  Proof. intros H. unfold seen_cell, justified. destruct (hs_just st); [rewrite H|]; reflexivity. Qed.

  (* a released reader *)
  Lemma reader_apply st v b p rop d :
    exact st (mkC true v) b \/ virt st v b ->
    (rop = SReadFF \/ rop = SReadFE) -> In p (map snd (b_pend b)) ->
    h_op p = rop -> h_nb p = false ->
    apply_op st (finish p (b_clk b) RC_SUCCESS (dval d v)) =
    Some (mkH (match rop with SReadFE => mkC false v | _ => mkC true v end) None).
  Proof.
    intros SE RO Ip Hop Hnb. unfold apply_op. cbn [finish h_out h_op h_nb h_inv h_ret]. rewrite Hop.
    assert (RJ : sv_rejected rop = false) by (destruct RO; subst; reflexivity). rewrite RJ.
    assert (SC : seen_cell st (finish p (b_clk b) RC_SUCCESS (dval d v)) = mkC true v).
    { unfold seen_cell. destruct SE as [[Hc _]|[Hc (r & Hj & F)]].
      - rewrite Hc. destruct (justified _ _); reflexivity.
      - rewrite Hc, Hj. unfold justified, waits_as_reader. cbn [finish h_out h_op h_nb h_inv]. rewrite Hop, Hnb.
        apply in_map_iff in Ip. destruct Ip as (tp & <- & Itp). rewrite Forall_forall in F. specialize (F tp Itp).
        assert (L : (h_inv (snd tp) <? r) = true) by (apply N.ltb_lt; exact F). rewrite L.
        destruct RO; subst; reflexivity. }
    rewrite SC. unfold next_just. cbn [finish h_op]. rewrite Hop.
    destruct RO; subst rop; cbn; destruct d; cbn; rewrite ?N.eqb_refl; reflexivity.
  Qed.

  Lemma reader_release b st v w rop rest :
    binv b -> hrun S0 (b_done b) st -> exact st (mkC true v) b \/ virt st v b ->
    (rop = SReadFF \/ rop = SReadFE) ->
    Permutation (map tagp (b_pend b)) ((w_tid w, rop, false) :: rest) ->
    let b' := on_event b (Ret (w_tid w) RC_SUCCESS (dval (w_dest w) v)) in
    binv b' /\ hrun S0 (b_done b') (mkH (match rop with SReadFE => mkC false v | _ => mkC true v end) None) /\
    Permutation (map tagp (b_pend b')) rest.
  Proof.
    intros BI HR SE RO P.
    destruct (play_ret b (w_tid w) rop false rest RC_SUCCESS (dval (w_dest w) v) st
                (mkH (match rop with SReadFE => mkC false v | _ => mkC true v end) None) BI (bi_nodup b BI) P HR) as (B1 & H1 & P1 & _).
    - intros p Ip Hop Hnb. apply reader_apply; try assumption.
      apply in_map_iff. exists (w_tid w, p). split; [reflexivity|exact Ip].
    - auto.
  Qed.

  (* every blocked readFF returns the value *)
  Lemma ff_sim v : forall ff b st rest,
    binv b -> hrun S0 (b_done b) st -> exact st (mkC true v) b \/ virt st v b ->
    Permutation (map tagp (b_pend b)) (map tagFF ff ++ rest) ->
    let b' := on_events b (map (fun w => Ret (w_tid w) RC_SUCCESS (dval (w_dest w) v)) ff) in
    binv b' /\ Permutation (map tagp (b_pend b')) rest /\
    ((ff = [] /\ b' = b) \/ hrun S0 (b_done b') (mkH (mkC true v) None)).
  Proof.
    induction ff as [|w ff IH]; intros b st rest BI HR SE P.
    - simpl. split; [exact BI|]. split; [exact P|]. left. split; reflexivity.
    - cbn [map]. rewrite on_events_cons. cbn [map app] in P.
      destruct (reader_release b st v w SReadFF _ BI HR SE (or_introl eq_refl) P) as (B1 & H1 & P1).
      destruct (IH _ (mkH (mkC true v) None) rest B1 H1 (or_introl (exact_none _ _)) P1) as (B2 & P2 & D).
      split; [exact B2|]. split; [exact P2|]. right. destruct D as [[-> ->]|D]; [exact H1|exact D].
  Qed.

  Lemma tags_ff_first ef fe ff : Permutation (tags ef fe ff) (map tagFF ff ++ (map tagEF ef ++ map tagFE fe)).
  Proof. unfold tags. rewrite app_assoc. apply Permutation_app_comm. Qed.

  (* the wake-ups of the specification, played on the builder *)
  Lemma wake_sim c ef fe ff a' evs b st :
    wake c ef fe ff = (a', evs) -> vals_lt ef ->
    binv b -> hrun S0 (b_done b) st ->
    (exact st c b \/ (c_full c = true /\ virt st (c_val c) b /\ (fe <> [] \/ ff <> []))) ->
    Permutation (map tagp (b_pend b)) (tags ef fe ff) ->
    let b' := on_events b evs in
    binv b' /\ (exists st', hrun S0 (b_done b') st' /\ exact st' (a_cell a') b') /\ pend_ok b' a'.
  Proof.
    intros W VL BI HR SE P. destruct c as [[|] v]; unfold wake in W; cbn [c_full c_val] in W, SE.
    - (* the cell is full: all readFF, then one readFE *)
      assert (SE' : exact st (mkC true v) b \/ virt st v b) by (destruct SE as [E|(_ & V & _)]; [left|right]; assumption).
      assert (P0 : Permutation (map tagp (b_pend b)) (map tagFF ff ++ (map tagEF ef ++ map tagFE fe))).
      { eapply perm_trans; [exact P|apply tags_ff_first]. }
      destruct (ff_sim v ff b st _ BI HR SE' P0) as (B1 & P1 & D1).
      set (b1 := on_events b (map (fun w => Ret (w_tid w) RC_SUCCESS (dval (w_dest w) v)) ff)) in *.
      destruct fe as [|w fe'].
      + inversion W; subst a' evs. fold b1. split; [exact B1|]. split.
        * destruct D1 as [[-> Eb]|H1].
          -- rewrite Eb. exists st. split; [exact HR|]. destruct SE as [E|(_ & _ & [N|N])]; [exact E|congruence|congruence].
          -- exists (mkH (mkC true v) None). split; [exact H1|apply exact_none].
        * unfold pend_ok, tags. simpl. rewrite app_nil_r in P1. rewrite app_nil_r. exact P1.
      + inversion W; subst a' evs. rewrite on_events_app. fold b1.
        assert (S1 : exists st1, hrun S0 (b_done b1) st1 /\ (exact st1 (mkC true v) b1 \/ virt st1 v b1)).
        { destruct D1 as [[-> Eb]|H1].
          - rewrite Eb. exists st. split; assumption.
          - exists (mkH (mkC true v) None). split; [exact H1|left; apply exact_none]. }
        destruct S1 as (st1 & H1 & SE1).
        assert (P1' : Permutation (map tagp (b_pend b1)) ((w_tid w, SReadFE, false) :: (map tagEF ef ++ map tagFE fe'))).
        { eapply perm_trans; [exact P1|]. cbn [map]. apply Permutation_sym, Permutation_middle. }
        destruct (reader_release b1 st1 v w SReadFE _ B1 H1 SE1 (or_intror eq_refl) P1') as (B2 & H2 & P2).
        cbn [on_events fold_left]. split; [exact B2|]. split.
        * exists (mkH (mkC false v) None). split; [exact H2|apply exact_none].
        * unfold pend_ok, tags. simpl. rewrite app_nil_r. exact P2.
    - (* the cell is empty: one writeEF *)
      destruct SE as [[Hc HJ]|(F & _)]; [|discriminate].
      destruct ef as [|w ef'].
      + inversion W; subst a' evs. simpl. split; [exact BI|]. split; [|exact P].
        exists st. split; [exact HR|]. split; assumption.
      + inversion W; subst a' evs. cbn [on_events fold_left].
        inversion VL as [|? ? Vw Vr]; subst.
        destruct (play_ret b (w_tid w) (SWriteEF (w_val w)) false (map tagEF ef' ++ map tagFE fe ++ map tagFF ff) RC_SUCCESS None st
                    (mkH (mkC true (w_val w)) None) BI (bi_nodup b BI) P HR) as (B1 & H1 & P1 & _).
        * intros p Ip Hop Hnb. unfold apply_op. cbn [finish h_out h_op]. rewrite Hop.
          assert (RJ : sv_rejected (SWriteEF (w_val w)) = false) by (simpl; apply N.leb_gt; exact Vw). rewrite RJ.
          rewrite seen_not_reader, Hc.
          -- cbn. unfold next_just. cbn [finish h_op]. rewrite Hop. reflexivity.
          -- unfold waits_as_reader. cbn [finish h_out h_op h_nb]. rewrite Hop. apply andb_false_r.
        * split; [exact B1|]. split; [|exact P1].
          exists (mkH (mkC true (w_val w)) None). split; [exact H1|apply exact_none].
  Qed.

  (* ---------- the caller's own return ---------- *)
  Lemma caller_ret b t o rc v st st' :
    binv b -> ~ In t (map fst (b_pend b)) -> hrun S0 (b_done b) st ->
    apply_op st (finish (new_hop o (b_clk b)) (N.succ (b_clk b)) rc v) = Some st' ->
    let b2 := on_event (issue b t o) (Ret t rc v) in
    binv b2 /\ hrun S0 (b_done b2) st' /\ b_pend b2 = b_pend b /\ b_clk b2 = N.succ (N.succ (b_clk b)).
  Proof.
    intros BI NI HR AP. unfold issue. simpl. rewrite N.eqb_refl. simpl.
    split; [|split; [|split; reflexivity]].
    - apply (binv_finish (issue b t o) t (new_hop o (b_clk b)) (b_pend b) rc v (binv_issue b t o BI NI)). apply Permutation_refl.
    - eapply hrun_app; [exact HR|]. apply hrun_b_sound. simpl. rewrite AP. reflexivity.
  Qed.

  Lemma caller_not_justified st c b o rc v :
    exact st c b -> seen_cell st (finish (new_hop o (b_clk b)) (N.succ (b_clk b)) rc v) = c.
  Proof.
    intros [Hc HJ]. unfold seen_cell, justified. destruct (hs_just st) as [r|] eqn:J; [|exact Hc].
    destruct (HJ r eq_refl) as [Lr _]. cbn [finish new_hop h_inv].
    assert (L : (b_clk b <? r) = false) by (apply N.ltb_ge; lia). rewrite L, andb_false_r. exact Hc.
  Qed.

  Lemma caller_done st c b o val c1 r :
    exact st c b -> sv_rejected (sop_of o) = false -> atomic c (sop_of o) = Some (c1, r) ->
    obs_ok (obs_of (sop_of o) val) r = true ->
    apply_op st (finish (new_hop o (b_clk b)) (N.succ (b_clk b)) RC_SUCCESS val) =
    Some (mkH c1 (match sop_of o with SIncrF _ => if c_full c then None else Some (N.succ (b_clk b)) | _ => None end)).
  Proof.
    intros E RJ A OK. unfold apply_op. rewrite (caller_not_justified st c b o RC_SUCCESS val E).
    cbn [finish new_hop h_out h_op]. rewrite RJ, A, OK. unfold next_just. cbn [finish new_hop h_op h_ret].
    destruct (sop_of o); reflexivity.
  Qed.

  (* exactness survives ticks of the clock and calls that are issued later *)
  Lemma exact_later st c b b' :
    exact st c b -> b_clk b <= b_clk b' ->
    (forall tp, In tp (b_pend b') -> In tp (b_pend b) \/ b_clk b <= h_inv (snd tp)) -> exact st c b'.
  Proof.
    intros [Hc HJ] L I. split; [exact Hc|]. intros r Er. destruct (HJ r Er) as [Lr F]. split; [lia|].
    rewrite Forall_forall in *. intros tp Htp. destruct (I tp Htp) as [H|H]; [apply F; exact H|lia].
  Qed.

  (* ---------- the simulation: abstract syncvar / builder ---------- *)
  Record sim (a : astate) (b : bst) : Prop := mkSim {
    sm_b : binv b;
    sm_q : quiescent a;
    sm_v : vals_lt (pEF a);
    sm_run : exists st, hrun S0 (b_done b) st /\ exact st (a_cell a) b;
    sm_pend : pend_ok b a }.

  Lemma sim_tick a b : sim a b -> sim a (mkB (N.succ (b_clk b)) (b_done b) (b_pend b)).
  Proof.
    intros [BI Q V (st & HR & E) P]. constructor; try assumption.
    - apply binv_tick. exact BI.
    - exists st. split; [exact HR|]. eapply exact_later; [exact E|simpl; lia|]. intros tp H. left. exact H.
  Qed.

  Lemma wake_pEF c ef fe ff : vals_lt ef -> vals_lt (pEF (fst (wake c ef fe ff))).
  Proof.
    intros V. unfold wake. destruct (c_full c).
    - destruct fe; exact V.
    - destruct ef as [|w ef']; simpl; [constructor|]. inversion V; assumption.
  Qed.

  Lemma spec_step_vals a t o : vals_lt (pEF a) -> vals_lt (pEF (fst (spec_step a t o))).
  Proof.
    intros V. unfold spec_step. destruct (rejected o) eqn:RJ; [exact V|].
    destruct o; cbn [fst after]; try (destruct (c_full (a_cell a))); cbn [fst after pEF]; try exact V; try (apply wake_pEF; exact V).
    constructor; [|exact V]. simpl in RJ |- *. apply N.leb_gt. exact RJ.
  Qed.

  Lemma pend_nil_of_tags b : Permutation (map tagp (b_pend b)) [] -> b_pend b = [].
  Proof. intros P. apply Permutation_sym, Permutation_nil in P. destruct (b_pend b); [reflexivity|discriminate]. Qed.

  (* one call on the variable by a task that is not blocked *)
  Lemma sim_spec_step a b t o a' evs :
    sim a b -> ~ In t (map fst (b_pend b)) -> spec_step a t o = (a', evs) ->
    sim a' (on_events (issue b t o) evs).
  Proof.
    intros SM NI SS. pose proof SM as [BI Q V (st & HR & E) P].
    pose proof (spec_quiescent a t o a' evs Q SS) as Q'.
    pose proof (spec_step_vals a t o V) as V'. rewrite SS in V'. simpl in V'.
    assert (BI1 : binv (issue b t o)) by (apply binv_issue; assumption).
    (* the three shapes of a step *)
    assert (RET_ONLY : forall rc v st', a' = a -> evs = [Ret t rc v] ->
              apply_op st (finish (new_hop o (b_clk b)) (N.succ (b_clk b)) rc v) = Some st' -> hs_cell st' = a_cell a ->
              hs_just st' = None -> sim a' (on_events (issue b t o) evs)).
    { intros rc v st' -> -> AP Hc Hj. cbn [on_events fold_left].
      destruct (caller_ret b t o rc v st st' BI NI HR AP) as (B2 & H2 & P2 & C2).
      constructor; try assumption.
      - exists st'. split; [exact H2|]. split; [exact Hc|]. rewrite Hj. intros r Er. discriminate.
      - unfold pend_ok. rewrite P2. exact P. }
    assert (BLOCKS : forall w, w_tid w = t -> evs = [Blocked t] -> a_cell a' = a_cell a ->
              Permutation (tags (pEF a') (pFE a') (pFF a')) ((t, sop_of o, is_nb o) :: tags (pEF a) (pFE a) (pFF a)) ->
              sim a' (on_events (issue b t o) evs)).
    { intros w Wt -> Hc PP. cbn [on_events fold_left on_event]. constructor; try assumption.
      - exists st. split; [exact HR|]. rewrite Hc. eapply exact_later; [exact E|simpl; lia|].
        intros tp [<-|H]; [right; simpl; lia|left; exact H].
      - unfold pend_ok. simpl. unfold tagp at 1. simpl. eapply perm_trans; [apply perm_skip; exact P|apply Permutation_sym; exact PP]. }
    assert (WAKES : forall v c1 r c' wevs,
              sv_rejected (sop_of o) = false -> atomic (a_cell a) (sop_of o) = Some (c1, r) ->
              obs_ok (obs_of (sop_of o) v) r = true ->
              wake c' (pEF a) (pFE a) (pFF a) = (a', wevs) -> evs = Ret t RC_SUCCESS v :: wevs ->
              (c' = c1 /\ (forall i, sop_of o = SIncrF i -> c_full (a_cell a) = true \/ (pFE a = [] /\ pFF a = [])) \/
               (exists i, sop_of o = SIncrF i /\ c_full (a_cell a) = false /\ c' = mkC true (c_val c1) /\ c1 = mkC false (c_val c1) /\
                          (pFE a <> [] \/ pFF a <> []))) ->
              sim a' (on_events (issue b t o) evs)).
    { intros v c1 r c' wevs RJ A OK W -> SH. rewrite on_events_cons.
      pose proof (caller_done st (a_cell a) b o v c1 r E RJ A OK) as AP.
      destruct (caller_ret b t o RC_SUCCESS v st _ BI NI HR AP) as (B2 & H2 & P2 & C2).
      set (b2 := on_event (issue b t o) (Ret t RC_SUCCESS v)) in *.
      set (st2 := mkH c1 (match sop_of o with SIncrF _ => if c_full (a_cell a) then None else Some (N.succ (b_clk b)) | _ => None end)) in *.
      assert (PP2 : Permutation (map tagp (b_pend b2)) (tags (pEF a) (pFE a) (pFF a))) by (rewrite P2; exact P).
      assert (SE2 : exact st2 c' b2 \/ (c_full c' = true /\ virt st2 (c_val c') b2 /\ (pFE a <> [] \/ pFF a <> []))).
      { destruct SH as [[-> NI2]|(i & Ei & F & -> & E1 & NE)].
        - left. split; [reflexivity|]. unfold st2. cbn [hs_just]. intros r0 Er0.
          destruct (sop_of o) eqn:So; try discriminate Er0. destruct (c_full (a_cell a)) eqn:F; [discriminate Er0|].
          inversion Er0; subst r0. split; [rewrite C2; lia|].
          destruct (NI2 inc eq_refl) as [X|[X1 X2]]; [discriminate|].
          destruct Q as [_ Qe]. pose proof (Qe F) as X0.
          unfold tags in PP2. rewrite X0, X1, X2 in PP2. simpl in PP2. rewrite (pend_nil_of_tags b2 PP2). constructor.
        - right. split; [reflexivity|]. split; [|exact NE]. unfold virt, st2. cbn [hs_cell hs_just c_val]. rewrite Ei, F.
          split; [exact E1|]. exists (N.succ (b_clk b)). split; [reflexivity|]. rewrite P2.
          eapply Forall_impl; [|exact (bi_pend b BI)]. intros tp [_ L]. lia. }
      destruct (wake_sim c' (pEF a) (pFE a) (pFF a) a' wevs b2 st2 W V B2 H2 SE2 PP2) as (B3 & R3 & P3).
      constructor; assumption. }
    (* by cases on the call *)
    unfold spec_step in SS. destruct (rejected o) eqn:RJ.
    { inversion SS; subst a' evs. eapply (RET_ONLY RC_OVERFLOW None (mkH (hs_cell st) None)); try reflexivity; [|apply E].
      unfold apply_op. cbn [finish new_hop h_out h_op].
      assert (R2 : sv_rejected (sop_of o) = true) by (destruct o; simpl in RJ |- *; try discriminate; exact RJ).
      rewrite R2. reflexivity. }
    assert (RJ' : sv_rejected (sop_of o) = false) by (destruct o; simpl in RJ |- *; try reflexivity; exact RJ).
    destruct a as [[f v] ef fe ff]. cbn [a_cell c_full c_val pEF pFE pFF] in *.
    destruct E as [Hc HJ].
    assert (E : exact st (mkC f v) b) by (split; assumption).
    assert (FAIL : a' = mkA (mkC f v) ef fe ff -> evs = [Ret t RC_OPFAIL None] -> is_nb o = true ->
                   atomic (mkC f v) (sop_of o) = None -> sim a' (on_events (issue b t o) evs)).
    { intros Ea Ee NB A. eapply (RET_ONLY RC_OPFAIL None (mkH (mkC f v) None)); try eassumption; try reflexivity.
      unfold apply_op. cbn [finish new_hop h_out h_op h_nb]. rewrite NB, RJ', Hc, A. reflexivity. }
    destruct o as [d|d|d|d|x|x|x| | |inc| ]; cbn [sop_of is_nb] in *; destruct f; cbn [c_full c_val] in SS; unfold after in SS; cbn [fst snd] in SS.
    (* ReadFF *)
    - inversion SS; subst a' evs. eapply (RET_ONLY RC_SUCCESS (dval d v) (mkH (mkC true v) None)); try reflexivity.
      rewrite (caller_done st (mkC true v) b (ReadFF d) (dval d v) (mkC true v) (RVal v) E eq_refl eq_refl); [reflexivity|].
      destruct d; simpl; [apply N.eqb_refl|reflexivity].
    - inversion SS; subst a' evs. apply (BLOCKS (mkW t 0 d) eq_refl eq_refl eq_refl).
      unfold tags. cbn [pEF pFE pFF map]. unfold tagFF at 1. cbn. apply Permutation_sym.
      rewrite !app_assoc. apply Permutation_middle.
    (* ReadFF_nb *)
    - inversion SS; subst a' evs. eapply (RET_ONLY RC_SUCCESS (dval d v) (mkH (mkC true v) None)); try reflexivity.
      rewrite (caller_done st (mkC true v) b (ReadFF_nb d) (dval d v) (mkC true v) (RVal v) E eq_refl eq_refl); [reflexivity|].
      destruct d; simpl; [apply N.eqb_refl|reflexivity].
    - inversion SS; subst a' evs. apply FAIL; reflexivity.
    (* ReadFE *)
    - destruct (wake (mkC false v) ef fe ff) as [aw wevs] eqn:W. inversion SS; subst a' evs.
      apply (WAKES (dval d v) (mkC false v) (RVal v) (mkC false v) wevs eq_refl eq_refl); try reflexivity; try assumption.
      + destruct d; simpl; [apply N.eqb_refl|reflexivity].
      + left. split; [reflexivity|]. intros i Ei. discriminate.
    - inversion SS; subst a' evs. apply (BLOCKS (mkW t 0 d) eq_refl eq_refl eq_refl).
      unfold tags. cbn [pEF pFE pFF map]. unfold tagFE at 1. cbn. apply Permutation_sym. apply Permutation_middle.
    (* ReadFE_nb *)
    - destruct (wake (mkC false v) ef fe ff) as [aw wevs] eqn:W. inversion SS; subst a' evs.
      apply (WAKES (dval d v) (mkC false v) (RVal v) (mkC false v) wevs eq_refl eq_refl); try reflexivity; try assumption.
      + destruct d; simpl; [apply N.eqb_refl|reflexivity].
      + left. split; [reflexivity|]. intros i Ei. discriminate.
    - inversion SS; subst a' evs. apply FAIL; reflexivity.
    (* WriteF *)
    - destruct (wake (mkC true x) ef fe ff) as [aw wevs] eqn:W. inversion SS; subst a' evs.
      apply (WAKES None (mkC true x) RNone (mkC true x) wevs RJ' eq_refl); try reflexivity; try assumption.
      left. split; [reflexivity|]. intros i Ei. discriminate.
    - destruct (wake (mkC true x) ef fe ff) as [aw wevs] eqn:W. inversion SS; subst a' evs.
      apply (WAKES None (mkC true x) RNone (mkC true x) wevs RJ' eq_refl); try reflexivity; try assumption.
      left. split; [reflexivity|]. intros i Ei. discriminate.
    (* WriteEF *)
    - inversion SS; subst a' evs. apply (BLOCKS (mkW t x false) eq_refl eq_refl eq_refl).
      unfold tags. cbn [pEF pFE pFF map]. unfold tagEF at 1. cbn. apply Permutation_refl.
    - destruct (wake (mkC true x) ef fe ff) as [aw wevs] eqn:W. inversion SS; subst a' evs.
      apply (WAKES None (mkC true x) RNone (mkC true x) wevs RJ' eq_refl); try reflexivity; try assumption.
      left. split; [reflexivity|]. intros i Ei. discriminate.
    (* WriteEF_nb *)
    - inversion SS; subst a' evs. apply FAIL; reflexivity.
    - destruct (wake (mkC true x) ef fe ff) as [aw wevs] eqn:W. inversion SS; subst a' evs.
      apply (WAKES None (mkC true x) RNone (mkC true x) wevs RJ' eq_refl); try reflexivity; try assumption.
      left. split; [reflexivity|]. intros i Ei. discriminate.
    (* Fill *)
    - destruct (wake (mkC true v) ef fe ff) as [aw wevs] eqn:W. inversion SS; subst a' evs.
      apply (WAKES None (mkC true v) RNone (mkC true v) wevs eq_refl eq_refl); try reflexivity; try assumption.
      left. split; [reflexivity|]. intros i Ei. discriminate.
    - destruct (wake (mkC true v) ef fe ff) as [aw wevs] eqn:W. inversion SS; subst a' evs.
      apply (WAKES None (mkC true v) RNone (mkC true v) wevs eq_refl eq_refl); try reflexivity; try assumption.
      left. split; [reflexivity|]. intros i Ei. discriminate.
    (* Empty *)
    - destruct (wake (mkC false v) ef fe ff) as [aw wevs] eqn:W. inversion SS; subst a' evs.
      apply (WAKES None (mkC false v) RNone (mkC false v) wevs eq_refl eq_refl); try reflexivity; try assumption.
      left. split; [reflexivity|]. intros i Ei. discriminate.
    - destruct (wake (mkC false v) ef fe ff) as [aw wevs] eqn:W. inversion SS; subst a' evs.
      apply (WAKES None (mkC false v) RNone (mkC false v) wevs eq_refl eq_refl); try reflexivity; try assumption.
      left. split; [reflexivity|]. intros i Ei. discriminate.
    (* IncrF *)
    - cbn [orb] in SS. destruct (wake (mkC true (wrap60 (v + inc))) ef fe ff) as [aw wevs] eqn:W. inversion SS; subst a' evs.
      apply (WAKES (Some (wrap60 (v + inc))) (mkC true (wrap60 (v + inc))) (RVal (wrap60 (v + inc))) (mkC true (wrap60 (v + inc))) wevs eq_refl eq_refl);
        try reflexivity; try assumption.
      + simpl. apply N.eqb_refl.
      + left. split; [reflexivity|]. intros i Ei. left. reflexivity.
    - cbn [orb] in SS. destruct (nonnil fe || nonnil ff) eqn:NE.
      + destruct (wake (mkC true (wrap60 (v + inc))) ef fe ff) as [aw wevs] eqn:W. inversion SS; subst a' evs.
        apply (WAKES (Some (wrap60 (v + inc))) (mkC false (wrap60 (v + inc))) (RVal (wrap60 (v + inc))) (mkC true (wrap60 (v + inc))) wevs eq_refl eq_refl);
          try reflexivity; try assumption.
        * simpl. apply N.eqb_refl.
        * right. exists inc. repeat split; try reflexivity.
          destruct fe; [destruct ff; [discriminate|right; discriminate]|left; discriminate].
      + destruct (wake (mkC false (wrap60 (v + inc))) ef fe ff) as [aw wevs] eqn:W. inversion SS; subst a' evs.
        apply (WAKES (Some (wrap60 (v + inc))) (mkC false (wrap60 (v + inc))) (RVal (wrap60 (v + inc))) (mkC false (wrap60 (v + inc))) wevs eq_refl eq_refl);
          try reflexivity; try assumption.
        * simpl. apply N.eqb_refl.
        * left. split; [reflexivity|]. intros i Ei. right. destruct fe; [destruct ff; [split; reflexivity|discriminate]|discriminate].
    (* Status *)
    - inversion SS; subst a' evs. eapply (RET_ONLY RC_SUCCESS (Some 1) (mkH (mkC true v) None)); try reflexivity.
      rewrite (caller_done st (mkC true v) b Status (Some 1) (mkC true v) (RBit true) E eq_refl eq_refl); reflexivity.
    - inversion SS; subst a' evs. eapply (RET_ONLY RC_SUCCESS (Some 0) (mkH (mkC false v) None)); try reflexivity.
      rewrite (caller_done st (mkC false v) b Status (Some 0) (mkC false v) (RBit false) E eq_refl eq_refl); reflexivity.
  Qed.
End Sim.

(* ------------------------------------------------------------------ concrete runs *)
Lemma lookup_update_same s v x' : forall x, lookup s v = Some x -> lookup (update s v x') v = Some x'.
Proof.
  induction s as [|[k y] s IH]; simpl; intros x H; [discriminate|].
  destruct (N.eqb k v) eqn:E; simpl; rewrite E; [reflexivity|]. eapply IH. exact H.
Qed.
Lemma lookup_update_other s v v' x' : v' <> v -> lookup (update s v x') v' = lookup s v'.
Proof.
  intros Hn. induction s as [|[k y] s IH]; simpl; [reflexivity|].
  destruct (N.eqb k v) eqn:E; simpl.
  - apply N.eqb_eq in E. subst k. destruct (N.eqb v v') eqn:E2; [apply N.eqb_eq in E2; congruence|reflexivity].
  - destruct (N.eqb k v'); [reflexivity|exact IH].
Qed.
Lemma lookup_in s v x : lookup s v = Some x -> exists k, In (k, x) s.
Proof.
  induction s as [|[k y] s IH]; simpl; intros H; [discriminate|].
  destruct (N.eqb k v); [inversion H; subst; exists k; left; reflexivity|]. destruct (IH H) as (k' & I). exists k'. right. exact I.
Qed.

Definition waiting (a : astate) : list waiter := pEF a ++ pFE a ++ pFF a.

Lemma tags_tid t o n ef fe ff : In (t, o, n) (tags ef fe ff) -> In t (map w_tid (ef ++ fe ++ ff)).
Proof.
  unfold tags. rewrite !map_app. intros H.
  repeat (apply in_app_or in H; destruct H as [H|H]); apply in_map_iff in H; destruct H as (w & E & Hw); inversion E; subst;
    repeat (apply in_or_app; (left; apply in_map; exact Hw) || right); apply in_map; exact Hw.
Qed.

Lemma waiting_blocked s v x t : lookup s v = Some x -> In t (map w_tid (waiting (abs x))) -> In t (all_blocked s).
Proof.
  intros L I. destruct (lookup_in s v x L) as (k & Ik). unfold all_blocked. apply in_flat_map. exists (k, x). split; [exact Ik|].
  simpl. unfold blocked_tids, waiters_of. unfold waiting, abs in I. cbn [pEF pFE pFF] in I.
  destruct (rec x) as [m|]; simpl in I; [exact I|contradiction].
Qed.

Lemma not_busy s t : busy s t = false -> ~ In t (all_blocked s).
Proof.
  unfold busy. intros H I. assert (E : existsb (N.eqb t) (all_blocked s) = true).
  { apply existsb_exists. exists t. split; [exact I|apply N.eqb_refl]. }
  congruence.
Qed.

Section Run.
  Variable c0 : cell.
  Variable v0 : N.

  Definition SIM (s : state) (b : bst) : Prop :=
    state_ok s /\ exists x, lookup s v0 = Some x /\ sim (mkH c0 None) (abs x) b.

  Lemma SIM_step s b t v o :
    SIM s b -> SIM (fst (step s t v o)) (bstep v0 s b t v o (snd (step s t v o))).
  Proof.
    intros (OK & x & Lx & SM). unfold step, bstep.
    destruct (busy s t) eqn:B; simpl.
    { rewrite andb_false_r. simpl. split; [exact OK|]. exists x. split; [exact Lx|]. apply sim_tick. exact SM. }
    destruct (lookup s v) as [xv|] eqn:Lv; unfold has_var; rewrite Lv; simpl.
    2:{ rewrite andb_false_r. split; [exact OK|]. exists x. split; [exact Lx|]. apply sim_tick. exact SM. }
    destruct (step_var xv t o) as [x' evs] eqn:SV. simpl.
    destruct (step_var_shape _ _ _ _ _ (lookup_ok _ _ _ OK Lv) SV) as [Sh' _].
    assert (OK' : state_ok (update s v x')) by (apply update_ok; assumption).
    rewrite andb_true_r. destruct (N.eqb v v0) eqn:Ev; simpl.
    - apply N.eqb_eq in Ev. subst v. rewrite Lx in Lv. inversion Lv; subst xv.
      split; [exact OK'|]. exists x'. split; [eapply lookup_update_same; exact Lx|].
      pose proof (step_refines _ _ _ _ _ (lookup_ok _ _ _ OK Lx) SV) as SR.
      apply (sim_spec_step (mkH c0 None) (abs x) b t o (abs x') evs SM); [|exact SR].
      intros I. apply (not_busy s t B). apply (waiting_blocked s v0 x t Lx).
      apply in_map_iff in I. destruct I as ([t' p] & Et & Ip). simpl in Et. subst t'.
      apply (tags_tid t (h_op p) (h_nb p)). eapply Permutation_in; [exact (sm_pend _ _ _ SM)|].
      apply in_map_iff. exists (t, p). split; [reflexivity|exact Ip].
    - split; [exact OK'|]. exists x. split; [|apply sim_tick; exact SM].
      rewrite lookup_update_other; [exact Lx|]. intros ->. rewrite N.eqb_refl in Ev. discriminate.
  Qed.

  Lemma SIM_build script : forall s b, SIM s b ->
    fst (build v0 s b script) = fst (run s script) /\ SIM (fst (build v0 s b script)) (snd (build v0 s b script)).
  Proof.
    induction script as [|[[t v] o] rest IH]; intros s b SM; simpl; [auto|].
    pose proof (SIM_step s b t v o SM) as S1. destruct (step s t v o) as [s1 evs]. simpl in S1.
    destruct (IH s1 _ S1) as [E1 S2]. destruct (run s1 rest) as [s2 tr]. simpl in *. auto.
  Qed.
End Run.

(* ------------------------------------------------------------------ explained is about the set of calls, not their order *)
Lemma explained_perm c0 h h' cfin : Permutation h h' -> explained c0 h cfin -> explained c0 h' cfin.
Proof.
  intros P (l & (Pl & S & R) & Q). exists l. split.
  - split; [|split; assumption]. eapply perm_trans; [exact Pl|]. apply perm_filter. exact P.
  - intros p Hp. apply Q. unfold pending in *. eapply Permutation_in; [apply perm_filter; apply Permutation_sym; exact P|exact Hp].
Qed.

Lemma insert_inv_perm x l : Permutation (insert_inv x l) (x :: l).
Proof.
  induction l as [|y l IH]; simpl; [apply Permutation_refl|].
  destruct (h_inv x <=? h_inv y); [apply Permutation_refl|].
  eapply perm_trans; [apply perm_skip; exact IH|apply perm_swap].
Qed.
Lemma sort_inv_perm l : Permutation (sort_inv l) l.
Proof.
  induction l as [|x l IH]; simpl; [constructor|].
  eapply perm_trans; [apply insert_inv_perm|apply perm_skip; exact IH].
Qed.
Lemma filter_all {A} (f : A -> bool) l : Forall (fun x => f x = true) l -> filter f l = l.
Proof. induction 1 as [|x l H _ IH]; simpl; [reflexivity|]. rewrite H, IH. reflexivity. Qed.
Lemma filter_none {A} (f : A -> bool) l : Forall (fun x => f x = false) l -> filter f l = [].
Proof. induction 1 as [|x l H _ IH]; simpl; [reflexivity|]. rewrite H, IH. reflexivity. Qed.

(* ------------------------------------------------------------------ the link *)
Lemma sim_explained c0 a b : sim (mkH c0 None) a b -> explained c0 (hist_of_bst b) (a_cell a).
Proof.
  intros [BI [Qf Qe] V (st & HR & [Hc _]) PP]. apply (explained_perm c0 (b_done b ++ map snd (b_pend b)));
    [apply Permutation_sym, sort_inv_perm|].
  assert (Dn : Forall (fun x => is_done x = true) (b_done b)).
  { eapply Forall_impl; [|exact (bi_done b BI)]. intros x (r & Hr & _). unfold is_done. rewrite Hr. reflexivity. }
  assert (Pn : Forall (fun x => is_done x = false) (map snd (b_pend b))).
  { rewrite Forall_forall. intros x Hx. apply in_map_iff in Hx. destruct Hx as (tp & <- & Htp).
    pose proof (bi_pend b BI) as F. rewrite Forall_forall in F. destruct (F tp Htp) as [Hr _]. unfold is_done. rewrite Hr. reflexivity. }
  assert (C : completed (b_done b ++ map snd (b_pend b)) = b_done b).
  { unfold completed. rewrite filter_app, (filter_all _ _ Dn), (filter_none _ _ Pn). apply app_nil_r. }
  assert (Pd : pending (b_done b ++ map snd (b_pend b)) = map snd (b_pend b)).
  { unfold pending. rewrite filter_app. rewrite filter_none, filter_all; [reflexivity| |].
    - eapply Forall_impl; [|exact Pn]. intros x Hx. simpl in Hx. rewrite Hx. reflexivity.
    - eapply Forall_impl; [|exact Dn]. intros x Hx. simpl in Hx. rewrite Hx. reflexivity. }
  exists (b_done b). split.
  - split; [rewrite C; apply Permutation_refl|]. split; [exact (bi_sorted b BI)|].
    exists (hs_just st). destruct st as [c j]. simpl in Hc. subst c. exact HR.
  - intros p Hp. rewrite Pd in Hp. apply in_map_iff in Hp. destruct Hp as ([t q] & <- & Htq). simpl.
    assert (I2 : In (tagp (t, q)) (tags (pEF a) (pFE a) (pFF a))).
    { eapply Permutation_in; [exact PP|]. apply in_map. exact Htq. }
    unfold tagp in I2. simpl in I2. unfold tags in I2. unfold enabled.
    apply in_app_or in I2. destruct I2 as [I2|I2]; [|apply in_app_or in I2; destruct I2 as [I2|I2]];
      apply in_map_iff in I2; destruct I2 as (w & Ew & Hw); inversion Ew as [[Et Eo En]]; simpl.
    + assert (F : c_full (a_cell a) = true).
      { destruct (c_full (a_cell a)) eqn:F; [reflexivity|]. rewrite (Qe eq_refl) in Hw. contradiction. }
      rewrite F. unfold vals_lt in V. rewrite Forall_forall in V. specialize (V w Hw).
      assert (L : (two60 <=? w_val w) = false) by (apply N.leb_gt; exact V). rewrite L. reflexivity.
    + assert (F : c_full (a_cell a) = false).
      { destruct (c_full (a_cell a)) eqn:F; [|reflexivity]. destruct (Qf eq_refl) as [X _]. rewrite X in Hw. contradiction. }
      rewrite F. reflexivity.
    + assert (F : c_full (a_cell a) = false).
      { destruct (c_full (a_cell a)) eqn:F; [|reflexivity]. destruct (Qf eq_refl) as [_ X]. rewrite X in Hw. contradiction. }
      rewrite F. reflexivity.
Qed.

Lemma SIM_init s0 v0 x0 : state_ok s0 -> lookup s0 v0 = Some x0 -> rec x0 = None -> SIM (cell_of_var x0) v0 s0 b0.
Proof.
  intros OK L R. split; [exact OK|]. exists x0. split; [exact L|]. unfold abs. rewrite R. simpl. constructor; simpl.
  - apply binv_b0.
  - split; intros _; [split; reflexivity|reflexivity].
  - constructor.
  - exists (mkH (cell_of_var x0) None). split; [constructor|apply exact_none].
  - unfold pend_ok, tags. simpl. constructor.
Qed.

(* every run of the model from well-shaped variables (Syncvar/Proofs.v `shape`: what the initialisers and every reachable
   state satisfy), on any number of variables, by any number of tasks (steps of busy tasks and steps on missing variables
   included): the history of a variable that starts without waiters is explained by the abstract cell, from the
   variable's initial cell to the cell the model ends in *)
Theorem sv_model_runs_are_explained s0 script v0 x0 :
  state_ok s0 -> lookup s0 v0 = Some x0 -> rec x0 = None ->
  explained (cell_of_var x0) (sv_hist_of_run s0 script v0) (cell_at (state_after s0 script) v0).
Proof.
  intros OK L R. unfold sv_hist_of_run, state_after, cell_at.
  destruct (SIM_build (cell_of_var x0) v0 script s0 b0 (SIM_init s0 v0 x0 OK L R)) as [E1 (_ & x & Lx & SM)].
  rewrite <- E1, Lx. apply (sim_explained _ (abs x)). exact SM.
Qed.

(* ... hence the acceptor that judges the free-running traces of the real code never rejects it, whatever its fuel *)
Theorem sv_model_runs_are_accepted fuel s0 script v0 x0 :
  state_ok s0 -> lookup s0 v0 = Some x0 -> rec x0 = None ->
  decide fuel (cell_of_var x0) (sv_hist_of_run s0 script v0) (cell_at (state_after s0 script) v0) <> Reject.
Proof. intros OK L R D. exact (reject_complete _ _ _ _ D (sv_model_runs_are_explained s0 script v0 x0 OK L R)). Qed.

(* the same in the declarative reading of the specification (HistoryDecl.v): the order of effects of the model is a run of
   dlin, where an incrF on an empty variable fills it exactly when the next call in the order is a reader that was waiting *)
Corollary sv_model_runs_declarative s0 script v0 x0 :
  state_ok s0 -> lookup s0 v0 = Some x0 -> rec x0 = None ->
  exists l, Permutation l (completed (sv_hist_of_run s0 script v0)) /\ StronglySorted rt_compat l /\
            dlin (cell_of_var x0) l (cell_at (state_after s0 script) v0) /\
            (forall p, In p (sv_hist_of_run s0 script v0) -> h_ret p = None ->
                       enabled (cell_at (state_after s0 script) v0) (h_op p) = false).
Proof.
  intros OK L R. destruct (sv_model_runs_are_explained s0 script v0 x0 OK L R) as (l & (P & S & HR) & Q).
  exists l. split; [exact P|]. split; [exact S|]. split; [apply lazy_is_declarative; exact HR|].
  intros p Hp Hr. apply Q. unfold pending. apply filter_In. split; [exact Hp|]. unfold is_done. rewrite Hr. reflexivity.
Qed.

(* the variables the M2 scripts start from (the four initialisers) are well shaped and have no waiters *)
Lemma init_word_shape kind v :
  shape (mkV (match kind with 0 => SYNCVAR_INITIALIZER | 1 => SYNCVAR_EMPTY_INITIALIZER | 2 => SYNCVAR_INITIALIZE_TO v
                         | _ => SYNCVAR_EMPTY_INITIALIZE_TO v end) None).
Proof.
  destruct (shape_init v) as (H0 & H1 & H2 & H3).
  destruct kind as [|[p|p|]]; simpl; try assumption; destruct p; assumption.
Qed.
