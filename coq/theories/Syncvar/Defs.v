(* C03: vocabulary shared by the concrete syncvar model (Model.v) and the abstract cell spec (CellSpec.v). *)
From Coq Require Import List NArith Bool.
Import ListNotations.
Local Open Scope N_scope.

(* return codes of the syncvar API (include/qthread/qthread.h) *)
Inductive rcode := RC_SUCCESS | RC_OPFAIL | RC_OVERFLOW | RC_TIMEOUT.

(* one API call; [dest] = the destination pointer is non-NULL; values are uint64_t *)
Inductive op :=
| ReadFF (dest : bool) | ReadFF_nb (dest : bool)
| ReadFE (dest : bool) | ReadFE_nb (dest : bool)
| WriteF (v : N) | WriteEF (v : N) | WriteEF_nb (v : N)
| Fill | Empty | IncrF (inc : N) | Status.

(* observable events of one operation-atomic step, in linearisation order: the caller first, then the waiters it released *)
Inductive event :=
| Ret (t : N) (c : rcode) (val : option N)   (* task t's call returned c, delivering val (read value / incrF result / status) *)
| Blocked (t : N)                            (* the caller was enqueued on a waiter list and switched out *)
| Busy (t : N)                               (* script error: task t is still blocked in an earlier call *)
| NoVar                                      (* script error: no such syncvar *)
| Fault.                                     (* the C code would dereference NULL or leave the word locked for ever *)

(* one blocked operation (a qthread_addrres_t in the code): the task, the value a blocked writeEF will store (0 for
   reads), and whether a blocked read has a non-NULL destination *)
Record waiter := mkW { w_tid : N; w_val : N; w_dest : bool }.

Definition two60 : N := 2 ^ 60.
Definition two64 : N := 2 ^ 64.
Definition wrap64 (x : N) : N := x mod two64.
Definition wrap60 (x : N) : N := x mod two60.

Definition dval (dest : bool) (v : N) : option N := if dest then Some v else None.
Definition nonnil {A} (l : list A) : bool := match l with [] => false | _ => true end.
