(* C03: invariants and wake-up theorems about the concrete syncvar model. *)
From Coq Require Import List NArith Bool Lia.
From QV Require Import Syncvar.Defs Syncvar.Model Syncvar.BitProofs.
Import ListNotations.
Local Open Scope N_scope.

(* ---------- payload ---------- *)
Lemma payload_roundtrip_l : forall v st, v < two60 -> st < 8 ->
  decode (build_unlocked v st) = (v, st, false).
Proof.
  intros v st Hv Hs. unfold decode.
  rewrite data_of_build, state_of_build, lock_of_build by exact Hs.
  rewrite wrap60_small by exact Hv. reflexivity.
Qed.

Lemma overflow_rejected_l : forall x t v, two60 <= v ->
  step_var x t (WriteF v) = (x, [Ret t RC_OVERFLOW None]) /\
  step_var x t (WriteEF v) = (x, [Ret t RC_OVERFLOW None]) /\
  step_var x t (WriteEF_nb v) = (x, [Ret t RC_OVERFLOW None]).
Proof.
  intros x t v Hv. apply overflows_spec in Hv.
  unfold step_var, call, writeF, writeEF, writeEF_nb. rewrite Hv. auto.
Qed.
