(* C03: invariants and wake-up theorems about the concrete syncvar model. *)
From Coq Require Import List NArith Bool Lia Permutation.
From QV Require Import Syncvar.Defs Syncvar.Model Syncvar.BitProofs Syncvar.CellSpec.
Import ListNotations.
Local Open Scope N_scope.

(* ---------- payload ---------- *)
Lemma payload_roundtrip_l : forall v st, v < two60 -> st < 8 ->
  decode (build_unlocked v st) = (v, st, false).
Proof.
  intros v st Hv Hs. unfold decode.
  rewrite data_of_build, state_of_build, lock_of_build by exact Hs.
  rewrite wrap60_small by exact Hv. reflexivity.
Qed.

Lemma overflow_rejected_l : forall x t v, two60 <= v ->
  step_var x t (WriteF v) = (x, [Ret t RC_OVERFLOW None]) /\
  step_var x t (WriteEF v) = (x, [Ret t RC_OVERFLOW None]) /\
  step_var x t (WriteEF_nb v) = (x, [Ret t RC_OVERFLOW None]).
Proof.
  intros x t v Hv. apply overflows_spec in Hv.
  unfold step_var, call, writeF, writeEF, writeEF_nb. rewrite Hv. auto.
Qed.

(* ---------- the invariant ---------- *)
(* the four legal shapes of a syncvar: the state bits, the hash record and the waiter lists agree;
   the word is a 64-bit value with the lock bit clear; every blocked writeEF carries a value that passed the overflow guard *)
Definition vals_ok (l : list waiter) : Prop := Forall (fun Y => w_val Y < two60) l.
Inductive shape : svar -> Prop :=
| Sh0 : forall w, w < two64 -> lock_of w = false -> state_of w = 0 -> shape (mkV w None)
| Sh1 : forall w X es, w < two64 -> lock_of w = false -> state_of w = 1 -> vals_ok (X :: es) ->
        shape (mkV w (Some (mkM (X :: es) [] [])))
| Sh2 : forall w, w < two64 -> lock_of w = false -> state_of w = 2 -> shape (mkV w None)
| Sh3 : forall w fe ff, w < two64 -> lock_of w = false -> state_of w = 3 -> (nonnil fe || nonnil ff = true) ->
        shape (mkV w (Some (mkM [] fe ff))).

Definition fault_ev (e : event) : bool := match e with Fault => true | Ret _ RC_TIMEOUT _ => true | _ => false end.
Definition has_fault (evs : list event) : bool := existsb fault_ev evs.

Lemma ex_release_ff : forall v l, existsb fault_ev (release_ff v l) = false.
Proof. intros v l. induction l as [|a l IH]; [reflexivity|]. cbn. exact IH. Qed.

Lemma overflows_leb : forall v, overflows v = (two60 <=? v).
Proof.
  intro v. destruct (two60 <=? v) eqn:E.
  - apply overflows_spec. apply N.leb_le. exact E.
  - apply overflows_false. apply N.leb_gt. exact E.
Qed.

Global Opaque build_unlocked data_of state_of lock_of wrap64 wrap60 overflows INT64TOINT60.

Ltac side :=
  first [ assumption | apply build_lt | (apply lock_of_build; reflexivity) | (apply state_of_build; reflexivity)
        | reflexivity | apply orb_true_r
        | (constructor; [apply overflows_false; assumption | assumption])
        | (constructor; [apply overflows_false; assumption | constructor])
        | match goal with H : vals_ok (_ :: ?l) |- vals_ok ?l => inversion H; assumption end ].
Ltac fin_shape := first [ apply Sh0; side | apply Sh2; side | apply Sh1; side | apply Sh3; side ].
Ltac fin_fault :=
  first [ reflexivity
        | unfold has_fault; cbn [existsb fault_ev orb]; rewrite ?existsb_app, ?ex_release_ff; reflexivity ].

Ltac start_op Hl Hs :=
  unfold step_var, call, readFF, readFF_nb, readFE, readFE_nb, writeF, writeEF, writeEF_nb, fill, empty, incrF, status,
         readFF_locked_full, readFE_locked_full, writeEF_locked_empty, empty_with_waiters, fill_with_waiters,
         gotlock_fill, gotlock_empty, fill_state, mwaitc, syncvar_remove, all_empty, get_or_new, addrstat_new, prepend;
  cbn [word rec EFQ FEQ FFQ]; rewrite ?Hl, ?Hs, ?int60_wrap64; cbn.

Ltac ov_split := try match goal with |- context [overflows ?v] => destruct (overflows v) eqn:Hov end.

Lemma step_var_shape : forall x t o x' evs,
  shape x -> step_var x t o = (x', evs) -> shape x' /\ has_fault evs = false.
Proof.
  intros x t o x' evs Hx Hstep.
  destruct Hx as [w Hw Hl Hs | w X es Hw Hl Hs Hv | w Hw Hl Hs | w fe ff Hw Hl Hs Hne].
  - destruct o; revert Hstep; start_op Hl Hs; ov_split; cbn;
      intro Hstep; inversion Hstep; subst; clear Hstep; (split; [fin_shape | fin_fault]).
  - destruct o; revert Hstep; start_op Hl Hs; ov_split; try (destruct es as [|X2 es]); cbn;
      intro Hstep; inversion Hstep; subst; clear Hstep; (split; [fin_shape | fin_fault]).
  - destruct o; revert Hstep; start_op Hl Hs; ov_split; cbn;
      intro Hstep; inversion Hstep; subst; clear Hstep; (split; [fin_shape | fin_fault]).
  - destruct o; revert Hstep; start_op Hl Hs; ov_split; try (destruct fe as [|F1 [|F2 fe]]); cbn;
      intro Hstep; inversion Hstep; subst; clear Hstep; (split; [fin_shape | fin_fault]).
Qed.

(* ---------- refinement of the abstract cell ---------- *)
Definition abs (x : svar) : astate :=
  let m := get_or_new (rec x) in
  mkA (mkC (negb (N.testbit (state_of (word x)) 1)) (data_of (word x))) (EFQ m) (FEQ m) (FFQ m).

Lemma wrap64_small60 : forall a, a < two60 -> wrap64 a = a.
Proof.
  intros a H. Transparent wrap64. unfold wrap64. Opaque wrap64. apply N.mod_small.
  eapply N.lt_trans; [exact H|reflexivity].
Qed.

Ltac norm_words :=
  repeat first
    [ rewrite state_of_build by reflexivity
    | rewrite data_of_build by reflexivity
    | rewrite wrap60_idem
    | rewrite wrap60_small by first [ assumption | (apply data_of_lt; assumption) | (apply overflows_false; assumption)
                                     | match goal with H : vals_ok (?X :: _) |- w_val ?X < two60 => inversion H; assumption end ] ].

Lemma step_refines : forall x t o x' evs,
  shape x -> step_var x t o = (x', evs) -> spec_step (abs x) t o = (abs x', evs).
Proof.
  intros x t o x' evs Hx Hstep.
  destruct Hx as [w Hw Hl Hs | w X es Hw Hl Hs Hv | w Hw Hl Hs | w fe ff Hw Hl Hs Hne].
  - destruct o; revert Hstep; unfold spec_step, rejected, abs, wake, after; rewrite <- ?overflows_leb;
      start_op Hl Hs; ov_split; cbn;
      intro Hstep; inversion Hstep; subst; clear Hstep; cbn; rewrite ?Hs; norm_words; unfold release_ff; rewrite ?app_nil_r; cbn; reflexivity.
  - destruct o; revert Hstep; unfold spec_step, rejected, abs, wake, after; rewrite <- ?overflows_leb;
      start_op Hl Hs; ov_split; try (destruct es as [|X2 es]); cbn;
      intro Hstep; inversion Hstep; subst; clear Hstep; cbn; rewrite ?Hs; norm_words; unfold release_ff; rewrite ?app_nil_r; cbn; reflexivity.
  - destruct o; revert Hstep; unfold spec_step, rejected, abs, wake, after; rewrite <- ?overflows_leb;
      start_op Hl Hs; ov_split; cbn;
      intro Hstep; inversion Hstep; subst; clear Hstep; cbn; rewrite ?Hs; norm_words; unfold release_ff; rewrite ?app_nil_r; cbn; reflexivity.
  - destruct o; revert Hstep; unfold spec_step, rejected, abs, wake, after; rewrite <- ?overflows_leb;
      start_op Hl Hs; ov_split; try (destruct fe as [|F1 [|F2 fe]]); cbn;
      intro Hstep; inversion Hstep; subst; clear Hstep; cbn; rewrite ?Hs; norm_words; unfold release_ff; rewrite ?app_nil_r;
      cbn in Hne; rewrite ?Hne; cbn; reflexivity.
Qed.

(* ---------- the invariant in the form of DESIGN.md ---------- *)
Definition efq (x : svar) := EFQ (get_or_new (rec x)).
Definition feq (x : svar) := FEQ (get_or_new (rec x)).
Definition ffq (x : svar) := FFQ (get_or_new (rec x)).
Definition is_full (x : svar) : bool := negb (N.testbit (state_of (word x)) 1).

Definition sv_inv (x : svar) : Prop :=
  let st := state_of (word x) in
  lock_of (word x) = false /\ st <= 3 /\
  (st = 1 <-> is_full x = true /\ efq x <> []) /\
  (st = 3 <-> is_full x = false /\ (feq x <> [] \/ ffq x <> [])) /\
  (st = 0 \/ st = 2 -> efq x = [] /\ feq x = [] /\ ffq x = []) /\
  (rec x <> None <-> efq x <> [] \/ feq x <> [] \/ ffq x <> []) /\
  (* no blocked operation is enabled *)
  (efq x <> [] -> is_full x = true) /\ (feq x <> [] \/ ffq x <> [] -> is_full x = false).

Lemma shape_sv_inv : forall x, shape x -> sv_inv x.
Proof.
  intros x Hx. unfold sv_inv, efq, feq, ffq, is_full.
  destruct Hx as [w Hw Hl Hs | w X es Hw Hl Hs Hv | w Hw Hl Hs | w fe ff Hw Hl Hs Hne]; cbn [word rec get_or_new addrstat_new EFQ FEQ FFQ];
    rewrite Hs; cbn.
  - repeat split; try assumption; try discriminate; try tauto; try (intros [? ?]; congruence); intuition congruence.
  - repeat split; try assumption; try discriminate; try tauto; intuition congruence.
  - repeat split; try assumption; try discriminate; try tauto; intuition congruence.
  - assert (Hne' : fe <> [] \/ ff <> []).
    { destruct fe; [destruct ff; [discriminate|right; discriminate]|left; discriminate]. }
    repeat split; try assumption; try discriminate; try tauto; intuition congruence.
Qed.

(* ---------- several variables / whole runs ---------- *)
Definition state_ok (s : state) : Prop := Forall (fun p => shape (snd p)) s.

Lemma lookup_ok : forall s v x, state_ok s -> lookup s v = Some x -> shape x.
Proof.
  induction s as [|[k y] s IH]; intros v x Hs Hl; [discriminate|].
  inversion Hs; subst. cbn in Hl. destruct (N.eqb k v).
  - inversion Hl; subst. assumption.
  - eapply IH; eassumption.
Qed.

Lemma update_ok : forall s v x, state_ok s -> shape x -> state_ok (update s v x).
Proof.
  induction s as [|[k y] s IH]; intros v x Hs Hx; [constructor|].
  inversion Hs; subst. cbn. destruct (N.eqb k v); constructor; auto. apply IH; assumption.
Qed.

Lemma step_ok : forall s t v o s' evs,
  state_ok s -> step s t v o = (s', evs) -> state_ok s' /\ has_fault evs = false.
Proof.
  intros s t v o s' evs Hs. unfold step. destruct (busy s t).
  { intro H; inversion H; subst. split; [assumption|reflexivity]. }
  destruct (lookup s v) as [x|] eqn:Hl.
  - destruct (step_var x t o) as [x' e] eqn:Hsv. intro H; inversion H; subst.
    destruct (step_var_shape _ _ _ _ _ (lookup_ok _ _ _ Hs Hl) Hsv) as [Hx' Hf].
    split; [apply update_ok; assumption|exact Hf].
  - intro H; inversion H; subst. split; [assumption|reflexivity].
Qed.

Lemma run_ok : forall script s s' tr,
  state_ok s -> run s script = (s', tr) -> state_ok s' /\ Forall (fun evs => has_fault evs = false) tr.
Proof.
  induction script as [|[[t v] o] rest IH]; intros s s' tr Hs Hr; cbn in Hr.
  - inversion Hr; subst. split; [assumption|constructor].
  - destruct (step s t v o) as [s1 evs] eqn:H1. destruct (run s1 rest) as [s2 tr2] eqn:H2.
    inversion Hr; subst.
    destruct (step_ok _ _ _ _ _ _ Hs H1) as [Hs1 Hf].
    destruct (IH _ _ _ Hs1 H2) as [Hs2 Hft]. split; [assumption|constructor; assumption].
Qed.

(* the states the API can start from *)
Lemma shape_init : forall v,
  shape (mkV SYNCVAR_INITIALIZER None) /\ shape (mkV SYNCVAR_EMPTY_INITIALIZER None) /\
  shape (mkV (SYNCVAR_INITIALIZE_TO v) None) /\ shape (mkV (SYNCVAR_EMPTY_INITIALIZE_TO v) None).
Proof.
  intro v. unfold SYNCVAR_INITIALIZE_TO, SYNCVAR_EMPTY_INITIALIZE_TO, SYNCVAR_EMPTY_INITIALIZER.
  repeat split.
  - apply Sh0; vm_compute; reflexivity.
  - apply Sh2; [apply build_lt | apply lock_of_build; reflexivity | apply state_of_build; reflexivity].
  - apply Sh0; [apply build_lt | apply lock_of_build; reflexivity | apply state_of_build; reflexivity].
  - apply Sh2; [apply build_lt | apply lock_of_build; reflexivity | apply state_of_build; reflexivity].
Qed.

(* ---------- wake-up clauses on the concrete model ---------- *)
(* calls that make the variable full: the value the variable (and every released reader) gets *)
Definition fill_op (o : op) (d : N) : option N :=
  match o with
  | Fill => Some d
  | WriteF v | WriteEF v | WriteEF_nb v => if overflows v then None else Some v
  | IncrF inc => Some (wrap60 (d + inc))
  | _ => None
  end.
Definition empty_op (o : op) : bool := match o with Empty | ReadFE _ | ReadFE_nb _ => true | _ => false end.

Lemma fill_releases_l : forall x t o nv x' evs,
  shape x -> state_of (word x) = 3 -> fill_op o (data_of (word x)) = Some nv -> step_var x t o = (x', evs) ->
  tl evs = map (fun b => Ret (w_tid b) RC_SUCCESS (dval (w_dest b) nv)) (ffq x ++ firstn 1 (feq x)) /\
  ffq x' = [] /\ feq x' = skipn 1 (feq x) /\ efq x' = [] /\
  data_of (word x') = wrap60 nv /\ is_full x' = negb (nonnil (feq x)) /\ shape x'.
Proof.
  intros x t o nv x' evs Hx Hs3 Hop Hstep.
  pose proof (step_var_shape _ _ _ _ _ Hx Hstep) as [Hx' _].
  destruct Hx as [w Hw Hl Hs | w X es Hw Hl Hs Hv | w Hw Hl Hs | w fe ff Hw Hl Hs Hne]; cbn in Hs3; try congruence.
  unfold ffq, feq, efq, is_full. cbn in Hop.
  destruct o; cbn in Hop; try discriminate; revert Hstep Hop; start_op Hl Hs; ov_split; try discriminate;
    destruct fe as [|F1 [|F2 fe]]; cbn;
    intros Hstep Hop; inversion Hstep; subst; clear Hstep; inversion Hop; subst; cbn;
    norm_words; unfold release_ff; rewrite ?app_nil_r, ?map_app; cbn; repeat split; try reflexivity; try assumption.
Qed.

Lemma empty_releases_l : forall x t o x' evs,
  shape x -> state_of (word x) = 1 -> empty_op o = true -> step_var x t o = (x', evs) ->
  exists X rest, efq x = X :: rest /\
  tl evs = [Ret (w_tid X) RC_SUCCESS None] /\ efq x' = rest /\ feq x' = [] /\ ffq x' = [] /\
  data_of (word x') = w_val X /\ is_full x' = true /\ shape x'.
Proof.
  intros x t o x' evs Hx Hs1 Hop Hstep.
  pose proof (step_var_shape _ _ _ _ _ Hx Hstep) as [Hx' _].
  destruct Hx as [w Hw Hl Hs | w X es Hw Hl Hs Hv | w Hw Hl Hs | w fe ff Hw Hl Hs Hne]; cbn in Hs1; try congruence.
  exists X, es. unfold ffq, feq, efq, is_full.
  destruct o; cbn in Hop; try discriminate; revert Hstep; start_op Hl Hs; destruct es as [|X2 es]; cbn;
    intros Hstep; inversion Hstep; subst; clear Hstep; cbn; norm_words; cbn; repeat split; try reflexivity; try assumption.
Qed.

(* a call that releases nobody keeps every waiter (and, by the invariant of x', the waiters flag and the record) *)
Lemma no_release_keeps_waiters_l : forall x t o x' evs,
  shape x -> step_var x t o = (x', evs) -> tl evs = [] ->
  (evs = [Blocked t] /\ exists X, w_tid X = t /\
      (efq x' = X :: efq x /\ feq x' = feq x /\ ffq x' = ffq x \/
       efq x' = efq x /\ feq x' = X :: feq x /\ ffq x' = ffq x \/
       efq x' = efq x /\ feq x' = feq x /\ ffq x' = X :: ffq x)) \/
  (efq x' = efq x /\ feq x' = feq x /\ ffq x' = ffq x).
Proof.
  intros x t o x' evs Hx Hstep Htl.
  destruct Hx as [w Hw Hl Hs | w X es Hw Hl Hs Hv | w Hw Hl Hs | w fe ff Hw Hl Hs Hne]; unfold ffq, feq, efq.
  - destruct o; revert Hstep; start_op Hl Hs; ov_split; cbn; intro Hstep; inversion Hstep; subst; clear Hstep; cbn;
      first [ right; repeat split; reflexivity | left; split; [reflexivity|]; eexists; split; [|eauto]; reflexivity ].
  - destruct o; revert Hstep; start_op Hl Hs; ov_split; try (destruct es as [|X2 es]); cbn; intro Hstep; inversion Hstep; subst; clear Hstep;
      cbn in Htl; try discriminate; cbn;
      first [ right; repeat split; reflexivity | left; split; [reflexivity|]; eexists; split; [|eauto]; reflexivity ].
  - destruct o; revert Hstep; start_op Hl Hs; ov_split; cbn; intro Hstep; inversion Hstep; subst; clear Hstep; cbn;
      first [ right; repeat split; reflexivity | left; split; [reflexivity|]; eexists; split; [|eauto 6]; reflexivity ].
  - destruct o; revert Hstep; start_op Hl Hs; ov_split; try (destruct fe as [|F1 [|F2 fe]]); try (destruct ff as [|G1 ff]); cbn;
      intro Hstep; inversion Hstep; subst; clear Hstep;
      cbn in Htl; try discriminate; try (cbn in Hne; discriminate); cbn;
      first [ right; repeat split; reflexivity | left; split; [reflexivity|]; eexists; split; [|eauto 6]; reflexivity
            | exfalso; destruct ff; discriminate ].
Qed.

(* ---------- incrF ---------- *)
Lemma incrF_step_l : forall x t inc x' evs,
  shape x -> step_var x t (IncrF inc) = (x', evs) ->
  shape x' /\ data_of (word x') = wrap60 (data_of (word x) + inc) /\
  hd Fault evs = Ret t RC_SUCCESS (Some (wrap60 (data_of (word x) + inc))).
Proof.
  intros x t inc x' evs Hx Hstep.
  pose proof (step_var_shape _ _ _ _ _ Hx Hstep) as [Hx' _].
  split; [exact Hx'|].
  destruct Hx as [w Hw Hl Hs | w X es Hw Hl Hs Hv | w Hw Hl Hs | w fe ff Hw Hl Hs Hne];
    revert Hstep; start_op Hl Hs; try (destruct fe as [|F1 [|F2 fe]]); cbn;
    intro Hstep; inversion Hstep; subst; clear Hstep; cbn; rewrite data_of_build by reflexivity;
    rewrite wrap60_idem; split; reflexivity.
Qed.

(* n incrF calls by any tasks, one after the other (each call is atomic: it holds the word lock) *)
Fixpoint run_incr (x : svar) (l : list (N * N)) : svar * list (option event) :=
  match l with
  | [] => (x, [])
  | (t, inc) :: rest =>
      let '(x1, evs) := step_var x t (IncrF inc) in
      let '(x2, r) := run_incr x1 rest in (x2, hd_error evs :: r)
  end.
Definition sum_incs (l : list (N * N)) : N := fold_right (fun p a => snd p + a) 0 l.
(* what each call must return: the running sum modulo 2^60, i.e. the payload right after the call *)
Fixpoint expected_returns (d : N) (l : list (N * N)) : list (option event) :=
  match l with
  | [] => []
  | (t, inc) :: rest => Some (Ret t RC_SUCCESS (Some (wrap60 (d + inc)))) :: expected_returns (wrap60 (d + inc)) rest
  end.

Lemma incrF_atomic_l : forall l x x' rets,
  shape x -> run_incr x l = (x', rets) ->
  shape x' /\ data_of (word x') = wrap60 (data_of (word x) + sum_incs l) /\
  rets = expected_returns (data_of (word x)) l.
Proof.
  induction l as [|[t inc] rest IH]; intros x x' rets Hx Hr; cbn in Hr.
  - inversion Hr; subst. cbn. rewrite N.add_0_r.
    split; [assumption|]. split; [|reflexivity].
    symmetry. apply wrap60_small. apply data_of_lt.
    destruct Hx; assumption.
  - destruct (step_var x t (IncrF inc)) as [x1 evs] eqn:H1.
    destruct (run_incr x1 rest) as [x2 r] eqn:H2. inversion Hr; subst.
    destruct (incrF_step_l _ _ _ _ _ Hx H1) as [Hx1 [Hd1 Hh]].
    destruct (IH _ _ _ Hx1 H2) as [Hx2 [Hd2 Hr2]].
    split; [assumption|]. split.
    + rewrite Hd2, Hd1. cbn [sum_incs fold_right snd]. rewrite wrap60_add_l. f_equal.
      Transparent wrap60. unfold wrap60. Opaque wrap60. rewrite N.add_assoc. reflexivity.
    + cbn [expected_returns]. rewrite Hr2, Hd1. f_equal.
      destruct evs as [|e evs]; cbn in Hh; [discriminate|]. cbn. rewrite Hh. reflexivity.
Qed.

Lemma sum_incs_perm : forall l l', Permutation l l' -> sum_incs l = sum_incs l'.
Proof.
  intros l l' H. induction H; unfold sum_incs in *; cbn; lia.
Qed.

Lemma incrF_any_order_l : forall l l' x x1 r1 x2 r2,
  shape x -> Permutation l l' -> run_incr x l = (x1, r1) -> run_incr x l' = (x2, r2) ->
  data_of (word x1) = data_of (word x2).
Proof.
  intros l l' x x1 r1 x2 r2 Hx Hp H1 H2.
  destruct (incrF_atomic_l _ _ _ _ Hx H1) as [_ [E1 _]].
  destruct (incrF_atomic_l _ _ _ _ Hx H2) as [_ [E2 _]].
  rewrite E1, E2, (sum_incs_perm _ _ Hp). reflexivity.
Qed.

(* the returned value IS the new value of the variable (always, since /repo 70f90aa) *)
Lemma incrF_returns_new_value_l : forall x t inc x' evs,
  shape x -> step_var x t (IncrF inc) = (x', evs) ->
  hd Fault evs = Ret t RC_SUCCESS (Some (data_of (word x'))) /\ data_of (word x') = wrap60 (data_of (word x) + inc).
Proof.
  intros x t inc x' evs Hx Hstep.
  destruct (incrF_step_l _ _ _ _ _ Hx Hstep) as [_ [Hd Hh]].
  rewrite Hh, Hd. split; reflexivity.
Qed.

(* ---------- non-blocking twins ---------- *)
Definition twin (o : op) : option op :=
  match o with ReadFF d => Some (ReadFF_nb d) | ReadFE d => Some (ReadFE_nb d) | WriteEF v => Some (WriteEF_nb v) | _ => None end.

Lemma nb_twin_l : forall x t o o_nb,
  shape x -> twin o = Some o_nb ->
  (step_var x t o = (fst (step_var x t o), [Blocked t]) <-> step_var x t o_nb = (x, [Ret t RC_OPFAIL None])) /\
  (snd (step_var x t o) <> [Blocked t] -> step_var x t o_nb = step_var x t o) /\
  ~ In (Blocked t) (snd (step_var x t o_nb)).
Proof.
  intros x t o o_nb Hx Ht.
  destruct Hx as [w Hw Hl Hs | w X es Hw Hl Hs Hv | w Hw Hl Hs | w fe ff Hw Hl Hs Hne];
    destruct o; cbn in Ht; inversion Ht; subst; clear Ht;
    start_op Hl Hs; ov_split; try (destruct es as [|X2 es]); try (destruct fe as [|F1 [|F2 fe]]); cbn;
    (split; [split; intro H; first [reflexivity | discriminate H | inversion H]
            | split; [intro H; first [reflexivity | (exfalso; apply H; reflexivity)]
                     | intro H; cbn in H; repeat (destruct H as [H|H]; try discriminate H); try (apply in_app_or in H; destruct H as [H|H]);
                       try (unfold release_ff in H; apply in_map_iff in H; destruct H as [? [H _]]; discriminate H);
                       try (cbn in H; repeat (destruct H as [H|H]; try discriminate H)); try contradiction ]]).
Qed.
