From Coq Require Import List NArith.
From QV Require Import Syncvar.Defs Syncvar.CellSpec Syncvar.History.
Require Extraction.
Require Import ExtrOcamlBasic.
Extraction Language OCaml.
Extraction "../ocaml/gen/c03hist_model.ml" decide accepts check_lin hrun_b completed pending atomic enabled.
