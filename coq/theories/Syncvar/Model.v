(* C03: executable model of src/syncvar.c (concrete layer, mirrors the code branch by branch; definitions only).
   Configuration of the in-tree build: QTHREAD_AMD64, BITFIELD_ORDER_REVERSE (lock = bit 0, state = bits 1..3,
   data = bits 4..63), LOCK_FREE_FEBS undefined, QTHREAD_NO_ASSERTS defined (assert() vanishes, qassert_ret(c, r) is
   `if (!(c)) return r;`).
   Granularity: one API call is one step (the word lock taken by qthread_mwaitc is held for the whole call, the
   enqueue of a blocking caller is atomic with its context switch); see DESIGN.md section 8. *)
From Coq Require Import List NArith Bool.
From QV Require Import Syncvar.Defs.
Import ListNotations.
Local Open Scope N_scope.

(* ---------- the 64-bit word (syncvar_t.u.w) ---------- *)
(* #define BUILD_UNLOCKED_SYNCVAR(data, state) (((data) << 4) | ((state) << 1))   on uint64_t *)
Definition build_unlocked (data st : N) : N := wrap64 (N.lor (N.shiftl data 4) (N.shiftl st 1)).
Definition lock_of (w : N) : bool := N.testbit w 0.
Definition state_of (w : N) : N := N.land (N.shiftr w 1) 7.
Definition data_of (w : N) : N := N.shiftr w 4.
Definition decode (w : N) : N * N * bool := (data_of w, state_of w, lock_of w).

(* SYNCVAR_*INITIALIZER *)
Definition SYNCVAR_INITIALIZER : N := 0.
Definition SYNCVAR_EMPTY_INITIALIZER : N := build_unlocked 0 2.
Definition SYNCVAR_INITIALIZE_TO (v : N) : N := build_unlocked v 0.       (* bit-field store: value truncated to 60 bits *)
Definition SYNCVAR_EMPTY_INITIALIZE_TO (v : N) : N := build_unlocked v 2.
(* INT64TOINT60 / INT60TOINT64 of qthread.h *)
Definition INT64TOINT60 (x : N) : N := N.land x 1152921504606846975.     (* 0xfffffffffffffff *)
Definition INT60TOINT64 (x : N) : N :=
  if N.eqb (N.land x 576460752303423488) 0 then x else N.lor x 17870283321406128128. (* 0x800000000000000, 0xf800000000000000 *)

(* state masks *)
Definition SYNCFEB_FULL : N := 3.     (* 0x3 *)
Definition SYNCFEB_EMPTY : N := 12.   (* 0xc *)
Definition SYNCFEB_ANY : N := 15.     (* 0xf *)
Definition ST_FULL_NO_WAITERS : N := 0.
Definition ST_FULL_WITH_WAITERS : N := 1.
Definition ST_EMPTY_NO_WAITERS : N := 2.
Definition ST_EMPTY_WITH_WAITERS : N := 3.

Record eflags := mkE { cf : bool; of_ : bool; pf : bool; sf : bool }.
Definition b2n (b : bool) : N := if b then 1 else 0.
Definition st_of_flags (p s : bool) : N := N.lor (N.shiftl (b2n p) 1) (b2n s).   (* (e.pf << 1) | e.sf *)

(* qthread_mwaitc: CAS-lock the word; succeed iff its state is in the mask, else (after `timeout` tries) report cf.
   At op granularity nobody else holds the lock, so a set lock bit means a timeout. *)
Definition mwaitc (w : N) (mask : N) : N * eflags :=
  if lock_of w then (0, mkE true false false false) else
  let s := state_of w in
  if N.testbit mask s
  then (data_of w, mkE false (N.testbit s 2) (N.testbit s 1) (N.testbit s 0))
  else (0, mkE true false false false).

(* ---------- waiter records (qthread_addrstat_t / qthread_addrres_t) ---------- *)
(* one addrres: waiter task; X->addr = source of a blocked writeEF (w_val = the value at src), destination of a blocked readFF
   (w_dest = dest != NULL), &ret of a blocked readFE (w_dest = the caller's dest != NULL, used after the wake-up) *)
(* Record waiter := { w_tid; w_val; w_dest }  is in Defs.v (shared with the abstract spec) *)
Record addrstat := mkM { EFQ : list waiter; FEQ : list waiter; FFQ : list waiter }.
Definition addrstat_new : addrstat := mkM [] [] [].
(* a syncvar: the word + its entry in the syncvars[] hash (None = no entry) *)
Record svar := mkV { word : N; rec : option addrstat }.

Definition all_empty (m : addrstat) : bool := negb (nonnil (EFQ m)) && negb (nonnil (FEQ m)) && negb (nonnil (FFQ m)).
(* qthread_syncvar_remove: drop the hash entry iff all three lists are empty *)
Definition syncvar_remove (r : option addrstat) : option addrstat :=
  match r with Some m => if all_empty m then None else Some m | None => None end.

(* result of the body of one call: new variable + events, or a fault *)
Inductive res := Ok (x : svar) (evs : list event) | Flt.

(* qthread_syncvar_gotlock_fill(shep, m, maddr, ret): all FFQ, then one FEQ; the caller has already published the word *)
Definition release_ff (ret : N) (l : list waiter) : list event :=
  map (fun X => Ret (w_tid X) RC_SUCCESS (dval (w_dest X) ret)) l.
Definition gotlock_fill (w : N) (m : addrstat) (ret : N) : svar * list event :=
  let ev_ff := release_ff ret (FFQ m) in
  let '(feq', ev_fe) := match FEQ m with
                        | X :: rest => (rest, [Ret (w_tid X) RC_SUCCESS (dval (w_dest X) ret)])
                        | [] => ([], [])
                        end in
  let m' := mkM (EFQ m) feq' [] in
  (mkV w (syncvar_remove (Some m')), ev_ff ++ ev_fe).

(* qthread_syncvar_gotlock_empty(shep, m, maddr, sf): one EFQ entry performs its write and publishes (value, sf).
   With an empty EFQ nothing is published: the word stays locked (Flt). *)
Definition gotlock_empty (m : addrstat) (sf : bool) : res :=
  match EFQ m with
  | X :: rest =>
      let m' := mkM rest (FEQ m) (FFQ m) in
      Ok (mkV (build_unlocked (w_val X) (b2n sf)) (syncvar_remove (Some m'))) [Ret (w_tid X) RC_SUCCESS None]
  | [] => Flt
  end.

(* the state published by fill-like calls that release waiters: pf/sf recomputed from FEQ *)
Definition fill_state (m : addrstat) : N :=
  match FEQ m with
  | [] => st_of_flags false false
  | _ :: [] => st_of_flags true false
  | _ :: _ :: _ => st_of_flags true true
  end.

Definition get_or_new (r : option addrstat) : addrstat := match r with Some m => m | None => addrstat_new end.
Definition prepend (evs : list event) (r : res) : res := match r with Ok x e => Ok x (evs ++ e) | Flt => Flt end.

(* ---------- the API functions ---------- *)
Definition readFF_locked_full (x : svar) (t : N) (dest : bool) (ret : N) (e : eflags) : res :=
  Ok (mkV (build_unlocked ret (b2n (sf e))) (rec x)) [Ret t RC_SUCCESS (dval dest ret)].

Definition readFF (x : svar) (t : N) (dest : bool) : res :=
  let w := word x in
  if negb (lock_of w) && N.eqb (N.land (state_of w) 2) 0
  then Ok x [Ret t RC_SUCCESS (dval dest (data_of w))]                     (* short-circuit: full and unlocked *)
  else
    let '(ret, e) := mwaitc w SYNCFEB_FULL in
    if cf e then
      let '(ret, e) := mwaitc w SYNCFEB_ANY in
      if cf e then Ok x [Ret t RC_TIMEOUT None] else
      if negb (pf e) then readFF_locked_full x t dest ret e                 (* "it got full!" *)
      else
        let m := get_or_new (rec x) in
        let X := mkW t 0 dest in
        Ok (mkV (build_unlocked ret ST_EMPTY_WITH_WAITERS) (Some (mkM (EFQ m) (FEQ m) (X :: FFQ m)))) [Blocked t]
    else readFF_locked_full x t dest ret e.

Definition readFF_nb (x : svar) (t : N) (dest : bool) : res :=
  let w := word x in
  if negb (lock_of w) && N.eqb (N.land (state_of w) 2) 0
  then Ok x [Ret t RC_SUCCESS (dval dest (data_of w))]
  else
    (* since /repo e1e6722: lock whatever the state (SYNCFEB_ANY, INT_MAX); give up only when the STATE is empty, and then
       UNLOCK_THIS_UNMODIFIED_SYNCVAR (the word is left as it was) *)
    let '(ret, e) := mwaitc w SYNCFEB_ANY in
    if cf e then Ok x [Ret t RC_TIMEOUT None]
    else if pf e then Ok x [Ret t RC_OPFAIL None]
    else readFF_locked_full x t dest ret e.

Definition fill (x : svar) (t : N) : res :=
  let w := word x in
  let '(ret, e) := mwaitc w SYNCFEB_ANY in
  if cf e then Ok x [Ret t RC_TIMEOUT None] else
  if pf e then
    if sf e then
      match rec x with
      | None => Flt                                                          (* assert(m) is compiled out: m->lock on NULL *)
      | Some m =>
          let '(x', evs) := gotlock_fill (build_unlocked ret (fill_state m)) m ret in
          Ok x' (Ret t RC_SUCCESS None :: evs)
      end
    else Ok (mkV (build_unlocked ret 0) (rec x)) [Ret t RC_SUCCESS None]
  else Ok (mkV (build_unlocked ret (b2n (sf e))) (rec x)) [Ret t RC_SUCCESS None].

(* the part shared by empty / readFE / readFE_nb on a full word with waiters *)
Definition empty_with_waiters (x : svar) (first : list event) : res :=
  match rec x with
  | None => Flt
  | Some m =>
      match EFQ m with
      | [] => Flt                                                            (* m->EFQ->next on NULL *)
      | _ :: rest => prepend first (gotlock_empty m (nonnil rest))
      end
  end.

Definition empty (x : svar) (t : N) : res :=
  let w := word x in
  let '(ret, e) := mwaitc w SYNCFEB_ANY in
  if cf e then Ok x [Ret t RC_TIMEOUT None] else
  if negb (pf e) then
    if sf e then empty_with_waiters x [Ret t RC_SUCCESS None]
    else Ok (mkV (build_unlocked ret ST_EMPTY_NO_WAITERS) (rec x)) [Ret t RC_SUCCESS None]
  else Ok (mkV (build_unlocked ret (N.lor ST_EMPTY_NO_WAITERS (b2n (sf e)))) (rec x)) [Ret t RC_SUCCESS None].

Definition readFE_locked_full (x : svar) (t : N) (dest : bool) (ret : N) : res :=
  Ok (mkV (build_unlocked ret ST_EMPTY_NO_WAITERS) (rec x)) [Ret t RC_SUCCESS (dval dest ret)].

Definition readFE (x : svar) (t : N) (dest : bool) : res :=
  let w := word x in
  let '(ret, e) := mwaitc w SYNCFEB_FULL in
  if cf e then
    let '(ret, e) := mwaitc w SYNCFEB_ANY in
    if cf e then Ok x [Ret t RC_TIMEOUT None] else
    if negb (pf e) then
      (if sf e then empty_with_waiters x [Ret t RC_SUCCESS (dval dest ret)]   (* goto locked_full_waiters *)
       else readFE_locked_full x t dest ret)                                 (* goto locked_full *)
    else
      let m := get_or_new (rec x) in
      let X := mkW t 0 dest in
      Ok (mkV (build_unlocked ret ST_EMPTY_WITH_WAITERS) (Some (mkM (EFQ m) (X :: FEQ m) (FFQ m)))) [Blocked t]
  else if sf e then empty_with_waiters x [Ret t RC_SUCCESS (dval dest ret)]
  else readFE_locked_full x t dest ret.

Definition readFE_nb (x : svar) (t : N) (dest : bool) : res :=
  let w := word x in
  let '(ret, e) := mwaitc w SYNCFEB_ANY in                                   (* since /repo e1e6722, as readFF_nb *)
  if cf e then Ok x [Ret t RC_TIMEOUT None]
  else if pf e then Ok x [Ret t RC_OPFAIL None]
  else if sf e then empty_with_waiters x [Ret t RC_SUCCESS (dval dest ret)]
  else readFE_locked_full x t dest ret.

(* qassert_ret: the source value shifted right by 60 must be 0, else QTHREAD_OVERFLOW *)
Definition overflows (v : N) : bool := negb (N.eqb (N.shiftr v 60) 0).

(* the part shared by writeF / writeEF / writeEF_nb / incrF on an empty word with waiters: publish (val, state from FEQ),
   then gotlock_fill hands val to the released readers *)
Definition fill_with_waiters (x : svar) (val : N) (first : event) : res :=
  match rec x with
  | None => Flt
  | Some m =>
      let '(x', evs) := gotlock_fill (build_unlocked val (fill_state m)) m val in
      Ok x' (first :: evs)
  end.

Definition writeF (x : svar) (t : N) (v : N) : res :=
  if overflows v then Ok x [Ret t RC_OVERFLOW None] else
  let w := word x in
  let '(_, e) := mwaitc w SYNCFEB_ANY in
  if cf e then Ok x [Ret t RC_TIMEOUT None] else
  if pf e && sf e then fill_with_waiters x v (Ret t RC_SUCCESS None)
  else Ok (mkV (build_unlocked v (b2n (sf e))) (rec x)) [Ret t RC_SUCCESS None].

Definition writeEF_locked_empty (x : svar) (t v : N) : res :=
  Ok (mkV (build_unlocked v ST_FULL_NO_WAITERS) (rec x)) [Ret t RC_SUCCESS None].

Definition writeEF (x : svar) (t : N) (v : N) : res :=
  if overflows v then Ok x [Ret t RC_OVERFLOW None] else
  let w := word x in
  let '(_, e) := mwaitc w SYNCFEB_EMPTY in
  if cf e then
    let '(ret, e) := mwaitc w SYNCFEB_ANY in
    if cf e then Ok x [Ret t RC_TIMEOUT None] else
    if pf e then
      (if sf e then fill_with_waiters x v (Ret t RC_SUCCESS None)            (* goto locked_empty_waiters *)
       else writeEF_locked_empty x t v)                                      (* goto locked_empty *)
    else
      let m := get_or_new (rec x) in
      let X := mkW t v false in
      Ok (mkV (build_unlocked ret ST_FULL_WITH_WAITERS) (Some (mkM (X :: EFQ m) (FEQ m) (FFQ m)))) [Blocked t]
  else if sf e then fill_with_waiters x v (Ret t RC_SUCCESS None)
  else writeEF_locked_empty x t v.

Definition writeEF_nb (x : svar) (t : N) (v : N) : res :=
  if overflows v then Ok x [Ret t RC_OVERFLOW None] else
  let w := word x in
  let '(_, e) := mwaitc w SYNCFEB_ANY in                                     (* since /repo e1e6722: gives up only when full *)
  if cf e then Ok x [Ret t RC_TIMEOUT None]
  else if negb (pf e) then Ok x [Ret t RC_OPFAIL None]
  else if sf e then fill_with_waiters x v (Ret t RC_SUCCESS None)
  else writeEF_locked_empty x t v.

(* newv = INT64TOINT60(operand->u.s.data + inc): the sum is computed in 64 bits and reduced to the 60-bit payload; the same
   newv is stored, returned and handed to the released readers (since /repo 70f90aa) *)
Definition incrF (x : svar) (t : N) (inc : N) : res :=
  let w := word x in
  let '(_, e) := mwaitc w SYNCFEB_ANY in
  if cf e then Ok x [Ret t RC_TIMEOUT None] else
  let newv := INT64TOINT60 (wrap64 (data_of w + inc)) in
  if pf e && sf e then fill_with_waiters x newv (Ret t RC_SUCCESS (Some newv))
  else Ok (mkV (build_unlocked newv (st_of_flags (pf e) (sf e))) (rec x)) [Ret t RC_SUCCESS (Some newv)].

(* qthread_syncvar_status: 1 = full, 0 = empty *)
Definition status (x : svar) (t : N) : res :=
  let w := word x in
  if negb (lock_of w) then Ok x [Ret t RC_SUCCESS (Some (if N.testbit (state_of w) 1 then 0 else 1))]
  else
    let '(_, e) := mwaitc w 255 in
    if cf e then Ok x [Ret t RC_TIMEOUT None]
    else Ok x [Ret t RC_SUCCESS (Some (if N.testbit (state_of w) 1 then 0 else 1))].

Definition call (x : svar) (t : N) (o : op) : res :=
  match o with
  | ReadFF d => readFF x t d | ReadFF_nb d => readFF_nb x t d
  | ReadFE d => readFE x t d | ReadFE_nb d => readFE_nb x t d
  | WriteF v => writeF x t v | WriteEF v => writeEF x t v | WriteEF_nb v => writeEF_nb x t v
  | Fill => fill x t | Empty => empty x t | IncrF i => incrF x t i | Status => status x t
  end.

(* one step on one variable; a fault leaves the variable as it is and is reported as an event *)
Definition step_var (x : svar) (t : N) (o : op) : svar * list event :=
  match call x t o with Ok x' evs => (x', evs) | Flt => (x, [Fault]) end.

(* ---------- several variables, several tasks ---------- *)
Definition state := list (N * svar).

Definition waiters_of (x : svar) : list waiter :=
  match rec x with Some m => EFQ m ++ FEQ m ++ FFQ m | None => [] end.
Definition blocked_tids (x : svar) : list N := map w_tid (waiters_of x).
Definition all_blocked (s : state) : list N := flat_map (fun p => blocked_tids (snd p)) s.
Definition busy (s : state) (t : N) : bool := existsb (N.eqb t) (all_blocked s).

Fixpoint lookup (s : state) (v : N) : option svar :=
  match s with [] => None | (k, x) :: r => if N.eqb k v then Some x else lookup r v end.
Fixpoint update (s : state) (v : N) (x' : svar) : state :=
  match s with [] => [] | (k, x) :: r => if N.eqb k v then (k, x') :: r else (k, x) :: update r v x' end.

Definition step (s : state) (t v : N) (o : op) : state * list event :=
  if busy s t then (s, [Busy t]) else
  match lookup s v with
  | None => (s, [NoVar])
  | Some x => let '(x', evs) := step_var x t o in (update s v x', evs)
  end.

Fixpoint run (s : state) (script : list (N * N * op)) : state * list (list event) :=
  match script with
  | [] => (s, [])
  | (t, v, o) :: rest =>
      let '(s1, evs) := step s t v o in
      let '(s2, tr) := run s1 rest in (s2, evs :: tr)
  end.
