From Coq Require Import List NArith.
From QV Require Import Syncvar.Defs Syncvar.CellSpec Syncvar.MicroAll Syncvar.MicroAllProofs.
Require Extraction.
Require Import ExtrOcamlBasic.
Extraction Language OCaml.
Extraction "../ocaml/gen/c03micro_model.ml" minit mstep mstep_old mstep_gen mrun finished good_final good_final_weak settled explained res_of seq2 hashed uaf_class nb_class.
