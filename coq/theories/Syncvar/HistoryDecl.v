(* C03, mode M4: the declarative reading of the history specification.  Syncvar/History.v carries an "undecided incrF" in
   the run state (hs_just); here the same specification is written over the bare cell with an explicit rule: an incrF on an
   EMPTY cell either leaves it empty (dlin_done: `atomic` keeps the full bit) or - when the call placed right after it is a
   completed blocking read that was invoked before the incrF returned, i.e. a reader that may have been waiting - fills it
   (dlin_incr_fill).  The two formulations accept exactly the same linearisations. *)
From Coq Require Import List NArith Bool Lia.
Import ListNotations.
From QV Require Import Syncvar.Defs Syncvar.CellSpec Syncvar.History Syncvar.HistoryProofs Syncvar.HistoryIncr.
Local Open Scope N_scope.

Inductive dlin : cell -> list hop -> cell -> Prop :=
| dlin_nil c : dlin c [] c
| dlin_done c x l c1 r c2 obs :
    h_out x = ODone obs -> sv_rejected (h_op x) = false -> atomic c (h_op x) = Some (c1, r) -> obs_ok obs r = true ->
    dlin c1 l c2 -> dlin c (x :: l) c2
| dlin_incr_fill c x y l inc r c2 obs :
    h_out x = ODone obs -> h_op x = SIncrF inc -> c_full c = false -> h_ret x = Some r ->
    waits_as_reader y = true -> h_inv y < r ->
    obs_ok obs (RVal (wrap60 (c_val c + inc))) = true ->
    dlin (mkC true (wrap60 (c_val c + inc))) (y :: l) c2 -> dlin c (x :: y :: l) c2
| dlin_fail c x l c2 :
    h_out x = OFail -> h_nb x = true -> sv_rejected (h_op x) = false -> atomic c (h_op x) = None ->
    dlin c l c2 -> dlin c (x :: l) c2
| dlin_over c x l c2 :
    h_out x = OOver -> sv_rejected (h_op x) = true -> dlin c l c2 -> dlin c (x :: l) c2.

Lemma reader_not_incr x : waits_as_reader x = true -> forall i, h_op x <> SIncrF i.
Proof.
  unfold waits_as_reader. destruct (h_out x); try discriminate. intros H i E. rewrite E in H.
  apply andb_true_iff in H. destruct H as [_ H]. discriminate.
Qed.

Lemma justified_inv j x : justified j x = true -> exists r, j = Some r /\ waits_as_reader x = true /\ h_inv x < r.
Proof.
  unfold justified. destruct j as [r|]; [|discriminate]. intros H. apply andb_true_iff in H. destruct H as [W L].
  exists r. split; [reflexivity|]. split; [exact W|]. apply N.ltb_lt. exact L.
Qed.

(* lazy => declarative.  From a state with an undecided incrF the run is either a declarative run from the cell as it is
   (the incrF left it empty) or starts with a waiting reader and is a declarative run from the filled cell. *)
Lemma hrun_dlin l : forall s c' j', hrun s l (mkH c' j') ->
  dlin (hs_cell s) l c' \/
  (exists r y l', hs_just s = Some r /\ l = y :: l' /\ waits_as_reader y = true /\ h_inv y < r /\
                  dlin (mkC true (c_val (hs_cell s))) l c').
Proof.
  induction l as [|x l IH]; intros s c' j' H.
  - inversion H; subst. left. constructor.
  - destruct (hrun_cons_inv _ _ _ _ H) as (s1 & A & R).
    destruct (apply_op_inv _ _ _ A) as [(obs & c1 & r & Ho & Rj & Ha & Hk & ->)|[(Ho & Hn & Rj & Ha & ->)|(Ho & Rj & ->)]].
    + specialize (IH _ _ _ R). cbn [hs_cell hs_just] in IH.
      (* the declarative step from the cell x meets *)
      assert (D : dlin (seen_cell s x) (x :: l) c').
      { destruct IH as [D|(r1 & y & l' & J & -> & Wy & Ly & D)].
        - eapply dlin_done; eassumption.
        - revert J Ha Hk D. unfold next_just. destruct (h_op x) as [| | | | | |inc|] eqn:Op; intros J Ha Hk D; try discriminate J.
          destruct (c_full (seen_cell s x)) eqn:F; [discriminate J|].
          simpl in Ha. inversion Ha; subst c1 r. cbn [c_val] in D.
          eapply dlin_incr_fill; try eassumption; reflexivity. }
      unfold seen_cell in D. destruct (justified (hs_just s) x) eqn:J.
      * destruct (justified_inv _ _ J) as (r0 & Ej & Wx & Lx). right. exists r0, x, l. auto.
      * left. exact D.
    + left. specialize (IH _ _ _ R). cbn [hs_cell hs_just] in IH.
      destruct IH as [D|(r1 & y & l' & J & _)]; [|discriminate]. eapply dlin_fail; eassumption.
    + left. specialize (IH _ _ _ R). cbn [hs_cell hs_just] in IH.
      destruct IH as [D|(r1 & y & l' & J & _)]; [|discriminate]. eapply dlin_over; eassumption.
Qed.

(* declarative => lazy *)
Lemma justified_run v r y l s' :
  waits_as_reader y = true -> h_inv y < r ->
  hrun (mkH (mkC true v) None) (y :: l) s' -> hrun (mkH (mkC false v) (Some r)) (y :: l) s'.
Proof.
  intros Wy Ly H. destruct (hrun_cons_inv _ _ _ _ H) as (s1 & A & R).
  apply hrun_b_sound. simpl. apply hrun_b_complete in R. rewrite <- R.
  assert (E : apply_op (mkH (mkC false v) (Some r)) y = apply_op (mkH (mkC true v) None) y).
  { unfold apply_op, seen_cell. cbn [hs_cell hs_just justified c_val]. rewrite Wy.
    assert (L : (h_inv y <? r) = true) by (apply N.ltb_lt; exact Ly). rewrite L. cbn [andb].
    unfold waits_as_reader in Wy. destruct (h_out y); try discriminate. reflexivity. }
  rewrite E, A. reflexivity.
Qed.

Lemma dlin_hrun c l c' : dlin c l c' -> exists j', hrun (mkH c None) l (mkH c' j').
Proof.
  induction 1 as [c|c x l c1 r c2 obs Ho Rj Ha Hk _ IH|c x y l inc r c2 obs Ho Op F Hr Wy Ly Hk _ IH|
                  c x l c2 Ho Hn Rj Ha _ IH|c x l c2 Ho Rj _ IH].
  - exists None. constructor.
  - destruct IH as (j' & R). destruct (hrun_just_weaken c1 (next_just c x) _ _ _ R) as (j'' & R').
    exists j''. eapply hrun_done; try eassumption.
  - destruct IH as (j' & R). exists j'.
    assert (Rx : sv_rejected (h_op x) = false) by (rewrite Op; reflexivity).
    eapply (hrun_done (mkH c None) x (y :: l) (mkC false (wrap60 (c_val c + inc))) (RVal (wrap60 (c_val c + inc)))); try eassumption.
    + unfold seen_cell. cbn [hs_just justified hs_cell]. rewrite Op. simpl. rewrite F. reflexivity.
    + unfold seen_cell, next_just. cbn [hs_just justified hs_cell]. rewrite Op, F, Hr.
      apply justified_run; assumption.
  - destruct IH as (j' & R). exists j'. eapply hrun_fail; eassumption.
  - destruct IH as (j' & R). exists j'. eapply hrun_over; eassumption.
Qed.

Theorem lazy_is_declarative c l c' : (exists j', hrun (mkH c None) l (mkH c' j')) <-> dlin c l c'.
Proof.
  split.
  - intros (j' & H). destruct (hrun_dlin _ _ _ _ H) as [D|(r & y & l' & J & _)]; [exact D|discriminate].
  - apply dlin_hrun.
Qed.
