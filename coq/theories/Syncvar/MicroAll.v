(* C03, micro-step layer for ALL syncvar operations (extension B): src/syncvar.c at the granularity of its shared accesses,
   for TWO running tasks (0 and 1) on ONE syncvar, optionally with a third task (2) that is already blocked on the variable
   when the two calls start (so that the wake-up bodies and qthread_syncvar_remove race with a running call).
   Build modelled: QTHREAD_AMD64, BITFIELD_ORDER_REVERSE, LOCK_FREE_FEBS undefined, QTHREAD_NO_ASSERTS (assert() vanishes).
   Shared objects and the accesses that are steps:
     the 64-bit word  (kept decoded: lock bit, state 0..3, 60-bit data; Properties_C03.payload_roundtrip makes that faithful)
        - plain atomic 64-bit load   (the optimistic fast path of readFF / readFF_nb / status; `tmp = *addr` in qthread_mwaitc)
        - qthread_cas64              (qthread_mwaitc: unlocked -> locked)
        - `addr->u.s.lock = 0`       (UNLOCK_THIS_UNMODIFIED_SYNCVAR: qthread_mwaitc on a state outside the mask; status)
        - the publishing 64-bit store (UNLOCK_THIS_MODIFIED_SYNCVAR: data + state + lock = 0 in one store)
     the stripe's hash table syncvars[bin] with its lock
        - qt_hash_lock / qt_hash_get_locked / qt_hash_put_locked / qt_hash_remove_locked / qt_hash_unlock
        - qt_hash_get, qt_hash_put   (take and drop the table lock internally: one step, enabled when the table lock is free)
     the waiter record (qthread_addrstat_t): its lock (QTHREAD_FASTLOCK_LOCK / UNLOCK; ticket lock modelled as a mutex), the
        lists EFQ / FEQ / FFQ (only touched under the record lock), and whether it has been handed back to the allocator
        (qthread_addrstat_delete): a later access through a stale pointer sets [g_uaf].
   qthread_mwaitc is transcribed with its timeout arithmetic (unsigned `timeout-- <= 0` after a locked load and after a failed
   CAS, `while (timeout-- > 0)` after unlocking a state outside the mask).  Timeout 1 (the _nb calls before e1e6722) is exact.  INT_MAX is
   modelled as "no bound": a load that sees the lock bit is a stuttering step and is simply not enabled.  INITIAL_TIMEOUT
   (100, first attempt of readFF / readFE / writeEF) is the parameter [itmo] of the step function: it only bounds how many
   times the first attempt retries before the call falls back to the SYNCFEB_ANY attempt.
   A blocking call: ... publish (data, state with waiters) ; enqueue X on the record (under the record lock) ;
   qthread_back_to_master, after which the worker drops the record lock (qthread.c, case QTHREAD_STATE_FEB_BLOCKED).
   A blocked call returns when another call's gotlock_fill / gotlock_empty takes it off its list (it makes no further
   shared access: it copies the delivered value and returns).
   Sequential consistency is assumed (DESIGN section 7). *)
From Coq Require Import List NArith Bool Arith.
From QV Require Import Syncvar.Defs.
Import ListNotations.
Local Open Scope N_scope.

Record wd := mkWd { w_lk : bool; w_st : N; w_dat : N }.
Record rcd := mkR { r_lock : option N; r_EFQ : list waiter; r_FEQ : list waiter; r_FFQ : list waiter; r_freed : bool }.

Inductive pc :=
| PStart                                   (* nothing done yet *)
| PFast                                    (* optimistic plain load (readFF, readFF_nb, status) *)
| PMwLoad | PMwCas | PMwUnl                (* qthread_mwaitc: load; CAS; unlock of a state outside the mask *)
| PBlkHLock | PBlkHGet | PBlkRLock | PBlkHUnl   (* readFE / writeEF have to wait: qt_hash_lock; get_locked (+ put_locked); lock m; qt_hash_unlock *)
| PFFGet | PFFPut | PFFRLock               (* readFF has to wait: qt_hash_get; qt_hash_put of a new record; lock m (table lock NOT held) *)
| PBlkPub | PEnq | PSwitch                 (* publish (ret, state with waiters); enqueue X; back_to_master + the worker's unlock of m *)
| PRelGet | PRelRLock | PRelPub | PRelBody (* fill-like call on empty-with-waiters: qt_hash_get; lock m; publishing store; gotlock_fill body *)
| PEmpGet | PEmpRLock | PEmpBody           (* empty-like call on full-with-waiters: qt_hash_get; lock m; gotlock_empty body with its store *)
| PRecUnl (rm : bool)                      (* unlock m; then qthread_syncvar_remove when the lists were empty *)
| PRmHLock | PRmGet | PRmRLock | PRmCheck | PRmHUnl | PRmFree
| PPub (st d : N)                          (* UNLOCK_THIS_MODIFIED_SYNCVAR(d, st) of a call that releases nobody *)
| PStUnl                                   (* status, slow path: UNLOCK_THIS_UNMODIFIED_SYNCVAR *)
| PDone.

Record thr := mkT { t_op : op; t_pc : pc; t_ph : nat; t_tmo : option nat; t_mask : N; t_tmp : wd;
                    t_ret : N; t_pf : bool; t_sf : bool; t_val : N; t_m : option nat;
                    t_res : option (rcode * option N); t_blk : bool }.

Record gst := mkG { g_w : wd; g_hash : option nat; g_hlock : option N; g_heap : list rcd; g_uaf : bool; g_fault : bool;
                    g_t0 : thr; g_t1 : thr; g_t2 : thr }.

(* ---------- plumbing ---------- *)
Definition get_thr (s : gst) (t : N) : thr := if N.eqb t 0 then g_t0 s else if N.eqb t 1 then g_t1 s else g_t2 s.
Definition set_thr (s : gst) (t : N) (x : thr) : gst :=
  if N.eqb t 0 then mkG (g_w s) (g_hash s) (g_hlock s) (g_heap s) (g_uaf s) (g_fault s) x (g_t1 s) (g_t2 s)
  else if N.eqb t 1 then mkG (g_w s) (g_hash s) (g_hlock s) (g_heap s) (g_uaf s) (g_fault s) (g_t0 s) x (g_t2 s)
  else mkG (g_w s) (g_hash s) (g_hlock s) (g_heap s) (g_uaf s) (g_fault s) (g_t0 s) (g_t1 s) x.
Definition set_w (s : gst) (w : wd) := mkG w (g_hash s) (g_hlock s) (g_heap s) (g_uaf s) (g_fault s) (g_t0 s) (g_t1 s) (g_t2 s).
Definition set_hash (s : gst) (h : option nat) := mkG (g_w s) h (g_hlock s) (g_heap s) (g_uaf s) (g_fault s) (g_t0 s) (g_t1 s) (g_t2 s).
Definition set_hlock (s : gst) (l : option N) := mkG (g_w s) (g_hash s) l (g_heap s) (g_uaf s) (g_fault s) (g_t0 s) (g_t1 s) (g_t2 s).
Definition set_heap (s : gst) (h : list rcd) := mkG (g_w s) (g_hash s) (g_hlock s) h (g_uaf s) (g_fault s) (g_t0 s) (g_t1 s) (g_t2 s).
Definition set_uaf (s : gst) := mkG (g_w s) (g_hash s) (g_hlock s) (g_heap s) true (g_fault s) (g_t0 s) (g_t1 s) (g_t2 s).
Definition set_fault (s : gst) := mkG (g_w s) (g_hash s) (g_hlock s) (g_heap s) (g_uaf s) true (g_t0 s) (g_t1 s) (g_t2 s).
Definition is_free (l : option N) : bool := match l with None => true | Some _ => false end.

Fixpoint upd_nth (l : list rcd) (i : nat) (x : rcd) : list rcd :=
  match l, i with
  | [], _ => []
  | _ :: r, O => x :: r
  | a :: r, S j => a :: upd_nth r j x
  end.

Definition w_pc (th : thr) (p : pc) : thr :=
  mkT (t_op th) p (t_ph th) (t_tmo th) (t_mask th) (t_tmp th) (t_ret th) (t_pf th) (t_sf th) (t_val th) (t_m th) (t_res th) (t_blk th).
Definition w_tmp (th : thr) (w : wd) (p : pc) : thr :=
  mkT (t_op th) p (t_ph th) (t_tmo th) (t_mask th) w (t_ret th) (t_pf th) (t_sf th) (t_val th) (t_m th) (t_res th) (t_blk th).
Definition w_tmo (th : thr) (n : option nat) (p : pc) : thr :=
  mkT (t_op th) p (t_ph th) n (t_mask th) (t_tmp th) (t_ret th) (t_pf th) (t_sf th) (t_val th) (t_m th) (t_res th) (t_blk th).
Definition w_m (th : thr) (m : option nat) (p : pc) : thr :=
  mkT (t_op th) p (t_ph th) (t_tmo th) (t_mask th) (t_tmp th) (t_ret th) (t_pf th) (t_sf th) (t_val th) m (t_res th) (t_blk th).
Definition w_res (th : thr) (c : rcode) (v : option N) (p : pc) : thr :=
  mkT (t_op th) p (t_ph th) (t_tmo th) (t_mask th) (t_tmp th) (t_ret th) (t_pf th) (t_sf th) (t_val th) (t_m th) (Some (c, v)) (t_blk th).
Definition th_val (th : thr) (v : N) : thr :=
  mkT (t_op th) (t_pc th) (t_ph th) (t_tmo th) (t_mask th) (t_tmp th) (t_ret th) (t_pf th) (t_sf th) v (t_m th) (t_res th) (t_blk th).
Definition w_blk (th : thr) : thr :=
  mkT (t_op th) (t_pc th) (t_ph th) (t_tmo th) (t_mask th) (t_tmp th) (t_ret th) (t_pf th) (t_sf th) (t_val th) (t_m th) None true.
(* entering qthread_mwaitc(addr, mask, tmo, &e) as attempt number ph of the call *)
Definition start_mw (th : thr) (mask : N) (tmo : option nat) (ph : nat) : thr :=
  mkT (t_op th) PMwLoad ph tmo mask (t_tmp th) (t_ret th) (t_pf th) (t_sf th) (t_val th) (t_m th) (t_res th) (t_blk th).
Definition w_flags (th : thr) (l : wd) : thr :=
  mkT (t_op th) (t_pc th) (t_ph th) (t_tmo th) (t_mask th) (t_tmp th) (w_dat l) (N.testbit (w_st l) 1) (N.testbit (w_st l) 0)
      (t_val th) (t_m th) (t_res th) (t_blk th).

Definition M_FULL : N := 3.
Definition M_EMPTY : N := 12.
Definition M_ANY : N := 15.
Definition M_ALL : N := 255.
Definition b2n (b : bool) : N := if b then 1 else 0.
Definition st_of (p s : bool) : N := 2 * b2n p + b2n s.
Definition overflows (v : N) : bool := negb (N.eqb (N.shiftr v 60) 0).

(* ---------- what a call does when qthread_mwaitc returns (cf = timeout; l = the locked copy) ---------- *)
Definition pub (th : thr) (st d : N) (c : rcode) (v : option N) : thr := w_res th c v (PPub st d).
Definition rel (th : thr) (val : N) (c : rcode) (v : option N) : thr := w_res (th_val th val) c v PRelGet.
Definition emp (th : thr) (c : rcode) (v : option N) : thr := w_res th c v PEmpGet.
Definition fin (th : thr) (c : rcode) (v : option N) : thr := w_res th c v PDone.

(* [fxff] / [fxnb] = true: the code as it is, i.e. since /repo 8cdc001 (the wait path of readFF looks the record up and locks it
   under the table lock, as readFE / writeEF do) and /repo e1e6722 (the _nb calls take the word lock without a try limit and give
   up only when the STATE is not the one they need, unlocking the word unmodified).  false: the access order before these
   commits, kept as a regression model: it is not atomic (MicroAllTheorems.sv_micro_atomic_old_refuted,
   sv_micro_old_nb_spurious_refuted); both classes were reproduced on the real code before the commits. *)
Definition nb_wrong (th : thr) (c : rcode) (v : option N) : thr := w_res th c v PStUnl.
Definition after_mw (fxff fxnb : bool) (th0 : thr) (cf : bool) (l : wd) : thr :=
  let th := if cf then th0 else w_flags th0 l in
  let pf := t_pf th in let sf := t_sf th in let ret := t_ret th in
  let second := Nat.eqb (t_ph th) 2 in
  match t_op th with
  | ReadFF d =>
      if cf then (if second then fin th RC_TIMEOUT None else start_mw th M_ANY None 2)
      else if second && pf then w_pc th (if fxff then PBlkHLock else PFFGet)
      else pub th (b2n sf) ret RC_SUCCESS (dval d ret)                                 (* locked_full *)
  | ReadFF_nb d =>
      if cf then fin th RC_OPFAIL None
      else if fxnb && pf then nb_wrong th RC_OPFAIL None
      else pub th (b2n sf) ret RC_SUCCESS (dval d ret)
  | Fill =>
      if cf then fin th RC_TIMEOUT None
      else if pf then (if sf then rel th ret RC_SUCCESS None else pub th 0 ret RC_SUCCESS None)
      else pub th (b2n sf) ret RC_SUCCESS None
  | Empty =>
      if cf then fin th RC_TIMEOUT None
      else if negb pf then (if sf then emp th RC_SUCCESS None else pub th 2 ret RC_SUCCESS None)
      else pub th (2 + b2n sf) ret RC_SUCCESS None
  | ReadFE d =>
      if cf then (if second then fin th RC_TIMEOUT None else start_mw th M_ANY None 2)
      else if second && pf then w_pc th PBlkHLock
      else if sf then emp th RC_SUCCESS (dval d ret) else pub th 2 ret RC_SUCCESS (dval d ret)
  | ReadFE_nb d =>
      if cf then fin th RC_OPFAIL None
      else if fxnb && pf then nb_wrong th RC_OPFAIL None
      else if sf then emp th RC_SUCCESS (dval d ret) else pub th 2 ret RC_SUCCESS (dval d ret)
  | WriteF v =>
      if cf then fin th RC_TIMEOUT None
      else if pf && sf then rel th v RC_SUCCESS None else pub th (b2n sf) v RC_SUCCESS None
  | WriteEF v =>
      if cf then (if second then fin th RC_TIMEOUT None else start_mw th M_ANY None 2)
      else if second && negb pf then w_pc (th_val th v) PBlkHLock
      else if sf then rel th v RC_SUCCESS None else pub th 0 v RC_SUCCESS None
  | WriteEF_nb v =>
      if cf then fin th RC_OPFAIL None
      else if fxnb && negb pf then nb_wrong th RC_OPFAIL None
      else if sf then rel th v RC_SUCCESS None else pub th 0 v RC_SUCCESS None
  | IncrF inc =>
      if cf then fin th RC_TIMEOUT None
      else let newv := wrap60 (wrap64 (ret + inc)) in
           if pf && sf then rel th newv RC_SUCCESS (Some newv) else pub th (st_of pf sf) newv RC_SUCCESS (Some newv)
  | Status =>
      if cf then fin th RC_TIMEOUT None
      else w_res th RC_SUCCESS (Some (if N.testbit (w_st l) 1 then 0 else 1)) PStUnl
  end.

(* the first shared access of a call *)
Definition first_pc (fxnb : bool) (itmo : nat) (th : thr) : thr :=
  match t_op th with
  | ReadFF _ | ReadFF_nb _ | Status => w_pc th PFast
  | ReadFE _ => start_mw th M_FULL (Some itmo) 1
  | ReadFE_nb _ => if fxnb then start_mw th M_ANY None 1 else start_mw th M_FULL (Some 1%nat) 1
  | WriteF v => if overflows v then fin th RC_OVERFLOW None else start_mw th M_ANY None 1
  | WriteEF v => if overflows v then fin th RC_OVERFLOW None else start_mw th M_EMPTY (Some itmo) 1
  | WriteEF_nb v => if overflows v then fin th RC_OVERFLOW None else (if fxnb then start_mw th M_ANY None 1 else start_mw th M_EMPTY (Some 1%nat) 1)
  | Fill | Empty | IncrF _ => start_mw th M_ANY None 1
  end.
(* after the optimistic load did not short-circuit *)
Definition slow_pc (fxnb : bool) (itmo : nat) (th : thr) : thr :=
  match t_op th with
  | ReadFF _ => start_mw th M_FULL (Some itmo) 1
  | ReadFF_nb _ => if fxnb then start_mw th M_ANY None 1 else start_mw th M_FULL (Some 1%nat) 1
  | _ => start_mw th M_ALL None 1
  end.

(* ---------- records ---------- *)
Definition new_rcd : rcd := mkR None [] [] [] false.
Definition rcd_all_empty (r : rcd) : bool := negb (nonnil (r_EFQ r)) && negb (nonnil (r_FEQ r)) && negb (nonnil (r_FFQ r)).
Definition get_rcd (s : gst) (i : nat) : option rcd := nth_error (g_heap s) i.
Definition put_rcd (s : gst) (i : nat) (r : rcd) : gst := set_heap s (upd_nth (g_heap s) i r).

(* QTHREAD_FASTLOCK_LOCK(&m->lock); through a pointer to a record that was given back: use after free *)
Definition lock_rcd (s : gst) (me : N) (i : nat) : option gst :=
  match get_rcd s i with
  | Some r => if is_free (r_lock r)
              then let s1 := put_rcd s i (mkR (Some me) (r_EFQ r) (r_FEQ r) (r_FFQ r) (r_freed r)) in
                   Some (if r_freed r then set_uaf s1 else s1)
              else None
  | None => None
  end.
Definition unlock_rcd (s : gst) (i : nat) (free : bool) : gst :=
  match get_rcd s i with
  | Some r => put_rcd s i (mkR None (r_EFQ r) (r_FEQ r) (r_FFQ r) (r_freed r || free))
  | None => s
  end.

(* a waiter taken off its list returns from its call *)
Definition wake1 (s : gst) (X : waiter) (v : option N) : gst :=
  let th := get_thr s (w_tid X) in
  set_thr s (w_tid X) (mkT (t_op th) PDone (t_ph th) (t_tmo th) (t_mask th) (t_tmp th) (t_ret th) (t_pf th) (t_sf th) (t_val th)
                           (t_m th) (Some (RC_SUCCESS, v)) false).
Fixpoint wake_all (s : gst) (l : list waiter) (ret : N) : gst :=
  match l with [] => s | X :: r => wake_all (wake1 s X (dval (w_dest X) ret)) r ret end.

(* the state a fill-like call publishes: pf / sf recomputed from FEQ *)
Definition fill_state (r : rcd) : N :=
  match r_FEQ r with [] => 0 | [_] => 2 | _ :: _ :: _ => 3 end.

Definition waiter_of (me : N) (th : thr) : waiter :=
  match t_op th with
  | ReadFF d | ReadFE d => mkW me 0 d
  | _ => mkW me (t_val th) false
  end.

(* ---------- one shared access of task me ---------- *)
Definition mstep_gen (fxff fxnb : bool) (itmo : nat) (s : gst) (me : N) : option gst :=
  if negb (N.ltb me 2) then None else
  let th := get_thr s me in
  if t_blk th then None else
  let go th' s' := Some (set_thr s' me th') in
  let w := g_w s in
  match t_pc th with
  | PDone => None
  | PStart => go (first_pc fxnb itmo th) s       (* reading the arguments: no shared access, kept as a step so that a call can be "not yet started" *)
  | PFast =>
      match t_op th with
      | Status => if negb (w_lk w) then go (fin th RC_SUCCESS (Some (if N.testbit (w_st w) 1 then 0 else 1))) s
                  else go (slow_pc fxnb itmo th) s
      | ReadFF d | ReadFF_nb d =>
          if negb (w_lk w) && negb (N.testbit (w_st w) 1) then go (fin th RC_SUCCESS (dval d (w_dat w))) s
          else go (slow_pc fxnb itmo th) s
      | _ => None
      end
  (* ---- qthread_mwaitc ---- *)
  | PMwLoad =>
      if w_lk w then
        match t_tmo th with
        | None => None                                              (* INT_MAX: spin (stutter) *)
        | Some O => go (after_mw fxff fxnb th true w) s                       (* timeout-- <= 0: errexit *)
        | Some (S n) => go (w_tmo th (Some n) PMwLoad) s
        end
      else go (w_tmp th w PMwCas) s
  | PMwCas =>
      let u := t_tmp th in
      if Bool.eqb (w_lk w) (w_lk u) && N.eqb (w_st w) (w_st u) && N.eqb (w_dat w) (w_dat u) then
        let l := mkWd true (w_st u) (w_dat u) in
        let s1 := set_w s l in
        if N.testbit (t_mask th) (w_st u) then go (after_mw fxff fxnb th false l) s1 else go (w_pc th PMwUnl) s1
      else
        match t_tmo th with
        | Some O => go (after_mw fxff fxnb th true w) s
        | tm =>
            let tm1 := match tm with Some (S n) => Some n | x => x end in
            if w_lk w then
              match tm1 with
              | Some O => go (after_mw fxff fxnb th true w) s
              | Some (S n) => go (w_tmo th (Some n) PMwLoad) s
              | None => go (w_pc th PMwLoad) s
              end
            else go (w_tmo (w_tmp th w PMwCas) tm1 PMwCas) s
        end
  | PMwUnl =>
      let s1 := set_w s (mkWd false (w_st w) (w_dat w)) in
      match t_tmo th with
      | Some O => go (after_mw fxff fxnb th true w) s1
      | Some (S n) => go (w_tmo th (Some n) PMwLoad) s1
      | None => go (w_pc th PMwLoad) s1
      end
  (* ---- plain publishing store of a call that releases nobody ---- *)
  | PPub st d => go (w_pc th PDone) (set_w s (mkWd false st d))
  | PStUnl => go (w_pc th PDone) (set_w s (mkWd false (w_st w) (w_dat w)))
  (* ---- having to wait: readFE / writeEF ---- *)
  | PBlkHLock => if is_free (g_hlock s) then go (w_pc th PBlkHGet) (set_hlock s (Some me)) else None
  | PBlkHGet =>
      match g_hash s with
      | Some i => go (w_m th (Some i) PBlkRLock) s
      | None => let i := length (g_heap s) in
                go (w_m th (Some i) PBlkRLock) (set_hash (set_heap s (g_heap s ++ [new_rcd])) (Some i))
      end
  | PBlkRLock =>
      match t_m th with
      | Some i => match lock_rcd s me i with Some s1 => go (w_pc th PBlkHUnl) s1 | None => None end
      | None => None
      end
  | PBlkHUnl => go (w_pc th PBlkPub) (set_hlock s None)
  (* ---- having to wait: readFF (no table lock around lookup + record lock) ---- *)
  | PFFGet =>
      if is_free (g_hlock s) then
        match g_hash s with
        | Some i => go (w_m th (Some i) PFFRLock) s
        | None => go (w_pc th PFFPut) s
        end
      else None
  | PFFPut =>
      if is_free (g_hlock s) then
        let i := length (g_heap s) in
        go (w_m th (Some i) PFFRLock) (set_hash (set_heap s (g_heap s ++ [new_rcd])) (Some i))
      else None
  | PFFRLock =>
      match t_m th with
      | Some i => match lock_rcd s me i with Some s1 => go (w_pc th PBlkPub) s1 | None => None end
      | None => None
      end
  | PBlkPub =>
      let st := match t_op th with WriteEF _ => 1 | _ => 3 end in
      go (w_pc th PEnq) (set_w s (mkWd false st (t_ret th)))
  | PEnq =>
      match t_m th with
      | Some i =>
          match get_rcd s i with
          | Some r =>
              let X := waiter_of me th in
              let r' := match t_op th with
                        | WriteEF _ => mkR (r_lock r) (X :: r_EFQ r) (r_FEQ r) (r_FFQ r) (r_freed r)
                        | ReadFE _ => mkR (r_lock r) (r_EFQ r) (X :: r_FEQ r) (r_FFQ r) (r_freed r)
                        | _ => mkR (r_lock r) (r_EFQ r) (r_FEQ r) (X :: r_FFQ r) (r_freed r)
                        end in
              go (w_pc th PSwitch) (put_rcd s i r')
          | None => None
          end
      | None => None
      end
  | PSwitch =>
      match t_m th with
      | Some i => go (w_blk th) (unlock_rcd s i false)
      | None => None
      end
  (* ---- fill-like call on an empty variable with waiters ---- *)
  | PRelGet | PEmpGet =>
      if is_free (g_hlock s) then
        match g_hash s with
        | Some i => go (w_m th (Some i) (match t_pc th with PRelGet => PRelRLock | _ => PEmpRLock end)) s
        | None => go (w_pc th PDone) (set_fault s)                  (* m == NULL: &m->lock is dereferenced *)
        end
      else None
  | PRelRLock | PEmpRLock =>
      match t_m th with
      | Some i => match lock_rcd s me i with
                  | Some s1 => go (w_pc th (match t_pc th with PRelRLock => PRelPub | _ => PEmpBody end)) s1
                  | None => None
                  end
      | None => None
      end
  | PRelPub =>
      match t_m th with
      | Some i => match get_rcd s i with
                  | Some r => go (w_pc th PRelBody) (set_w s (mkWd false (fill_state r) (t_val th)))
                  | None => None
                  end
      | None => None
      end
  | PRelBody =>                                                       (* qthread_syncvar_gotlock_fill up to `removeable` *)
      match t_m th with
      | Some i =>
          match get_rcd s i with
          | Some r =>
              let s1 := wake_all s (r_FFQ r) (t_val th) in
              let '(feq', s2) := match r_FEQ r with
                                 | X :: rest => (rest, wake1 s1 X (dval (w_dest X) (t_val th)))
                                 | [] => ([], s1)
                                 end in
              let r' := mkR (r_lock r) (r_EFQ r) feq' [] (r_freed r) in
              let s3 := put_rcd s2 i r' in
              Some (set_thr s3 me (w_pc (get_thr s3 me) (PRecUnl (rcd_all_empty r'))))
          | None => None
          end
      | None => None
      end
  | PEmpBody =>                                                       (* sf from EFQ->next; gotlock_empty up to `removeable` *)
      match t_m th with
      | Some i =>
          match get_rcd s i with
          | Some r =>
              match r_EFQ r with
              | X :: rest =>
                  let s1 := set_w s (mkWd false (b2n (nonnil rest)) (w_val X)) in
                  let s2 := wake1 s1 X None in
                  let r' := mkR (r_lock r) rest (r_FEQ r) (r_FFQ r) (r_freed r) in
                  let s3 := put_rcd s2 i r' in
                  Some (set_thr s3 me (w_pc (get_thr s3 me) (PRecUnl (rcd_all_empty r'))))
              | [] => go (w_pc th PDone) (set_fault s)              (* m->EFQ->next on NULL *)
              end
          | None => None
          end
      | None => None
      end
  | PRecUnl rm =>
      match t_m th with
      | Some i => go (w_pc th (if rm then PRmHLock else PDone)) (unlock_rcd s i false)
      | None => None
      end
  (* ---- qthread_syncvar_remove ---- *)
  | PRmHLock => if is_free (g_hlock s) then go (w_pc th PRmGet) (set_hlock s (Some me)) else None
  | PRmGet =>
      match g_hash s with
      | Some i => go (w_m th (Some i) PRmRLock) s
      | None => go (w_m th None PRmHUnl) s
      end
  | PRmRLock =>
      match t_m th with
      | Some i => match lock_rcd s me i with Some s1 => go (w_pc th PRmCheck) s1 | None => None end
      | None => None
      end
  | PRmCheck =>
      match t_m th with
      | Some i =>
          match get_rcd s i with
          | Some r => if rcd_all_empty r then go (w_pc th PRmHUnl) (set_hash s None)
                      else go (w_m th None PRmHUnl) (unlock_rcd s i false)
          | None => None
          end
      | None => None
      end
  | PRmHUnl => go (w_pc th (match t_m th with Some _ => PRmFree | None => PDone end)) (set_hlock s None)
  | PRmFree =>
      match t_m th with
      | Some i => go (w_pc th PDone) (unlock_rcd s i true)           (* unlock, then qthread_addrstat_delete *)
      | None => None
      end
  end.

Definition mstep := mstep_gen true true.           (* src/syncvar.c as it is (since 8cdc001, e1e6722) *)
Definition mstep_old := mstep_gen false false.     (* access order before these two commits (regression model) *)

(* ---------- initial states ---------- *)
Inductive ikind := IFull | IEmpty | IFullEF | IEmptyFE | IEmptyFF.     (* the last three: task 2 is blocked on the variable *)
Definition v0 : N := 5.       (* payload at the start *)
Definition v2 : N := 33.      (* the value task 2's blocked writeEF carries *)
Definition nowd : wd := mkWd false 0 0.
Definition init_thr (o : op) : thr := mkT o PStart 0 None 0 nowd 0 false false 0 None None false.
Definition idle_thr : thr := mkT Status PDone 0 None 0 nowd 0 false false 0 None None false.
Definition blocked_thr (o : op) : thr := mkT o PSwitch 2 None 0 nowd 0 false false 0 (Some 0%nat) None true.
Definition ghost_op (k : ikind) : option op :=
  match k with IFullEF => Some (WriteEF v2) | IEmptyFE => Some (ReadFE true) | IEmptyFF => Some (ReadFF true) | _ => None end.
Definition minit (k : ikind) (oa ob : op) : gst :=
  let t2 := match ghost_op k with Some o => blocked_thr o | None => idle_thr end in
  let '(st, hp) := match k with
                   | IFull => (0, [])
                   | IEmpty => (2, [])
                   | IFullEF => (1, [mkR None [mkW 2 v2 false] [] [] false])
                   | IEmptyFE => (3, [mkR None [] [mkW 2 0 true] [] false])
                   | IEmptyFF => (3, [mkR None [] [] [mkW 2 0 true] false])
                   end in
  mkG (mkWd false st v0) (match hp with [] => None | _ => Some 0%nat end) None hp false false (init_thr oa) (init_thr ob) t2.

Fixpoint mrun (itmo : nat) (s : gst) (sched : list N) : option gst :=
  match sched with
  | [] => Some s
  | t :: l => match mstep itmo s t with Some s' => mrun itmo s' l | None => None end
  end.
Definition finished (th : thr) : bool := match t_pc th with PDone => true | _ => false end.

(* ================= what two atomic operations can produce (CellSpec.v) ================= *)
From QV Require Import Syncvar.CellSpec.

Definition res := option (rcode * option N).             (* None = the call has not returned (the task is blocked) *)
Fixpoint ev_res (evs : list event) (t : N) : res :=
  match evs with
  | [] => None
  | Ret t' c v :: r => if N.eqb t t' then Some (c, v) else ev_res r t
  | _ :: r => ev_res r t
  end.
Definition ainit (k : ikind) : astate :=
  match k with
  | IFull => mkA (mkC true v0) [] [] []
  | IEmpty => mkA (mkC false v0) [] [] []
  | IFullEF => mkA (mkC true v0) [mkW 2 v2 false] [] []
  | IEmptyFE => mkA (mkC false v0) [] [mkW 2 0 true] []
  | IEmptyFF => mkA (mkC false v0) [] [] [mkW 2 0 true]
  end.
(* the two calls as atomic cell operations, task ta first *)
Definition seq2 (k : ikind) (oa ob : op) (a_first : bool) : res * res * res * astate :=
  let a0 := ainit k in
  let '(a1, e1) := if a_first then spec_step a0 0 oa else spec_step a0 1 ob in
  let '(a2, e2) := if a_first then spec_step a1 1 ob else spec_step a1 0 oa in
  let evs := e1 ++ e2 in
  (ev_res evs 0, ev_res evs 1, ev_res evs 2, a2).

Definition rc_eqb (x y : rcode) : bool :=
  match x, y with
  | RC_SUCCESS, RC_SUCCESS | RC_OPFAIL, RC_OPFAIL | RC_OVERFLOW, RC_OVERFLOW | RC_TIMEOUT, RC_TIMEOUT => true
  | _, _ => false
  end.
Definition on_eqb (x y : option N) : bool :=
  match x, y with Some a, Some b => N.eqb a b | None, None => true | _, _ => false end.
Definition res_eqb (x y : res) : bool :=
  match x, y with
  | Some (c, v), Some (c', v') => rc_eqb c c' && on_eqb v v'
  | None, None => true
  | _, _ => false
  end.
Definition waiter_eqb (x y : waiter) : bool :=
  N.eqb (w_tid x) (w_tid y) && N.eqb (Defs.w_val x) (Defs.w_val y) && Bool.eqb (w_dest x) (w_dest y).
Fixpoint wl_eqb (x y : list waiter) : bool :=
  match x, y with
  | [], [] => true
  | a :: r, b :: r' => waiter_eqb a b && wl_eqb r r'
  | _, _ => false
  end.

Definition res_of (th : thr) : res := if finished th then t_res th else None.
(* the record the table holds for the variable *)
Definition hashed (s : gst) : rcd := match g_hash s with Some i => match get_rcd s i with Some r => r | None => new_rcd end | None => new_rcd end.

(* nobody holds (or waits for) a lock, nothing dangling, the state bits say what the table says *)
Definition settled (s : gst) : bool :=
  (finished (g_t0 s) || t_blk (g_t0 s)) && (finished (g_t1 s) || t_blk (g_t1 s)) && (finished (g_t2 s) || t_blk (g_t2 s)) &&
  negb (w_lk (g_w s)) && is_free (g_hlock s) && forallb (fun r => is_free (r_lock r)) (g_heap s) &&
  negb (g_uaf s) && negb (g_fault s) &&
  let r := hashed s in
  Bool.eqb (match g_hash s with Some _ => true | None => false end) (negb (rcd_all_empty r)) &&
  N.eqb (w_st (g_w s))
        (if N.testbit (w_st (g_w s)) 1 then (if nonnil (r_FEQ r) || nonnil (r_FFQ r) then 3 else 2)
         else (if nonnil (r_EFQ r) then 1 else 0)).

Definition matches (s : gst) (x : res * res * res * astate) : bool :=
  let '(ra, rb, rc, a) := x in
  res_eqb (res_of (g_t0 s)) ra && res_eqb (res_of (g_t1 s)) rb && res_eqb (res_of (g_t2 s)) rc &&
  Bool.eqb (negb (N.testbit (w_st (g_w s)) 1)) (c_full (a_cell a)) && N.eqb (w_dat (g_w s)) (c_val (a_cell a)) &&
  let r := hashed s in
  wl_eqb (r_EFQ r) (pEF a) && wl_eqb (r_FEQ r) (pFE a) && wl_eqb (r_FFQ r) (pFF a).

Definition explained (k : ikind) (oa ob : op) (s : gst) : bool :=
  matches s (seq2 k oa ob true) || matches s (seq2 k oa ob false).
Definition good_final (k : ikind) (oa ob : op) (s : gst) : bool := settled s && explained k oa ob s.

(* the same with the weaker reading of the _nb calls: a non-blocking call may give up with QTHREAD_OPFAIL, changing nothing,
   whenever it likes (as a try-lock may).  [weaken] replaces a non-blocking call that answered OPFAIL by a call without effect. *)
Definition is_nb (o : op) : bool := match o with ReadFF_nb _ | ReadFE_nb _ | WriteEF_nb _ => true | _ => false end.
Definition gave_up (o : op) (th : thr) : bool :=
  is_nb o && match res_of th with Some (RC_OPFAIL, None) => true | _ => false end.
Definition matches_weak (k : ikind) (oa ob : op) (s : gst) (a_first : bool) : bool :=
  let ga := gave_up oa (g_t0 s) in let gb := gave_up ob (g_t1 s) in
  (* a call that gave up is replaced by status (no effect on the cell); its own result is not compared *)
  let oa' := if ga then Status else oa in let ob' := if gb then Status else ob in
  let '(ra, rb, rc, a) := seq2 k oa' ob' a_first in
  (ga || res_eqb (res_of (g_t0 s)) ra) && (gb || res_eqb (res_of (g_t1 s)) rb) && res_eqb (res_of (g_t2 s)) rc &&
  Bool.eqb (negb (N.testbit (w_st (g_w s)) 1)) (c_full (a_cell a)) && N.eqb (w_dat (g_w s)) (c_val (a_cell a)) &&
  let r := hashed s in
  wl_eqb (r_EFQ r) (pEF a) && wl_eqb (r_FEQ r) (pFE a) && wl_eqb (r_FFQ r) (pFF a).
Definition good_final_weak (k : ikind) (oa ob : op) (s : gst) : bool :=
  settled s && (matches_weak k oa ob s true || matches_weak k oa ob s false).
