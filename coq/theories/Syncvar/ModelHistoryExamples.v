(* Extension R (C03): non-vacuity of the link theorems of Syncvar/ModelHistory.v. *)
From Coq Require Import List NArith Bool.
Import ListNotations.
From QV Require Import Syncvar.Defs Syncvar.CellSpec Syncvar.Model Syncvar.Proofs Syncvar.History Syncvar.HistoryProofs
  Syncvar.HistoryComplete Syncvar.ModelHistoryDefs Syncvar.ModelHistory.
Local Open Scope N_scope.

(* V0 starts empty with payload 2^60-1, V1 full.  Tasks 1 (readFF), 2 (readFE), 3 (readFE, NULL destination) wait on V0;
   task 1's next step is ignored (it is blocked); task 4's incrF wraps the payload to 0 and - readers are waiting - fills V0:
   1 and then 3 (the most recent readFE) return, V0 is empty again; 4's writeEF_nb(5) succeeds and releases 2; task 5's
   writeEF(6) finds V0 empty ... a write of 2^60 is rejected; task 6 ends blocked in writeEF on the full V1 *)
Definition ex_s0 : state := init_state [(0, SYNCVAR_EMPTY_INITIALIZE_TO (two60 - 1)); (1, SYNCVAR_INITIALIZER)].
Definition ex_sc : list (N * N * op) :=
  [ (1, 0, ReadFF true); (2, 0, ReadFE true); (3, 0, ReadFE false); (1, 1, Status); (4, 0, IncrF 1); (4, 0, WriteEF_nb 5);
    (5, 0, WriteEF 6); (5, 0, Status); (4, 0, WriteF two60); (6, 0, IncrF 3); (6, 1, WriteEF 9) ].

Example ex_sv_history :
  map (fun x => (h_inv x, h_ret x, h_op x, h_nb x, h_out x)) (sv_hist_of_run ex_s0 ex_sc 0) =
  [ (1, Some 7, SReadFF, false, ODone (Some (RVal 0)));
    (2, Some 11, SReadFE, false, ODone (Some (RVal 5)));
    (3, Some 8, SReadFE, false, ODone None);
    (5, Some 6, SIncrF 1, false, ODone (Some (RVal 0)));
    (9, Some 10, SWriteEF 5, true, ODone (Some RNone));
    (12, Some 13, SWriteEF 6, false, ODone (Some RNone));
    (14, Some 15, SStatus, false, ODone (Some (RBit true)));
    (16, Some 17, SWriteF two60, false, OOver);
    (18, Some 19, SIncrF 3, false, ODone (Some (RVal 9))) ].
Proof. vm_compute. reflexivity. Qed.
Example ex_sv_history_v1_pending :
  map (fun x => (h_inv x, h_ret x, h_op x)) (sv_hist_of_run ex_s0 ex_sc 1) = [ (11, None, SWriteEF 9) ].
Proof. vm_compute. reflexivity. Qed.
Example ex_sv_overlap : has_overlap (sv_hist_of_run ex_s0 ex_sc 0) = true.
Proof. vm_compute. reflexivity. Qed.
Example ex_sv_cells :
  cell_at ex_s0 0 = mkC false (two60 - 1) /\ cell_at (state_after ex_s0 ex_sc) 0 = mkC true 9 /\ cell_at (state_after ex_s0 ex_sc) 1 = mkC true 0.
Proof. vm_compute. repeat split; reflexivity. Qed.

Lemma ex_s0_ok : state_ok ex_s0.
Proof.
  unfold ex_s0, init_state. simpl. constructor; [|constructor; [|constructor]]; simpl.
  - apply (init_word_shape 3 (two60 - 1)).
  - apply (init_word_shape 0 0).
Qed.

(* the theorem on this instance (the incrF on the empty V0 is explained through the waiting readers) and the acceptor's answer *)
Example ex_sv_explained : explained (mkC false (two60 - 1)) (sv_hist_of_run ex_s0 ex_sc 0) (mkC true 9).
Proof. exact (sv_model_runs_are_explained ex_s0 ex_sc 0 _ ex_s0_ok eq_refl eq_refl). Qed.
Example ex_sv_accepted :
  decide 1000 (mkC false (two60 - 1)) (sv_hist_of_run ex_s0 ex_sc 0) (mkC true 9) = Accept [5; 1; 3; 9; 2; 12; 14; 16; 18].
Proof. vm_compute. reflexivity. Qed.
Example ex_sv_v1_accepted : accepts 1000 (mkC true 0) (sv_hist_of_run ex_s0 ex_sc 1) (mkC true 0) = true.
Proof. vm_compute. reflexivity. Qed.

(* perturbed histories are rejected: the readFF that the incrF released never returned / the incrF observed another value *)
Example ex_sv_dropped_return_rejected :
  decide 1000 (mkC false (two60 - 1)) (mutate (SMDropRet 0) (sv_hist_of_run ex_s0 ex_sc 0)) (mkC true 9) = Reject.
Proof. vm_compute. reflexivity. Qed.
Example ex_sv_wrong_value_rejected :
  decide 1000 (mkC false (two60 - 1)) (mutate (SMBumpVal 3) (sv_hist_of_run ex_s0 ex_sc 0)) (mkC true 9) = Reject.
Proof. vm_compute. reflexivity. Qed.
