(* C03, mode M4: the two syncvar-specific facts about accepted histories.
   incrF_total: on a variable whose value is changed by incrF only (reads, fill, empty, status, failed and rejected calls are
   all allowed) the audited final payload is init + the sum of the increments modulo 2^60, the values returned are the partial
   sums along the linearisation, and - when no increment is 0 and the total does not wrap - they are pairwise distinct.
   overflow_no_effect: a call that reported QTHREAD_OVERFLOW can be deleted from an explained history. *)
From Coq Require Import List NArith Bool Permutation Sorted Lia.
Import ListNotations.
From QV Require Import Syncvar.Defs Syncvar.CellSpec Syncvar.History Syncvar.HistoryProofs Syncvar.HistoryComplete.
Local Open Scope N_scope.

Lemma two60_nz : two60 <> 0.
Proof. intro H. vm_compute in H. discriminate. Qed.
Lemma wrap60_lt x : wrap60 x < two60.
Proof. unfold wrap60. apply N.mod_lt. exact two60_nz. Qed.
Lemma wrap60_small x : x < two60 -> wrap60 x = x.
Proof. unfold wrap60. apply N.mod_small. Qed.
Lemma wrap60_add_l a b : wrap60 (wrap60 a + b) = wrap60 (a + b).
Proof. unfold wrap60. apply N.add_mod_idemp_l. exact two60_nz. Qed.

(* ---------- counters ---------- *)
Definition value_writer (o : sop) : bool := match o with SWriteEF _ | SWriteF _ => true | _ => false end.
(* the call stored a value of its own *)
Definition writes_value (x : hop) : bool := match h_out x with ODone _ => value_writer (h_op x) | _ => false end.
Definition inc_of (x : hop) : N := match h_out x with ODone _ => match h_op x with SIncrF i => i | _ => 0 end | _ => 0 end.
Definition is_incr_done (x : hop) : bool :=
  match h_out x with ODone _ => match h_op x with SIncrF _ => true | _ => false end | _ => false end.
Definition sum_inc (l : list hop) : N := fold_right (fun x a => inc_of x + a) 0 l.
(* the values the incrF calls returned, in list order *)
Definition ret_val (x : hop) : list N :=
  match h_out x with
  | ODone (Some (RVal v)) => match h_op x with SIncrF _ => [v] | _ => [] end
  | _ => []
  end.
Definition incr_rets (l : list hop) : list N := flat_map ret_val l.

(* every incrF of l returned the partial sum at its position, starting from v *)
Fixpoint partial_sums_ok (v : N) (l : list hop) : Prop :=
  match l with
  | [] => True
  | x :: l' =>
      if is_incr_done x
      then (forall u, In u (ret_val x) -> u = wrap60 (v + inc_of x)) /\ partial_sums_ok (wrap60 (v + inc_of x)) l'
      else partial_sums_ok v l'
  end.

Lemma atomic_val c o c1 r : atomic c o = Some (c1, r) -> value_writer o = false ->
  c_val c1 = match o with SIncrF i => wrap60 (c_val c + i) | _ => c_val c end /\
  match o with SIncrF i => r = RVal (wrap60 (c_val c + i)) | _ => True end.
Proof.
  destruct o; simpl; try discriminate; destruct (c_full c); intros H; inversion H; subst; intros _; simpl; auto.
Qed.

Lemma seen_cell_val s x : c_val (seen_cell s x) = c_val (hs_cell s).
Proof. unfold seen_cell. destruct (justified (hs_just s) x); reflexivity. Qed.

Lemma hrun_counter s l s' : hrun s l s' ->
  (forall x, In x l -> writes_value x = false) -> c_val (hs_cell s) < two60 ->
  c_val (hs_cell s') = wrap60 (c_val (hs_cell s) + sum_inc l) /\ partial_sums_ok (c_val (hs_cell s)) l.
Proof.
  induction 1 as [s|s x l c1 r s2 obs Ho Rj Ha Hk _ IH|s x l s2 Ho Hn Rj Ha _ IH|s x l s2 Ho Rj _ IH]; intros NW Lt.
  - simpl. rewrite N.add_0_r, wrap60_small by exact Lt. split; [reflexivity|exact I].
  - assert (Wx : value_writer (h_op x) = false).
    { specialize (NW x (or_introl eq_refl)). unfold writes_value in NW. rewrite Ho in NW. exact NW. }
    destruct (atomic_val _ _ _ _ Ha Wx) as [V1 R1]. rewrite seen_cell_val in V1, R1.
    assert (NW' : forall y, In y l -> writes_value y = false) by (intros y Iy; apply NW; right; exact Iy).
    cbn [hs_cell] in IH.
    assert (Lt1 : c_val c1 < two60).
    { rewrite V1. destruct (h_op x); try exact Lt. apply wrap60_lt. }
    destruct (IH NW' Lt1) as [IH1 IH2].
    change (sum_inc (x :: l)) with (inc_of x + sum_inc l). cbn [partial_sums_ok].
    assert (Ei : inc_of x = match h_op x with SIncrF i => i | _ => 0 end) by (unfold inc_of; rewrite Ho; reflexivity).
    assert (Ed : is_incr_done x = match h_op x with SIncrF _ => true | _ => false end) by (unfold is_incr_done; rewrite Ho; reflexivity).
    rewrite Ed, Ei.
    destruct (h_op x) eqn:Op; try (rewrite N.add_0_l; rewrite <- V1; split; assumption).
    rewrite IH1, V1. split.
    + rewrite wrap60_add_l. f_equal. lia.
    + split; [|rewrite <- V1; exact IH2].
      intros u Iu. unfold ret_val in Iu. rewrite Ho, Op in Iu. subst r.
      destruct obs as [[|v|b]|]; simpl in Iu; try contradiction.
      destruct Iu as [<-|[]]. simpl in Hk. apply N.eqb_eq in Hk. exact Hk.
  - cbn [hs_cell] in IH. assert (NW' : forall y, In y l -> writes_value y = false) by (intros y Iy; apply NW; right; exact Iy).
    destruct (IH NW' Lt) as [IH1 IH2].
    change (sum_inc (x :: l)) with (inc_of x + sum_inc l). cbn [partial_sums_ok].
    assert (Ei : inc_of x = 0) by (unfold inc_of; rewrite Ho; reflexivity).
    assert (Ed : is_incr_done x = false) by (unfold is_incr_done; rewrite Ho; reflexivity).
    rewrite Ed, Ei, N.add_0_l. split; assumption.
  - cbn [hs_cell] in IH. assert (NW' : forall y, In y l -> writes_value y = false) by (intros y Iy; apply NW; right; exact Iy).
    destruct (IH NW' Lt) as [IH1 IH2].
    change (sum_inc (x :: l)) with (inc_of x + sum_inc l). cbn [partial_sums_ok].
    assert (Ei : inc_of x = 0) by (unfold inc_of; rewrite Ho; reflexivity).
    assert (Ed : is_incr_done x = false) by (unfold is_incr_done; rewrite Ho; reflexivity).
    rewrite Ed, Ei, N.add_0_l. split; assumption.
Qed.

Lemma sum_inc_perm l l' : Permutation l l' -> sum_inc l = sum_inc l'.
Proof. induction 1; simpl; unfold sum_inc in *; simpl; lia. Qed.

Lemma incr_rets_perm l l' : Permutation l l' -> Permutation (incr_rets l) (incr_rets l').
Proof.
  induction 1; unfold incr_rets in *; simpl.
  - constructor.
  - apply Permutation_app_head. assumption.
  - rewrite !app_assoc. apply Permutation_app_tail. apply Permutation_app_comm.
  - eapply perm_trans; eassumption.
Qed.

(* without wrap and with non-zero increments the partial sums increase strictly *)
Lemma partial_sums_distinct l : forall v,
  partial_sums_ok v l -> (forall x, In x l -> is_incr_done x = true -> 0 < inc_of x) -> v + sum_inc l < two60 ->
  NoDup (incr_rets l) /\ forall u, In u (incr_rets l) -> v < u <= v + sum_inc l.
Proof.
  induction l as [|x l IH]; intros v P Pos Lt.
  - split; [constructor|intros u []].
  - cbn [partial_sums_ok] in P. cbn [sum_inc fold_right] in Lt. fold (sum_inc l) in Lt.
    assert (Pos' : forall y, In y l -> is_incr_done y = true -> 0 < inc_of y) by (intros y Iy; apply Pos; right; exact Iy).
    unfold incr_rets. cbn [flat_map]. fold (incr_rets l). cbn [sum_inc fold_right]. fold (sum_inc l).
    destruct (is_incr_done x) eqn:D.
    + destruct P as [Pu Pl]. specialize (Pos x (or_introl eq_refl) D).
      rewrite wrap60_small in Pu, Pl by lia.
      destruct (IH (v + inc_of x) Pl Pos' ltac:(lia)) as [ND B].
      assert (Rx : ret_val x = [] \/ ret_val x = [v + inc_of x]).
      { unfold ret_val in *. destruct (h_out x) as [[[|u|b]|]| |]; auto. destruct (h_op x); auto.
        right. f_equal. apply Pu. left. reflexivity. }
      destruct Rx as [-> | ->]; simpl.
      * split; [exact ND|]. intros u Iu. specialize (B u Iu). lia.
      * split.
        -- constructor; [|exact ND]. intros Iu. specialize (B _ Iu). lia.
        -- intros u [<-|Iu]; [lia|]. specialize (B u Iu). lia.
    + assert (Rx : ret_val x = []).
      { unfold ret_val, is_incr_done in *. destruct (h_out x) as [[[|u|b]|]| |]; auto. destruct (h_op x); auto. discriminate. }
      assert (Ix : inc_of x = 0).
      { unfold inc_of, is_incr_done in *. destruct (h_out x); auto. destruct (h_op x); auto. discriminate. }
      rewrite Rx, Ix in *. simpl. rewrite N.add_0_l in *. apply IH; assumption.
Qed.

Theorem incrF_total fuel c0 h cfin :
  accepts fuel c0 h cfin = true -> c_val c0 < two60 ->
  (forall x, In x h -> writes_value x = false) ->
  c_val cfin = wrap60 (c_val c0 + sum_inc (completed h)) /\
  (exists l, Permutation l (completed h) /\ StronglySorted rt_compat l /\ partial_sums_ok (c_val c0) l) /\
  ((forall x, In x h -> is_incr_done x = true -> 0 < inc_of x) -> c_val c0 + sum_inc (completed h) < two60 ->
   NoDup (incr_rets (completed h))).
Proof.
  intros A Lt NW. destruct (accepts_sound_explicit _ _ _ _ A) as (l & P & S & (j & R) & _).
  assert (NWl : forall x, In x l -> writes_value x = false).
  { intros x Ix. apply NW. apply (Permutation_in _ P) in Ix. unfold completed in Ix. apply filter_In in Ix. tauto. }
  destruct (hrun_counter _ _ _ R NWl Lt) as [V PS]. cbn [hs_cell] in V, PS.
  split; [rewrite V; f_equal; f_equal; apply sum_inc_perm; exact P|].
  split; [exists l; auto|].
  intros Pos NoWrap.
  apply (Permutation_NoDup (incr_rets_perm _ _ P)).
  apply (partial_sums_distinct l (c_val c0) PS).
  - intros x Ix. apply Pos. apply (Permutation_in _ P) in Ix. unfold completed in Ix. apply filter_In in Ix. tauto.
  - rewrite (sum_inc_perm _ _ P). exact NoWrap.
Qed.

(* ---------- a rejected (overflow) write has no effect ---------- *)
(* an undecided incrF only ever helps the calls that follow *)
Lemma apply_op_just_weaken c j x s1 : apply_op (mkH c None) x = Some s1 -> apply_op (mkH c j) x = Some s1.
Proof.
  unfold apply_op, seen_cell. cbn [hs_cell hs_just justified].
  destruct (h_out x) as [obs| |] eqn:Ho; try exact (fun H => H).
  destruct (sv_rejected (h_op x)); [exact (fun H => H)|].
  destruct (justified j x) eqn:J; [|exact (fun H => H)].
  assert (Rd : h_op x = SReadFF \/ h_op x = SReadFE).
  { unfold justified in J. destruct j as [r|]; [|discriminate]. apply andb_true_iff in J. destruct J as [J _].
    unfold waits_as_reader in J. rewrite Ho in J. apply andb_true_iff in J. destruct J as [_ J].
    destruct (h_op x); try discriminate; auto. }
  destruct c as [f v]. cbn [c_val].
  destruct Rd as [-> | ->]; simpl; destruct f; try discriminate; exact (fun H => H).
Qed.

(* the final state of a run from (c, j) and from (c, None) may differ in hs_just only when the run is empty: state the lemma
   on the final CELL *)
Lemma hrun_just_weaken c j l c' j' : hrun (mkH c None) l (mkH c' j') -> exists j'', hrun (mkH c j) l (mkH c' j'').
Proof.
  destruct l as [|x l]; intros H.
  - inversion H; subst. exists j. constructor.
  - destruct (hrun_cons_inv _ _ _ _ H) as (s1 & A & R). exists j'.
    apply hrun_b_sound. simpl. rewrite (apply_op_just_weaken _ j _ _ A). apply hrun_b_complete. exact R.
Qed.

Lemma sorted_remove {A} (R : A -> A -> Prop) l1 x l2 : StronglySorted R (l1 ++ x :: l2) -> StronglySorted R (l1 ++ l2).
Proof.
  induction l1 as [|a l1 IH]; simpl; intros S; inversion S as [|? ? S' F]; subst.
  - exact S'.
  - constructor; [apply IH; exact S'|].
    rewrite Forall_forall in *. intros y Iy. apply F. apply in_app_or in Iy. apply in_or_app. destruct Iy; [left|right; right]; assumption.
Qed.

Theorem overflow_no_effect c0 h1 x h2 cfin :
  h_out x = OOver -> explained c0 (h1 ++ x :: h2) cfin -> explained c0 (h1 ++ h2) cfin.
Proof.
  intros Ho (l & (P & S & (j & R)) & Q).
  assert (Q' : quiescent_ok (h1 ++ h2) cfin).
  { intros p Ip. apply Q. unfold pending in *. rewrite filter_app in *. simpl.
    apply in_app_or in Ip. apply in_or_app. destruct Ip as [I|I]; [left; exact I|right].
    destruct (negb (is_done x)); [right|]; exact I. }
  unfold completed in P. rewrite filter_app in P. simpl in P.
  destruct (is_done x) eqn:D.
  - assert (Ix : In x l) by (apply (Permutation_in _ (Permutation_sym P)); apply in_or_app; right; left; reflexivity).
    destruct (in_split _ _ Ix) as (l1 & l2 & ->).
    destruct (hrun_app_inv _ _ _ _ R) as ([c1 j1] & R1 & R2).
    destruct (hrun_cons_inv _ _ _ _ R2) as (s1 & A & R3).
    destruct (apply_op_inv _ _ _ A) as [(obs & ? & ? & Hd & _)|[(Hf & _)|(_ & _ & ->)]]; [congruence|congruence|].
    cbn [hs_cell] in R3. destruct (hrun_just_weaken c1 j1 _ _ _ R3) as (j'' & R4).
    exists (l1 ++ l2). split; [|exact Q'].
    split; [|split; [eapply sorted_remove; exact S|exists j''; eapply hrun_app; eassumption]].
    unfold completed. rewrite filter_app. eapply Permutation_app_inv. exact P.
  - exists l. split; [|exact Q'].
    split; [|split; [exact S|exists j; exact R]]. unfold completed. rewrite filter_app. exact P.
Qed.

(* ... hence the acceptor can never REJECT the history without the rejected write when it accepted the one with it *)
Corollary overflow_no_effect_accepts fuel fuel' c0 h1 x h2 cfin :
  h_out x = OOver -> accepts fuel c0 (h1 ++ x :: h2) cfin = true -> decide fuel' c0 (h1 ++ h2) cfin <> Reject.
Proof.
  intros Ho A Rj. apply (reject_complete _ _ _ _ Rj). eapply overflow_no_effect; [exact Ho|]. eapply accepts_sound. exact A.
Qed.
