From Coq Require Import List ZArith.
From QV Require Import Io.QueueMicro.
Require Extraction.
Require Import ExtrOcamlBasic.
Extraction Language OCaml.
Extraction "../ocaml/gen/c20queue_model.ml" init init_old init_gen step grant run walk waiters
  s_thr s_lock s_q s_count s_pe s_called s_back s_bad s_max s_njobs s_old q_head q_tail q_len q_nxt.
