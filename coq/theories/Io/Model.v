(* C20 — blocking system-call proxies: executable model (definitions only).
   The tables it interprets (switch_body, proxy_tail, wrappers, end_action_events) are regenerated from
   src/io.c and src/syscalls/*.c on every run (GenIoSwitch.v); their MEANING is defined here:
     - dispatch: C switch semantics with fall-through over the flat switch body,
     - marshalling of parameters through the five uintptr_t slots (LP64, little endian),
     - the job life cycle as two sequential programs (task side / proxy side) synchronised by flags,
       whose interleavings are enumerated by [runs]. *)
From Coq Require Import List ZArith Bool String.
From QV Require Import Io.Base.
Import ListNotations.
Local Open Scope Z_scope.

(* ------------------------------------------------------------------ dispatch (fall-through) *)
Definition call := (sysname * list argspec * bool)%type.

Fixpoint run_from (b : list switch_elem) : list call :=
  match b with
  | [] => []
  | SBreak :: _ => []
  | SCall f a r :: t => (f, a, r) :: run_from t
  | SCase _ :: t => run_from t          (* labels do not stop execution: fall-through *)
  | SDefault :: t => run_from t
  end.

Fixpoint find_label (l : switch_elem -> bool) (b : list switch_elem) : option (list switch_elem) :=
  match b with
  | [] => None
  | e :: t => if l e then Some t else find_label l t
  end.

Definition is_case (o : op) (e : switch_elem) : bool := match e with SCase o' => op_eqb o o' | _ => false end.
Definition is_default (e : switch_elem) : bool := match e with SDefault => true | _ => false end.
Definition has_case (body : list switch_elem) (o : op) : bool := existsb (is_case o) body.

Definition dispatch (body : list switch_elem) (o : op) : list call :=
  match find_label (is_case o) body with
  | Some t => run_from t
  | None => match find_label is_default body with Some t => run_from t | None => [] end
  end.

Definition call_name (c : call) : sysname := fst (fst c).

(* the specification side: which system call an op stands for (man pages / the wrapper's name) *)
Definition syscall_of (o : op) : option sysname :=
  match o with
  | ACCEPT => Some SysAccept | CONNECT => Some SysConnect | POLL => Some SysPoll | READ => Some SysRead
  | PREAD => Some SysPread | SELECT => Some SysSelect | SYSTEM => Some SysSystem | WAIT4 => Some SysWait4
  | WRITE => Some SysWrite | PWRITE => Some SysPwrite | USER_DEFINED => Some SysExecTask
  | NANOSLEEP => Some SysNanosleep | SLEEP => Some SysSleep | USLEEP => Some SysUsleep
  end.

(* prototypes of the direct calls (POSIX), LP64 *)
Definition direct_sig (f : sysname) : option (list ctype * ctype) :=
  match f with
  | SysAccept  => Some ([TI32; TPtr; TPtr], TI32)
  | SysConnect => Some ([TI32; TPtr; TU32], TI32)
  | SysPoll    => Some ([TPtr; TU64; TI32], TI32)
  | SysRead    => Some ([TI32; TPtr; TU64], TI64)
  | SysPread   => Some ([TI32; TPtr; TU64; TI64], TI64)
  | SysSelect  => Some ([TI32; TPtr; TPtr; TPtr; TPtr], TI32)
  | SysSystem  => Some ([TPtr], TI32)
  | SysWait4   => Some ([TI32; TPtr; TI32; TPtr], TI32)
  | SysWrite   => Some ([TI32; TPtr; TU64], TI64)
  | SysPwrite  => Some ([TI32; TPtr; TU64; TI64], TI64)
  | _ => None
  end.

(* ------------------------------------------------------------------ marshalling *)
Definition two (w : width) : Z := match w with W4 => 4294967296 | W8 => 18446744073709551616 end.

(* new contents of a slot whose old contents are [old] *)
Definition wr (h : inhow) (v old : Z) : Z :=
  match h with
  | InMemcpy w => (old / two w) * two w + v mod two w
  | InCast => v mod two W8
  end.

Definition interp (w : width) (sg : bool) (u : Z) : Z :=
  if sg && (two w / 2 <=? u) then u - two w else u.

Definition rd (h : outhow) (x : Z) : Z :=
  match h with
  | OutMemcpy c t => interp (cwidth t) (csigned t) ((x mod two c) mod two (cwidth t))
  | OutCast t => interp (cwidth t) (csigned t) (x mod two (cwidth t))
  end.

Definition in_range (t : ctype) (v : Z) : Prop :=
  if csigned t then - (two (cwidth t) / 2) <= v < two (cwidth t) / 2 else 0 <= v < two (cwidth t).

Definition get (s : nat) (sl : list Z) : Z := nth s sl 0.
Fixpoint set (s : nat) (v : Z) (sl : list Z) : list Z :=
  match sl, s with
  | [], _ => []
  | _ :: t, O => v :: t
  | x :: t, S k => x :: set k v t
  end.

Definition marshal1 (params : list Z) (sl : list Z) (e : wevent) : list Z :=
  match e with
  | WMarshal s p h => set s (wr h (nth p params 0) (get s sl)) sl
  | _ => sl
  end.
Definition marshal (evs : list wevent) (params : list Z) (sl : list Z) : list Z := fold_left (marshal1 params) evs sl.

Definition arg_val (sl : list Z) (thr : Z) (a : argspec) : Z :=
  match a with ASlot s h => rd h (get s sl) | AThread => thr | AOther => 0 end.

(* ------------------------------------------------------------------ one call, OS as a parameter *)
Section Run.
  Variable world : Type.
  Variable sys : sysname -> list Z -> world -> world * Z.

  Fixpoint exec_calls (cs : list call) (sl : list Z) (thr : Z) (w : world) (ret : Z) : world * Z :=
    match cs with
    | [] => (w, ret)
    | (f, a, r) :: t =>
        let '(w', v) := sys f (map (arg_val sl thr) a) w in
        exec_calls t sl thr w' (if r then v else ret)
    end.

  (* garbage: contents of the recycled job record's slots; gret: its stale ret field *)
  Definition run_wrapper (body : list switch_elem) (wrp : wrapper) (params garbage : list Z) (gret thr : Z) (w : world)
    : world * option Z :=
    let sl := marshal (w_events wrp) params garbage in
    let '(w', ret) := exec_calls (dispatch body (w_op wrp)) sl thr w gret in
    (w', match w_ret wrp with
         | Some t => Some (interp (cwidth t) (csigned t) (ret mod two (cwidth t)))
         | None => None
         end).
End Run.

(* scripted OS for the correspondence run: the k-th call returns the k-th scripted value and is logged *)
Definition slog := (list Z * list (sysname * list Z))%type.
Definition scripted_sys (f : sysname) (args : list Z) (w : slog) : slog * Z :=
  match fst w with
  | [] => (([], snd w ++ [(f, args)]), 0)
  | r :: rest => ((rest, snd w ++ [(f, args)]), r)
  end.

Definition find_wrapper (ws : list wrapper) (name : string) : option wrapper :=
  find (fun w => String.eqb (w_name w) name) ws.

Definition trace_call (body : list switch_elem) (wrp : wrapper) (params garbage rets : list Z) (thr : Z)
  : list (sysname * list Z) * option Z :=
  let '(w', r) := run_wrapper slog scripted_sys body wrp params garbage 0 thr (rets, []) in (snd w', r).

(* ------------------------------------------------------------------ job life cycle *)
Inductive site := ByWrapper | ByProxy.
Inductive obs :=
| OAlloc | OHandoff | OSys (f : sysname) | OSysDone | ORequeue | OFree (s : site) | OUse | OReturn
| OEndCall | OEndReturn | ODeadlock.

Inductive action := Act (e : obs) | Signal (k : nat) | Wait (k : nat).

(* flags: 0 = task is back on a ready queue; 1 = task context running on the proxy pthread (qthread_exec);
          2 = task parked again from the proxy pthread (qt_end_blocking_action); 3 = job handed to the queue *)
Definition op_in (o : op) (l : list op) : bool := existsb (op_eqb o) l.

Definition proxy_prog (body : list switch_elem) (tail : list pevent) (o : op) : list action :=
  [Wait 3%nat] ++
  flat_map (fun c : call =>
              if sys_eqb (call_name c) SysExecTask
              then [Act (OSys SysExecTask); Signal 1%nat; Wait 2%nat; Act OSysDone]
              else [Act (OSys (call_name c)); Act OSysDone]) (dispatch body o) ++
  flat_map (fun e => match e with
                     | PRequeue => [Act ORequeue; Signal 0%nat]
                     | PFree ops => if op_in o ops then [Act (OFree ByProxy)] else []
                     | PStoreErr => [Act OUse]          (* writes item->err *)
                     end) tail.

Definition runs_on_proxy (body : list switch_elem) (o : op) : bool :=
  existsb (fun c => sys_eqb (call_name c) SysExecTask) (dispatch body o).

(* the task side: events before the park, the park, events after it; for the user-defined action the
   events of qt_end_blocking_action follow *)
Fixpoint task_events (resume : nat) (evs : list wevent) : list action :=
  match evs with
  | [] => []
  | WAlloc :: t => Act OAlloc :: task_events resume t
  | WPark :: t => Act OHandoff :: Signal 3%nat :: Wait resume :: task_events resume t
  | WReadRet :: t => Act OUse :: task_events resume t
  | WFree :: t => Act (OFree ByWrapper) :: task_events resume t
  | WReturnRet :: t => Act OReturn :: task_events resume t
  | WReturnVoid :: t => Act OReturn :: task_events resume t
  | WRestoreErr _ :: t => Act OUse :: task_events resume t      (* reads job->err *)
  | _ :: t => task_events resume t
  end.

Fixpoint end_events (evs : list wevent) : list action :=
  match evs with
  | [] => []
  | WPark :: t => Signal 2%nat :: Wait 0%nat :: end_events t
  | WReturnVoid :: t => Act OEndReturn :: end_events t
  | WFree :: t => Act (OFree ByWrapper) :: end_events t
  | _ :: t => end_events t
  end.

Definition task_prog (body : list switch_elem) (endev : list wevent) (wrp : wrapper) : list action :=
  if runs_on_proxy body (w_op wrp)
  then task_events 1%nat (w_events wrp) ++ [Act OEndCall] ++ end_events endev
  else task_events 0%nat (w_events wrp).

Definition flag_set (k : nat) (fl : list nat) : bool := existsb (Nat.eqb k) fl.

(* head action of a program, if enabled: Some (emitted event, new flags, rest) *)
Definition fire (fl : list nat) (p : list action) : option (option obs * list nat * list action) :=
  match p with
  | [] => None
  | Act e :: t => Some (Some e, fl, t)
  | Signal k :: t => Some (None, k :: fl, t)
  | Wait k :: t => if flag_set k fl then Some (None, fl, t) else None
  end.

Definition emit (e : option obs) (trs : list (list obs)) : list (list obs) :=
  match e with Some x => map (cons x) trs | None => trs end.

(* all maximal interleavings of task program T and proxy program P *)
Fixpoint runs (fuel : nat) (fl : list nat) (T P : list action) : list (list obs) :=
  match fuel with
  | O => [[ODeadlock]]
  | S n =>
      match fire fl T, fire fl P with
      | None, None => match T, P with [], [] => [[]] | _, _ => [[ODeadlock]] end
      | Some (e, fl', T'), None => emit e (runs n fl' T' P)
      | None, Some (e, fl', P') => emit e (runs n fl' T P')
      | Some (e1, fl1, T'), Some (e2, fl2, P') => emit e1 (runs n fl1 T' P) ++ emit e2 (runs n fl2 T P')
      end
  end.

Definition job_runs (body : list switch_elem) (tail : list pevent) (endev : list wevent) (wrp : wrapper) : list (list obs) :=
  let T := task_prog body endev wrp in
  let P := proxy_prog body tail (w_op wrp) in
  runs (S (List.length T + List.length P)) [] T P.

(* ------------------------------------------------------------------ the property on one job's trace *)
Definition is_free (e : obs) : bool := match e with OFree _ => true | _ => false end.
Definition is_use (e : obs) : bool := match e with OUse => true | _ => false end.
Definition is_requeue (e : obs) : bool := match e with ORequeue => true | _ => false end.
Definition is_deadlock (e : obs) : bool := match e with ODeadlock => true | _ => false end.
Definition is_return (e : obs) : bool := match e with OReturn | OEndReturn => true | _ => false end.
Definition count (f : obs -> bool) (tr : list obs) : nat := List.length (filter f tr).

(* no access to the job record (use, free) after its first free *)
Fixpoint no_touch_after_free (tr : list obs) : bool :=
  match tr with
  | [] => true
  | e :: t => if is_free e then negb (existsb (fun x => is_free x || is_use x) t) else no_touch_after_free t
  end.

(* the task's last return happens after the requeue *)
Fixpoint after (f g : obs -> bool) (tr : list obs) : bool :=   (* some g after the first f *)
  match tr with
  | [] => false
  | e :: t => if f e then existsb g t else after f g t
  end.

Definition trace_ok (tr : list obs) : bool :=
  Nat.eqb (count is_free tr) 1 && no_touch_after_free tr && Nat.eqb (count is_requeue tr) 1
  && Nat.eqb (count is_deadlock tr) 0 && after is_requeue is_return tr.

(* the ledger of ONE job record over time (the pool recycles records): free <-> live *)
Inductive lstate := LFreeSt | LLive.
Definition ledger_step (s : lstate) (e : obs) : option lstate :=
  match e, s with
  | OAlloc, LFreeSt => Some LLive
  | OAlloc, LLive => None                                   (* handed out while in use *)
  | OFree _, LLive => Some LFreeSt
  | OFree _, LFreeSt => None                                (* double free *)
  | (OUse | OHandoff | ORequeue | OSys _ | OSysDone), LLive => Some LLive
  | (OUse | OHandoff | ORequeue | OSys _ | OSysDone), LFreeSt => None   (* touched after its free *)
  | ODeadlock, _ => None
  | (OReturn | OEndCall | OEndReturn), st => Some st
  end.
Fixpoint ledger_run (s : lstate) (tr : list obs) : option lstate :=
  match tr with
  | [] => Some s
  | e :: t => match ledger_step s e with Some s' => ledger_run s' t | None => None end
  end.
Definition ledger_closed (tr : list obs) : bool :=
  match ledger_run LFreeSt tr with Some LFreeSt => true | _ => false end.

(* observable projection (the implementation's log cannot see reads of job->ret) *)
Definition observable (e : obs) : bool := negb (is_use e).
Definition obs_code (e : obs) : nat :=
  match e with
  | OAlloc => 0 | OHandoff => 1 | OSys f => 100 + sys_idx f | OSysDone => 2 | ORequeue => 3
  | OFree ByWrapper => 4 | OFree ByProxy => 5 | OUse => 6 | OReturn => 7 | OEndCall => 8 | OEndReturn => 9 | ODeadlock => 10
  end%nat.
Definition accept_trace (body : list switch_elem) (tail : list pevent) (endev : list wevent) (wrp : wrapper) (observed : list nat) : bool :=
  existsb (fun tr => if list_eq_dec Nat.eq_dec (map obs_code (filter observable tr)) observed then true else false)
          (job_runs body tail endev wrp).

(* ------------------------------------------------------------------ static checks used by the proofs (reflection) *)
Definition compat (ty : ctype) (hin : inhow) (hout : outhow) : bool :=
  (match hout with
   | OutMemcpy c t => width_eqb c (cwidth t) && width_eqb (cwidth t) (cwidth ty) && Bool.eqb (csigned t) (csigned ty)
   | OutCast t => width_eqb (cwidth t) (cwidth ty) && Bool.eqb (csigned t) (csigned ty)
   end) &&
  (match hin with InMemcpy w => width_eqb w (cwidth ty) | InCast => true end).

Definition marshal_slots (evs : list wevent) : list nat :=
  flat_map (fun e => match e with WMarshal s _ _ => [s] | _ => [] end) evs.

Fixpoint nodupb (l : list nat) : bool :=
  match l with [] => true | x :: t => negb (existsb (Nat.eqb x) t) && nodupb t end.

Definition arg_ok (evs : list wevent) (i : nat) (a : argspec) (ty : ctype) : bool :=
  match a with
  | ASlot s h => Nat.ltb s 5 &&
                 existsb (fun e => match e with
                                   | WMarshal s' p hin => Nat.eqb s s' && Nat.eqb p i && compat ty hin h
                                   | _ => false end) evs
  | _ => false
  end.

Fixpoint args_ok (evs : list wevent) (i : nat) (args : list argspec) (tys : list ctype) : bool :=
  match args, tys with
  | [], [] => true
  | a :: ar, t :: tr => arg_ok evs i a t && args_ok evs (S i) ar tr
  | _, _ => false
  end.

Fixpoint ctypes_eqb (a b : list ctype) : bool :=
  match a, b with
  | [], [] => true
  | x :: a', y :: b' => ctype_eqb x y && ctypes_eqb a' b'
  | _, _ => false
  end.

(* everything [transparent] needs of one wrapper, decidable *)
Definition wrapper_ok (body : list switch_elem) (wrp : wrapper) : bool :=
  match syscall_of (w_op wrp) with
  | Some f =>
      match direct_sig f, dispatch body (w_op wrp), w_ret wrp with
      | Some (tys, rt), [(f', args, true)], Some rt' =>
          sys_eqb f f' && ctypes_eqb (w_params wrp) tys && ctype_eqb rt rt' &&
          nodupb (marshal_slots (w_events wrp)) && args_ok (w_events wrp) 0 args tys
      | _, _, _ => false
      end
  | None => false
  end.

Definition is_syscall_wrapper (body : list switch_elem) (wrp : wrapper) : bool := negb (runs_on_proxy body (w_op wrp)) && negb (op_eqb (w_op wrp) USER_DEFINED).

(* order of the wrapper's own steps before it parks *)
Fixpoint before_park (evs : list wevent) : list wevent :=
  match evs with [] => [] | WPark :: _ => [] | e :: t => e :: before_park t end.
Definition wevent_tag (e : wevent) : nat :=
  match e with WAlloc => 0 | WSetThread => 1 | WSetOp => 2 | WMarshal _ _ _ => 3 | WSetBlockedOn => 4 | WSetState => 5
             | WPark => 6 | WReadRet => 7 | WFree => 8 | WReturnRet => 9 | WReturnVoid => 10 | WRestoreErr _ => 11 end%nat.
Definition has_tag (n : nat) (evs : list wevent) : bool := existsb (fun e => Nat.eqb (wevent_tag e) n) evs.
Definition wrapper_wf (wrp : wrapper) : bool :=
  let pre := before_park (w_events wrp) in
  match w_events wrp with WAlloc :: _ => true | _ => false end &&
  has_tag 1 pre && has_tag 2 pre && has_tag 4 pre && has_tag 5 pre && has_tag 6 (w_events wrp).

(* ------------------------------------------------------------------ errno
   The direct call leaves its error code in the CALLER's errno.  Through a wrapper the call runs on the proxy pthread; the
   code reaches the caller only if the proxy stores it into the job before the task can resume (PStoreErr before PRequeue)
   and the wrapper restores it after reading ret and before freeing the job (WRestoreErr).  Which of the two worlds holds is
   read off the generated tables. *)
Fixpoint proxy_stores_errno (tail : list pevent) : bool :=
  match tail with
  | [] => false
  | PStoreErr :: _ => true
  | PRequeue :: _ => false
  | _ :: t => proxy_stores_errno t
  end.
Fixpoint after_park (evs : list wevent) : list wevent :=
  match evs with [] => [] | WPark :: t => t | _ :: t => after_park t end.
Fixpoint restore_of (seen_ret : bool) (evs : list wevent) : option errcond :=
  match evs with
  | [] => None
  | WReadRet :: t => restore_of true t
  | WFree :: _ => None
  | WRestoreErr c :: _ => if seen_ret then Some c else None
  | _ :: t => restore_of seen_ret t
  end.
Definition wrapper_restore (wrp : wrapper) : option errcond := restore_of false (after_park (w_events wrp)).
Definition cond_holds (c : errcond) (ret : Z) : bool := match c with ErrNeg => ret <? 0 | ErrMinus1 => ret =? -1 end.

(* e0: caller's errno before the call; gerr: stale err field of the recycled job; err: errno the call leaves behind *)
Definition errno_after_direct (e0 ret err : Z) : Z := if ret <? 0 then err else e0.
Definition errno_after_wrapper (tail : list pevent) (wrp : wrapper) (e0 gerr ret err : Z) : Z :=
  match wrapper_restore wrp with
  | Some c => if cond_holds c ret then (if proxy_stores_errno tail then err else gerr) else e0
  | None => e0
  end.

Definition is_some {A} (o : option A) : bool := match o with Some _ => true | None => false end.
(* the two consistent states of the source *)
Definition errno_carried (body : list switch_elem) (tail : list pevent) (ws : list wrapper) : bool :=
  proxy_stores_errno tail &&
  forallb (fun w => Bool.eqb (is_syscall_wrapper body w) (is_some (wrapper_restore w))) ws.
Definition errno_absent (tail : list pevent) (ws : list wrapper) : bool :=
  negb (existsb (fun e => match e with PStoreErr => true | _ => false end) tail) &&
  forallb (fun w => negb (has_tag 11 (w_events w))) ws.
