(* C20 extension P -- micro-step machine of the blocking-call job queue and its proxy pthreads (src/io.c):
     qt_blocking_subsystem_enqueue            (worker side: lock, link at tail, length++, spawn-or-signal test, unlock)
     qt_blocking_subsystem_spawnworker        (pthread_create of a proxy, io_worker_count++)
     qt_blocking_subsystem_proxy_thread       (while (proxy_exit == 0) { if (process()) pthread_exit; } io_worker_count--; [fix aa38ba9])
     qt_process_blocking_call                 (lock; while empty: timed wait; ETIMEDOUT branches; dequeue; unlock; call; requeue)
     qt_blocking_subsystem_internal_stopwork  (proxy_exit = 1; spin until io_worker_count == 0; lock; unlock)
   Definitions only (the file still runs when a proof breaks).  One step = one shared access / one pthread primitive.
   The timed wait releases the lock atomically (P_Wait0), then the waiter may time out or wake spuriously at any moment
   (P_Waiting, outcome chosen by the schedule) or be woken by a signal, and has to re-acquire the lock (P_Reacq). *)
From Coq Require Import List ZArith Bool Arith.
Import ListNotations.
Local Open Scope Z_scope.

Inductive wpc := W_Lock | W_Decide | W_Spawn | W_Incr | W_Signal | W_Unlock | W_Done.
Inductive ppc := P_Test | P_Lock | P_Check | P_Wait0 | P_Waiting | P_Reacq (timedout : bool) | P_After (timedout : bool)
               | P_Decr | P_UnlockExit | P_Unlock0 | P_Deq | P_UnlockItem | P_Call | P_Requeue | P_DecrX | P_Exit.
Inductive fpc := F_Set | F_Read | F_Lock | F_Unlock | F_Done.

(* TW pc j rest : a worker handing job j to the queue (rest = the jobs it submits afterwards)
   TP pc item   : a proxy pthread (item = the job it dequeued, meaningful from P_UnlockItem to P_Requeue)
   TF pc        : the thread that runs the early-cleanup function at qthread_finalize *)
Inductive thread := TW (pc : wpc) (cur : nat) (todo : list nat) | TP (pc : ppc) (item : nat) | TF (pc : fpc).

Record queue := { q_head : option nat; q_tail : option nat; q_len : Z; q_nxt : nat -> option nat }.

Record state := {
  s_thr : list thread;
  s_lock : option nat;          (* owner of theQueue.lock *)
  s_q : queue;                  (* theQueue.head / .tail / .length and the next fields of the job records *)
  s_count : Z;                  (* io_worker_count *)
  s_pe : bool;                  (* proxy_exit *)
  s_called : list nat;          (* jobs whose blocking call was executed, in order *)
  s_back : list nat;            (* jobs whose task was handed back to its shepherd, in order *)
  s_bad : nat;                  (* ghost: proxies that left through the loop test (no decrement of io_worker_count) *)
  s_max : Z;                    (* io_worker_max *)
  s_njobs : nat;                (* ghost: number of jobs the workers submit (finalize starts when all are back) *)
  s_old : bool                  (* true = the proxy's exit path before fix aa38ba9 (kept for the regression theorem) *)
}.

Definition fupd (f : nat -> option nat) (k : nat) (v : option nat) : nat -> option nat :=
  fun x => if Nat.eqb x k then v else f x.

Fixpoint upd {A} (l : list A) (n : nat) (x : A) : list A :=
  match l, n with
  | [], _ => []
  | _ :: r, O => x :: r
  | y :: r, S n' => y :: upd r n' x
  end.

Definition opt_eqb (a b : option nat) : bool :=
  match a, b with
  | None, None => true
  | Some x, Some y => Nat.eqb x y
  | _, _ => false
  end.

(* prev = tail; tail = job; if (prev == NULL) head = job; else prev->next = job; length++ *)
Definition enq (q : queue) (j : nat) : queue :=
  match q_tail q with
  | None => {| q_head := Some j; q_tail := Some j; q_len := q_len q + 1; q_nxt := q_nxt q |}
  | Some p => {| q_head := q_head q; q_tail := Some j; q_len := q_len q + 1; q_nxt := fupd (q_nxt q) p (Some j) |}
  end.

(* item = head; head = item->next; if (tail == item) tail = head; length-- *)
Definition deq (q : queue) : option (nat * queue) :=
  match q_head q with
  | None => None
  | Some i => let h' := q_nxt q i in
              Some (i, {| q_head := h'; q_tail := if opt_eqb (q_tail q) (Some i) then h' else q_tail q;
                          q_len := q_len q - 1; q_nxt := q_nxt q |})
  end.

Definition clear_next (q : queue) (i : nat) : queue :=
  {| q_head := q_head q; q_tail := q_tail q; q_len := q_len q; q_nxt := fupd (q_nxt q) i None |}.

(* indices of the proxies blocked in the timed wait *)
Fixpoint waiters_from (k : nat) (l : list thread) : list nat :=
  match l with
  | [] => []
  | TP P_Waiting _ :: r => k :: waiters_from (S k) r
  | _ :: r => waiters_from (S k) r
  end.
Definition waiters (l : list thread) : list nat := waiters_from 0 l.

(* pthread_cond_signal: some waiter (chosen by the schedule) stops waiting; nobody waiting: no effect *)
Definition wake (l : list thread) (c : nat) : list thread :=
  match waiters l with
  | [] => l
  | w0 :: ws => let w := nth (Nat.modulo c (length (w0 :: ws))) (w0 :: ws) w0 in
                match nth_error l w with
                | Some (TP P_Waiting it) => upd l w (TP (P_Reacq false) it)
                | _ => l
                end
  end.

Definition set_thr (st : state) (l : list thread) : state :=
  {| s_thr := l; s_lock := s_lock st; s_q := s_q st; s_count := s_count st; s_pe := s_pe st; s_called := s_called st;
     s_back := s_back st; s_bad := s_bad st; s_max := s_max st; s_njobs := s_njobs st; s_old := s_old st |}.
Definition set_lock (st : state) (o : option nat) : state :=
  {| s_thr := s_thr st; s_lock := o; s_q := s_q st; s_count := s_count st; s_pe := s_pe st; s_called := s_called st;
     s_back := s_back st; s_bad := s_bad st; s_max := s_max st; s_njobs := s_njobs st; s_old := s_old st |}.
Definition set_q (st : state) (q : queue) : state :=
  {| s_thr := s_thr st; s_lock := s_lock st; s_q := q; s_count := s_count st; s_pe := s_pe st; s_called := s_called st;
     s_back := s_back st; s_bad := s_bad st; s_max := s_max st; s_njobs := s_njobs st; s_old := s_old st |}.
Definition set_count (st : state) (c : Z) : state :=
  {| s_thr := s_thr st; s_lock := s_lock st; s_q := s_q st; s_count := c; s_pe := s_pe st; s_called := s_called st;
     s_back := s_back st; s_bad := s_bad st; s_max := s_max st; s_njobs := s_njobs st; s_old := s_old st |}.
Definition set_pe (st : state) (b : bool) : state :=
  {| s_thr := s_thr st; s_lock := s_lock st; s_q := s_q st; s_count := s_count st; s_pe := b; s_called := s_called st;
     s_back := s_back st; s_bad := s_bad st; s_max := s_max st; s_njobs := s_njobs st; s_old := s_old st |}.
Definition set_called (st : state) (l : list nat) : state :=
  {| s_thr := s_thr st; s_lock := s_lock st; s_q := s_q st; s_count := s_count st; s_pe := s_pe st; s_called := l;
     s_back := s_back st; s_bad := s_bad st; s_max := s_max st; s_njobs := s_njobs st; s_old := s_old st |}.
Definition set_back (st : state) (l : list nat) : state :=
  {| s_thr := s_thr st; s_lock := s_lock st; s_q := s_q st; s_count := s_count st; s_pe := s_pe st; s_called := s_called st;
     s_back := l; s_bad := s_bad st; s_max := s_max st; s_njobs := s_njobs st; s_old := s_old st |}.
Definition set_bad (st : state) (n : nat) : state :=
  {| s_thr := s_thr st; s_lock := s_lock st; s_q := s_q st; s_count := s_count st; s_pe := s_pe st; s_called := s_called st;
     s_back := s_back st; s_bad := n; s_max := s_max st; s_njobs := s_njobs st; s_old := s_old st |}.

Definition lock_free (st : state) : bool := match s_lock st with None => true | Some _ => false end.

(* the thread t is at pc th' afterwards *)
Definition at_pc (st : state) (t : nat) (th' : thread) : state := set_thr st (upd (s_thr st) t th').

(* one micro-step of thread t; c resolves the nondeterminism of the step (outcome of the timed wait; which waiter a
   signal wakes).  None = t does not exist or is not enabled (blocked on the lock, finished, finalize not yet called). *)
Definition step (st : state) (t : nat) (c : nat) : option state :=
  match nth_error (s_thr st) t with
  | None => None
  | Some (TW pc j rest) =>
    match pc with
    | W_Lock => if lock_free st then Some (at_pc (set_q (set_lock st (Some t)) (enq (s_q st) j)) t (TW W_Decide j rest)) else None
    | W_Decide => Some (at_pc st t (TW (if s_count st <? q_len (s_q st)
                                        then (if s_count st <? s_max st then W_Spawn else W_Unlock)
                                        else W_Signal) j rest))
    | W_Spawn => Some (at_pc (set_thr st (s_thr st ++ [TP P_Test O])) t (TW W_Incr j rest))
    | W_Incr => Some (at_pc (set_count st (s_count st + 1)) t (TW W_Unlock j rest))
    | W_Signal => Some (at_pc (set_thr st (wake (s_thr st) c)) t (TW W_Unlock j rest))
    | W_Unlock => Some (at_pc (set_lock st None) t (match rest with [] => TW W_Done j [] | j' :: r => TW W_Lock j' r end))
    | W_Done => None
    end
  | Some (TP pc it) =>
    match pc with
    | P_Test => if s_pe st
                then (if s_old st then Some (at_pc (set_bad st (S (s_bad st))) t (TP P_Exit it))   (* before aa38ba9: no decrement *)
                      else Some (at_pc st t (TP P_DecrX it)))
                else Some (at_pc st t (TP P_Lock it))
    | P_Lock => if lock_free st then Some (at_pc (set_lock st (Some t)) t (TP P_Check it)) else None
    | P_Check => Some (at_pc st t (TP (match q_head (s_q st) with None => P_Wait0 | Some _ => P_Deq end) it))
    | P_Wait0 => Some (at_pc (set_lock st None) t (TP P_Waiting it))
    | P_Waiting => Some (at_pc st t (TP (P_Reacq (Nat.eqb c 0)) it))
    | P_Reacq b => if lock_free st then Some (at_pc (set_lock st (Some t)) t (TP (P_After b) it)) else None
    | P_After true => Some (at_pc st t (TP (match q_head (s_q st) with None => P_Decr | Some _ => P_Unlock0 end) it))
    | P_After false => Some (at_pc st t (TP P_Check it))
    | P_Decr => Some (at_pc (set_count st (s_count st - 1)) t (TP P_UnlockExit it))
    | P_UnlockExit => Some (at_pc (set_lock st None) t (TP P_Exit it))
    | P_Unlock0 => Some (at_pc (set_lock st None) t (TP P_Test it))
    | P_Deq => match deq (s_q st) with
               | Some (i, q') => Some (at_pc (set_q st q') t (TP P_UnlockItem i))
               | None => None
               end
    | P_UnlockItem => Some (at_pc (set_lock st None) t (TP P_Call it))
    | P_Call => Some (at_pc (set_called (set_q st (clear_next (s_q st) it)) (s_called st ++ [it])) t (TP P_Requeue it))
    | P_Requeue => Some (at_pc (set_back st (s_back st ++ [it])) t (TP P_Test it))
    | P_DecrX => Some (at_pc (set_count st (s_count st - 1)) t (TP P_Exit it))     (* leaving because of proxy_exit: count-- without the lock *)
    | P_Exit => None
    end
  | Some (TF pc) =>
    match pc with
    | F_Set => if Nat.eqb (length (s_back st)) (s_njobs st) then Some (at_pc (set_pe st true) t (TF F_Read)) else None
    | F_Read => Some (at_pc st t (TF (if s_count st =? 0 then F_Lock else F_Read)))
    | F_Lock => if lock_free st then Some (at_pc (set_lock st (Some t)) t (TF F_Unlock)) else None
    | F_Unlock => Some (at_pc (set_lock st None) t (TF F_Done))
    | F_Done => None
    end
  end.

(* a schedule is a list of (thread, choice); entries naming a thread that is not enabled are skipped *)
Fixpoint run (st : state) (sched : list (nat * nat)) : state :=
  match sched with
  | [] => st
  | (t, c) :: r => run (match step st t c with Some st' => st' | None => st end) r
  end.

(* initial state: the workers with their job lists, optionally the finalizing thread, no proxy; as after
   qt_blocking_subsystem_init (head = tail = NULL, proxy_exit = 0, io_worker_count = 0) *)
Definition mk_worker (js : list nat) : thread :=
  match js with [] => TW W_Done O [] | j :: r => TW W_Lock j r end.
Definition empty_queue : queue := {| q_head := None; q_tail := None; q_len := 0; q_nxt := fun _ => None |}.
Definition init_gen (old : bool) (jobs : list (list nat)) (fin : bool) (mx : Z) : state :=
  {| s_thr := map mk_worker jobs ++ (if fin then [TF F_Set] else []); s_lock := None; s_q := empty_queue; s_count := 0;
     s_pe := false; s_called := []; s_back := []; s_bad := O; s_max := mx; s_njobs := length (concat jobs); s_old := old |}.
(* the code as it is now *)
Definition init := init_gen false.
(* the proxy exit path before fix aa38ba9 *)
Definition init_old := init_gen true.

(* ---- the granularity of the correspondence run: pcs at which the real thread cannot be stopped (no interposable call)
   are executed together with the preceding visible step *)
Definition invisible (th : thread) : bool :=
  match th with
  | TW W_Decide _ _ => true
  | TP P_Check _ | TP (P_After _) _ | TP P_Deq _ => true
  | _ => false
  end.
Fixpoint advance (fuel : nat) (st : state) (t : nat) : state :=
  match fuel with
  | O => st
  | S f => match nth_error (s_thr st) t with
           | Some th => if invisible th then match step st t O with Some st' => advance f st' t | None => st end else st
           | None => st
           end
  end.
Definition grant (st : state) (t : nat) (c : nat) : option state :=
  match step st t c with Some st' => Some (advance 4 st' t) | None => None end.

(* the queue as the list of job ids reachable from head (for the observation line) *)
Fixpoint walk (fuel : nat) (h : option nat) (nx : nat -> option nat) : list nat :=
  match fuel, h with
  | S f, Some i => i :: walk f (nx i) nx
  | _, _ => []
  end.
