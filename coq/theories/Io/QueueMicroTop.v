(* C20 extension P -- closed theorems about every schedule of the machine of Io/QueueMicro.v started in the state
   qt_blocking_subsystem_init establishes, for any number of workers and jobs (distinct job records), io_worker_max >= 1. *)
From Coq Require Import List ZArith Bool Arith Lia Permutation.
From QV Require Import Io.QueueMicro Io.QueueMicroProofs Io.QueueMicroInv Io.QueueMicroProgress.
Import ListNotations.
Local Open Scope Z_scope.

Definition Inv (all : list nat) (mx : Z) (st : state) : Prop := LockInv st /\ QInv all st /\ PI mx st.

Lemma init_threads : forall old jobs fin mx th, In th (s_thr (init_gen old jobs fin mx)) ->
  (exists js, In js jobs /\ th = mk_worker js) \/ th = TF F_Set.
Proof.
  intros old jobs fin mx th H. simpl in H. apply in_app_or in H. destruct H as [H | H].
  - apply in_map_iff in H. destruct H as [js [E I]]. left. eauto.
  - destruct fin; simpl in H; [destruct H as [H|[]]; auto | contradiction].
Qed.

Lemma init_thread_shape : forall old jobs fin mx th, In th (s_thr (init_gen old jobs fin mx)) ->
  holds th = false /\ precall th = [] /\ postcall th = [] /\ cnt_of th = 0 /\ midenq th = false /\ (forall pc it, th <> TP pc it).
Proof.
  intros. apply init_threads in H. destruct H as [[js [_ E]] | E]; subst.
  - destruct js; simpl; repeat split; auto; discriminate.
  - simpl. repeat split; auto; discriminate.
Qed.

Lemma flat_nil : forall (f : thread -> list nat) l, (forall th, In th l -> f th = []) -> flat_map f l = [].
Proof. induction l; simpl; intros; auto. rewrite H by auto. rewrite IHl; auto. Qed.

Lemma zsum_zero : forall f l, (forall th, In th l -> f th = 0) -> zsum f l = 0.
Proof. induction l; simpl; intros; auto. rewrite H by auto. rewrite IHl; auto. Qed.

Lemma pend_workers : forall jobs, flat_map pend (map mk_worker jobs) = concat jobs.
Proof. induction jobs as [|js r IH]; simpl; auto. rewrite IH. destruct js; auto. Qed.

Lemma inv_init : forall old jobs fin mx, Inv (concat jobs) mx (init_gen old jobs fin mx).
Proof.
  intros old jobs fin mx.
  assert (Sh := init_thread_shape old jobs fin mx).
  split; [|split].
  - split.
    + intros t th Hth. apply nth_error_In in Hth. apply Sh in Hth. destruct Hth as [Hth _]. rewrite Hth. simpl. split; discriminate.
    + simpl. discriminate.
  - exists []. split; [|split; [|split]].
    + unfold QList; simpl. repeat split; auto. constructor.
    + intro j. rewrite (flat_nil precall), (flat_nil postcall) by (intros th I; apply Sh in I; tauto).
      cbn [s_thr init_gen]. rewrite flat_map_app, cnt_app, pend_workers. simpl s_back.
      assert (E : flat_map pend (if fin then [TF F_Set] else []) = []) by (destruct fin; auto).
      rewrite E. rewrite !cnt_nil. lia.
    + intro j. rewrite (flat_nil postcall) by (intros th I; apply Sh in I; tauto). reflexivity.
    + intros. reflexivity.
  - unfold PI. cbn [s_max s_pe s_bad s_count s_q s_old init_gen empty_queue q_len q_head].
    repeat split; auto; try lia.
    all: try (rewrite zsum_zero; [reflexivity|]; intros th I; apply Sh in I; tauto).
    all: intros; try lia; try (let Q := fresh "Q" in intro Q);
      match goal with Hth : nth_error _ _ = Some _ |- _ =>
        apply nth_error_In in Hth; apply Sh in Hth; destruct Hth as [_ [_ [_ [_ [_ Hth]]]]]; exfalso; eapply Hth; eauto end.
Qed.

Lemma inv_step : forall all mx st t c st', 1 <= mx -> NoDup all -> Inv all mx st -> step st t c = Some st' -> Inv all mx st'.
Proof.
  intros all mx st t c st' Hm ND [A [B C]] H. split; [|split].
  - eapply lock_inv_step; eauto.
  - eapply qinv_step; eauto.
  - eapply pi_step; eauto.
Qed.

Lemma inv_run : forall all mx sched st, 1 <= mx -> NoDup all -> Inv all mx st -> Inv all mx (run st sched).
Proof.
  induction sched as [|[t c] r IH]; simpl; intros; auto.
  destruct (step st t c) eqn:E; apply IH; auto. eapply inv_step; eauto.
Qed.

Section Closed.
  Variables (old : bool) (jobs : list (list nat)) (fin : bool) (mx : Z) (sched : list (nat * nat)).
  Hypothesis Hnd : NoDup (concat jobs).
  Hypothesis Hmx : 1 <= mx.
  Let st := run (init_gen old jobs fin mx) sched.

  Lemma inv_closed : Inv (concat jobs) mx st.
  Proof. apply inv_run; auto. apply inv_init. Qed.

  (* at most one thread inside the critical section, and it is the owner recorded in the lock *)
  Lemma lock_mutex_closed : forall t1 t2 th1 th2, nth_error (s_thr st) t1 = Some th1 -> nth_error (s_thr st) t2 = Some th2 ->
    holds th1 = true -> holds th2 = true -> t1 = t2 /\ s_lock st = Some t1.
  Proof.
    intros. destruct inv_closed as [[L _] _]. apply (L _ _ H) in H1. apply (L _ _ H0) in H2. split; congruence.
  Qed.

  (* a thread whose pc is outside the critical section (it left a branch, it waits, it asks for the lock, it has finished)
     does not own the lock: every path releases the lock *)
  Lemma lock_released_closed : forall t th, nth_error (s_thr st) t = Some th -> holds th = false -> s_lock st <> Some t.
  Proof.
    intros t th N Hh Q. destruct inv_closed as [[L _] _]. apply (L _ _ N) in Q. congruence.
  Qed.

  Lemma no_self_deadlock_closed : forall t th, nth_error (s_thr st) t = Some th -> wants th = true -> s_lock st <> Some t.
  Proof.
    intros t th N W. eapply lock_released_closed; eauto.
    destruct th as [[] ? ? | [] ? | []]; simpl in *; auto; discriminate.
  Qed.

  Lemma queue_wf_closed : exists l, NoDup l /\ path (q_head (s_q st)) l (q_nxt (s_q st)) /\ q_tail (s_q st) = last_opt l /\
    q_len (s_q st) = Z.of_nat (length l) /\ (q_head (s_q st) = None <-> l = []).
  Proof.
    destruct inv_closed as [_ [[l [Q _]] _]]. exists l. destruct Q as [A [B [C D]]]. repeat split; auto.
    - intro E. eapply head_none_nil; eauto. unfold QList; auto.
    - intro E. subst. simpl in B. auto.
  Qed.

  Lemma conservation_closed : exists l, QList (s_q st) l /\
    Permutation (concat jobs) (flat_map pend (s_thr st) ++ flat_map precall (s_thr st) ++ flat_map postcall (s_thr st) ++ l ++ s_back st).
  Proof.
    destruct inv_closed as [_ [[l [Q [C _]]] _]]. exists l. split; auto.
    apply (Permutation_count_occ Nat.eq_dec). intro j. specialize (C j). unfold cnt in C. rewrite !count_occ_app. lia.
  Qed.

  Lemma resumes_once_closed : NoDup (s_back st) /\ NoDup (s_called st) /\
    (forall j, In j (s_back st) -> In j (s_called st) /\ In j (concat jobs)).
  Proof.
    destruct inv_closed as [_ [[l [Q [C [K _]]]] _]].
    assert (LE : forall j, (cnt (concat jobs) j <= 1)%nat) by (intro j; apply (NoDup_count_occ Nat.eq_dec); auto).
    split; [|split].
    - apply (NoDup_count_occ Nat.eq_dec). intro j. specialize (C j). specialize (LE j). unfold cnt in *. lia.
    - apply (NoDup_count_occ Nat.eq_dec). intro j. specialize (C j). specialize (K j). specialize (LE j). unfold cnt in *. lia.
    - intros j I. apply in_cnt in I. split; apply in_cnt; specialize (C j); specialize (K j); lia.
  Qed.

  Lemma all_resumed_at_rest_closed :
    (forall t th, nth_error (s_thr st) t = Some th -> pend th = [] /\ precall th = [] /\ postcall th = []) ->
    q_head (s_q st) = None -> Permutation (concat jobs) (s_back st).
  Proof.
    intros R E. destruct conservation_closed as [l [Q P]].
    assert (l = []) by (eapply head_none_nil; eauto). subst l.
    rewrite !flat_nil in P; auto; intros th I; apply In_nth_error in I; destruct I as [n I]; apply R in I; tauto.
  Qed.

  Lemma count_exact_closed : s_count st = zsum cnt_of (s_thr st) + Z.of_nat (s_bad st) /\ (old = false -> s_bad st = O).
  Proof.
    destruct inv_closed as [_ [_ [_ [_ [B2 [C _]]]]]]. split; auto. intro E. apply B2.
    unfold st. clear - E. assert (G : forall sc s, s_old s = false -> s_old (run s sc) = false).
    { induction sc as [|[t c] r IH]; simpl; intros s Hs; auto. destruct (step s t c) as [s'|] eqn:Hst; apply IH; auto.
      unfold step in Hst. destruct (nth_error (s_thr s) t) as [[[] ? ? | [] ? | []]|]; try discriminate;
        repeat match type of Hst with
               | context [if ?b then _ else _] => destruct b eqn:?; try discriminate Hst
               | context [match deq ?q with _ => _ end] => destruct (deq q) as [[? ?]|] eqn:?; try discriminate Hst
               end; inversion Hst; subst; simpl; auto; congruence. }
    apply G. simpl. auto.
  Qed.

  (* a queued job always has somebody who will take it: a proxy that still counts, or the enqueuer inside its critical
     section who is about to create one / has just decided that the existing ones suffice *)
  Lemma progress_taker_closed : s_pe st = false -> q_head (s_q st) <> None ->
    exists t th, nth_error (s_thr st) t = Some th /\ (live_proxy th = true \/ midenq th = true).
  Proof.
    intros E Hh. destruct inv_closed as [_ [[l [Q _]] [_ [B [_ [C [_ [_ [_ [_ P]]]]]]]]]].
    pose proof (qlist_len_head _ _ Q) as LH.
    assert (0 < q_len (s_q st)) by (destruct (Z_lt_dec 0 (q_len (s_q st))); auto; exfalso; apply Hh; apply LH; lia).
    destruct (P E H) as [P1 | [t [th [N M]]]].
    - rewrite (B E) in C. simpl in C. rewrite Z.add_0_r in C. rewrite C in P1.
      apply zsum_pos_ex in P1. destruct P1 as [t [th [N F]]]. exists t, th. split; auto. left.
      destruct th as [[] ? ? | [] ? | []]; simpl in *; auto; lia.
    - exists t, th. auto.
  Qed.
End Closed.

(* ------------------------------------------------------------------ the measure of the fairness argument *)
(* number of own steps after which a proxy that is not busy with a job of its own has dequeued one, provided the queue is
   not empty (if it becomes empty somebody else took the jobs) *)
Definition dist (pc : ppc) : nat :=
  match pc with
  | P_Deq => 1 | P_Check => 2 | P_Lock => 3 | P_Test => 4 | P_After false => 3 | P_Reacq false => 4 | P_Unlock0 => 5
  | P_After true => 6 | P_Reacq true => 7 | P_Waiting => 8 | P_Wait0 => 9 | P_Requeue => 5 | P_Call => 6 | P_UnlockItem => 7
  | _ => 0
  end%nat.

Ltac proxy_step H H0 :=
  unfold step in H; rewrite H0 in H;
  repeat match type of H with
         | context [if ?b then _ else _] => destruct b eqn:?; try discriminate H
         | context [match deq ?q with _ => _ end] => destruct (deq q) as [[? ?]|] eqn:?; try discriminate H
         | context [match q_head ?q with _ => _ end] => destruct (q_head q) eqn:?
         end;
  inversion H; subst; clear H; cbn_st; rewrite nth_upd_eq by (eapply nth_some_lt; eauto).

Lemma progress_measure : forall st t c st' pc it, step st t c = Some st' -> nth_error (s_thr st) t = Some (TP pc it) ->
  s_pe st = false -> q_head (s_q st) <> None -> pc <> P_Decr -> pc <> P_UnlockExit -> pc <> P_Exit -> pc <> P_DecrX ->
  exists pc' it', nth_error (s_thr st') t = Some (TP pc' it') /\ (pc' = P_UnlockItem \/ (dist pc' < dist pc)%nat).
Proof.
  intros st t c st' pc it H H0 Hpe Hq N1 N2 N3 N4.
  destruct pc as [| | | | |[]|[]| | | | | | | | |]; try congruence; proxy_step H H0; try congruence;
    eexists; eexists; (split; [reflexivity|]); simpl; auto; try lia.
  right. destruct (c =? 0)%nat; lia.
Qed.

(* shutdown: number of own steps after which a proxy has done its own decrement of io_worker_count and exited, once
   proxy_exit is set and the queue is empty, when its timed wait times out (choice 0) *)
Definition distX (pc : ppc) : nat :=
  match pc with
  | P_Exit => 0 | P_DecrX => 1 | P_UnlockExit => 1 | P_Test => 2 | P_Decr => 2 | P_Requeue => 3 | P_Unlock0 => 3 | P_After true => 3
  | P_Call => 4 | P_Reacq true => 4 | P_UnlockItem => 5 | P_Waiting => 5 | P_Wait0 => 6 | P_Deq => 6 | P_Check => 7
  | P_After false => 8 | P_Lock => 8 | P_Reacq false => 9
  end%nat.

Lemma shutdown_measure : forall st t st' pc it, step st t O = Some st' -> nth_error (s_thr st) t = Some (TP pc it) ->
  s_pe st = true -> s_old st = false -> q_head (s_q st) = None ->
  exists pc' it', nth_error (s_thr st') t = Some (TP pc' it') /\ (distX pc' < distX pc)%nat.
Proof.
  intros st t st' pc it H H0 Hpe Hold Hq.
  destruct pc as [| | | | |[]|[]| | | | | | | | |]; proxy_step H H0; try congruence;
    try (unfold deq in *; rewrite Hq in *; discriminate);
    eexists; eexists; (split; [reflexivity|]); simpl; auto; try lia.
Qed.

Section Closed2.
  Variables (jobs : list (list nat)) (fin : bool) (mx : Z) (sched : list (nat * nat)).
  Hypothesis Hnd : NoDup (concat jobs).
  Hypothesis Hmx : 1 <= mx.
  Let st := run (init jobs fin mx) sched.

  (* the code as it is now (after aa38ba9): while io_worker_count is not 0 and no enqueuer is between pthread_create and
     its increment, some proxy that still counts exists -- the spin of the shutdown function never waits for nobody *)
  Lemma shutdown_waits_for_somebody : s_count st <> 0 ->
    (forall t j r, nth_error (s_thr st) t <> Some (TW W_Incr j r)) ->
    exists t th, nth_error (s_thr st) t = Some th /\ live_proxy th = true.
  Proof.
    intros Hc Hw. destruct (count_exact_closed false jobs fin mx sched Hnd Hmx) as [C B]. change (run (init_gen false jobs fin mx) sched) with st in *.
    rewrite (B eq_refl) in C. simpl in C. rewrite Z.add_0_r in C.
    assert (NN : forall x, In x (s_thr st) -> 0 <= cnt_of x).
    { intros x I. apply In_nth_error in I. destruct I as [n I].
      destruct x as [[] ? ? | [] ? | []]; simpl; try lia. exfalso. eapply Hw; eauto. }
    pose proof (zsum_nonneg _ _ NN) as G.
    assert (P1 : 1 <= zsum cnt_of (s_thr st)) by lia.
    apply zsum_pos_ex in P1. destruct P1 as [t [th [Hth F]]]. exists t, th. split; auto.
    destruct th as [[] ? ? | [] ? | []]; simpl in *; auto; lia.
  Qed.

  (* ... and when it is 0 nobody who counts is left *)
  Lemma shutdown_zero_means_gone : s_count st = 0 ->
    (forall t j r, nth_error (s_thr st) t <> Some (TW W_Incr j r)) ->
    forall t th, nth_error (s_thr st) t = Some th -> live_proxy th = false.
  Proof.
    intros Hc Hw t th Hth. destruct (count_exact_closed false jobs fin mx sched Hnd Hmx) as [C B]. change (run (init_gen false jobs fin mx) sched) with st in *.
    rewrite (B eq_refl) in C. simpl in C. rewrite Z.add_0_r in C.
    assert (NN : forall x, In x (s_thr st) -> 0 <= cnt_of x).
    { intros x I. apply In_nth_error in I. destruct I as [n I].
      destruct x as [[] ? ? | [] ? | []]; simpl; try lia. exfalso. eapply Hw; eauto. }
    pose proof (zsum_ge cnt_of _ _ _ NN Hth) as G.
    destruct th as [[] ? ? | [] ? | []]; simpl in *; auto; lia.
  Qed.
End Closed2.

(* ------------------------------------------------------------------ regression: the exit path before fix aa38ba9 *)
Definition hang_sched : list (nat * nat) :=
  [(0,0);(0,0);(0,0);(0,0);(0,0); (2,0);(2,0);(2,0);(2,0);(2,0);(2,0);(2,0); (1,0); (2,0); (1,0)]%nat.

Definition Stuck (s : state) : Prop :=
  s_thr s = [TW W_Done O []; TF F_Read; TP P_Exit O] /\ s_count s = 1 /\ s_pe s = true.

Lemma stuck_step : forall s t c s', Stuck s -> step s t c = Some s' -> Stuck s'.
Proof.
  intros s t c s' [A [B C]] H. unfold step in H. rewrite A in H.
  destruct t as [|[|[|t]]]; simpl in H; try discriminate.
  - rewrite B in H. simpl in H. inversion H; subst. unfold Stuck. cbn_st. rewrite A. simpl. auto.
  - destruct t; discriminate.
Qed.

Lemma stuck_run : forall more s, Stuck s -> Stuck (run s more).
Proof.
  induction more as [|[t c] r IH]; simpl; intros; auto. destruct (step s t c) eqn:E; apply IH; auto. eapply stuck_step; eauto.
Qed.

(* before aa38ba9: one worker, one job, finalize after the task was handed back -- the proxy leaves through the loop test
   without decrementing io_worker_count, and whatever happens afterwards the shutdown function keeps re-reading 1 *)
Lemma shutdown_hang_old : forall more,
  let s := run (run (init_old [[O]] true 10) hang_sched) more in
  s_thr s = [TW W_Done O []; TF F_Read; TP P_Exit O] /\ s_count s = 1 /\ s_back s = [O].
Proof.
  intro more. cbv zeta.
  assert (S0 : Stuck (run (init_old [[O]] true 10) hang_sched)) by (unfold Stuck; vm_compute; auto).
  pose proof (stuck_run more _ S0) as [A [B C]]. split; auto. split; auto.
  assert (G : forall sc s, Stuck s -> s_back (run s sc) = s_back s).
  { induction sc as [|[t c] r IH]; simpl; intros s Hs; auto. destruct (step s t c) as [s'|] eqn:E; auto.
    rewrite IH by (eapply stuck_step; eauto). destruct Hs as [A' [B' C']]. unfold step in E. rewrite A' in E.
    destruct t as [|[|[|t]]]; simpl in E; try discriminate.
    - inversion E; subst. reflexivity.
    - destruct t; discriminate. }
  rewrite G by auto. vm_compute. reflexivity.
Qed.

(* the same schedule on the machine of the code as it is now: the proxy decrements, the shutdown function returns *)
Example shutdown_now_terminates_on_that_schedule :
  let s := run (init [[O]] true 10) (hang_sched ++ [(2,0);(1,0);(1,0);(1,0)]%nat) in
  s_thr s = [TW W_Done O []; TF F_Done; TP P_Exit O] /\ s_count s = 0 /\ s_lock s = None.
Proof. vm_compute. auto. Qed.

(* non-vacuity: reachable states in which the hypotheses of the theorems are met in a non-trivial way *)
Example ex_two_in_contention :   (* a worker inside the critical section while a proxy asks for the lock and another waits *)
  let s := run (init [[O; 1%nat]; [2%nat]] false 10)
               [(0,0);(0,0);(0,0);(0,0);(0,0); (2,0);(2,0);(2,0);(2,0);(2,0);(2,0);(2,0);(2,0);(2,0);(2,0);(2,0); (1,0);(1,0); (2,0)]%nat in
  s_lock s = Some 1%nat /\ nth_error (s_thr s) 2 = Some (TP (P_Reacq true) O) /\ q_head (s_q s) = Some 2%nat.
Proof. vm_compute. auto. Qed.

Example ex_backlog :             (* three jobs queued behind one proxy (io_worker_max = 1): head, tail, length, chain *)
  let s := run (init [[O; 1%nat; 2%nat]] false 1) (repeat (O, O) 13) in
  walk 5 (q_head (s_q s)) (q_nxt (s_q s)) = [O; 1%nat; 2%nat] /\ q_tail (s_q s) = Some 2%nat /\ q_len (s_q s) = 3 /\ s_count s = 1.
Proof. vm_compute. auto. Qed.
