From Coq Require Import List ZArith String.
From QV Require Import Io.Base Io.GenIoSwitch Io.Model.
Require Extraction.
Require Import ExtrOcamlBasic.
Extraction Language OCaml.
Extraction "../ocaml/gen/c20_model.ml" switch_body proxy_tail wrappers end_action_events nojob_wrappers
  find_wrapper trace_call accept_trace job_runs obs_code observable trace_ok dispatch has_case wrapper_ok wrapper_wf
  is_syscall_wrapper all_ops op_idx sys_idx errno_carried errno_absent errno_after_wrapper.
