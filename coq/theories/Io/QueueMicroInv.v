(* C20 extension P -- the queue is well formed, jobs are conserved, every call is executed once and every task handed back
   once after its call: invariants of the machine of Io/QueueMicro.v under every schedule. *)
From Coq Require Import List ZArith Bool Arith Lia Permutation.
From QV Require Import Io.QueueMicro Io.QueueMicroProofs.
Import ListNotations.
Local Open Scope nat_scope.

(* ------------------------------------------------------------------ the linked queue *)
Fixpoint path (h : option nat) (l : list nat) (nx : nat -> option nat) : Prop :=
  match l with
  | [] => h = None
  | x :: r => h = Some x /\ path (nx x) r nx
  end.

Definition last_opt (l : list nat) : option nat := match l with [] => None | _ => Some (last l O) end.

(* head/tail/length describe exactly the list l: l is the chain of next pointers from head (ending in NULL), tail is its
   last node, length its number of nodes, no node twice *)
Definition QList (q : queue) (l : list nat) : Prop :=
  NoDup l /\ path (q_head q) l (q_nxt q) /\ q_tail q = last_opt l /\ q_len q = Z.of_nat (length l).

Lemma nodup_snoc : forall (l : list nat) j, NoDup l -> ~ In j l -> NoDup (l ++ [j]).
Proof.
  intros l j H N. apply (NoDup_count_occ Nat.eq_dec). intro x. rewrite count_occ_app.
  apply (NoDup_count_occ Nat.eq_dec) with (x := x) in H. simpl. destruct (Nat.eq_dec j x); [|lia].
  subst. apply (count_occ_not_In Nat.eq_dec) in N. lia.
Qed.

Lemma path_ext : forall l h nx nx', (forall x, In x l -> nx x = nx' x) -> path h l nx -> path h l nx'.
Proof.
  induction l; simpl; intros; auto. destruct H0. split; auto.
  rewrite <- (H a) by auto. eapply IHl; eauto.
Qed.

Lemma last_in : forall (l : list nat) d, l <> [] -> In (last l d) l.
Proof.
  induction l; intros; [congruence|]. destruct l; [left; auto|]. right. apply IHl. congruence.
Qed.

Lemma path_snoc : forall l h nx j, l <> [] -> NoDup l -> ~ In j l -> path h l nx -> nx j = None ->
  path h (l ++ [j]) (fupd nx (last l O) (Some j)).
Proof.
  induction l as [|x r IH]; intros h nx j Hne Hnd Hj Hp Hn; [congruence|].
  destruct Hp as [Hh Hp]. inversion Hnd; subst.
  destruct r as [|y r'].
  - simpl. split; auto. unfold fupd. rewrite Nat.eqb_refl. split; auto.
    destruct (Nat.eqb j x) eqn:E; auto. apply Nat.eqb_eq in E. subst. exfalso. apply Hj. left; auto.
  - change (last (x :: y :: r') O) with (last (y :: r') O).
    change ((x :: y :: r') ++ [j]) with (x :: ((y :: r') ++ [j])).
    split; auto.
    assert (X : fupd nx (last (y :: r') O) (Some j) x = nx x).
    { unfold fupd. destruct (Nat.eqb x (last (y :: r') O)) eqn:E; auto. apply Nat.eqb_eq in E.
      exfalso. apply H1. rewrite E. apply last_in. congruence. }
    rewrite X. apply IH; auto; try congruence. intro Q. apply Hj. right; auto.
Qed.

Lemma enq_ok : forall q l j, QList q l -> ~ In j l -> q_nxt q j = None -> QList (enq q j) (l ++ [j]).
Proof.
  intros q l j [Hnd [Hp [Ht Hl]]] Hj Hn. unfold enq.
  assert (ND : NoDup (l ++ [j])).
  { apply nodup_snoc; auto. }
  destruct l as [|x r].
  - simpl in Ht. rewrite Ht. unfold QList; simpl. repeat split; auto. rewrite Hl. simpl. lia.
  - simpl in Ht. rewrite Ht. unfold QList; cbn [q_head q_tail q_len q_nxt]. split; [exact ND|]. split; [|split].
    + apply path_snoc; auto; congruence.
    + unfold last_opt. destruct ((x :: r) ++ [j]) eqn:E; [destruct r; discriminate|]. rewrite <- E. rewrite last_last. auto.
    + rewrite Hl, app_length. simpl length. lia.
Qed.

Lemma head_none_nil : forall q l, QList q l -> q_head q = None -> l = [].
Proof. intros q l [_ [Hp _]] H. destruct l; auto. destruct Hp as [E _]. congruence. Qed.

Lemma head_some_cons : forall q l i, QList q l -> q_head q = Some i -> exists r, l = i :: r.
Proof. intros q l i [_ [Hp _]] H. destruct l; simpl in Hp; [congruence|]. destruct Hp as [E _]. exists l. congruence. Qed.

Lemma deq_ok : forall q i r, QList q (i :: r) -> exists q', deq q = Some (i, q') /\ QList q' r /\ q_nxt q' = q_nxt q.
Proof.
  intros q i r [Hnd [[Hh Hp] [Ht Hl]]]. unfold deq. rewrite Hh.
  eexists. split; [reflexivity|]. split; [|reflexivity].
  inversion Hnd; subst. unfold QList; cbn [q_head q_tail q_len q_nxt]. split; auto. split; auto. split.
  - rewrite Ht. destruct r as [|y r'].
    + simpl. rewrite Nat.eqb_refl. simpl in Hp. exact Hp.
    + change (last_opt (i :: y :: r')) with (Some (last (y :: r') O)). cbn [opt_eqb].
      destruct (Nat.eqb (last (y :: r') O) i) eqn:E; auto.
      apply Nat.eqb_eq in E. exfalso. apply H1. rewrite <- E. apply last_in. congruence.
  - rewrite Hl. simpl length. lia.
Qed.

(* ------------------------------------------------------------------ where the jobs are *)
Definition pend (th : thread) : list nat :=        (* not yet in the queue *)
  match th with TW W_Lock j r => j :: r | TW _ _ r => r | _ => [] end.
Definition precall (th : thread) : list nat :=     (* taken by a proxy, call not yet executed *)
  match th with TP P_UnlockItem it | TP P_Call it => [it] | _ => [] end.
Definition postcall (th : thread) : list nat :=    (* call executed, task not yet handed back *)
  match th with TP P_Requeue it => [it] | _ => [] end.

Definition cnt (l : list nat) (j : nat) : nat := count_occ Nat.eq_dec l j.

(* conservation, stated with multiplicities: every job id occurs in `all` exactly as often as in the places together *)
Definition QInv (all : list nat) (st : state) : Prop :=
  exists l, QList (s_q st) l /\
    (forall j, cnt all j = cnt (flat_map pend (s_thr st)) j + cnt (flat_map precall (s_thr st)) j +
                           cnt (flat_map postcall (s_thr st)) j + cnt l j + cnt (s_back st) j) /\
    (forall j, cnt (s_called st) j = cnt (flat_map postcall (s_thr st)) j + cnt (s_back st) j) /\
    (forall j, In j (flat_map pend (s_thr st)) -> q_nxt (s_q st) j = None).

Lemma cnt_app : forall a b j, cnt (a ++ b) j = cnt a j + cnt b j.
Proof. intros. apply count_occ_app. Qed.

Lemma cnt_upd : forall (f : thread -> list nat) l t th th' j, nth_error l t = Some th ->
  cnt (flat_map f (upd l t th')) j + cnt (f th) j = cnt (flat_map f l) j + cnt (f th') j.
Proof.
  induction l as [|a l IH]; intros t th th' j H; destruct t; simpl in *; try discriminate.
  - inversion H; subst. rewrite !cnt_app. lia.
  - rewrite !cnt_app. specialize (IH t th th' j H). lia.
Qed.

Lemma cnt_snoc_thr : forall (f : thread -> list nat) l x j, cnt (flat_map f (l ++ [x])) j = cnt (flat_map f l) j + cnt (f x) j.
Proof. intros. rewrite flat_map_app, cnt_app. simpl. rewrite app_nil_r. auto. Qed.

Lemma cnt_wake : forall (f : thread -> list nat) l c j, (forall it, f (TP (P_Reacq false) it) = f (TP P_Waiting it)) ->
  cnt (flat_map f (wake l c)) j = cnt (flat_map f l) j.
Proof.
  intros f l c j Hf. destruct (wake_spec l c) as [E | [w [it [N E]]]]; rewrite E; auto.
  pose proof (cnt_upd f l w _ (TP (P_Reacq false) it) j N) as H. rewrite Hf in H. lia.
Qed.

Lemma wake_keeps_worker : forall l c t pc j r, nth_error l t = Some (TW pc j r) -> nth_error (wake l c) t = Some (TW pc j r).
Proof.
  intros. destruct (wake_spec l c) as [E | [w [it [N E]]]]; rewrite E; auto.
  rewrite nth_upd_neq; auto. intro; subst. congruence.
Qed.

Lemma in_cnt : forall l j, In j l <-> 1 <= cnt l j.
Proof. intros. unfold cnt. rewrite (count_occ_In Nat.eq_dec). lia. Qed.

Lemma cnt_one : forall a j, cnt [a] j = if Nat.eq_dec a j then 1 else 0.
Proof. intros. unfold cnt. simpl. destruct (Nat.eq_dec a j); auto. Qed.
Lemma cnt_nil : forall j, cnt [] j = 0.
Proof. reflexivity. Qed.
Lemma cnt_cons : forall a l j, cnt (a :: l) j = cnt [a] j + cnt l j.
Proof. intros. change (a :: l) with ([a] ++ l). apply cnt_app. Qed.

Lemma cnt_cons' : forall a l j, cnt (a :: l) j = (if Nat.eq_dec a j then 1 else 0) + cnt l j.
Proof. intros. unfold cnt. simpl. destruct (Nat.eq_dec a j); lia. Qed.

Ltac cbn_st := cbn [at_pc set_thr set_lock set_q set_count set_pe set_called set_back set_bad
                    s_thr s_lock s_q s_count s_pe s_called s_back s_bad s_max s_njobs s_old] in *.

Ltac count_solve :=
  cbn [pend precall postcall flat_map] in *; rewrite ?cnt_app, ?cnt_cons', ?cnt_nil in *;
  repeat match goal with
         | |- context [Nat.eq_dec ?a ?b] => destruct (Nat.eq_dec a b)
         | H : context [Nat.eq_dec ?a ?b] |- _ => destruct (Nat.eq_dec a b)
         end; try lia.

Lemma upd_app_l : forall A (l m : list A) t x, t < length l -> upd (l ++ m) t x = upd l t x ++ m.
Proof. induction l; destruct t; simpl; intros; try lia; auto. f_equal. apply IHl. lia. Qed.

Lemma nth_in_flat : forall (f : thread -> list nat) l t th j, nth_error l t = Some th -> In j (f th) -> In j (flat_map f l).
Proof. intros. apply in_flat_map. exists th. split; auto. eapply nth_error_In; eauto. Qed.

Lemma tail_in : forall q l p, QList q l -> q_tail q = Some p -> In p l.
Proof.
  intros q l p [_ [_ [Ht _]]] H. rewrite Ht in H. destruct l as [|x r]; [discriminate|].
  unfold last_opt in H. assert (E : p = last (x :: r) O) by congruence. rewrite E. apply last_in. congruence.
Qed.

Ltac boring l HQ HC HK HN Up Uc Uo :=
  exists l; split; [exact HQ|]; split; [|split];
  [ let j0 := fresh "j0" in intro j0; specialize (HC j0); specialize (Up j0); specialize (Uc j0); specialize (Uo j0); count_solve
  | let j0 := fresh "j0" in intro j0; specialize (HK j0); specialize (Uo j0); count_solve
  | let j0 := fresh "j0" in let Hj := fresh "Hj" in
    intros j0 Hj; apply HN; apply in_cnt; apply in_cnt in Hj; specialize (Up j0); count_solve ].

Lemma qinv_step : forall all st t c st', NoDup all -> QInv all st -> step st t c = Some st' -> QInv all st'.
Proof.
  intros all st t c st' ND [l [HQ [HC [HK HN]]]] H.
  assert (LE : forall j, cnt all j <= 1) by (intro j; apply (NoDup_count_occ Nat.eq_dec); auto).
  step_cases H Hn;
    repeat match type of H with
           | context [if ?b then _ else _] => destruct b eqn:?; try discriminate H
           | context [match deq ?q with _ => _ end] => destruct (deq q) as [[? ?]|] eqn:?; try discriminate H
           end;
    inversion H; subst; clear H; unfold QInv; cbn_st;
    try (match goal with
         | |- context [upd (s_thr st) t ?TH'] =>
           pose proof (fun j => cnt_upd pend (s_thr st) t _ TH' j Hn) as Up;
           pose proof (fun j => cnt_upd precall (s_thr st) t _ TH' j Hn) as Uc;
           pose proof (fun j => cnt_upd postcall (s_thr st) t _ TH' j Hn) as Uo
         end).
  all: try (boring l HQ HC HK HN Up Uc Uo; fail).
  - (* W_Lock: acquire + link at the tail *)
    assert (Ic : In cur (flat_map pend (s_thr st))) by (eapply nth_in_flat; eauto; simpl; auto).
    assert (Nl : ~ In cur l).
    { intro Q. apply in_cnt in Q. apply in_cnt in Ic. specialize (HC cur). specialize (LE cur). lia. }
    exists (l ++ [cur]). split; [apply enq_ok; auto|]. split; [|split].
    + intro j0. specialize (HC j0). specialize (Up j0). specialize (Uc j0). specialize (Uo j0). count_solve.
    + intro j0. specialize (HK j0). specialize (Uo j0). count_solve.
    + intros j0 Hj.
      assert (Ij : In j0 (flat_map pend (s_thr st))).
      { apply in_cnt. apply in_cnt in Hj. specialize (Up j0). count_solve. }
      assert (Nj : ~ In j0 l).
      { intro Q. apply in_cnt in Q. apply in_cnt in Ij. specialize (HC j0). specialize (LE j0). lia. }
      unfold enq. destruct (q_tail (s_q st)) as [p|] eqn:Et; cbn [q_nxt]; [|auto].
      unfold fupd. destruct (Nat.eqb j0 p) eqn:E; [|auto]. apply Nat.eqb_eq in E. subst p.
      exfalso. apply Nj. eapply tail_in; eauto.
  - (* W_Spawn *)
    assert (Tl : t < length (s_thr st)) by (eapply nth_some_lt; eauto).
    rewrite upd_app_l by auto.
    pose proof (fun j => cnt_upd pend (s_thr st) t _ (TW W_Incr cur todo) j Hn) as Up.
    pose proof (fun j => cnt_upd precall (s_thr st) t _ (TW W_Incr cur todo) j Hn) as Uc.
    pose proof (fun j => cnt_upd postcall (s_thr st) t _ (TW W_Incr cur todo) j Hn) as Uo.
    exists l. split; [exact HQ|]. split; [|split].
    + intro j0. rewrite !cnt_snoc_thr. specialize (HC j0). specialize (Up j0). specialize (Uc j0). specialize (Uo j0). count_solve.
    + intro j0. rewrite !cnt_snoc_thr. specialize (HK j0). specialize (Uo j0). count_solve.
    + intros j0 Hj. apply HN. apply in_cnt. apply in_cnt in Hj. rewrite cnt_snoc_thr in Hj. specialize (Up j0). count_solve.
  - (* W_Signal *)
    pose proof (wake_keeps_worker _ c _ _ _ _ Hn) as Hw.
    pose proof (fun j => cnt_upd pend _ t _ (TW W_Unlock cur todo) j Hw) as Up.
    pose proof (fun j => cnt_upd precall _ t _ (TW W_Unlock cur todo) j Hw) as Uc.
    pose proof (fun j => cnt_upd postcall _ t _ (TW W_Unlock cur todo) j Hw) as Uo.
    assert (Wp : forall j, cnt (flat_map pend (wake (s_thr st) c)) j = cnt (flat_map pend (s_thr st)) j) by (intro; apply cnt_wake; auto).
    assert (Wc : forall j, cnt (flat_map precall (wake (s_thr st) c)) j = cnt (flat_map precall (s_thr st)) j) by (intro; apply cnt_wake; auto).
    assert (Wo : forall j, cnt (flat_map postcall (wake (s_thr st) c)) j = cnt (flat_map postcall (s_thr st)) j) by (intro; apply cnt_wake; auto).
    exists l. split; [exact HQ|]. split; [|split].
    + intro j0. specialize (HC j0). specialize (Up j0). specialize (Uc j0). specialize (Uo j0).
      specialize (Wp j0). specialize (Wc j0). specialize (Wo j0). count_solve.
    + intro j0. specialize (HK j0). specialize (Uo j0). specialize (Wo j0). count_solve.
    + intros j0 Hj. apply HN. apply in_cnt. apply in_cnt in Hj. specialize (Up j0). specialize (Wp j0). count_solve.
  - (* W_Unlock *)
    destruct todo as [|j' r]; boring l HQ HC HK HN Up Uc Uo.
  - (* P_Deq *)
    assert (Eh : q_head (s_q st) = Some n).
    { unfold deq in Heqo. destruct (q_head (s_q st)); inversion Heqo; auto. }
    destruct (head_some_cons _ _ _ HQ Eh) as [r El]. subst l.
    destruct (deq_ok _ _ _ HQ) as [q' [D1 [D2 D3]]]. rewrite D1 in Heqo. inversion Heqo; subst q'.
    exists r. split; [exact D2|]. split; [|split].
    + intro j0. specialize (HC j0). specialize (Up j0). specialize (Uc j0). specialize (Uo j0). count_solve.
    + intro j0. specialize (HK j0). specialize (Uo j0). count_solve.
    + intros j0 Hj. rewrite D3. apply HN. apply in_cnt. apply in_cnt in Hj. specialize (Up j0). count_solve.
  - (* P_Call *)
    assert (Ic : In item (flat_map precall (s_thr st))) by (eapply nth_in_flat; eauto; simpl; auto).
    assert (Nl : ~ In item l).
    { intro Q. apply in_cnt in Q. apply in_cnt in Ic. specialize (HC item). specialize (LE item). lia. }
    exists l. split; [|split; [|split]].
    + destruct HQ as [A [B [C D]]]. unfold QList, clear_next; cbn [q_head q_tail q_len q_nxt]. repeat split; auto.
      eapply path_ext; [|exact B]. intros x Hx. unfold fupd. destruct (Nat.eqb x item) eqn:E; auto.
      apply Nat.eqb_eq in E. subst. contradiction.
    + intro j0. specialize (HC j0). specialize (Up j0). specialize (Uc j0). specialize (Uo j0). count_solve.
    + intro j0. specialize (HK j0). specialize (Uo j0). count_solve.
    + intros j0 Hj. unfold clear_next; cbn [q_nxt]. unfold fupd. destruct (Nat.eqb j0 item); auto.
      apply HN. apply in_cnt. apply in_cnt in Hj. specialize (Up j0). count_solve.
Qed.
