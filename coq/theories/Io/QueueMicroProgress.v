(* C20 extension P -- io_worker_count bookkeeping and progress of the machine of Io/QueueMicro.v: the counter counts the
   live proxies, a queued job always has somebody who will take it, no deadlock, the measure of the fairness argument. *)
From Coq Require Import List ZArith Bool Arith Lia.
From QV Require Import Io.QueueMicro Io.QueueMicroProofs Io.QueueMicroInv.
Import ListNotations.
Local Open Scope Z_scope.

Fixpoint zsum (f : thread -> Z) (l : list thread) : Z :=
  match l with [] => 0 | th :: r => f th + zsum f r end.

Lemma zsum_upd : forall f l t th th', nth_error l t = Some th -> zsum f (upd l t th') + f th = zsum f l + f th'.
Proof.
  induction l as [|a l IH]; intros t th th' H; destruct t; simpl in *; try discriminate.
  - inversion H; subst. lia.
  - specialize (IH t th th' H). lia.
Qed.

Lemma zsum_app : forall f l m, zsum f (l ++ m) = zsum f l + zsum f m.
Proof. induction l; simpl; intros; auto. rewrite IHl. lia. Qed.

Lemma zsum_wake : forall f l c, (forall it, f (TP (P_Reacq false) it) = f (TP P_Waiting it)) -> zsum f (wake l c) = zsum f l.
Proof.
  intros f l c Hf. destruct (wake_spec l c) as [E | [w [it [N E]]]]; rewrite E; auto.
  pose proof (zsum_upd f l w _ (TP (P_Reacq false) it) N) as H. rewrite Hf in H. lia.
Qed.

Lemma zsum_nonneg : forall f l, (forall x, In x l -> 0 <= f x) -> 0 <= zsum f l.
Proof.
  induction l as [|a l IH]; simpl; intros; [lia|].
  assert (0 <= f a) by (apply H; auto). assert (0 <= zsum f l) by (apply IH; intros; apply H; auto). lia.
Qed.

Lemma zsum_ge : forall f l t th, (forall x, In x l -> 0 <= f x) -> nth_error l t = Some th -> f th <= zsum f l.
Proof.
  induction l as [|a l IH]; intros t th Hp H; destruct t; simpl in *; try discriminate.
  - inversion H; subst. assert (0 <= zsum f l); [|lia]. apply zsum_nonneg. intros; apply Hp; auto.
  - assert (0 <= f a) by (apply Hp; auto).
    assert (f th <= zsum f l); [|lia]. eapply IH; eauto.
Qed.

Lemma zsum_pos_ex : forall f l, 1 <= zsum f l -> exists t th, nth_error l t = Some th /\ 1 <= f th.
Proof.
  induction l as [|a l IH]; simpl; intros; [lia|].
  destruct (Z_le_dec 1 (f a)).
  - exists O, a. auto.
  - destruct IH as [t [th [N F]]]; [lia|]. exists (S t), th. auto.
Qed.

(* +1 for every proxy that still counts (it has not yet done its own decrement), -1 for the enqueuer between
   pthread_create and io_worker_count++ *)
Definition cnt_of (th : thread) : Z :=
  match th with
  | TP pc _ => match pc with P_UnlockExit | P_Exit => 0 | _ => 1 end      (* P_DecrX still counts *)
  | TW W_Incr _ _ => -1
  | _ => 0
  end.

Definition live_proxy (th : thread) : bool :=
  match th with TP pc _ => match pc with P_UnlockExit | P_Exit => false | _ => true end | _ => false end.

Definition midenq (th : thread) : bool :=
  match th with TW pc _ _ => match pc with W_Decide | W_Spawn | W_Incr => true | _ => false end | _ => false end.

Definition PI (mx : Z) (st : state) : Prop :=
  s_max st = mx /\
  (s_pe st = false -> s_bad st = O) /\
  (s_old st = false -> s_bad st = O) /\
  s_count st = zsum cnt_of (s_thr st) + Z.of_nat (s_bad st) /\
  (s_pe st = false -> 0 <= s_count st) /\
  (forall t it, nth_error (s_thr st) t = Some (TP P_Decr it) -> q_len (s_q st) <= 0) /\
  (forall t it, nth_error (s_thr st) t = Some (TP P_Deq it) -> q_head (s_q st) <> None) /\
  (s_pe st = false -> forall t it, nth_error (s_thr st) t <> Some (TP P_DecrX it)) /\
  (s_pe st = false -> 0 < q_len (s_q st) ->
   1 <= s_count st \/ exists t th, nth_error (s_thr st) t = Some th /\ midenq th = true).

Lemma other_change_worker : forall l n pc j r, other_change l n (TW pc j r) -> nth_error l n = Some (TW pc j r).
Proof. intros l n pc j r [H | [[it [_ H]] | [_ H]]]; auto; discriminate. Qed.

Lemma other_change_proxy : forall l n pc it, other_change l n (TP pc it) -> pc <> P_Reacq false -> pc <> P_Test ->
  nth_error l n = Some (TP pc it).
Proof. intros l n pc it [H | [[it' [_ H]] | [_ H]]] A B; auto; inversion H; congruence. Qed.

Lemma qlist_len_head : forall q l, QList q l -> (q_head q = None <-> q_len q <= 0).
Proof.
  intros q l [A [B [C D]]]. destruct l; simpl in *.
  - rewrite D. split; auto. lia.
  - destruct B as [B _]. rewrite B, D. split; [discriminate|]. lia.
Qed.

Ltac mk_new t Hn :=
  match goal with |- context [upd ?L t ?TH'] =>
    assert (Hnew : nth_error (upd L t TH') t = Some TH')
      by (apply nth_upd_eq; rewrite ?app_length, ?wake_length; apply nth_some_lt in Hn; simpl; lia) end.

Ltac c3_simple st t Hn :=
  let U := fresh "U" in
  pose proof (fun th0 => zsum_upd cnt_of _ _ _ th0 Hn) as U;
  match goal with |- context [upd (s_thr st) t ?TH'] => specialize (U TH') end;
  cbn [cnt_of] in U; rewrite ?Nat2Z.inj_succ; lia.

Ltac c3_spawn st t Hn :=
  rewrite upd_app_l by (eapply nth_some_lt; eauto); rewrite zsum_app; cbn [zsum cnt_of];
  let U := fresh "U" in
  pose proof (fun th0 => zsum_upd cnt_of _ _ _ th0 Hn) as U;
  match goal with |- context [upd (s_thr st) t ?TH'] => specialize (U TH') end;
  cbn [cnt_of] in U; lia.

Ltac c3_signal st t c Hn :=
  let Hw := fresh "Hw" in pose proof (wake_keeps_worker _ c _ _ _ _ Hn) as Hw;
  let U := fresh "U" in pose proof (fun th0 => zsum_upd cnt_of _ _ _ th0 Hw) as U;
  match goal with |- context [upd (wake (s_thr st) c) t ?TH'] => specialize (U TH') end;
  rewrite zsum_wake in U by reflexivity; cbn [cnt_of] in U; lia.

Ltac c4_decr st t Hn Excl :=
  let NN := fresh "NN" in
  assert (NN : forall x, In x (s_thr st) -> 0 <= cnt_of x) by
    (let x := fresh "x" in let Hx := fresh "Hx" in let n := fresh "n" in
     intros x Hx; apply In_nth_error in Hx; destruct Hx as [n Hx];
     destruct x as [[] ? ? | [] ? | []]; cbn [cnt_of]; try lia;
     exfalso; assert (n = t) by (eapply Excl; [reflexivity | reflexivity | exact Hx | reflexivity]); subst; congruence);
  let G := fresh "G" in pose proof (zsum_ge cnt_of _ _ _ NN Hn) as G; cbn [cnt_of] in G; lia.

Ltac c56 t Hnew Hoth KK L1 Excl LH :=
  let n := fresh "n" in let it0 := fresh "it0" in let Hx := fresh "Hx" in let Hne := fresh "Hne" in let E := fresh "E" in
  intros n it0 Hx; destruct (Nat.eq_dec n t) as [->|Hne];
  [ rewrite Hnew in Hx; first [discriminate Hx | (apply LH; first [assumption | reflexivity]) | congruence]
  | apply Hoth in Hx; [|exact Hne]; apply other_change_proxy in Hx; [|discriminate|discriminate];
    first [ exact (KK _ _ Hx)
          | (cbn [clear_next q_len q_head]; exact (KK _ _ Hx))
          | (exfalso; apply Hne; eapply Excl; [reflexivity | reflexivity | exact Hx | reflexivity])
          | (exfalso; pose proof (proj1 (L1 _ _ Hx) eq_refl) as E; unfold lock_free in *; rewrite E in *; discriminate) ] ].

Ltac c8 t Hnew Hoth K3 :=
  let n := fresh "n" in let it0 := fresh "it0" in let Hx := fresh "Hx" in let Hne := fresh "Hne" in let E := fresh "E" in
  intros E n it0 Hx; first [discriminate E |
  destruct (Nat.eq_dec n t) as [->|Hne];
  [ rewrite Hnew in Hx; first [discriminate Hx | congruence]
  | apply Hoth in Hx; [|exact Hne]; apply other_change_proxy in Hx; [|discriminate|discriminate];
    eapply K3; [first [assumption | reflexivity | congruence] | exact Hx] ] ].

Ltac c9 st t c Hn Hnew P J K K3 :=
  let E := fresh "E" in let Hl := fresh "Hl" in let P0 := fresh "P0" in let P1 := fresh "P1" in
  let t0 := fresh "t0" in let th0 := fresh "th0" in let N0 := fresh "N0" in let M0 := fresh "M0" in let Hne0 := fresh "Hne0" in
  intros E Hl; first [discriminate E |
   (right; exists t; eexists; split; [exact Hnew | reflexivity]) |
   (pose proof (P ltac:(first [assumption | reflexivity | congruence])) as P0;
    try (pose proof (J ltac:(first [assumption | reflexivity | congruence])));
    try match goal with Hd : deq (s_q st) = Some _ |- _ =>
          unfold deq in Hd; destruct (q_head (s_q st)); inversion Hd; subst; cbn [q_len] in * end;
    cbn [clear_next q_len] in Hl;
    destruct P0 as [P1 | [t0 [th0 [N0 M0]]]]; [lia | |];
    [ left; first [lia | (pose proof (K _ _ Hn); lia) | (exfalso; eapply K3; [first [assumption | reflexivity | congruence] | exact Hn])]
    | destruct (Nat.eq_dec t0 t) as [->|Hne0];
      [ rewrite Hn in N0; inversion N0; subst th0; cbn [midenq] in M0; try discriminate M0;
        left; rewrite ?Z.ltb_lt, ?Z.ltb_ge in *; lia
      | right; exists t0, th0; split; [|exact M0]; rewrite nth_upd_neq by auto;
        first [exact N0 | (destruct th0 as [? ? ?| |]; try discriminate M0; apply wake_keeps_worker; exact N0)] ] ]) ].

Lemma pi_step : forall all mx st t c st', 1 <= mx -> NoDup all -> QInv all st -> LockInv st -> PI mx st ->
  step st t c = Some st' -> PI mx st'.
Proof.
  intros all mx st t c st' Hmx ND HQ HL [M [B [B2 [C [J [K [K2 [K3 P]]]]]]]] H.
  pose proof (qinv_step _ _ _ _ _ ND HQ H) as HQ'.
  assert (Hoth := fun n x => step_others st t c st' n x H).
  destruct HQ as [l [QL _]]. destruct HQ' as [l' [QL' _]].
  pose proof (qlist_len_head _ _ QL) as LH. pose proof (qlist_len_head _ _ QL') as LH'.
  destruct HL as [L1 L2].
  assert (Excl : forall th n x, nth_error (s_thr st) t = Some th -> holds th = true -> nth_error (s_thr st) n = Some x ->
                 holds x = true -> n = t).
  { intros th n x N Hh Nx Hx. apply (L1 t th N) in Hh. apply (L1 n x Nx) in Hx. congruence. }
  step_cases H Hn;
    repeat match type of H with
           | context [if ?b then _ else _] => destruct b eqn:?; try discriminate H
           | context [match deq ?q with _ => _ end] => destruct (deq q) as [[? ?]|] eqn:?; try discriminate H
           end;
    inversion H; subst; clear H; unfold PI; cbn_st.
  all: try match goal with |- context [match ?x with [] => TW W_Done _ [] | _ :: _ => _ end] => destruct x end.
  all: try match goal with |- context [match q_head ?q with _ => _ end] => destruct (q_head q) eqn:Hh end.
  all: mk_new t Hn.
  all: split; [reflexivity|].
  all: split; [try (intro E; first [exact (B E) | (apply B; reflexivity) | congruence | discriminate])|].
  all: split; [try (intro E; first [exact (B2 E) | (apply B2; reflexivity) | congruence | discriminate])|].
  all: split; [first [c3_simple st t Hn | c3_spawn st t Hn | c3_signal st t c Hn]|].
  all: split; [try (intro E; first [discriminate E | (assert (J0 : 0 <= s_count st) by (apply J; first [assumption | reflexivity | congruence]); first [lia | c4_decr st t Hn Excl]) | (exfalso; eapply K3; [first [assumption | reflexivity | congruence] | eauto])])|].
  all: split; [c56 t Hnew Hoth K L1 Excl LH|].
  all: split; [c56 t Hnew Hoth K2 L1 Excl LH|].
  all: split; [c8 t Hnew Hoth K3|].
  all: c9 st t c Hn Hnew P J K K3.
Qed.
