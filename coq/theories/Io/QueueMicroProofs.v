(* C20 extension P -- proofs about the micro-step machine of Io/QueueMicro.v: basic list lemmas, the shape of one step,
   the lock invariant (mutual exclusion, no self-deadlock). *)
From Coq Require Import List ZArith Bool Arith Lia Permutation.
From QV Require Import Io.QueueMicro.
Import ListNotations.
Local Open Scope Z_scope.

(* ------------------------------------------------------------------ lists *)
Lemma upd_length : forall A (l : list A) n x, length (upd l n x) = length l.
Proof. induction l; destruct n; simpl; intros; auto. Qed.

Lemma nth_upd_eq : forall A (l : list A) n x, (n < length l)%nat -> nth_error (upd l n x) n = Some x.
Proof. induction l; destruct n; simpl; intros; try lia; auto. apply IHl. lia. Qed.

Lemma nth_upd_neq : forall A (l : list A) n m x, n <> m -> nth_error (upd l n x) m = nth_error l m.
Proof. induction l; destruct n, m; simpl; intros; auto; try congruence. Qed.

Lemma nth_some_lt : forall A (l : list A) n x, nth_error l n = Some x -> (n < length l)%nat.
Proof. intros. apply nth_error_Some. congruence. Qed.

Lemma nth_app_one : forall A (l : list A) y n x, nth_error (l ++ [y]) n = Some x ->
  nth_error l n = Some x \/ (n = length l /\ x = y).
Proof.
  intros. destruct (lt_dec n (length l)).
  - rewrite nth_error_app1 in H by auto. auto.
  - rewrite nth_error_app2 in H by lia. destruct (n - length l)%nat eqn:E; simpl in H.
    + inversion H. right. split; auto. lia.
    + destruct n1; discriminate.
Qed.

Lemma waiters_from_spec : forall l k w, In w (waiters_from k l) ->
  (k <= w)%nat /\ exists it, nth_error l (w - k) = Some (TP P_Waiting it).
Proof.
  induction l as [|th l IH]; simpl; intros k w H; [contradiction|].
  assert (G : forall w', In w' (waiters_from (S k) l) -> (k <= w')%nat /\ exists it, nth_error (th :: l) (w' - k) = Some (TP P_Waiting it)).
  { intros w' H'. apply IH in H'. destruct H' as [L [it E]]. split; [lia|]. exists it.
    replace (w' - k)%nat with (S (w' - S k)) by lia. exact E. }
  destruct th as [pc j r | pc it | pc]; try (apply G; exact H).
  destruct pc; try (apply G; exact H).
  destruct H as [H | H]; [|apply G; exact H].
  subst. split; [lia|]. exists it. replace (w - w)%nat with O by lia. reflexivity.
Qed.

Lemma wake_spec : forall l c, wake l c = l \/
  exists w it, nth_error l w = Some (TP P_Waiting it) /\ wake l c = upd l w (TP (P_Reacq false) it).
Proof.
  intros. unfold wake. destruct (waiters l) as [|w0 ws] eqn:E; auto.
  set (w := nth _ _ _).
  destruct (nth_error l w) as [[pc j r | pc it | pc]|] eqn:N; auto.
  destruct pc; auto. right. exists w, it. auto.
Qed.

Lemma wake_length : forall l c, length (wake l c) = length l.
Proof. intros. destruct (wake_spec l c) as [E | [w [it [_ E]]]]; rewrite E; auto. apply upd_length. Qed.

Lemma wake_nth : forall l c n x, nth_error (wake l c) n = Some x ->
  nth_error l n = Some x \/ exists it, nth_error l n = Some (TP P_Waiting it) /\ x = TP (P_Reacq false) it.
Proof.
  intros. destruct (wake_spec l c) as [E | [w [it [N E]]]]; rewrite E in H; auto.
  destruct (Nat.eq_dec w n).
  - subst. rewrite nth_upd_eq in H by (eapply nth_some_lt; eauto). inversion H. right. exists it. auto.
  - rewrite nth_upd_neq in H by auto. auto.
Qed.

(* ------------------------------------------------------------------ the shape of one step *)
(* what a step of t does to the OTHER threads: nothing, or a waiter is woken by t's signal, or a new proxy appears *)
Definition other_change (l : list thread) (n : nat) (x : thread) : Prop :=
  nth_error l n = Some x \/
  (exists it, nth_error l n = Some (TP P_Waiting it) /\ x = TP (P_Reacq false) it) \/
  (n = length l /\ x = TP P_Test O).

Ltac step_cases H Hn :=
  unfold step in H;
  match type of H with context [nth_error ?l ?t] => destruct (nth_error l t) as [[[] ? ? | [] ? | []]|] eqn:Hn end;
  try discriminate H.

Lemma step_others : forall st t c st' n x, step st t c = Some st' -> n <> t ->
  nth_error (s_thr st') n = Some x -> other_change (s_thr st) n x.
Proof.
  intros st t c st' n x H Hne Hx. unfold other_change.
  step_cases H Hn;
    repeat match type of H with
           | context [if ?b then _ else _] => destruct b eqn:?; try discriminate H
           | context [match deq ?q with _ => _ end] => destruct (deq q) as [[? ?]|] eqn:?; try discriminate H
           end;
    inversion H; subst; clear H; cbn [at_pc set_thr set_lock set_q set_count set_pe set_called set_back set_bad s_thr] in Hx;
    rewrite nth_upd_neq in Hx by auto; auto.
  - (* spawn *) apply nth_app_one in Hx. destruct Hx as [Hx | [E1 E2]]; auto.
  - (* signal *) apply wake_nth in Hx. destruct Hx as [Hx | Hx]; auto.
Qed.

Lemma step_length : forall st t c st', step st t c = Some st' -> (length (s_thr st) <= length (s_thr st'))%nat.
Proof.
  intros st t c st' H.
  step_cases H Hn;
    repeat match type of H with
           | context [if ?b then _ else _] => destruct b eqn:?; try discriminate H
           | context [match deq ?q with _ => _ end] => destruct (deq q) as [[? ?]|] eqn:?; try discriminate H
           end;
    inversion H; subst; clear H; cbn [at_pc set_thr set_lock set_q set_count set_pe set_called set_back set_bad s_thr];
    rewrite upd_length; try rewrite app_length; try rewrite wake_length; simpl; lia.
Qed.

(* ------------------------------------------------------------------ reachability *)
Inductive reach (s0 : state) : state -> Prop :=
| reach_init : reach s0 s0
| reach_step : forall st t c st', reach s0 st -> step st t c = Some st' -> reach s0 st'.

Lemma reach_run : forall s0 sched st, reach s0 st -> reach s0 (run st sched).
Proof.
  induction sched as [|[t c] r IH]; simpl; intros; auto.
  destruct (step st t c) eqn:E; apply IH; auto. eapply reach_step; eauto.
Qed.

Lemma reach_ind_inv : forall (P : state -> Prop) s0,
  P s0 -> (forall st t c st', reach s0 st -> P st -> step st t c = Some st' -> P st') -> forall st, reach s0 st -> P st.
Proof. intros P s0 H0 Hs st R. induction R; eauto. Qed.

(* ------------------------------------------------------------------ the lock *)
(* pcs inside the critical section of theQueue.lock *)
Definition holds (th : thread) : bool :=
  match th with
  | TW pc _ _ => match pc with W_Decide | W_Spawn | W_Incr | W_Signal | W_Unlock => true | _ => false end
  | TP pc _ => match pc with P_Check | P_Wait0 | P_After _ | P_Decr | P_UnlockExit | P_Unlock0 | P_Deq | P_UnlockItem => true
                           | _ => false end
  | TF pc => match pc with F_Unlock => true | _ => false end
  end.

(* pcs at which the thread is asking for the lock *)
Definition wants (th : thread) : bool :=
  match th with
  | TW W_Lock _ _ => true
  | TP P_Lock _ | TP (P_Reacq _) _ => true
  | TF F_Lock => true
  | _ => false
  end.

Definition LockInv (st : state) : Prop :=
  (forall t th, nth_error (s_thr st) t = Some th -> (holds th = true <-> s_lock st = Some t)) /\
  (forall t, s_lock st = Some t -> (t < length (s_thr st))%nat).

Lemma other_change_holds : forall l n x, other_change l n x ->
  (exists y, nth_error l n = Some y /\ holds y = holds x) \/ (n = length l /\ holds x = false).
Proof.
  intros l n x [H | [[it [H E]] | [H E]]].
  - left. eauto.
  - left. subst. exists (TP P_Waiting it). auto.
  - right. subst. auto.
Qed.

Lemma lock_inv_step : forall st t c st', LockInv st -> step st t c = Some st' -> LockInv st'.
Proof.
  intros st t c st' [I1 I2] H.
  assert (Hoth := fun n x => step_others st t c st' n x H).
  assert (Hlen := step_length st t c st' H).
  (* a generic argument once we know: the old thread, the new thread, the new lock word *)
  assert (G : forall th th', nth_error (s_thr st) t = Some th -> nth_error (s_thr st') t = Some th' ->
              ((holds th = false /\ s_lock st = None /\ s_lock st' = Some t /\ holds th' = true) \/
               (holds th = true /\ s_lock st' = None /\ holds th' = false) \/
               (s_lock st' = s_lock st /\ holds th' = holds th)) -> LockInv st').
  { intros th th' N N' Hc. assert (Tlt := nth_some_lt _ _ _ _ N). split.
    - intros n x Hx. destruct (Nat.eq_dec n t) as [->|Hne].
      + rewrite N' in Hx. inversion Hx; subst x. specialize (I1 t th N).
        destruct Hc as [[A [B [C D]]] | [[A [B C]] | [B C]]].
        * rewrite C, D. split; auto.
        * rewrite B, C. split; intro; discriminate.
        * rewrite B, C. exact I1.
      + specialize (Hoth n x Hne Hx). apply other_change_holds in Hoth.
        destruct Hoth as [[y [Ny Ey]] | [En Ex]].
        * rewrite <- Ey. pose proof (I1 n y Ny) as In. pose proof (I1 t th N) as It.
          destruct Hc as [[A [B [C D]]] | [[A [B C]] | [B C]]].
          -- rewrite C. rewrite B in In. split; intro Q; [apply In in Q; discriminate | inversion Q; congruence].
          -- rewrite B. split; intro Q; [|discriminate]. apply In in Q. apply It in A. congruence.
          -- rewrite B. exact In.
        * rewrite Ex. split; intro Q; [discriminate|]. exfalso.
          destruct Hc as [[A [B [C D]]] | [[A [B C]] | [B C]]].
          -- rewrite C in Q. inversion Q. lia.
          -- rewrite B in Q. discriminate.
          -- rewrite B in Q. apply I2 in Q. lia.
    - intros n Q.
      destruct Hc as [[A [B [C D]]] | [[A [B C]] | [B C]]].
      + rewrite C in Q. inversion Q; subst. lia.
      + rewrite B in Q. discriminate.
      + rewrite B in Q. apply I2 in Q. lia. }
  step_cases H Hn;
    repeat match type of H with
           | context [if ?b then _ else _] => destruct b eqn:?; try discriminate H
           | context [match deq ?q with _ => _ end] => destruct (deq q) as [[? ?]|] eqn:?; try discriminate H
           end;
    inversion H; subst; clear H;
    (eapply G; [reflexivity
               | cbn [at_pc set_thr set_lock set_q set_count set_pe set_called set_back set_bad s_thr];
                 apply nth_upd_eq; try rewrite app_length; try rewrite wake_length; apply nth_some_lt in Hn; lia
               | unfold lock_free in *; cbn [at_pc set_thr set_lock set_q set_count set_pe set_called set_back set_bad s_lock holds];
                 repeat match goal with
                        | |- context [match ?x with _ => _ end] => destruct x
                        | H : match ?x with _ => _ end = _ |- _ => destruct x eqn:?; try discriminate
                        end; cbn [holds]; tauto ]).
Qed.
