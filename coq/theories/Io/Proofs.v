(* C20 — proofs about Io/Model.v instantiated with the source-generated tables of Io/GenIoSwitch.v *)
From Coq Require Import List ZArith Bool Lia Arith.
From QV Require Import Io.Base Io.GenIoSwitch Io.Model.
Import ListNotations.
Local Open Scope Z_scope.

(* ------------------------------------------------------------------ finite enumerations *)
Lemma all_ops_complete : forall o, In o all_ops.
Proof. destruct o; vm_compute; tauto. Qed.

Lemma op_eqb_eq : forall a b, op_eqb a b = true -> a = b.
Proof. destruct a; destruct b; vm_compute; congruence. Qed.

Lemma sys_eqb_eq : forall a b, sys_eqb a b = true -> a = b.
Proof. destruct a; destruct b; vm_compute; congruence. Qed.

Lemma ctype_eqb_eq : forall a b, ctype_eqb a b = true -> a = b.
Proof. destruct a; destruct b; vm_compute; congruence. Qed.

Lemma ctypes_eqb_eq : forall a b, ctypes_eqb a b = true -> a = b.
Proof.
  induction a as [|x a IH]; destruct b as [|y b]; simpl; intro H; try congruence.
  apply andb_prop in H. destruct H as [H1 H2]. apply ctype_eqb_eq in H1. apply IH in H2. congruence.
Qed.

(* ------------------------------------------------------------------ dispatch *)
Definition enqueued_ops : list op := map w_op wrappers.

Definition dispatch_exact_b (o : op) : bool :=
  match syscall_of o with
  | Some f => match map call_name (dispatch switch_body o) with [f'] => sys_eqb f f' | _ => false end
  | None => false
  end.

Lemma dispatch_exact_all : forallb dispatch_exact_b enqueued_ops = true.
Proof. vm_compute. reflexivity. Qed.

Lemma dispatch_exact_lemma :
  forall o, In o enqueued_ops ->
            exists f, syscall_of o = Some f /\ map call_name (dispatch switch_body o) = [f].
Proof.
  intros o Hin. pose proof (proj1 (forallb_forall _ _) dispatch_exact_all o Hin) as H.
  unfold dispatch_exact_b in H. destruct (syscall_of o) as [f|]; [|discriminate].
  exists f. split; [reflexivity|].
  destruct (map call_name (dispatch switch_body o)) as [|f' [|? ?]]; try discriminate.
  apply sys_eqb_eq in H. congruence.
Qed.

Lemma wrappers_have_case_all : forallb (fun w => has_case switch_body (w_op w)) wrappers = true.
Proof. vm_compute. reflexivity. Qed.

Lemma wrappers_cover_lemma :
  (forall w, In w wrappers -> has_case switch_body (w_op w) = true) /\
  (forall o, has_case switch_body o = false -> ~ In o enqueued_ops) /\
  (~ In NANOSLEEP enqueued_ops /\ ~ In SLEEP enqueued_ops /\ ~ In USLEEP enqueued_ops).
Proof.
  split; [|split].
  - intros w Hin. exact (proj1 (forallb_forall _ _) wrappers_have_case_all w Hin).
  - intros o Hno Hin. unfold enqueued_ops in Hin. apply in_map_iff in Hin. destruct Hin as [w [Hw Hin]].
    pose proof (proj1 (forallb_forall _ _) wrappers_have_case_all w Hin) as H. cbv beta in H. rewrite Hw in H. congruence.
  - assert (forallb (fun o => negb (op_eqb o NANOSLEEP) && negb (op_eqb o SLEEP) && negb (op_eqb o USLEEP)) enqueued_ops = true) as H
        by (vm_compute; reflexivity).
    repeat split; intro Hin; pose proof (proj1 (forallb_forall _ _) H _ Hin) as H'; vm_compute in H'; discriminate.
Qed.

(* ------------------------------------------------------------------ marshalling round trip *)
Ltac Zify.zify_post_hook ::= Z.div_mod_to_equations.

Lemma interp_mod_id : forall t v, in_range t v -> interp (cwidth t) (csigned t) (v mod two (cwidth t)) = v.
Proof.
  intros t v H. unfold in_range in H.
  destruct t; cbn [cwidth csigned two] in *; unfold interp; cbn [andb two];
    try (rewrite Z.mod_small by lia; reflexivity);
    match goal with |- context [?a <=? ?b] => destruct (Z.leb_spec a b) end; lia.
Qed.

Lemma wr_mod : forall hin w v old,
    (match hin with InMemcpy w' => width_eqb w' w | InCast => true end) = true ->
    (wr hin v old) mod two w = v mod two w.
Proof.
  intros hin w v old H. destruct hin as [w'|]; destruct w; try destruct w'; cbn in H; try discriminate;
    unfold wr; cbn [two]; lia.
Qed.

Lemma roundtrip : forall ty hin hout v old,
    compat ty hin hout = true -> in_range ty v -> rd hout (wr hin v old) = v.
Proof.
  intros ty hin hout v old Hc Hr. unfold compat in Hc. apply andb_prop in Hc. destruct Hc as [Hout Hin].
  assert (forall t, width_eqb (cwidth t) (cwidth ty) = true -> Bool.eqb (csigned t) (csigned ty) = true ->
                    interp (cwidth t) (csigned t) (wr hin v old mod two (cwidth t)) = v) as K.
  { intros t Hw Hs.
    assert (cwidth t = cwidth ty) as Ew by (destruct (cwidth t); destruct (cwidth ty); cbn in Hw; congruence).
    apply Bool.eqb_prop in Hs. rewrite Ew, Hs. rewrite wr_mod by exact Hin. apply interp_mod_id. exact Hr. }
  destruct hout as [c t|t]; unfold rd.
  - apply andb_prop in Hout. destruct Hout as [Hout Hs]. apply andb_prop in Hout. destruct Hout as [Hc Hw].
    assert (c = cwidth t) as Ec by (destruct c; destruct (cwidth t); cbn in Hc; congruence).
    rewrite Ec. rewrite Z.mod_mod by (destruct (cwidth t); cbn; lia). apply K; assumption.
  - apply andb_prop in Hout. destruct Hout as [Hw Hs]. apply K; assumption.
Qed.

(* ------------------------------------------------------------------ slots *)
Lemma set_length : forall sl s v, length (set s v sl) = length sl.
Proof. induction sl as [|x sl IH]; intros [|s] v; simpl; auto. Qed.

Lemma get_set_same : forall sl s v, (s < length sl)%nat -> get s (set s v sl) = v.
Proof.
  unfold get. induction sl as [|x sl IH]; intros [|s] v H; simpl in *; try lia; auto.
  apply IH. lia.
Qed.

Lemma get_set_other : forall sl s s' v, s <> s' -> get s (set s' v sl) = get s sl.
Proof.
  unfold get. induction sl as [|x sl IH]; intros [|s] [|s'] v H; simpl; auto; try congruence.
Qed.

Lemma marshal_length : forall evs params sl, length (marshal evs params sl) = length sl.
Proof.
  induction evs as [|e evs IH]; intros params sl; simpl; auto. unfold marshal in *. simpl. rewrite IH.
  destruct e; simpl; auto. apply set_length.
Qed.

Lemma marshal_untouched : forall evs params sl s,
    ~ In s (marshal_slots evs) -> get s (marshal evs params sl) = get s sl.
Proof.
  induction evs as [|e evs IH]; intros params sl s Hn; [reflexivity|].
  unfold marshal in *. simpl. unfold marshal_slots in Hn. simpl in Hn. rewrite in_app_iff in Hn.
  rewrite IH by (intro; apply Hn; right; assumption).
  destruct e; simpl; auto. apply get_set_other. intro E. apply Hn. left. simpl. auto.
Qed.

Lemma existsb_nat_false : forall x l, existsb (Nat.eqb x) l = false -> ~ In x l.
Proof.
  intros x l H Hin. assert (existsb (Nat.eqb x) l = true) as T; [|congruence].
  apply existsb_exists. exists x. split; [assumption|apply Nat.eqb_refl].
Qed.

Lemma marshal_get : forall evs params sl s p h,
    nodupb (marshal_slots evs) = true -> In (WMarshal s p h) evs -> (s < length sl)%nat ->
    get s (marshal evs params sl) = wr h (nth p params 0) (get s sl).
Proof.
  induction evs as [|e evs IH]; intros params sl s p h Hnd Hin Hlt; [destruct Hin|].
  destruct Hin as [He|Hin].
  - subst e. unfold marshal. simpl. fold (marshal evs params (set s (wr h (nth p params 0) (get s sl)) sl)).
    unfold marshal_slots in Hnd. simpl in Hnd. apply andb_prop in Hnd. destruct Hnd as [Hn _].
    apply negb_true_iff in Hn. apply existsb_nat_false in Hn.
    rewrite marshal_untouched by exact Hn. apply get_set_same. exact Hlt.
  - unfold marshal. simpl. fold (marshal evs params (marshal1 params sl e)).
    assert (In s (marshal_slots evs)) as Hs.
    { unfold marshal_slots. apply in_flat_map. exists (WMarshal s p h). split; [assumption|simpl; auto]. }
    destruct e; simpl; try (apply IH; assumption).
    unfold marshal_slots in Hnd. simpl in Hnd. apply andb_prop in Hnd. destruct Hnd as [Hn Hnd].
    apply negb_true_iff in Hn. apply existsb_nat_false in Hn.
    assert (s <> slot) as Hne by (intro E; subst; contradiction).
    rewrite IH with (p := p) (h := h); try assumption.
    + rewrite get_set_other by exact Hne. reflexivity.
    + rewrite set_length. exact Hlt.
Qed.

Lemma args_ok_sound : forall evs params sl thr,
    nodupb (marshal_slots evs) = true -> length sl = 5%nat ->
    forall args tys i ps,
      args_ok evs i args tys = true -> Forall2 in_range tys ps ->
      (forall k, nth (i + k) params 0 = nth k ps 0) ->
      map (arg_val (marshal evs params sl) thr) args = ps.
Proof.
  intros evs params sl thr Hnd Hlen. induction args as [|a args IH]; intros tys i ps Hok Hr Hnth.
  - destruct tys; simpl in Hok; [|discriminate]. inversion Hr. reflexivity.
  - destruct tys as [|ty tys]; simpl in Hok; [discriminate|]. apply andb_prop in Hok. destruct Hok as [Ha Hrest].
    inversion Hr as [|? v ? ps' Hv Hps]; subst. simpl. f_equal.
    + destruct a as [s h| |]; simpl in Ha; try discriminate. apply andb_prop in Ha. destruct Ha as [Hlt Hex].
      apply Nat.ltb_lt in Hlt. apply existsb_exists in Hex. destruct Hex as [e [Hin He]].
      destruct e; try discriminate. apply andb_prop in He. destruct He as [He Hc]. apply andb_prop in He. destruct He as [E1 E2].
      apply Nat.eqb_eq in E1. apply Nat.eqb_eq in E2. subst.
      simpl. rewrite marshal_get with (p := i) (h := h0); try assumption; [|lia].
      specialize (Hnth 0%nat). rewrite Nat.add_0_r in Hnth. simpl in Hnth. rewrite Hnth.
      apply roundtrip with (ty := ty); assumption.
    + apply IH with (tys := tys) (i := S i); try assumption.
      intro k. specialize (Hnth (S k)). rewrite Nat.add_succ_r in Hnth. simpl in Hnth. exact Hnth.
Qed.

(* ------------------------------------------------------------------ transparency of one wrapper call *)
Section Transparent.
  Variable world : Type.
  Variable sys : sysname -> list Z -> world -> world * Z.

  Lemma transparent_gen :
    forall body wrp, wrapper_ok body wrp = true ->
    forall f tys rt, syscall_of (w_op wrp) = Some f -> direct_sig f = Some (tys, rt) ->
    forall params garbage gret thr w,
      Forall2 in_range tys params -> length garbage = 5%nat ->
      in_range rt (snd (sys f params w)) ->
      run_wrapper world sys body wrp params garbage gret thr w = (fst (sys f params w), Some (snd (sys f params w))).
  Proof.
    intros body wrp Hok f tys rt Hs Hd params garbage gret thr w Hr Hlen Hret.
    unfold wrapper_ok in Hok. rewrite Hs, Hd in Hok. unfold run_wrapper.
    destruct (dispatch body (w_op wrp)) as [|[[f' args] r] [|c cs]]; try discriminate.
    - destruct r; [|discriminate]. destruct (w_ret wrp) as [rt'|]; [|discriminate].
      apply andb_prop in Hok; destruct Hok as [Hok Hargs]; apply andb_prop in Hok; destruct Hok as [Hok Hnd]; apply andb_prop in Hok; destruct Hok as [Hok Hrt']; apply andb_prop in Hok; destruct Hok as [Hsys Hpar].
      apply sys_eqb_eq in Hsys. subst f'. apply ctype_eqb_eq in Hrt'. subst rt'.
      apply ctypes_eqb_eq in Hpar.
      simpl. rewrite args_ok_sound with (tys := tys) (i := 0%nat) (ps := params); try assumption; [|intro k; reflexivity].
      destruct (sys f params w) as [w' v]. simpl in *. rewrite interp_mod_id by exact Hret. reflexivity.
    - destruct r; destruct (w_ret wrp); discriminate.
  Qed.

  Lemma wrappers_ok_all :
    forallb (fun w => implb (is_syscall_wrapper switch_body w) (wrapper_ok switch_body w)) wrappers = true.
  Proof. vm_compute. reflexivity. Qed.

  Lemma transparent_lemma :
    forall wrp, In wrp wrappers -> is_syscall_wrapper switch_body wrp = true ->
    exists f tys rt, syscall_of (w_op wrp) = Some f /\ direct_sig f = Some (tys, rt) /\ w_params wrp = tys /\ w_ret wrp = Some rt /\
    forall params garbage gret thr w,
      Forall2 in_range tys params -> length garbage = 5%nat ->
      in_range rt (snd (sys f params w)) ->
      run_wrapper world sys switch_body wrp params garbage gret thr w = (fst (sys f params w), Some (snd (sys f params w))).
  Proof.
    intros wrp Hin Hsw. pose proof (proj1 (forallb_forall _ _) wrappers_ok_all wrp Hin) as H. simpl in H.
    rewrite Hsw in H. simpl in H. pose proof H as Hok. unfold wrapper_ok in H.
    destruct (syscall_of (w_op wrp)) as [f|] eqn:Hs; [|discriminate].
    destruct (direct_sig f) as [[tys rt]|] eqn:Hd; [|discriminate].
    exists f, tys, rt. split; [first [assumption|reflexivity]|]. split; [first [assumption|reflexivity]|].
    destruct (dispatch switch_body (w_op wrp)) as [|[[f' args] r] [|c cs]]; try discriminate;
      destruct r; try discriminate; destruct (w_ret wrp) as [rt'|] eqn:Hrt; try discriminate.
    apply andb_prop in H; destruct H as [H Hargs]; apply andb_prop in H; destruct H as [H Hnd]; apply andb_prop in H; destruct H as [H Hrt']; apply andb_prop in H; destruct H as [Hsys Hpar].
    apply ctype_eqb_eq in Hrt'. apply ctypes_eqb_eq in Hpar. subst rt'. split; [assumption|]. split; [reflexivity|].
    intros. apply transparent_gen with (tys := tys) (rt := rt); assumption.
  Qed.
End Transparent.

(* errno *)
Lemma errno_carried_lemma :
  forall tail wrp, wrapper_restore wrp <> None -> proxy_stores_errno tail = true ->
  forall e0 gerr ret err, (ret = -1 \/ 0 <= ret) ->
    errno_after_wrapper tail wrp e0 gerr ret err = errno_after_direct e0 ret err.
Proof.
  intros tail wrp Hr Hs e0 gerr ret err Hret. unfold errno_after_wrapper, errno_after_direct.
  destruct (wrapper_restore wrp) as [c|]; [|congruence]. rewrite Hs.
  destruct c; unfold cond_holds; destruct Hret as [E|E].
  - subst ret. reflexivity.
  - destruct (Z.ltb_spec ret 0); [lia|reflexivity].
  - subst ret. reflexivity.
  - destruct (Z.eqb_spec ret (-1)); [lia|]. destruct (Z.ltb_spec ret 0); [lia|reflexivity].
Qed.

Lemma errno_tables_lemma :
  forall body tail ws, errno_carried body tail ws = true ->
  forall wrp, In wrp ws -> is_syscall_wrapper body wrp = true ->
  forall e0 gerr ret err, (ret = -1 \/ 0 <= ret) ->
    errno_after_wrapper tail wrp e0 gerr ret err = errno_after_direct e0 ret err.
Proof.
  intros body tail ws Hc wrp Hin Hsw e0 gerr ret err Hret. unfold errno_carried in Hc.
  apply andb_prop in Hc. destruct Hc as [Hs Hall].
  pose proof (proj1 (forallb_forall _ _) Hall wrp Hin) as H. cbv beta in H. rewrite Hsw in H.
  apply errno_carried_lemma; try assumption.
  destruct (wrapper_restore wrp); [congruence|discriminate].
Qed.

Lemma errno_refuted_lemma :
  forall tail wrp, wrapper_restore wrp = None ->
  exists e0 gerr ret err, ret < 0 /\ errno_after_wrapper tail wrp e0 gerr ret err <> errno_after_direct e0 ret err.
Proof.
  intros tail wrp H. exists 0, 0, (-1), 9. split; [lia|]. unfold errno_after_wrapper. rewrite H. vm_compute. congruence.
Qed.

Lemma errno_success_lemma :
  forall tail wrp e0 gerr ret err, 0 <= ret -> errno_after_wrapper tail wrp e0 gerr ret err = errno_after_direct e0 ret err.
Proof.
  intros tail wrp e0 gerr ret err H. unfold errno_after_wrapper, errno_after_direct.
  destruct (Z.ltb_spec ret 0); [lia|]. destruct (wrapper_restore wrp) as [[|]|]; unfold cond_holds; try reflexivity.
  - destruct (Z.ltb_spec ret 0); [lia|reflexivity].
  - destruct (Z.eqb_spec ret (-1)); [lia|reflexivity].
Qed.

(* the source is in one of the two consistent states: errno carried by the proxy AND restored by every system-call wrapper
   (and by nothing else), or not mentioned at all.  A half-applied change (a wrapper restoring a field the proxy never
   fills, one wrapper forgotten, the store placed after the requeue) makes this fail. *)
Lemma errno_consistent_lemma :
  errno_carried switch_body proxy_tail wrappers || errno_absent proxy_tail wrappers = true.
Proof. vm_compute. reflexivity. Qed.

(* ------------------------------------------------------------------ all interleavings of one job's life cycle *)
Definition emit1 (e : option obs) (tr : list obs) : list obs := match e with Some x => x :: tr | None => tr end.

Inductive exec : list nat -> list action -> list action -> list obs -> Prop :=
| ex_done : forall fl, exec fl [] [] []
| ex_dead : forall fl T P, fire fl T = None -> fire fl P = None -> (T <> [] \/ P <> []) -> exec fl T P [ODeadlock]
| ex_task : forall fl T P e fl' T' tr, fire fl T = Some (e, fl', T') -> exec fl' T' P tr -> exec fl T P (emit1 e tr)
| ex_proxy : forall fl T P e fl' P' tr, fire fl P = Some (e, fl', P') -> exec fl' T P' tr -> exec fl T P (emit1 e tr).

Lemma fire_length : forall fl p e fl' p', fire fl p = Some (e, fl', p') -> length p = S (length p').
Proof.
  intros fl [|a p] e fl' p' H; simpl in H; [discriminate|].
  destruct a; try (inversion H; subst; reflexivity).
  destruct (flag_set k fl); inversion H; subst; reflexivity.
Qed.

Lemma in_emit : forall e tr trs, In tr trs -> In (emit1 e tr) (emit e trs).
Proof. intros [x|] tr trs H; simpl; [apply in_map; exact H|exact H]. Qed.

Lemma runs_complete : forall fl T P tr, exec fl T P tr ->
  forall fuel, (length T + length P < fuel)%nat -> In tr (runs fuel fl T P).
Proof.
  induction 1 as [fl|fl T P HT HP Hne|fl T P e fl' T' tr HT Hex IH|fl T P e fl' P' tr HP Hex IH]; intros fuel Hf;
    (destruct fuel as [|n]; [lia|]); simpl.
  - left. reflexivity.
  - rewrite HT, HP. destruct T; destruct P; simpl; auto. destruct Hne; congruence.
  - rewrite HT. pose proof (fire_length _ _ _ _ _ HT) as L.
    destruct (fire fl P) as [[[e2 fl2] P2]|].
    + apply in_or_app. left. apply in_emit. apply IH. lia.
    + apply in_emit. apply IH. lia.
  - rewrite HP. pose proof (fire_length _ _ _ _ _ HP) as L.
    destruct (fire fl T) as [[[e1 fl1] T1]|].
    + apply in_or_app. right. apply in_emit. apply IH. lia.
    + apply in_emit. apply IH. lia.
Qed.

Definition job_exec (wrp : wrapper) (tr : list obs) : Prop :=
  exec [] (task_prog switch_body end_action_events wrp) (proxy_prog switch_body proxy_tail (w_op wrp)) tr.

Lemma job_traces_ok_all :
  forallb (fun w => wrapper_wf w && forallb trace_ok (job_runs switch_body proxy_tail end_action_events w)) wrappers = true.
Proof. vm_compute. reflexivity. Qed.

Lemma job_trace_ok : forall wrp, In wrp wrappers -> forall tr, job_exec wrp tr -> trace_ok tr = true.
Proof.
  intros wrp Hin tr Hex. pose proof (proj1 (forallb_forall _ _) job_traces_ok_all wrp Hin) as H. simpl in H.
  apply andb_prop in H. destruct H as [_ H]. apply (proj1 (forallb_forall _ _) H).
  unfold job_runs. apply runs_complete; [exact Hex|lia].
Qed.

Lemma job_released_once_lemma :
  forall wrp, In wrp wrappers -> forall tr, job_exec wrp tr ->
    count is_free tr = 1%nat /\ no_touch_after_free tr = true /\ count is_deadlock tr = 0%nat.
Proof.
  intros wrp Hin tr Hex. pose proof (job_trace_ok wrp Hin tr Hex) as H. unfold trace_ok in H.
  repeat (apply andb_prop in H; destruct H as [H ?]).
  apply Nat.eqb_eq in H. apply Nat.eqb_eq in H1. auto.
Qed.

Lemma resumes_once_lemma :
  forall wrp, In wrp wrappers -> forall tr, job_exec wrp tr ->
    count is_requeue tr = 1%nat /\ after is_requeue is_return tr = true.
Proof.
  intros wrp Hin tr Hex. pose proof (job_trace_ok wrp Hin tr Hex) as H. unfold trace_ok in H.
  repeat (apply andb_prop in H; destruct H as [H ?]).
  apply Nat.eqb_eq in H2. auto.
Qed.

(* any number of calls, one after the other, on a record that the pool keeps recycling *)
Lemma ledger_run_app : forall a b s,
    ledger_run s (a ++ b) = match ledger_run s a with Some s' => ledger_run s' b | None => None end.
Proof.
  induction a as [|e a IH]; intros b s; simpl; [reflexivity|].
  destruct (ledger_step s e); [apply IH|reflexivity].
Qed.

Lemma job_ledger_closed_all :
  forallb (fun w => forallb ledger_closed (job_runs switch_body proxy_tail end_action_events w)) wrappers = true.
Proof. vm_compute. reflexivity. Qed.

Lemma job_ledger_closed : forall wrp, In wrp wrappers -> forall tr, job_exec wrp tr -> ledger_run LFreeSt tr = Some LFreeSt.
Proof.
  intros wrp Hin tr Hex. pose proof (proj1 (forallb_forall _ _) job_ledger_closed_all wrp Hin) as H. cbv beta in H.
  assert (ledger_closed tr = true) as C.
  { apply (proj1 (forallb_forall _ _) H). unfold job_runs. apply runs_complete; [exact Hex|lia]. }
  unfold ledger_closed in C. destruct (ledger_run LFreeSt tr) as [[|]|]; congruence.
Qed.

Lemma sequence_ledger_ok_lemma :
  forall trs, Forall (fun tr => exists wrp, In wrp wrappers /\ job_exec wrp tr) trs ->
              ledger_run LFreeSt (concat trs) = Some LFreeSt.
Proof.
  induction 1 as [|tr trs [wrp [Hin Hex]] _ IH]; simpl; [reflexivity|].
  rewrite ledger_run_app. rewrite (job_ledger_closed wrp Hin tr Hex). exact IH.
Qed.

From Coq Require Import String.
(* the pre-fix protocol (proxy frees every job, c697d62 reverted): a run with two frees exists *)
Lemma proxy_frees_all_refuted_lemma :
  exists wrp tr, In wrp wrappers /\
    exec [] (task_prog switch_body end_action_events wrp) (proxy_prog switch_body [PRequeue; PFree all_ops] (w_op wrp)) tr /\
    count is_free tr = 2%nat.
Proof.
  destruct (find_wrapper wrappers "qt_read") as [w|] eqn:E; [|vm_compute in E; discriminate].
  exists w. vm_compute in E. inversion E; subst w. eexists. split; [vm_compute; tauto|]. split.
  - repeat (first [ apply ex_done
                  | eapply ex_task; [vm_compute; reflexivity|]
                  | eapply ex_proxy; [vm_compute; reflexivity|] ]).
  - vm_compute. reflexivity.
Qed.

(* non-vacuity: the life cycle of a qt_read job and of a user-defined action have runs *)
Lemma job_exec_inhabited :
  forall name, name = "qt_read"%string \/ name = "qt_begin_blocking_action"%string ->
  exists wrp tr, find_wrapper wrappers name = Some wrp /\ In wrp wrappers /\ job_exec wrp tr.
Proof.
  intros name [E|E]; subst name;
  (match goal with |- context [find_wrapper wrappers ?n] => destruct (find_wrapper wrappers n) as [w|] eqn:F; [|vm_compute in F; discriminate] end;
   exists w; vm_compute in F; inversion F; subst w; eexists; split; [reflexivity|]; split; [vm_compute; tauto|];
   unfold job_exec;
   repeat (first [ apply ex_done
                 | eapply ex_task; [vm_compute; reflexivity|]
                 | eapply ex_proxy; [vm_compute; reflexivity|] ])).
Qed.

(* non-vacuity of [transparent]'s hypotheses: a pread with a > 4 GiB offset and a negative descriptor are in range *)
Example transparent_hyps_inhabited :
  Forall2 in_range [TI32; TPtr; TU64; TI64] [5; 140737488355000; 10; 4294967303]%Z /\
  Forall2 in_range [TI32; TPtr; TU64] [-1; 0; 0]%Z /\ in_range TI64 (-1)%Z.
Proof. repeat split; repeat constructor; vm_compute; intuition congruence. Qed.

(* regression on the tables as they were before the errno fix: a wrapper of that shape loses the error code *)
Definition old_read_wrapper : wrapper :=
  mkWrapper "qt_read" READ [TI32; TPtr; TU64] (Some TI64)
    [WAlloc; WSetThread; WSetOp; WMarshal 0 0 (InMemcpy W4); WMarshal 1 1 InCast; WMarshal 2 2 InCast; WSetBlockedOn; WSetState;
     WPark; WReadRet; WFree; WReturnRet].
Example errno_lost_on_old_tables :
  wrapper_restore old_read_wrapper = None /\
  errno_after_wrapper [PRequeue; PFree [USER_DEFINED]] old_read_wrapper 0 0 (-1) 9 <> errno_after_direct 0 (-1) 9.
Proof. split; vm_compute; congruence. Qed.
(* ... and one of the fixed shape carries it *)
Definition new_read_wrapper : wrapper :=
  mkWrapper "qt_read" READ [TI32; TPtr; TU64] (Some TI64)
    [WAlloc; WSetThread; WSetOp; WMarshal 0 0 (InMemcpy W4); WMarshal 1 1 InCast; WMarshal 2 2 InCast; WSetBlockedOn; WSetState;
     WPark; WReadRet; WRestoreErr ErrMinus1; WFree; WReturnRet].
Example errno_carried_on_new_tables :
  wrapper_restore new_read_wrapper <> None /\ proxy_stores_errno [PStoreErr; PRequeue; PFree [USER_DEFINED]] = true /\
  errno_after_wrapper [PStoreErr; PRequeue; PFree [USER_DEFINED]] new_read_wrapper 0 77 (-1) 9 = errno_after_direct 0 (-1) 9.
Proof. repeat split; vm_compute; congruence. Qed.

