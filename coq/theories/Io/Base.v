(* C20 — blocking system-call proxies: vocabulary shared by the source-generated tables (GenIoSwitch.v)
   and the model (Model.v).  Definitions only. *)
From Coq Require Import List ZArith Bool String.
Import ListNotations.

(* the enum blocking_syscalls of include/qt_blocking_structs.h *)
Inductive op := ACCEPT | CONNECT | NANOSLEEP | POLL | READ | PREAD | SELECT | SLEEP | SYSTEM | USLEEP
              | WAIT4 | WRITE | PWRITE | USER_DEFINED.

Definition all_ops : list op :=
  [ACCEPT; CONNECT; NANOSLEEP; POLL; READ; PREAD; SELECT; SLEEP; SYSTEM; USLEEP; WAIT4; WRITE; PWRITE; USER_DEFINED].

Definition op_idx (o : op) : nat :=
  match o with
  | ACCEPT => 0 | CONNECT => 1 | NANOSLEEP => 2 | POLL => 3 | READ => 4 | PREAD => 5 | SELECT => 6 | SLEEP => 7
  | SYSTEM => 8 | USLEEP => 9 | WAIT4 => 10 | WRITE => 11 | PWRITE => 12 | USER_DEFINED => 13
  end.
Definition op_eqb (a b : op) : bool := Nat.eqb (op_idx a) (op_idx b).

(* what the proxy can execute.  SysExecTask = qthread_exec of the parked task on the proxy pthread
   (the user-defined blocking region); SysUnknown = any other function the generator met in a case body. *)
Inductive sysname := SysAccept | SysConnect | SysPoll | SysRead | SysPread | SysSelect | SysSystem | SysWait4
                   | SysWrite | SysPwrite | SysNanosleep | SysSleep | SysUsleep | SysExecTask | SysUnknown.
Definition sys_idx (s : sysname) : nat :=
  match s with
  | SysAccept => 0 | SysConnect => 1 | SysPoll => 2 | SysRead => 3 | SysPread => 4 | SysSelect => 5 | SysSystem => 6
  | SysWait4 => 7 | SysWrite => 8 | SysPwrite => 9 | SysNanosleep => 10 | SysSleep => 11 | SysUsleep => 12
  | SysExecTask => 13 | SysUnknown => 14
  end.
Definition sys_eqb (a b : sysname) : bool := Nat.eqb (sys_idx a) (sys_idx b).

(* C scalar types of the LP64 little-endian target: width in bytes and signedness.  Pointers are TPtr. *)
Inductive ctype := TI32 | TU32 | TI64 | TU64 | TPtr.
Inductive width := W4 | W8.
Definition cwidth (t : ctype) : width := match t with TI32 | TU32 => W4 | _ => W8 end.
Definition csigned (t : ctype) : bool := match t with TI32 | TI64 => true | _ => false end.
Definition width_eqb (a b : width) : bool := match a, b with W4, W4 | W8, W8 => true | _, _ => false end.
Definition ctype_eqb (a b : ctype) : bool :=
  match a, b with TI32, TI32 | TU32, TU32 | TI64, TI64 | TU64, TU64 | TPtr, TPtr => true | _, _ => false end.

(* how a wrapper stores parameter number p into job->args[slot] *)
Inductive inhow :=
| InMemcpy (w : width)      (* memcpy(&job->args[k], &param, w): the upper bytes of the slot keep their old contents *)
| InCast.                   (* job->args[k] = (uintptr_t)param *)
(* how the proxy gets an argument of the system call back out of a slot *)
Inductive outhow :=
| OutMemcpy (copied : width) (t : ctype)   (* T v; memcpy(&v, &item->args[k], copied) *)
| OutCast (t : ctype).                     (* (T)item->args[k] *)

Inductive argspec :=
| ASlot (slot : nat) (h : outhow)
| AThread                    (* item->thread *)
| AOther.                    (* anything else (constants, addresses of proxy locals) *)

(* the flat body of switch(item->op), in source order *)
Inductive switch_elem :=
| SCase (o : op)
| SDefault
| SCall (f : sysname) (args : list argspec) (to_ret : bool)   (* to_ret: the result is stored into item->ret *)
| SBreak.

(* what the proxy does after the switch *)
Inductive pevent :=
| PRequeue                   (* qt_threadqueue_enqueue(item->thread->rdata->shepherd_ptr->ready, item->thread) *)
| PFree (ops : list op)      (* FREE_SYSCALLJOB(item), executed when item->op is in ops *)
| PStoreErr.                 (* item->err = errno: the proxied call's error code, taken on the proxy pthread *)

(* the test under which a wrapper restores errno from the job *)
Inductive errcond := ErrNeg (* ret < 0 *) | ErrMinus1 (* ret == -1 *).

(* what a wrapper does, in source order *)
Inductive wevent :=
| WAlloc | WSetThread | WSetOp | WMarshal (slot : nat) (param : nat) (h : inhow) | WSetBlockedOn | WSetState
| WPark | WReadRet | WFree | WReturnRet | WReturnVoid
| WRestoreErr (c : errcond).  (* if (c ret) errno = job->err *)

Record wrapper := mkWrapper {
  w_name   : string;
  w_op     : op;
  w_params : list ctype;
  w_ret    : option ctype;        (* None: void *)
  w_events : list wevent }.
