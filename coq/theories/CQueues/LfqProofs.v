(* C15 qlfqueue: proofs about the micro-step model of CQueues/Lfq.v (Michael-Scott queue).

   All theorems quantify over every list of thread programs and EVERY schedule (list of thread ids); they are
   proved by induction over the schedule with the invariant [Inv] (ghost list L of all nodes ever linked).     *)
From Coq Require Import List NArith Bool Arith Lia ZifyBool ZifyNat ZifyN.
From QV Require Import CQueues.Lfq.
Import ListNotations.
Local Open Scope N_scope.

(* ------------------------------------------------------------------ heap *)
Lemma hget_hset h a n b : hget (hset h a n) b = if b =? a then n else hget h b.
Proof.
  induction h as [|[c m] h IH]; cbn [hset hget].
  - reflexivity.
  - destruct (N.eqb_spec a c) as [Hac|Hac]; cbn [hget].
    + subst c. destruct (b =? a); reflexivity.
    + rewrite IH. destruct (N.eqb_spec b c) as [Hbc|Hbc]; [|reflexivity].
      subst c. destruct (N.eqb_spec b a); [congruence|reflexivity].
Qed.

Lemma hget_hset_ne h a n b : b <> a -> hget (hset h a n) b = hget h b.
Proof. intros H. rewrite hget_hset. destruct (N.eqb_spec b a); [contradiction|reflexivity]. Qed.

Lemma hget_hset_eq h a n : hget (hset h a n) a = n.
Proof. rewrite hget_hset, N.eqb_refl. reflexivity. Qed.

Lemma val_set_next h a x b : n_val (hget (set_next h a x) b) = n_val (hget h b).
Proof. unfold set_next. rewrite hget_hset. destruct (N.eqb_spec b a) as [Hba|Hba]; [subst|]; reflexivity. Qed.

Lemma hget_set_next_ne h a x b : b <> a -> hget (set_next h a x) b = hget h b.
Proof. intros H. unfold set_next. apply hget_hset_ne; exact H. Qed.

Lemma next_set_next_eq h a x : n_next (hget (set_next h a x) a) = x.
Proof. unfold set_next. rewrite hget_hset_eq. reflexivity. Qed.

(* ------------------------------------------------------------------ lists *)
Lemma nth_lset_eq {A} (l : list A) i x y : nth_error l i = Some x -> nth_error (lset_nth l i y) i = Some y.
Proof. revert i; induction l as [|z l IH]; intros [|i] H; cbn in *; try discriminate; auto. Qed.

Lemma nth_lset_ne {A} (l : list A) i j y : i <> j -> nth_error (lset_nth l i y) j = nth_error l j.
Proof.
  revert i j; induction l as [|z l IH]; intros [|i] [|j] H; cbn; try reflexivity; try congruence.
  apply IH; congruence.
Qed.

Lemma in_firstn_nth {A} (a : A) n l : In a (firstn n l) -> exists i, (i < n)%nat /\ nth_error l i = Some a.
Proof.
  revert l; induction n as [|n IH]; intros [|b l] H; cbn in H; try contradiction.
  destruct H as [H|H].
  - subst b. exists O; split; [lia|reflexivity].
  - destruct (IH _ H) as (i & Hi & Hn). exists (S i); split; [lia|exact Hn].
Qed.

Lemma nth_in_firstn {A} (a : A) l : forall i n, nth_error l i = Some a -> (i < n)%nat -> In a (firstn n l).
Proof.
  induction l as [|b l IH]; intros [|i] [|n] H Hlt; cbn in *; try discriminate; try lia.
  - left; congruence.
  - right; eapply IH; eauto; lia.
Qed.

Lemma NoDup_snoc {A} (l : list A) x : NoDup l -> ~ In x l -> NoDup (l ++ [x]).
Proof.
  induction l as [|b l IH]; intros Hnd Hni; cbn.
  - constructor; [intros []|constructor].
  - inversion Hnd as [|? ? Hb Hl]; subst. constructor.
    + rewrite in_app_iff; cbn. intros [H|[H|[]]]; [contradiction|]. subst; apply Hni; left; reflexivity.
    + apply IH; [exact Hl|]. intros H; apply Hni; right; exact H.
Qed.

Lemma nodup_idx {A} (l : list A) i j a : NoDup l -> nth_error l i = Some a -> nth_error l j = Some a -> i = j.
Proof.
  intros Hnd Hi Hj. rewrite NoDup_nth_error in Hnd. apply Hnd; [|congruence].
  apply nth_error_Some; congruence.
Qed.

Lemma firstn_S_snoc {A} (M : list A) : forall k p, nth_error M k = Some p -> firstn (S k) M = firstn k M ++ [p].
Proof.
  induction M as [|b M IH]; intros [|k] p H; cbn in H; try discriminate.
  - injection H as ->. reflexivity.
  - cbn [firstn app]. f_equal. change (firstn (S k) M = firstn k M ++ [p]). apply IH; exact H.
Qed.

Lemma nth_error_tl {A} (l : list A) k : nth_error (List.tl l) k = nth_error l (S k).
Proof. destruct l; destruct k; reflexivity. Qed.

Lemma length_tl {A} (l : list A) : length (List.tl l) = pred (length l).
Proof. destruct l; reflexivity. Qed.

Lemma tl_snoc {A} (l : list A) x : l <> [] -> List.tl (l ++ [x]) = List.tl l ++ [x].
Proof. destruct l; [congruence|reflexivity]. Qed.

(* ------------------------------------------------------------------ invariant *)
Definition priv (p : lpc) : option N :=
  match p with
  | QeLdTail nd | QeHz nd _ | QeChkTail nd _ | QeLdNext nd _ | QeCasHelp nd _ _ | QeCasLink nd _ => Some nd
  | _ => None
  end.

Definition privn (h : heap) (f : N) (L : list N) (nd v : N) : Prop :=
  1 <= nd /\ nd < f /\ ~ In nd L /\ hget h nd = mkNode v 0.

Definition before (L : list N) (k : nat) (a : N) : Prop := In a (firstn (S k) L).

Definition pcinv (h : heap) (f : N) (L : list N) (nE nD : nat) (cur : option lop) (p : lpc) : Prop :=
  match p with
  | LIdle => cur = None
  | QeAlloc v => cur = Some (LEnq v)
  | QeLdTail nd => exists v, cur = Some (LEnq v) /\ privn h f L nd v
  | QeHz nd a | QeChkTail nd a | QeLdNext nd a | QeCasLink nd a =>
      exists v, cur = Some (LEnq v) /\ privn h f L nd v /\ In a L
  | QeCasHelp nd a nx => exists v, cur = Some (LEnq v) /\ privn h f L nd v /\ In nx L
  | QeCasSwing nd a => exists v, cur = Some (LEnq v) /\ In nd L
  | QeHzClr => exists v, cur = Some (LEnq v)
  | QdLdHead => cur = Some LDeq
  | QdHz0 a | QdChkHead a | QdLdTail a => cur = Some LDeq /\ before L nD a
  | QdLdNext a _ => cur = Some LDeq /\ before L nD a
  | QdHz1 a _ nx => cur = Some LDeq /\ before L nD a /\ (nx <> 0 -> n_next (hget h a) = nx)
  | QdCasHelp _ nx => cur = Some LDeq /\ In nx L
  | QdLdVal a nx => cur = Some LDeq /\ before L nD a /\ nx <> 0 /\ n_next (hget h a) = nx
  | QdCasHead a nx p =>
      cur = Some LDeq /\ before L nD a /\ nx <> 0 /\ n_next (hget h a) = nx /\ In nx L /\ p = n_val (hget h nx)
  | QdRel _ _ => cur = Some LDeq
  | QmLdHead => cur = Some LEmp
  | QmLdTail a g => cur = Some LEmp /\ (g <= nE)%nat /\ before L nD a
  | QmLdNext a _ g => cur = Some LEmp /\ (g <= nE)%nat /\ before L nD a
  | QmMF _ _ nx g | QmChk _ _ nx g => cur = Some LEmp /\ (nx = 0 -> (g <= nD)%nat)
  end.

Record ginv (h : heap) (hdp tlp f : N) (L : list N) (E D : list (nat * N)) : Prop := {
  g_nd : NoDup L;
  g_rng : forall a, In a L -> 1 <= a /\ a < f;
  g_chain : forall i a, nth_error L i = Some a -> n_next (hget h a) = nth (S i) L 0;
  g_vals : map snd E = map (fun a => n_val (hget h a)) (List.tl L);
  g_head : nth_error L (length D) = Some hdp;
  g_pref : map snd D = firstn (length D) (map snd E);
  g_tail : In tlp L
}.

Definition thr_ok (s : lstate) (L : list N) : Prop :=
  forall t th, nth_error (s_thr s) t = Some th ->
    pcinv (s_heap s) (s_fresh s) L (length (g_enq s)) (length (g_deq s)) (lt_cur th) (lt_pc th).

Definition thr_dj (thr : list lthread) : Prop :=
  forall t1 t2 th1 th2 nd, t1 <> t2 -> nth_error thr t1 = Some th1 -> nth_error thr t2 = Some th2 ->
    priv (lt_pc th1) = Some nd -> priv (lt_pc th2) = Some nd -> False.

Definition Inv (s : lstate) (L : list N) : Prop :=
  ginv (s_heap s) (s_head s) (s_tail s) (s_fresh s) L (g_enq s) (g_deq s) /\ thr_ok s L /\ thr_dj (s_thr s).

Lemma before_in L k a : before L k a -> In a L.
Proof. intros H. destruct (in_firstn_nth _ _ _ H) as (i & _ & Hi). eapply nth_error_In; eauto. Qed.

Lemma in_tl {A} (a : A) l : In a (List.tl l) -> In a l.
Proof. destruct l; cbn; auto. Qed.

(* ---- consequences of ginv *)
Section GInv.
  Variables (h : heap) (hdp tlp f : N) (L : list N) (E D : list (nat * N)).
  Hypothesis G : ginv h hdp tlp f L E D.

  Lemma g_lenD : (length D < length L)%nat.
  Proof. apply nth_error_Some. rewrite (g_head _ _ _ _ _ _ _ G). discriminate. Qed.

  Lemma g_lenE : length E = pred (length L).
  Proof.
    rewrite <- (map_length snd E), (g_vals _ _ _ _ _ _ _ G), map_length. apply length_tl.
  Qed.

  Lemma g_ne : L <> [].
  Proof. pose proof g_lenD as H. destruct L; [cbn in H; lia|discriminate]. Qed.

  Lemma chain_next_in a : In a L -> n_next (hget h a) <> 0 -> In (n_next (hget h a)) L.
  Proof.
    intros Ha Hn. destruct (In_nth_error _ _ Ha) as [i Hi].
    rewrite (g_chain _ _ _ _ _ _ _ G i a Hi) in *.
    destruct (lt_dec (S i) (length L)) as [Hlt|Hge].
    - apply nth_In; exact Hlt.
    - rewrite nth_overflow in Hn by lia. congruence.
  Qed.

  Lemma chain_last i a : nth_error L i = Some a -> n_next (hget h a) = 0 -> S i = length L.
  Proof.
    intros Hi Hn. rewrite (g_chain _ _ _ _ _ _ _ G i a Hi) in Hn.
    assert (Hlt : (i < length L)%nat) by (apply nth_error_Some; congruence).
    destruct (lt_dec (S i) (length L)) as [Hlt2|Hge]; [|lia].
    pose proof (nth_In L 0 Hlt2) as Hin. apply (g_rng _ _ _ _ _ _ _ G) in Hin. lia.
  Qed.

  Lemma head_before : before L (length D) hdp.
  Proof. unfold before. eapply nth_in_firstn; [apply (g_head _ _ _ _ _ _ _ G)|lia]. Qed.

  (* T2 argument: a node at or before head with next = 0 is the last one: everything linked was dequeued *)
  Lemma before_last a : before L (length D) a -> n_next (hget h a) = 0 -> length D = length E.
  Proof.
    intros Hb Hn. destruct (in_firstn_nth _ _ _ Hb) as (i & Hi & Hnth).
    pose proof (chain_last i a Hnth Hn). pose proof g_lenD. rewrite g_lenE. lia.
  Qed.

  (* head CAS: the successor of head carries the next value of the enqueue stream *)
  Lemma head_succ nx : n_next (hget h hdp) = nx -> nx <> 0 ->
    nth_error L (S (length D)) = Some nx /\ nth_error (map snd E) (length D) = Some (n_val (hget h nx)).
  Proof.
    intros Hn Hnz. rewrite (g_chain _ _ _ _ _ _ _ G _ _ (g_head _ _ _ _ _ _ _ G)) in Hn.
    assert (Hlt : (S (length D) < length L)%nat).
    { destruct (lt_dec (S (length D)) (length L)); [assumption|]. rewrite nth_overflow in Hn by lia. congruence. }
    assert (H1 : nth_error L (S (length D)) = Some nx).
    { rewrite (nth_error_nth' L 0 Hlt). congruence. }
    split; [exact H1|]. rewrite (g_vals _ _ _ _ _ _ _ G).
    apply (map_nth_error (fun a => n_val (hget h a))). rewrite nth_error_tl. exact H1.
  Qed.
End GInv.

Lemma before_mono L X k k' a : (k <= k')%nat -> before L k a -> before (L ++ X) k' a.
Proof.
  unfold before. intros Hk H. destruct (in_firstn_nth _ _ _ H) as (i & Hi & Hn).
  eapply nth_in_firstn with (i := i); [|lia].
  rewrite nth_error_app1; [exact Hn|]. apply nth_error_Some; congruence.
Qed.

Lemma pcinv_stable h f L nE nD h' f' X nE' nD' cur pc :
  (forall a, In a L -> n_val (hget h' a) = n_val (hget h a)) ->
  (forall a, In a L -> n_next (hget h a) <> 0 -> n_next (hget h' a) = n_next (hget h a)) ->
  (forall nd, priv pc = Some nd -> 1 <= nd /\ nd < f -> ~ In nd L -> hget h' nd = hget h nd /\ ~ In nd X) ->
  f <= f' -> (nE <= nE')%nat -> (nD <= nD')%nat ->
  pcinv h f L nE nD cur pc -> pcinv h' f' (L ++ X) nE' nD' cur pc.
Proof.
  intros Hval Hnext Hpriv Hf HE HD.
  assert (Hpv : forall nd v, priv pc = Some nd -> privn h f L nd v -> privn h' f' (L ++ X) nd v).
  { intros nd v Hp (H1 & H2 & H3 & H4). destruct (Hpriv nd Hp (conj H1 H2) H3) as [Ha Hb].
    split; [exact H1|]. split; [lia|]. split; [rewrite in_app_iff; tauto|]. rewrite Ha; exact H4. }
  assert (Hbf : forall a, before L nD a -> before (L ++ X) nD' a) by (intros a; apply before_mono; exact HD).
  assert (Hin : forall a, In a L -> In a (L ++ X)) by (intros; apply in_or_app; auto).
  assert (Hnx : forall a nx, before L nD a -> nx <> 0 -> n_next (hget h a) = nx -> n_next (hget h' a) = nx).
  { intros a nx Hb Hnz Hn. rewrite Hnext; [exact Hn|eapply before_in; eauto|congruence]. }
  destruct pc; cbn [pcinv priv] in *; intros H.
  all: try (destruct H as (v & H); exists v).
  all: try solve [intuition eauto].
  - (* QdCasHead *) destruct H as (H1 & H2 & H3 & H4 & H5 & H6). repeat split; eauto.
    rewrite Hval by exact H5. exact H6.
  - intuition (auto; try lia).
  - intuition (auto; try lia).
  - intuition (auto; try lia).
  - intuition (auto; try lia).
Qed.

Lemma pcinv_stable0 h f L nE nD h' f' nE' nD' cur pc :
  (forall a, In a L -> n_val (hget h' a) = n_val (hget h a)) ->
  (forall a, In a L -> n_next (hget h a) <> 0 -> n_next (hget h' a) = n_next (hget h a)) ->
  (forall nd, priv pc = Some nd -> 1 <= nd /\ nd < f -> ~ In nd L -> hget h' nd = hget h nd) ->
  f <= f' -> (nE <= nE')%nat -> (nD <= nD')%nat ->
  pcinv h f L nE nD cur pc -> pcinv h' f' L nE' nD' cur pc.
Proof.
  intros Hval Hnext Hpriv Hf HE HD H. rewrite <- (app_nil_r L).
  eapply pcinv_stable with (X := []); eauto.
Qed.

Lemma priv_privn h f L nE nD cur pc nd :
  priv pc = Some nd -> pcinv h f L nE nD cur pc -> exists v, cur = Some (LEnq v) /\ privn h f L nd v.
Proof.
  destruct pc; cbn [priv pcinv]; try discriminate; intros [= <-] (v & H1 & H2); exists v; tauto.
Qed.

(* ---- generic re-establishment of Inv after a step of thread t *)
Lemma inv_update s L t th s' L' th' :
  Inv s L -> nth_error (s_thr s) t = Some th ->
  s_thr s' = lset_nth (s_thr s) t th' ->
  ginv (s_heap s') (s_head s') (s_tail s') (s_fresh s') L' (g_enq s') (g_deq s') ->
  pcinv (s_heap s') (s_fresh s') L' (length (g_enq s')) (length (g_deq s')) (lt_cur th') (lt_pc th') ->
  (forall t2 th2, t2 <> t -> nth_error (s_thr s) t2 = Some th2 ->
     pcinv (s_heap s) (s_fresh s) L (length (g_enq s)) (length (g_deq s)) (lt_cur th2) (lt_pc th2) ->
     pcinv (s_heap s') (s_fresh s') L' (length (g_enq s')) (length (g_deq s')) (lt_cur th2) (lt_pc th2)) ->
  (forall t2 th2 nd, t2 <> t -> nth_error (s_thr s) t2 = Some th2 ->
     priv (lt_pc th2) = Some nd -> priv (lt_pc th') = Some nd -> False) ->
  Inv s' L'.
Proof.
  intros (G & TO & DJ) Hth Hthr G' Hp Hoth Hdj. split; [exact G'|split].
  - intros t2 th2 H2. rewrite Hthr in H2. destruct (Nat.eq_dec t t2) as [Heq|Hne].
    + subst t2. rewrite (nth_lset_eq _ _ _ _ Hth) in H2. injection H2 as <-. exact Hp.
    + rewrite nth_lset_ne in H2 by exact Hne. apply (Hoth t2); auto. apply (TO t2); exact H2.
  - rewrite Hthr. intros t1 t2 th1 th2 nd Hne H1 H2 P1 P2.
    destruct (Nat.eq_dec t t1) as [E1|N1]; destruct (Nat.eq_dec t t2) as [E2|N2].
    + congruence.
    + subst t1. rewrite (nth_lset_eq _ _ _ _ Hth) in H1. injection H1 as <-.
      rewrite nth_lset_ne in H2 by exact N2. eapply (Hdj t2); eauto.
    + subst t2. rewrite (nth_lset_eq _ _ _ _ Hth) in H2. injection H2 as <-.
      rewrite nth_lset_ne in H1 by exact N1. eapply (Hdj t1); eauto.
    + rewrite nth_lset_ne in H1 by exact N1. rewrite nth_lset_ne in H2 by exact N2.
      eapply (DJ t1 t2); eauto.
Qed.

Lemma inv_tail s L t th th' tail' :
  Inv s L -> nth_error (s_thr s) t = Some th -> In tail' L ->
  pcinv (s_heap s) (s_fresh s) L (length (g_enq s)) (length (g_deq s)) (lt_cur th') (lt_pc th') ->
  (priv (lt_pc th') = None \/ priv (lt_pc th') = priv (lt_pc th)) ->
  Inv (mkLS (s_heap s) (s_head s) tail' (s_fresh s) (lset_nth (s_thr s) t th') (g_enq s) (g_deq s)) L.
Proof.
  intros HI Hth Htl Hp Hpr. pose proof HI as (G & TO & DJ).
  eapply inv_update with (t := t) (th := th) (th' := th');
    cbn [s_heap s_head s_tail s_fresh s_thr g_enq g_deq]; try reflexivity; try eassumption.
  - destruct G; constructor; auto.
  - auto.
  - intros t2 th2 nd Hne H2 P2 P'. destruct Hpr as [Hpr|Hpr]; [congruence|]. rewrite Hpr in P'.
    eapply (DJ t t2); eauto.
Qed.

Lemma inv_local s L t th th' :
  Inv s L -> nth_error (s_thr s) t = Some th ->
  pcinv (s_heap s) (s_fresh s) L (length (g_enq s)) (length (g_deq s)) (lt_cur th') (lt_pc th') ->
  (priv (lt_pc th') = None \/ priv (lt_pc th') = priv (lt_pc th)) ->
  Inv (with_thr s t th') L.
Proof.
  intros HI Hth Hp Hpr. unfold with_thr. apply inv_tail with (th := th); auto.
  destruct HI as (G & _). apply (g_tail _ _ _ _ _ _ _ G).
Qed.

(* ---- the three steps that change heap / histories *)
Lemma inv_alloc s L t th v :
  Inv s L -> nth_error (s_thr s) t = Some th -> lt_pc th = QeAlloc v ->
  Inv (mkLS (hset (s_heap s) (s_fresh s) (mkNode v 0)) (s_head s) (s_tail s) (s_fresh s + 1)
            (lset_nth (s_thr s) t (lgoto th (QeLdTail (s_fresh s)))) (g_enq s) (g_deq s)) L.
Proof.
  intros HI Hth Hpc. pose proof HI as (G & TO & DJ).
  pose proof (TO t th Hth) as Hp. rewrite Hpc in Hp. cbn [pcinv] in Hp.
  assert (Hold : forall a, In a L -> hget (hset (s_heap s) (s_fresh s) (mkNode v 0)) a = hget (s_heap s) a).
  { intros a Ha. apply hget_hset_ne. apply (g_rng _ _ _ _ _ _ _ G) in Ha. lia. }
  assert (Hf1 : 1 <= s_fresh s).
  { pose proof (g_rng _ _ _ _ _ _ _ G _ (nth_error_In _ _ (g_head _ _ _ _ _ _ _ G))). lia. }
  eapply inv_update with (t := t) (th := th);
    cbn [s_heap s_head s_tail s_fresh s_thr g_enq g_deq]; try reflexivity; try eassumption.
  - destruct G as [G1 G2 G3 G4 G5 G6 G7]. constructor; auto.
    + intros a Ha. apply G2 in Ha. lia.
    + intros i a Hi. rewrite Hold by (eapply nth_error_In; eauto). auto.
    + rewrite G4. apply map_ext_in. intros a Ha. rewrite Hold; [reflexivity|]. apply in_tl; exact Ha.
  - cbn [lgoto lt_cur lt_pc pcinv]. exists v. split; [exact Hp|].
    split; [exact Hf1|]. split; [lia|]. split; [|apply hget_hset_eq].
    intros Hin. apply (g_rng _ _ _ _ _ _ _ G) in Hin. lia.
  - intros t2 th2 Hne H2 Hp2. eapply pcinv_stable0; try exact Hp2; try lia.
    + intros a Ha. rewrite Hold by exact Ha. reflexivity.
    + intros a Ha _. rewrite Hold by exact Ha. reflexivity.
    + intros nd _ Hr _. apply hget_hset_ne. lia.
  - intros t2 th2 nd Hne H2 P2 P'. cbn [lgoto lt_pc priv] in P'. injection P' as <-.
    destruct (priv_privn _ _ _ _ _ _ _ _ P2 (TO t2 th2 H2)) as (v2 & _ & Hpv).
    destruct Hpv as (_ & Hlt & _). lia.
Qed.

Lemma inv_link s L t th nd a :
  Inv s L -> nth_error (s_thr s) t = Some th -> lt_pc th = QeCasLink nd a ->
  n_next (hget (s_heap s) a) = 0 ->
  Inv (mkLS (set_next (s_heap s) a nd) (s_head s) (s_tail s) (s_fresh s)
            (lset_nth (s_thr s) t (lgoto th (QeCasSwing nd a)))
            (g_enq s ++ [(t, n_val (hget (s_heap s) nd))]) (g_deq s)) (L ++ [nd]).
Proof.
  intros HI Hth Hpc Hnx. pose proof HI as (G & TO & DJ).
  pose proof (TO t th Hth) as Hp. rewrite Hpc in Hp. cbn [pcinv] in Hp.
  destruct Hp as (v & Hcur & (Hn1 & Hn2 & Hn3 & Hn4) & HaL).
  destruct (In_nth_error _ _ HaL) as [i Hi].
  pose proof (chain_last _ _ _ _ _ _ _ G i a Hi Hnx) as Hlast.
  assert (Hnda : nd <> a) by (intros ->; contradiction).
  pose proof (g_lenD _ _ _ _ _ _ _ G) as HlenD.
  pose proof (g_lenE _ _ _ _ _ _ _ G) as HlenE.
  eapply inv_update with (t := t) (th := th);
    cbn [s_heap s_head s_tail s_fresh s_thr g_enq g_deq]; try reflexivity; try eassumption.
  - destruct G as [G1 G2 G3 G4 G5 G6 G7]. constructor.
    + apply NoDup_snoc; assumption.
    + intros b Hb. apply in_app_iff in Hb. destruct Hb as [Hb|[Hb|[]]]; [auto|subst b; split; assumption].
    + intros j b Hj. destruct (lt_dec j (length L)) as [Hlt|Hge].
      * rewrite nth_error_app1 in Hj by exact Hlt.
        destruct (N.eq_dec b a) as [Hba|Hba].
        -- subst b. assert (j = i) by (eapply nodup_idx; eauto). subst j.
           rewrite next_set_next_eq. rewrite app_nth2 by lia. rewrite Hlast, Nat.sub_diag. reflexivity.
        -- rewrite hget_set_next_ne by exact Hba. rewrite (G3 j b Hj).
           assert (S j < length L)%nat.
           { destruct (lt_dec (S j) (length L)); [assumption|]. assert (j = i) by lia. subst j. congruence. }
           rewrite app_nth1 by assumption. reflexivity.
      * rewrite nth_error_app2 in Hj by lia.
        destruct (j - length L)%nat as [|m] eqn:Hm; [|destruct m; discriminate].
        cbn in Hj. injection Hj as <-. rewrite hget_set_next_ne by exact Hnda. rewrite Hn4. cbn [n_next].
        rewrite nth_overflow; [reflexivity|]. rewrite app_length. cbn. lia.
    + rewrite map_app, G4, tl_snoc by (eapply g_ne; constructor; eauto). rewrite map_app. cbn [map snd].
      rewrite val_set_next. f_equal. apply map_ext. intros b. rewrite val_set_next. reflexivity.
    + rewrite nth_error_app1 by exact HlenD. exact G5.
    + rewrite map_app, firstn_app. rewrite map_length.
      replace (length (g_deq s) - length (g_enq s))%nat with O by lia. cbn [firstn]. rewrite app_nil_r. exact G6.
    + apply in_or_app; left; exact G7.
  - cbn [lgoto lt_cur lt_pc pcinv]. exists v. split; [exact Hcur|]. apply in_or_app; right; left; reflexivity.
  - intros t2 th2 Hne H2 Hp2. eapply pcinv_stable; try exact Hp2; try lia.
    + intros b _. apply val_set_next.
    + intros b Hb Hnz. rewrite hget_set_next_ne; [reflexivity|]. intros ->. contradiction.
    + intros nd2 P2 _ Hni. split.
      * apply hget_set_next_ne. intros ->. contradiction.
      * intros [Heq|[]]. subst nd2. eapply (DJ t t2); eauto. rewrite Hpc. reflexivity.
    + rewrite app_length. cbn. lia.
  - intros t2 th2 nd2 _ _ _ P'. cbn [lgoto lt_pc priv] in P'. discriminate.
Qed.

Lemma inv_headcas s L t th a nx p :
  Inv s L -> nth_error (s_thr s) t = Some th -> lt_pc th = QdCasHead a nx p -> s_head s = a ->
  Inv (mkLS (s_heap s) nx (s_tail s) (s_fresh s) (lset_nth (s_thr s) t (lgoto th (QdRel a p)))
            (g_enq s) (g_deq s ++ [(t, p)])) L.
Proof.
  intros HI Hth Hpc Hhd. pose proof HI as (G & TO & DJ).
  pose proof (TO t th Hth) as Hp. rewrite Hpc in Hp. cbn [pcinv] in Hp.
  destruct Hp as (Hcur & Hbf & Hnz & Hnx & HnxL & Hpv).
  rewrite <- Hhd in Hnx.
  destruct (head_succ _ _ _ _ _ _ _ G nx Hnx Hnz) as [H1 H2].
  eapply inv_update with (t := t) (th := th);
    cbn [s_heap s_head s_tail s_fresh s_thr g_enq g_deq]; try reflexivity; try eassumption.
  - destruct G as [G1 G2 G3 G4 G5 G6 G7]. constructor; auto.
    + rewrite last_length. exact H1.
    + rewrite map_app, last_length. cbn [map snd]. rewrite (firstn_S_snoc _ _ _ H2), <- G6, Hpv. reflexivity.
  - intros t2 th2 Hne H2' Hp2. eapply pcinv_stable0; try exact Hp2; try lia; auto.
    rewrite last_length. lia.
  - intros t2 th2 nd2 _ _ _ P'. cbn [lgoto lt_pc priv] in P'. discriminate.
Qed.

Lemma lfinish_pc th r : lt_pc (lfinish th r) = LIdle /\ lt_cur (lfinish th r) = None.
Proof. unfold lfinish; destruct (lt_cur th); split; reflexivity. Qed.

Ltac loc L Hth Hpc :=
  exists L; eapply inv_local;
  [eassumption | exact Hth | cbn [lgoto lt_cur lt_pc pcinv]
  | rewrite Hpc; cbn [lgoto lt_pc priv]; auto].
Ltac locfin L Hth :=
  exists L; eapply inv_local;
  [eassumption | exact Hth
  | rewrite (proj1 (lfinish_pc _ _)), (proj2 (lfinish_pc _ _)); reflexivity
  | left; rewrite (proj1 (lfinish_pc _ _)); reflexivity].

Lemma step_inv s t s' r L : Inv s L -> lstep s t = Some (s', r) -> exists L', Inv s' L'.
Proof.
  intros HI Hstep. unfold lstep in Hstep.
  destruct (nth_error (s_thr s) t) as [th|] eqn:Hth; [|discriminate].
  pose proof HI as (G & TO & DJ). pose proof (TO t th Hth) as Hp.
  cbv zeta in Hstep.
  destruct (lt_pc th) eqn:Hpc; cbn [pcinv] in Hp.
  - (* LIdle *)
    destruct (lt_ops th) as [|o rest]; [discriminate|]. injection Hstep as <- <-.
    exists L. eapply inv_local; [eassumption|exact Hth| |]; cbn [lt_cur lt_pc].
    + destruct o; reflexivity.
    + left; destruct o; reflexivity.
  - (* QeAlloc *) injection Hstep as <- <-. exists L. apply inv_alloc; auto.
  - (* QeLdTail *) injection Hstep as <- <-. loc L Hth Hpc.
    destruct Hp as (v0 & Hc & Hv). exists v0. split; [|split]; auto. apply (g_tail _ _ _ _ _ _ _ G).
  - (* QeHz *) injection Hstep as <- <-. loc L Hth Hpc. exact Hp.
  - (* QeChkTail *)
    destruct Hp as (v0 & Hc & Hv & Hi).
    destruct (tl =? s_tail s); injection Hstep as <- <-; loc L Hth Hpc; exists v0; auto.
  - (* QeLdNext *)
    destruct Hp as (v0 & Hc & Hv & Hi).
    destruct (N.eqb_spec (n_next (hget (s_heap s) tl)) 0) as [Hz|Hnz]; injection Hstep as <- <-; loc L Hth Hpc;
      exists v0; split; auto; split; auto.
    eapply chain_next_in; eauto.
  - (* QeCasHelp *)
    destruct Hp as (v0 & Hc & Hv & Hi). injection Hstep as <- <-. exists L.
    eapply inv_tail with (th := th); [eassumption|exact Hth| | |rewrite Hpc; cbn [lgoto lt_pc priv]; auto].
    + destruct (s_tail s =? tl); [exact Hi|apply (g_tail _ _ _ _ _ _ _ G)].
    + cbn [lgoto lt_cur lt_pc pcinv]. exists v0; auto.
  - (* QeCasLink *)
    destruct (N.eqb_spec (n_next (hget (s_heap s) tl)) 0) as [Hz|Hnz]; injection Hstep as <- <-.
    + exists (L ++ [nd]). apply inv_link; auto.
    + destruct Hp as (v0 & Hc & Hv & Hi). loc L Hth Hpc. exists v0; auto.
  - (* QeCasSwing *)
    destruct Hp as (v0 & Hc & Hi). injection Hstep as <- <-. exists L.
    eapply inv_tail with (th := th); [eassumption|exact Hth| | |rewrite Hpc; cbn [lgoto lt_pc priv]; auto].
    + destruct (s_tail s =? tl); [exact Hi|apply (g_tail _ _ _ _ _ _ _ G)].
    + cbn [lgoto lt_cur lt_pc pcinv]. exists v0; auto.
  - (* QeHzClr *) injection Hstep as <- <-. locfin L Hth.
  - (* QdLdHead *) injection Hstep as <- <-. loc L Hth Hpc. split; [exact Hp|eapply head_before; eauto].
  - (* QdHz0 *) injection Hstep as <- <-. loc L Hth Hpc. exact Hp.
  - (* QdChkHead *)
    destruct (hd =? s_head s); injection Hstep as <- <-; loc L Hth Hpc; tauto.
  - (* QdLdTail *) injection Hstep as <- <-. loc L Hth Hpc. exact Hp.
  - (* QdLdNext *) injection Hstep as <- <-. loc L Hth Hpc. destruct Hp; split; [|split]; auto.
  - (* QdHz1 *)
    destruct Hp as (Hc & Hb & Hn).
    destruct (N.eqb_spec nx 0) as [Hz|Hnz]; [injection Hstep as <- <-; locfin L Hth|].
    destruct (hd =? tl); injection Hstep as <- <-; loc L Hth Hpc.
    + split; [exact Hc|]. rewrite <- (Hn Hnz). eapply chain_next_in; eauto.
      * eapply before_in; eauto.
      * rewrite (Hn Hnz); exact Hnz.
    + tauto.
  - (* QdCasHelp *)
    destruct Hp as (Hc & Hi). injection Hstep as <- <-. exists L.
    eapply inv_tail with (th := th); [eassumption|exact Hth| | |rewrite Hpc; cbn [lgoto lt_pc priv]; auto].
    + destruct (s_tail s =? tl); [exact Hi|apply (g_tail _ _ _ _ _ _ _ G)].
    + cbn [lgoto lt_cur lt_pc pcinv]. exact Hc.
  - (* QdLdVal *)
    destruct Hp as (Hc & Hb & Hnz & Hn). injection Hstep as <- <-. loc L Hth Hpc.
    repeat split; auto. rewrite <- Hn. eapply chain_next_in; eauto.
    + eapply before_in; eauto.
    + rewrite Hn; exact Hnz.
  - (* QdCasHead *)
    destruct (N.eqb_spec (s_head s) hd) as [He|Hne]; injection Hstep as <- <-.
    + exists L. apply inv_headcas; auto.
    + loc L Hth Hpc. tauto.
  - (* QdRel *) injection Hstep as <- <-. locfin L Hth.
  - (* QmLdHead *) injection Hstep as <- <-. loc L Hth Hpc.
    split; [exact Hp|]. split; [lia|eapply head_before; eauto].
  - (* QmLdTail *) injection Hstep as <- <-. loc L Hth Hpc. exact Hp.
  - (* QmLdNext *)
    destruct Hp as (Hc & Hg & Hb). injection Hstep as <- <-. loc L Hth Hpc.
    split; [exact Hc|]. intros Hz. rewrite (before_last _ _ _ _ _ _ _ G hd Hb Hz). exact Hg.
  - (* QmMF *) injection Hstep as <- <-. loc L Hth Hpc. exact Hp.
  - (* QmChk *)
    destruct (hd =? s_head s); [destruct ((hd =? tl) && (nx =? 0))|]; injection Hstep as <- <-.
    + locfin L Hth.
    + locfin L Hth.
    + loc L Hth Hpc. tauto.
Qed.

Lemma inv_init progs : Inv (linit progs) [1].
Proof.
  split; [|split]; cbn [linit s_heap s_head s_tail s_fresh s_thr g_enq g_deq].
  - constructor; cbn [length map List.tl firstn].
    + constructor; [intros []|constructor].
    + intros a [<-|[]]. lia.
    + intros [|i] a Hi; [|destruct i; discriminate]. injection Hi as <-. reflexivity.
    + reflexivity.
    + reflexivity.
    + reflexivity.
    + left; reflexivity.
  - intros t th Hn. cbn [linit s_heap s_head s_tail s_fresh s_thr g_enq g_deq] in Hn.
    rewrite nth_error_map in Hn. destruct (nth_error progs t); [|discriminate].
    injection Hn as <-. reflexivity.
  - intros t1 t2 th1 th2 nd _ H1 _ P1 _. rewrite nth_error_map in H1.
    destruct (nth_error progs t1); [|discriminate]. injection H1 as <-. discriminate.
Qed.

Lemma run_inv sched : forall s L, Inv s L -> exists L', Inv (lrun s sched) L'.
Proof.
  induction sched as [|t sched IH]; intros s L HI.
  - exists L; exact HI.
  - cbn [lrun fold_left]. change (exists L', Inv (lrun (lstep' s t) sched) L').
    unfold lstep'. destruct (lstep s t) as [[s' r]|] eqn:Hs.
    + destruct (step_inv _ _ _ _ _ HI Hs) as [L' HI']. eapply IH; eauto.
    + eapply IH; eauto.
Qed.

Lemma reach_inv progs sched : exists L, Inv (lrun (linit progs) sched) L.
Proof. eapply run_inv. apply inv_init. Qed.

(* ------------------------------------------------------------------ T1 *)
Theorem lfq_conservation_partial progs sched :
  let s := lrun (linit progs) sched in
  map snd (g_deq s) = firstn (length (g_deq s)) (map snd (g_enq s)) /\
  (length (g_deq s) <= length (g_enq s))%nat.
Proof.
  intros s. destruct (reach_inv progs sched) as (L & G & _). fold s in G. split.
  - apply (g_pref _ _ _ _ _ _ _ G).
  - pose proof (g_lenD _ _ _ _ _ _ _ G). pose proof (g_lenE _ _ _ _ _ _ _ G). lia.
Qed.

(* ------------------------------------------------------------------ T2 *)
Theorem lfq_deq_null_sound progs sched :
  let s := lrun (linit progs) sched in
  forall t hd tl, pc_of s t = QdLdNext hd tl -> n_next (hget (s_heap s) hd) = 0 ->
    length (g_deq s) = length (g_enq s).
Proof.
  intros s t hd tl Hpc Hn. destruct (reach_inv progs sched) as (L & G & TO & _). fold s in G, TO.
  unfold pc_of in Hpc. destruct (nth_error (s_thr s) t) as [th|] eqn:Hth; [|discriminate].
  pose proof (TO t th Hth) as Hp. rewrite Hpc in Hp. cbn [pcinv] in Hp.
  eapply before_last; eauto. apply Hp.
Qed.

(* ------------------------------------------------------------------ T3 *)
Theorem lfq_empty_sound progs sched :
  let s := lrun (linit progs) sched in
  forall t hd tl nx g s', pc_of s t = QmChk hd tl nx g -> lstep s t = Some (s', Some (LInt 1)) ->
    (g <= length (g_deq s))%nat.
Proof.
  intros s t hd tl nx g s' Hpc Hstep. destruct (reach_inv progs sched) as (L & G & TO & _). fold s in G, TO.
  unfold pc_of in Hpc. unfold lstep in Hstep.
  destruct (nth_error (s_thr s) t) as [th|] eqn:Hth; [|discriminate].
  pose proof (TO t th Hth) as Hp. rewrite Hpc in *. cbn [pcinv] in Hp. cbv zeta in Hstep.
  destruct (hd =? s_head s); [|discriminate].
  destruct (hd =? tl); cbn [andb] in Hstep; [|discriminate].
  destruct (N.eqb_spec nx 0) as [Hz|Hnz]; [|discriminate].
  apply Hp; exact Hz.
Qed.

(* ------------------------------------------------------------------ per-thread histories (T4, T5) *)
Fixpoint enq_vals (ops : list lop) : list N :=
  match ops with
  | [] => []
  | LEnq v :: r => v :: enq_vals r
  | _ :: r => enq_vals r
  end.

Fixpoint deq_results (out : list (lop * lres)) : list N :=
  match out with
  | [] => []
  | (LDeq, LPtr v) :: l' => if v =? 0 then deq_results l' else v :: deq_results l'
  | _ :: l' => deq_results l'
  end.

Lemma enq_vals_app a b : enq_vals (a ++ b) = enq_vals a ++ enq_vals b.
Proof. induction a as [|[v| |] a IH]; cbn [app enq_vals]; rewrite ?IH; reflexivity. Qed.

Lemma deq_results_app a b : deq_results (a ++ b) = deq_results a ++ deq_results b.
Proof.
  induction a as [|[o r] a IH]; [reflexivity|]. cbn [app deq_results].
  destruct o; try exact IH. destruct r as [n|n]; try exact IH.
  destruct (n =? 0); [exact IH|]. cbn [app]. rewrite IH. reflexivity.
Qed.

Definition byt (t : nat) (x : nat * N) : bool := Nat.eqb (fst x) t.

Lemma filter_snoc_ne t t2 v (l : list (nat * N)) : t <> t2 -> filter (byt t2) (l ++ [(t, v)]) = filter (byt t2) l.
Proof.
  intros H. rewrite filter_app. unfold byt. cbn [filter fst]. destruct (Nat.eqb_spec t t2); [contradiction|apply app_nil_r].
Qed.

Lemma filter_snoc_eq t v (l : list (nat * N)) : filter (byt t) (l ++ [(t, v)]) = filter (byt t) l ++ [(t, v)].
Proof. rewrite filter_app. unfold byt. cbn [filter fst]. rewrite Nat.eqb_refl. reflexivity. Qed.

Lemma firstn_exact {A} (a b : list A) : firstn (length a) (a ++ b) = a.
Proof. induction a as [|x a IH]; cbn; [destruct b; reflexivity|rewrite IH; reflexivity]. Qed.

Definition curl (c : option lop) : list lop := match c with Some o => [o] | None => [] end.
Definition pend_e (pc : lpc) (cur : option lop) : list N :=
  match pc with
  | QeCasSwing _ _ | QeHzClr => match cur with Some (LEnq v) => [v] | _ => [] end
  | _ => []
  end.
Definition pend_d (pc : lpc) : list N := match pc with QdRel _ p => [p] | _ => [] end.

Section Hist.
  Variable P : N -> Prop.
  Variable progs : list (list lop).
  Hypothesis HP : forall ops v, In ops progs -> In (LEnq v) ops -> P v.

  Definition relp (pc : lpc) : Prop := match pc with QdRel _ p => P p | _ => True end.

  Record hist (E D : list (nat * N)) (t : nat) (th : lthread) : Prop := {
    h_prog : map fst (lt_out th) ++ curl (lt_cur th) ++ lt_ops th = nth t progs [];
    h_enq : map snd (filter (byt t) E) = enq_vals (map fst (lt_out th)) ++ pend_e (lt_pc th) (lt_cur th);
    h_deq : (forall v, P v -> v <> 0) ->
            map snd (filter (byt t) D) = deq_results (lt_out th) ++ pend_d (lt_pc th);
    h_rel : relp (lt_pc th)
  }.

  Definition hinv (s : lstate) : Prop :=
    Forall P (map snd (g_enq s)) /\
    (forall t, nth_error (s_thr s) t = None -> filter (byt t) (g_enq s) = []) /\
    (forall t th, nth_error (s_thr s) t = Some th -> hist (g_enq s) (g_deq s) t th).

  Lemma cur_P E D t th v : hist E D t th -> lt_cur th = Some (LEnq v) -> P v.
  Proof.
    intros [A _ _ _] Hc. apply (HP (nth t progs [])).
    - destruct (nth_in_or_default t progs []) as [H|H]; [exact H|].
      exfalso. rewrite H in A. destruct (map fst (lt_out th)); rewrite Hc in A; discriminate.
    - rewrite <- A, Hc. apply in_or_app; right. left; reflexivity.
  Qed.

  Lemma hinv_update s t th s' th' :
    hinv s -> nth_error (s_thr s) t = Some th -> s_thr s' = lset_nth (s_thr s) t th' ->
    (g_enq s' = g_enq s \/ exists v, g_enq s' = g_enq s ++ [(t, v)] /\ P v) ->
    (g_deq s' = g_deq s \/ exists v, g_deq s' = g_deq s ++ [(t, v)]) ->
    hist (g_enq s') (g_deq s') t th' -> hinv s'.
  Proof.
    intros (HF & HN & HT) Hth Hthr HE HD Hh. split; [|split].
    - destruct HE as [->|(v & -> & Pv)]; [exact HF|].
      rewrite map_app. apply Forall_app; split; [exact HF|]. constructor; [exact Pv|constructor].
    - intros t2 H2. rewrite Hthr in H2.
      assert (Hne : t <> t2) by (intros <-; rewrite (nth_lset_eq _ _ _ _ Hth) in H2; discriminate).
      rewrite nth_lset_ne in H2 by exact Hne.
      destruct HE as [->|(v & -> & _)]; [auto|]. rewrite filter_snoc_ne by exact Hne. auto.
    - intros t2 th2 H2. rewrite Hthr in H2. destruct (Nat.eq_dec t t2) as [Heq|Hne].
      + subst t2. rewrite (nth_lset_eq _ _ _ _ Hth) in H2. injection H2 as <-. exact Hh.
      + rewrite nth_lset_ne in H2 by exact Hne. destruct (HT t2 th2 H2) as [A B C Dd].
        constructor; auto.
        * destruct HE as [->|(v & -> & _)]; [exact B|]. rewrite filter_snoc_ne by exact Hne. exact B.
        * destruct HD as [->|(v & ->)]; [exact C|]. rewrite filter_snoc_ne by exact Hne. exact C.
  Qed.

  Lemma hist_fin E D t th o r :
    lt_cur th = Some o -> hist E D t th ->
    enq_vals [o] = pend_e (lt_pc th) (Some o) ->
    ((forall v, P v -> v <> 0) -> relp (lt_pc th) -> deq_results [(o, r)] = pend_d (lt_pc th)) ->
    hist E D t (lfinish th r).
  Proof.
    intros Hc [A B C Dd] He Hd. unfold lfinish. rewrite Hc.
    constructor; cbn [lt_out lt_cur lt_ops lt_pc].
    - rewrite <- A, Hc, map_app. cbn [map fst curl]. rewrite <- app_assoc. reflexivity.
    - rewrite B, Hc, map_app, enq_vals_app. cbn [map fst pend_e]. rewrite He, app_nil_r. reflexivity.
    - intros HPz. rewrite (C HPz), deq_results_app, (Hd HPz Dd). cbn [pend_d]. rewrite app_nil_r. reflexivity.
    - exact I.
  Qed.

  Ltac hupd th Hth :=
    eapply hinv_update with (th := th);
    [eassumption | exact Hth | reflexivity | left; reflexivity | left; reflexivity | ].

  Lemma hstep s t s' r L : Inv s L -> hinv s -> lstep s t = Some (s', r) -> hinv s'.
  Proof.
    intros HI HH Hstep. unfold lstep in Hstep.
    destruct (nth_error (s_thr s) t) as [th|] eqn:Hth; [|discriminate].
    pose proof HI as (G & TO & DJ). pose proof (TO t th Hth) as Hp.
    pose proof HH as (HF & HN & HT). pose proof (HT t th Hth) as Hh.
    cbv zeta in Hstep. pose proof Hh as [A B C Dd].
    destruct (lt_pc th) eqn:Hpc; cbn [pcinv] in Hp.
    all: try solve [
      repeat match type of Hstep with context [if ?c then _ else _] => destruct c end;
      injection Hstep as <- <-; hupd th Hth;
      (constructor; [exact A | exact B | exact C | exact I]) ].
    - (* LIdle *)
      destruct (lt_ops th) as [|o rest] eqn:Hops; [discriminate|]. injection Hstep as <- <-.
      hupd th Hth. constructor; cbn [lt_out lt_cur lt_ops lt_pc].
      + rewrite <- A, Hp. cbn [curl app]. reflexivity.
      + destruct o; exact B.
      + destruct o; exact C.
      + destruct o; exact I.
    - (* QeCasLink *)
      destruct Hp as (v0 & Hc & (Hn1 & Hn2 & Hn3 & Hn4) & Hi).
      destruct (N.eqb_spec (n_next (hget (s_heap s) tl)) 0) as [Hz|Hnz]; injection Hstep as <- <-.
      + rewrite Hn4. cbn [n_val].
        eapply hinv_update with (th := th);
          [eassumption | exact Hth | reflexivity | right; exists v0; split; [reflexivity|eapply cur_P; eauto]
          | left; reflexivity | ].
        cbn [g_enq g_deq]. constructor; cbn [lgoto lt_out lt_cur lt_ops lt_pc].
        * exact A.
        * rewrite filter_snoc_eq, map_app, B, Hc. cbn [pend_e map snd]. rewrite app_nil_r. reflexivity.
        * exact C.
        * exact I.
      + hupd th Hth. constructor; [exact A | exact B | exact C | exact I].
    - (* QeHzClr *)
      destruct Hp as (v0 & Hc). injection Hstep as <- <-. hupd th Hth.
      eapply hist_fin; [exact Hc | exact Hh | rewrite Hpc; reflexivity | rewrite Hpc; intros; reflexivity].
    - (* QdHz1 *)
      destruct Hp as (Hc & _).
      destruct (N.eqb_spec nx 0) as [Hz|Hnz]; [|destruct (hd =? tl)]; injection Hstep as <- <-; hupd th Hth.
      + eapply hist_fin; [exact Hc | exact Hh | rewrite Hpc; reflexivity | rewrite Hpc; intros; reflexivity].
      + constructor; [exact A | exact B | exact C | exact I].
      + constructor; [exact A | exact B | exact C | exact I].
    - (* QdCasHead *)
      destruct Hp as (Hc & Hb & Hnz & Hn & HiL & Hpv).
      destruct (N.eqb_spec (s_head s) hd) as [He|Hne]; injection Hstep as <- <-.
      + rewrite <- He in Hn. destruct (head_succ _ _ _ _ _ _ _ G nx Hn Hnz) as [_ H2].
        assert (HPp : P p).
        { rewrite Hpv. rewrite Forall_forall in HF. apply HF. eapply nth_error_In; eauto. }
        eapply hinv_update with (th := th);
          [eassumption | exact Hth | reflexivity | left; reflexivity | right; exists p; reflexivity | ].
        cbn [g_enq g_deq]. constructor; cbn [lgoto lt_out lt_cur lt_ops lt_pc].
        * exact A.
        * exact B.
        * intros HPz. rewrite filter_snoc_eq, map_app, (C HPz). cbn [pend_d map snd]. rewrite app_nil_r. reflexivity.
        * exact HPp.
      + hupd th Hth. constructor; [exact A | exact B | exact C | exact I].
    - (* QdRel *)
      injection Hstep as <- <-. hupd th Hth.
      eapply hist_fin; [exact Hp | exact Hh | rewrite Hpc; reflexivity | rewrite Hpc].
      intros HPz HPp. cbn [relp] in HPp. apply HPz in HPp. cbn [deq_results pend_d].
      destruct (N.eqb_spec p 0); [contradiction|reflexivity].
    - (* QmChk *)
      destruct Hp as (Hc & _).
      destruct (hd =? s_head s); [destruct ((hd =? tl) && (nx =? 0))|]; injection Hstep as <- <-; hupd th Hth.
      + eapply hist_fin; [exact Hc | exact Hh | rewrite Hpc; reflexivity | rewrite Hpc; intros; reflexivity].
      + eapply hist_fin; [exact Hc | exact Hh | rewrite Hpc; reflexivity | rewrite Hpc; intros; reflexivity].
      + constructor; [exact A | exact B | exact C | exact I].
  Qed.
End Hist.

Lemma hinv_init P progs : hinv P progs (linit progs).
Proof.
  split; [|split]; cbn [linit s_thr g_enq g_deq].
  - constructor.
  - reflexivity.
  - intros t th Hn. rewrite nth_error_map in Hn. destruct (nth_error progs t) as [p|] eqn:Hp; [|discriminate].
    injection Hn as <-. constructor; cbn [lt_out lt_cur lt_ops lt_pc]; try reflexivity.
    cbn. symmetry. apply nth_error_nth. exact Hp.
Qed.

Lemma run_hinv (P : N -> Prop) progs (HP : forall ops v, In ops progs -> In (LEnq v) ops -> P v) sched :
  forall s L, Inv s L -> hinv P progs s -> hinv P progs (lrun s sched).
Proof.
  induction sched as [|t sched IH]; intros s L HI HH.
  - exact HH.
  - cbn [lrun fold_left]. change (hinv P progs (lrun (lstep' s t) sched)).
    unfold lstep'. destruct (lstep s t) as [[s' r]|] eqn:Hs.
    + destruct (step_inv _ _ _ _ _ HI Hs) as [L' HI']. eapply IH; [exact HI'|]. exact (hstep P progs HP s t s' r L HI HH Hs).
    + eapply IH; eauto.
Qed.

Lemma reach_hinv (P : N -> Prop) progs (HP : forall ops v, In ops progs -> In (LEnq v) ops -> P v) sched :
  hinv P progs (lrun (linit progs) sched).
Proof. eapply run_hinv; [exact HP|apply inv_init|apply hinv_init]. Qed.

Lemma pend_prefix pc cur : pend_e pc cur = [] \/ pend_e pc cur = enq_vals (curl cur).
Proof. destruct pc; cbn [pend_e]; auto; destruct cur as [[v| |]|]; cbn; auto. Qed.

(* ------------------------------------------------------------------ T4 *)
Theorem lfq_per_producer_fifo progs sched :
  let s := lrun (linit progs) sched in
  forall p, exists k,
    map snd (filter (fun x => Nat.eqb (fst x) p) (g_enq s)) = firstn k (enq_vals (nth p progs [])).
Proof.
  intros s p.
  assert (HH : hinv (fun _ => True) progs s) by (apply reach_hinv; auto).
  destruct HH as (_ & HN & HT). change (fun x : nat * N => Nat.eqb (fst x) p) with (byt p).
  destruct (nth_error (s_thr s) p) as [th|] eqn:Hth.
  - destruct (HT p th Hth) as [A B _ _]. rewrite <- A, B, !enq_vals_app.
    destruct (pend_prefix (lt_pc th) (lt_cur th)) as [H|H]; rewrite H.
    + exists (length (enq_vals (map fst (lt_out th)))). rewrite app_nil_r, firstn_exact. reflexivity.
    + exists (length (enq_vals (map fst (lt_out th)) ++ enq_vals (curl (lt_cur th)))).
      rewrite app_assoc, firstn_exact. reflexivity.
  - exists O. rewrite (HN p Hth). reflexivity.
Qed.

(* ------------------------------------------------------------------ T5 *)
Theorem lfq_consumer_results progs sched :
  (forall ops v, In ops progs -> In (LEnq v) ops -> v <> 0) ->
  let s := lrun (linit progs) sched in
  forall c th, nth_error (s_thr s) c = Some th ->
    exists pending,
      deq_results (lt_out th) ++ pending = map snd (filter (fun x => Nat.eqb (fst x) c) (g_deq s)) /\
      (length pending <= 1)%nat.
Proof.
  intros Hnz s c th Hth.
  assert (HH : hinv (fun v => v <> 0) progs s) by (apply reach_hinv; exact Hnz).
  destruct HH as (_ & _ & HT). change (fun x : nat * N => Nat.eqb (fst x) c) with (byt c).
  destruct (HT c th Hth) as [_ _ C _]. exists (pend_d (lt_pc th)). split.
  - symmetry. apply C. auto.
  - destruct (lt_pc th); cbn [pend_d length]; lia.
Qed.

(* ------------------------------------------------------------------ Examples *)
Definition ex_progs : list (list lop) := [[LEnq 5; LEnq 6]; [LEnq 7]; [LDeq; LDeq]; [LDeq]].
Definition ex_sched : list nat :=
  ([0;1;0;1;0;1;0;1;0;1;0;1;0;1;0;1;0;1;0;1;0;1;0;1;0;1;0;1;0;1;0;1;0;1;0;1;0;1;0;1;0;1;0;1;0;1;0;1;
   2;3;2;3;2;3;2;3;2;3;2;3;2;3;2;3;2;3;2;3;2;3;2;3;2;3;2;3;2;3;2;3;2;3;2;3;2;3;2;3;2;3;2;3;2;3])%nat.

(* 2 producers, 2 consumers, interleaved: dequeue order = link order *)
Example ex_run :
  let s := lrun (linit ex_progs) ex_sched in
  g_enq s = [(0%nat, 5); (1%nat, 7); (0%nat, 6)] /\ g_deq s = [(2%nat, 5); (3%nat, 7)] /\
  map lt_out (s_thr s) = [[(LEnq 5, LInt 0); (LEnq 6, LInt 0)]; [(LEnq 7, LInt 0)]; [(LDeq, LPtr 5)]; [(LDeq, LPtr 7)]].
Proof. vm_compute. repeat split. Qed.

(* empty() returns 1 with ghost g = 1: the element linked before the test was dequeued before it *)
Definition ex2_progs : list (list lop) := [[LEnq 5]; [LDeq]; [LEmp]].
Definition ex2_sched : list nat := (repeat 0 9 ++ repeat 1 10 ++ repeat 2 5)%nat.
Example ex_empty :
  let s := lrun (linit ex2_progs) ex2_sched in
  pc_of s 2 = QmChk 2 2 0 1 /\ option_map snd (lstep s 2) = Some (Some (LInt 1)) /\ length (g_deq s) = 1%nat.
Proof. vm_compute. repeat split. Qed.

(* a dequeue about to read head->next = NULL: everything linked (nothing) has been dequeued *)
Example ex_deq_null :
  let s := lrun (linit [[LDeq]]) [0; 0; 0; 0; 0]%nat in
  pc_of s 0 = QdLdNext 1 1 /\ n_next (hget (s_heap s) 1) = 0 /\ g_enq s = [] /\ g_deq s = [].
Proof. vm_compute. repeat split. Qed.

(* ------------------------------------------------------------------ T6 *)
Local Notation cnt th :=
  (length (filter (fun x : lop * lres => match fst x with LEnq _ => true | _ => false end) (lt_out th))).

Lemma cnt_enq (out : list (lop * lres)) :
  length (filter (fun x : lop * lres => match fst x with LEnq _ => true | _ => false end) out)
  = length (enq_vals (map fst out)).
Proof.
  induction out as [|[o r] out IH]; [reflexivity|].
  cbn [filter map fst enq_vals]. destruct o; cbn [length]; rewrite ?IH; reflexivity.
Qed.

Lemma filter_split k (E : list (nat * N)) :
  (length (filter (byt k) E) + length (filter (fun x => Nat.leb (S k) (fst x)) E)
   = length (filter (fun x => Nat.leb k (fst x)) E))%nat.
Proof.
  unfold byt. induction E as [|[a v] E IH]; [reflexivity|]. cbn [filter fst].
  destruct (Nat.eqb_spec a k), (Nat.leb_spec (S k) a), (Nat.leb_spec k a); cbn [length]; lia.
Qed.

Lemma filter_len_le {A} (f : A -> bool) (l : list A) : (length (filter f l) <= length l)%nat.
Proof. induction l as [|a l IH]; cbn [filter length]; [lia|]. destruct (f a); cbn [length]; lia. Qed.

Lemma sum_le (E : list (nat * N)) : forall (l : list lthread) k,
  (forall i th, nth_error l i = Some th -> (cnt th <= length (filter (byt (k + i)) E))%nat) ->
  (fold_right (fun th acc => (cnt th + acc)%nat) O l <= length (filter (fun x => Nat.leb k (fst x)) E))%nat.
Proof.
  induction l as [|th l IH]; intros k H; cbn [fold_right]; [lia|].
  pose proof (H O th eq_refl) as H0. rewrite Nat.add_0_r in H0.
  assert (H1 : forall i th', nth_error l i = Some th' -> (cnt th' <= length (filter (byt (S k + i)) E))%nat).
  { intros i th' Hn. pose proof (H (S i) th' Hn) as H2. rewrite Nat.add_succ_r in H2. exact H2. }
  pose proof (IH (S k) H1). pose proof (filter_split k E). lia.
Qed.

Theorem completed_le_linked progs sched :
  let s := lrun (linit progs) sched in (completed_enq s <= length (g_enq s))%nat.
Proof.
  intros s.
  assert (HH : hinv (fun _ => True) progs s) by (apply reach_hinv; auto).
  destruct HH as (_ & _ & HT). unfold completed_enq.
  eapply Nat.le_trans; [apply (sum_le (g_enq s) (s_thr s) O)|apply filter_len_le].
  intros i th Hn. destruct (HT i th Hn) as [_ B _ _]. rewrite cnt_enq. cbn [Nat.add].
  rewrite <- (map_length snd (filter (byt i) (g_enq s))), B, app_length. lia.
Qed.
