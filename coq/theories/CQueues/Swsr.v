(* C15 qswsrqueue: executable micro-step model of src/ds/qswsrqueue.c (definitions only).

   One producer thread P and one consumer thread C run programs (lists of API calls).  Every access to a
   shared mutable field (head, tail, elements[i]) is one step; fences, qthread_yield() and the return of a call
   are schedule points (the step reports their kind).  `size`/`size2` are written once by create and are read
   together with the neighbouring access.  Indices are uint32 in the code; all index arithmetic is `mod size`
   with size <= UINT32_MAX (create refuses larger rings), so no other wrap can occur.                          *)
From Coq Require Import List NArith Bool.
Import ListNotations.
Local Open Scope N_scope.

(* ---------------------------------------------------------------- create *)
Definition UINT32_MAX : N := 4294967295.

(* qswsrqueue_create(elements): size rounding exactly as in the source (cw = CACHELINE_WIDTH, ps = sizeof(void* )) *)
Definition create_size (cw ps elements : N) : option N :=
  let e1 := if elements * ps <? cw then cw / ps else elements in
  let e2 := if negb (e1 mod cw =? 0) then e1 + (cw - e1 mod cw) else e1 in
  if UINT32_MAX <? e2 then None else Some e2.

(* ---------------------------------------------------------------- state *)
Record ring := mkRing {
  r_head  : N;
  r_size  : N;
  r_tail  : N;
  r_size2 : N;
  r_el    : N -> N          (* elements[]; initial content is arbitrary (not zeroed by create) *)
}.

Definition upd (f : N -> N) (i v : N) : N -> N := fun j => if j =? i then v else f j.

Definition set_head (r : ring) (h : N) := mkRing h (r_size r) (r_tail r) (r_size2 r) (r_el r).
Definition set_tail (r : ring) (t : N) := mkRing (r_head r) (r_size r) t (r_size2 r) (r_el r).
Definition set_el (r : ring) (i v : N) := mkRing (r_head r) (r_size r) (r_tail r) (r_size2 r) (upd (r_el r) i v).

Definition ring_init (size : N) (garbage : N -> N) : ring := mkRing 0 size 0 size garbage.

Inductive op := Enq (v : N) | EnqB (v : N) | Deq | DeqB | Emp.

Inductive res := RInt (n : N) | RPtr (v : N).   (* RInt 0 = QTHREAD_SUCCESS, RInt 7 = QTHREAD_OPFAIL (-7); RPtr 0 = NULL *)
Definition SUCCESS := RInt 0.
Definition OPFAIL := RInt 7.

Inductive pc :=
| Idle
(* qswsrqueue_enqueue *)
| EnLdTail (v : N)              (* cur_tail = q->tail; next_tail = (cur_tail + 1) % q->size *)
| EnCF (v cur nxt : N)          (* COMPILER_FENCE *)
| EnLdHead (v cur nxt : N)      (* if (next_tail != q->head) *)
| EnStEl (v cur nxt : N)        (* q->elements[cur_tail] = elem *)
| EnMF (v nxt : N)              (* MACHINE_FENCE *)
| EnStTail (v nxt : N)          (* q->tail = next_tail; return QTHREAD_SUCCESS *)
(* qswsrqueue_enqueue_blocking *)
| EbLdTail (v : N)              (* cur_tail = q->tail; next_tail = (cur_tail + 1) % q->size2 *)
| EbSpin (v cur nxt : N)        (* while (next_tail == q->head) *)
| EbYield (v cur nxt : N)       (*     qthread_yield(); *)
| EbCF (v cur nxt : N)          (* COMPILER_FENCE *)
| EbLdHead (v cur nxt : N)      (* if (next_tail != q->head) *)
| EbStEl (v cur nxt : N)
| EbMF (v nxt : N)
| EbStTail (v nxt : N)
(* qswsrqueue_dequeue *)
| DqLdHead                      (* cur_head = q->head *)
| DqCF1 (cur : N)               (* COMPILER_FENCE *)
| DqLdTail (cur : N)            (* if (cur_head == q->tail) return NULL *)
| DqLdEl (cur : N)              (* item = q->elements[cur_head] *)
| DqCF2 (cur item : N)          (* COMPILER_FENCE *)
| DqStHead (cur item : N)       (* q->head = (cur_head + 1) % q->size; return item *)
(* qswsrqueue_dequeue_blocking *)
| DbLdHead                      (* cur_head = q->head; next_head = (cur_head + 1) % q->size *)
| DbSpin (cur nxt : N)          (* while (cur_head == q->tail) *)
| DbYield (cur nxt : N)         (*     qthread_yield(); *)
| DbCF1 (cur nxt : N)           (* COMPILER_FENCE *)
| DbLdTail (cur nxt : N)        (* if (cur_head != q->tail) *)
| DbLdEl (cur nxt : N)          (* item = q->elements[cur_head] *)
| DbCF2 (nxt item : N)          (* COMPILER_FENCE *)
| DbStHead (nxt item : N)       (* q->head = next_head; return item *)
(* qswsrqueue_empty *)
| EmLdHead                      (* q->head *)
| EmLdTail (h : N) (g : nat).   (* == q->tail ; g is a ghost: number of completed enqueues when head was read *)

Definition start (o : op) : pc :=
  match o with Enq v => EnLdTail v | EnqB v => EbLdTail v | Deq => DqLdHead | DeqB => DbLdHead | Emp => EmLdHead end.

Record thread := mkT { t_pc : pc; t_cur : option op; t_ops : list op; t_out : list (op * res) }.
(* t_out: completed calls, oldest first *)

Inductive tid := P | C.

Record state := mkS { s_r : ring; s_p : thread; s_c : thread }.

Definition thr (s : state) (t : tid) := match t with P => s_p s | C => s_c s end.
Definition set_thr (s : state) (t : tid) (r : ring) (th : thread) :=
  match t with P => mkS r th (s_c s) | C => mkS r (s_p s) th end.

Definition init (size : N) (garbage : N -> N) (pp cp : list op) : state :=
  mkS (ring_init size garbage) (mkT Idle None pp []) (mkT Idle None cp []).

(* what a step shows to the scheduler *)
Inductive kind := KTau | KCF | KMF | KYield | KEnd (r : res).

(* observables derived from the completed calls *)
Fixpoint enq_of (l : list (op * res)) : list N :=
  match l with
  | [] => []
  | (Enq v, RInt 0) :: l' => v :: enq_of l'
  | (EnqB v, RInt 0) :: l' => v :: enq_of l'
  | _ :: l' => enq_of l'
  end.
Fixpoint deq_of (l : list (op * res)) : list N :=
  match l with
  | [] => []
  | (Deq, RPtr v) :: l' => if v =? 0 then deq_of l' else v :: deq_of l'
  | (DeqB, RPtr v) :: l' => v :: deq_of l'
  | _ :: l' => deq_of l'
  end.
Definition enq_seq (s : state) : list N := enq_of (t_out (s_p s)).
Definition deq_seq (s : state) : list N := deq_of (t_out (s_c s)).

Definition goto (th : thread) (p : pc) := mkT p (t_cur th) (t_ops th) (t_out th).
Definition finish (th : thread) (r : res) :=
  match t_cur th with
  | Some o => mkT Idle None (t_ops th) (t_out th ++ [(o, r)])
  | None => mkT Idle None (t_ops th) (t_out th)
  end.

(* one atomic step of thread t; None = not enabled (program finished) *)
Definition step (s : state) (t : tid) : option (state * kind) :=
  let r := s_r s in
  let th := thr s t in
  let ret r' th' k := Some (set_thr s t r' th', k) in
  match t_pc th with
  | Idle => match t_ops th with
            | [] => None
            | o :: rest => ret r (mkT (start o) (Some o) rest (t_out th)) KTau
            end
  | EnLdTail v => let cur := r_tail r in ret r (goto th (EnCF v cur ((cur + 1) mod r_size r))) KTau
  | EnCF v cur nxt => ret r (goto th (EnLdHead v cur nxt)) KCF
  | EnLdHead v cur nxt =>
      if negb (nxt =? r_head r) then ret r (goto th (EnStEl v cur nxt)) KTau
      else ret r (finish th OPFAIL) (KEnd OPFAIL)
  | EnStEl v cur nxt => ret (set_el r cur v) (goto th (EnMF v nxt)) KTau
  | EnMF v nxt => ret r (goto th (EnStTail v nxt)) KMF
  | EnStTail v nxt => ret (set_tail r nxt) (finish th SUCCESS) (KEnd SUCCESS)

  | EbLdTail v => let cur := r_tail r in ret r (goto th (EbSpin v cur ((cur + 1) mod r_size2 r))) KTau
  | EbSpin v cur nxt =>
      if nxt =? r_head r then ret r (goto th (EbYield v cur nxt)) KTau
      else ret r (goto th (EbCF v cur nxt)) KTau
  | EbYield v cur nxt => ret r (goto th (EbSpin v cur nxt)) KYield
  | EbCF v cur nxt => ret r (goto th (EbLdHead v cur nxt)) KCF
  | EbLdHead v cur nxt =>
      if negb (nxt =? r_head r) then ret r (goto th (EbStEl v cur nxt)) KTau
      else ret r (goto th (EbSpin v cur nxt)) KTau
  | EbStEl v cur nxt => ret (set_el r cur v) (goto th (EbMF v nxt)) KTau
  | EbMF v nxt => ret r (goto th (EbStTail v nxt)) KMF
  | EbStTail v nxt => ret (set_tail r nxt) (finish th SUCCESS) (KEnd SUCCESS)

  | DqLdHead => ret r (goto th (DqCF1 (r_head r))) KTau
  | DqCF1 cur => ret r (goto th (DqLdTail cur)) KCF
  | DqLdTail cur =>
      if cur =? r_tail r then ret r (finish th (RPtr 0)) (KEnd (RPtr 0))
      else ret r (goto th (DqLdEl cur)) KTau
  | DqLdEl cur => ret r (goto th (DqCF2 cur (r_el r cur))) KTau
  | DqCF2 cur item => ret r (goto th (DqStHead cur item)) KCF
  | DqStHead cur item => ret (set_head r ((cur + 1) mod r_size r)) (finish th (RPtr item)) (KEnd (RPtr item))

  | DbLdHead => let cur := r_head r in ret r (goto th (DbSpin cur ((cur + 1) mod r_size r))) KTau
  | DbSpin cur nxt =>
      if cur =? r_tail r then ret r (goto th (DbYield cur nxt)) KTau
      else ret r (goto th (DbCF1 cur nxt)) KTau
  | DbYield cur nxt => ret r (goto th (DbSpin cur nxt)) KYield
  | DbCF1 cur nxt => ret r (goto th (DbLdTail cur nxt)) KCF
  | DbLdTail cur nxt =>
      if negb (cur =? r_tail r) then ret r (goto th (DbLdEl cur nxt)) KTau
      else ret r (goto th (DbSpin cur nxt)) KTau
  | DbLdEl cur nxt => ret r (goto th (DbCF2 nxt (r_el r cur))) KTau
  | DbCF2 nxt item => ret r (goto th (DbStHead nxt item)) KCF
  | DbStHead nxt item => ret (set_head r nxt) (finish th (RPtr item)) (KEnd (RPtr item))

  | EmLdHead => ret r (goto th (EmLdTail (r_head r) (length (enq_seq s)))) KTau
  | EmLdTail h g =>
      let e := if h =? r_tail r then RInt 1 else RInt 0 in ret r (finish th e) (KEnd e)
  end.

(* every interleaving: a schedule is any list of thread ids; a disabled thread's turn is a no-op *)
Definition step' (s : state) (t : tid) : state := match step s t with Some (s', _) => s' | None => s end.
Definition run (s : state) (sched : list tid) : state := fold_left step' sched s.

(* derived step used by the M3 replay: run thread t up to and including its next schedule point *)
Fixpoint run_to_sp (fuel : nat) (s : state) (t : tid) : state * option kind :=
  match fuel with
  | O => (s, None)
  | S f => match step s t with
           | None => (s, None)
           | Some (s', KTau) => run_to_sp f s' t
           | Some (s', k) => (s', Some k)
           end
  end.

(* abstract dump: ring contents from head to tail *)
Fixpoint walk (n : nat) (r : ring) (i : N) : list N :=
  match n with
  | O => []
  | S n' => if i =? r_tail r then [] else r_el r i :: walk n' r ((i + 1) mod r_size r)
  end.
Definition contents (r : ring) : list N := walk (N.to_nat (r_size r)) r (r_head r).

(* program well-formedness: only the producer enqueues, only the consumer dequeues, no NULL elements *)
Definition prod_op (o : op) : bool :=
  match o with Enq v => negb (v =? 0) | EnqB v => negb (v =? 0) | Emp => true | _ => false end.
Definition cons_op (o : op) : bool :=
  match o with Deq => true | DeqB => true | Emp => true | _ => false end.
