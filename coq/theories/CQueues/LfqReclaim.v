(* C15 extension H: qlfqueue WITH node reclamation (src/ds/qlfqueue.c + src/hazardptrs.c), definitions only.

   The micro-step machine of Lfq.v, but nodes live at ADDRESSES handed out by a pool (LIFO free list, else the next unused
   address: the node arena of harness/c/c15_queues.c; qpool_alloc/qpool_free are the interposed operations), every thread has its
   two hazard slots (written by hazardous_ptr() exactly where qlfqueue.c calls it; cleared by hazardous_release_node()) and its
   retired-node list; hazardous_release_node() appends the old head, clears the slots and, when the list holds freelist_max
   entries, runs hazardous_scan(): stage 1 reads every thread's slots ONE SLOT PER STEP (the scanning thread's own slots as 0),
   qsort (Hazard.isort), stage 2 walks the retired list, keeps what Hazard.binary_search finds and frees the rest (one entry per
   step; a free pushes the address on the pool's free list, so later enqueues get the SAME address again).

   Every decision of the machine is taken on ADDRESSES only.  Pointers additionally carry a ghost tag [pl]: the logical id
   (allocation number) of the node incarnation the pointer denoted when it was written / read; [r_own] maps an address to the
   logical id of its current incarnation.  Ghost data (pl, r_lid, r_own, rg_enq, rg_deq, the g of the Rm pcs) is never inspected
   by a step to decide anything: every `if` of rstep tests pa / addresses / list lengths only (by inspection; the M3 replay compares
   addresses, pool, slots and retired lists, never the ghost).  On a successful hazard validation (`if (tail != q->tail)
   continue;` falls through) the thread's ghost tag becomes that of the shared pointer it compared equal to: from there on the
   thread's pointer denotes that incarnation, which its hazard slot protects.

   Deviation of qlfqueue_dequeue from Michael's hazard-pointer queue (IEEE TPDS 2004, fig. 5): after hazardous_ptr(1, next_ptr)
   the code does NOT re-validate `head == q->head`; it is modelled as it is (see lfqr_value_read_uaf_refuted).
   qlfqueue_empty() uses no hazard pointers at all.                                                               *)
From Coq Require Import List NArith Bool Arith.
From QV Require Import CQueues.Lfq CQueues.Hazard.
Import ListNotations.
Local Open Scope N_scope.

Record ptr := mkP { pa : N; pl : N }.          (* address (0 = NULL), ghost logical id *)
Definition pnull : ptr := mkP 0 0.
Record rnode := mkRN { rn_val : N; rn_next : ptr }.
Definition rheap := list (N * rnode).

Fixpoint rget (h : rheap) (a : N) : rnode :=
  match h with
  | [] => mkRN 0 pnull
  | (b, n) :: h' => if a =? b then n else rget h' a
  end.
Fixpoint rset (h : rheap) (a : N) (n : rnode) : rheap :=
  match h with
  | [] => [(a, n)]
  | (b, m) :: h' => if a =? b then (b, n) :: h' else (b, m) :: rset h' a n
  end.
Fixpoint aget (m : list (N * N)) (a : N) : N :=
  match m with
  | [] => 0
  | (b, v) :: m' => if a =? b then v else aget m' a
  end.
Fixpoint aset (m : list (N * N)) (a v : N) : list (N * N) :=
  match m with
  | [] => [(a, v)]
  | (b, w) :: m' => if a =? b then (b, v) :: m' else (b, w) :: aset m' a v
  end.

Inductive rpc :=
| RIdle
(* qlfqueue_enqueue(q, v) *)
| ReAlloc (v : N)                        (* node = qpool_alloc(); memset; node->value = elem *)
| ReLdTail (nd : ptr)                    (* tail = q->tail *)
| ReHz (nd tl : ptr)                     (* hazardous_ptr(0, tail) *)
| ReChkTail (nd tl : ptr)                (* if (tail != q->tail) continue *)
| ReLdNext (nd tl : ptr)                 (* next = tail->next *)
| ReCasHelp (nd tl nx : ptr)             (* cas(&q->tail, tail, next); continue *)
| ReCasLink (nd tl : ptr)                (* if (cas(&tail->next, NULL, node) == NULL) break *)
| ReCasSwing (nd tl : ptr)               (* cas(&q->tail, tail, node) *)
| ReHzClr                                (* hazardous_ptr(0, NULL); return QTHREAD_SUCCESS *)
(* qlfqueue_dequeue(q) *)
| RdLdHead                               (* head = q->head *)
| RdHz0 (hd : ptr)                       (* hazardous_ptr(0, head) *)
| RdChkHead (hd : ptr)                   (* if (head != q->head) continue *)
| RdLdTail (hd : ptr)                    (* tail = q->tail *)
| RdLdNext (hd tl : ptr)                 (* next_ptr = head->next *)
| RdHz1 (hd tl nx : ptr)                 (* hazardous_ptr(1, next_ptr); if (next_ptr == NULL) return NULL; if (head == tail) ... *)
| RdCasHelp (tl nx : ptr)                (* cas(&q->tail, tail, next_ptr); continue *)
| RdLdVal (hd nx : ptr)                  (* p = next_ptr->value *)
| RdCasHead (hd nx : ptr) (p : N)        (* if (cas(&q->head, head, next_ptr) == head) break *)
(* hazardous_release_node(free, head) *)
| RdRel (hd : ptr) (p : N)               (* hfl->freelist[count++] = head *)
| RdClr0 (p : N)                         (* memset(hzptrs, 0, ..): slot 0 *)
| RdClr1 (p : N)                         (*                        slot 1; if (hfl->count == freelist_max) hazardous_scan(hfl) *)
| RdScan (p : N) (i : nat) (acc : list N)    (* stage 1: slot (i mod 2) of worker (i / 2) is copied to plist (own slots: 0) *)
| RdFree (p : N) (srt todo kept : list N)    (* stage 2: next retired entry: binary_search; keep it or freefunc(ptr) *)
(* qlfqueue_empty(q) *)
| RmLdHead
| RmLdTail (hd : ptr) (g : nat)          (* g: ghost = number of elements linked when head was read *)
| RmLdNext (hd tl : ptr) (g : nat)
| RmMF (hd tl nx : ptr) (g : nat)
| RmChk (hd tl nx : ptr) (g : nat).

Definition rstart (o : lop) : rpc :=
  match o with LEnq v => ReAlloc v | LDeq => RdLdHead | LEmp => RmLdHead end.

(* the interposed operation a thread standing at this pc is about to execute (same kinds as Lfq.sp_kind) *)
Definition rsp_kind (p : rpc) : option lkind :=
  match p with
  | ReAlloc _ => Some KAlloc
  | ReHz _ _ => Some KHz0
  | ReCasHelp _ _ _ => Some KCasTail
  | ReCasLink _ _ => Some KCasNext
  | ReCasSwing _ _ => Some KCasTail
  | ReHzClr => Some KHz0
  | RdHz0 _ => Some KHz0
  | RdHz1 _ _ _ => Some KHz1
  | RdCasHelp _ _ => Some KCasTail
  | RdCasHead _ _ _ => Some KCasHead
  | RdRel _ _ => Some KRel
  | RmMF _ _ _ _ => Some LKMF
  | _ => None
  end.

Record rthread := mkRT {
  rt_pc  : rpc; rt_cur : option lop; rt_ops : list lop; rt_out : list (lop * lres);
  rt_hz0 : N; rt_hz1 : N;            (* the worker's hazard_ptrs[0..1] *)
  rt_rl  : list N                    (* the worker's hazard_free_list (retired addresses, oldest first) *)
}.

Record rstate := mkRS {
  r_heap : rheap;
  r_head : ptr;
  r_tail : ptr;
  r_free : list N;                   (* pool: free list, LIFO *)
  r_bump : N;                        (* pool: next never-used address *)
  r_fmax : nat;                      (* freelist_max = workers + 7 *)
  r_thr  : list rthread;
  (* ghost: *)
  r_lid  : N;                        (* next logical id *)
  r_own  : list (N * N);             (* address |-> logical id of its current (or, when free, last) incarnation *)
  rg_enq : list (nat * N);
  rg_deq : list (nat * N)
}.

(* qlfqueue_create(): one dummy node (the first address of the pool), head = tail = dummy *)
Definition rinit (fmax : nat) (progs : list (list lop)) : rstate :=
  mkRS [(1, mkRN 0 pnull)] (mkP 1 1) (mkP 1 1) [] 2 fmax
       (map (fun p => mkRT RIdle None p [] 0 0 []) progs) 2 [(1, 1)] [] [].

Definition rgoto (th : rthread) (p : rpc) := mkRT p (rt_cur th) (rt_ops th) (rt_out th) (rt_hz0 th) (rt_hz1 th) (rt_rl th).
Definition rfinish (th : rthread) (r : lres) :=
  match rt_cur th with
  | Some o => mkRT RIdle None (rt_ops th) (rt_out th ++ [(o, r)]) (rt_hz0 th) (rt_hz1 th) (rt_rl th)
  | None => mkRT RIdle None (rt_ops th) (rt_out th) (rt_hz0 th) (rt_hz1 th) (rt_rl th)
  end.
Definition set_hz0 (th : rthread) (a : N) := mkRT (rt_pc th) (rt_cur th) (rt_ops th) (rt_out th) a (rt_hz1 th) (rt_rl th).
Definition set_hz1 (th : rthread) (a : N) := mkRT (rt_pc th) (rt_cur th) (rt_ops th) (rt_out th) (rt_hz0 th) a (rt_rl th).
Definition set_rl (th : rthread) (l : list N) := mkRT (rt_pc th) (rt_cur th) (rt_ops th) (rt_out th) (rt_hz0 th) (rt_hz1 th) l.

Definition rwith_thr (s : rstate) (t : nat) (th : rthread) : rstate :=
  mkRS (r_heap s) (r_head s) (r_tail s) (r_free s) (r_bump s) (r_fmax s) (lset_nth (r_thr s) t th)
       (r_lid s) (r_own s) (rg_enq s) (rg_deq s).
Definition rwith_tail (s : rstate) (tl : ptr) (t : nat) (th : rthread) : rstate :=
  mkRS (r_heap s) (r_head s) tl (r_free s) (r_bump s) (r_fmax s) (lset_nth (r_thr s) t th)
       (r_lid s) (r_own s) (rg_enq s) (rg_deq s).

Definition rset_next (h : rheap) (a : N) (nx : ptr) : rheap := rset h a (mkRN (rn_val (rget h a)) nx).

(* hazard slot k of worker w as stage 1 of the scan run by worker `me` reads it *)
Definition slot_of (thr : list rthread) (me w k : nat) : N :=
  if Nat.eqb w me then 0
  else match nth_error thr w with
       | Some th => if Nat.eqb k 0 then rt_hz0 th else rt_hz1 th
       | None => 0
       end.

(* one atomic step of thread t; result: new state and Some r when the call returned *)
Definition rstep (s : rstate) (t : nat) : option (rstate * option lres) :=
  match nth_error (r_thr s) t with
  | None => None
  | Some th =>
    let go p := Some (rwith_thr s t (rgoto th p), None) in
    let fin r := Some (rwith_thr s t (rfinish th r), Some r) in
    match rt_pc th with
    | RIdle => match rt_ops th with
              | [] => None
              | o :: rest => Some (rwith_thr s t (mkRT (rstart o) (Some o) rest (rt_out th) (rt_hz0 th) (rt_hz1 th) (rt_rl th)), None)
              end
    | ReAlloc v =>
        let a := match r_free s with x :: _ => x | [] => r_bump s end in
        let free' := match r_free s with _ :: f => f | [] => [] end in
        let bump' := match r_free s with _ :: _ => r_bump s | [] => r_bump s + 1 end in
        Some (mkRS (rset (r_heap s) a (mkRN v pnull)) (r_head s) (r_tail s) free' bump' (r_fmax s)
                  (lset_nth (r_thr s) t (rgoto th (ReLdTail (mkP a (r_lid s)))))
                  (r_lid s + 1) (aset (r_own s) a (r_lid s)) (rg_enq s) (rg_deq s), None)
    | ReLdTail nd => go (ReHz nd (r_tail s))
    | ReHz nd tl => Some (rwith_thr s t (set_hz0 (rgoto th (ReChkTail nd tl)) (pa tl)), None)
    | ReChkTail nd tl => if pa tl =? pa (r_tail s) then go (ReLdNext nd (r_tail s)) else go (ReLdTail nd)
    | ReLdNext nd tl =>
        let nx := rn_next (rget (r_heap s) (pa tl)) in
        if pa nx =? 0 then go (ReCasLink nd tl) else go (ReCasHelp nd tl nx)
    | ReCasHelp nd tl nx =>
        let tail' := if pa (r_tail s) =? pa tl then nx else r_tail s in
        Some (rwith_tail s tail' t (rgoto th (ReLdTail nd)), None)
    | ReCasLink nd tl =>
        if pa (rn_next (rget (r_heap s) (pa tl))) =? 0 then
          Some (mkRS (rset_next (r_heap s) (pa tl) nd) (r_head s) (r_tail s) (r_free s) (r_bump s) (r_fmax s)
                    (lset_nth (r_thr s) t (rgoto th (ReCasSwing nd tl)))
                    (r_lid s) (r_own s) (rg_enq s ++ [(t, rn_val (rget (r_heap s) (pa nd)))]) (rg_deq s), None)
        else go (ReLdTail nd)
    | ReCasSwing nd tl =>
        let tail' := if pa (r_tail s) =? pa tl then nd else r_tail s in
        Some (rwith_tail s tail' t (rgoto th ReHzClr), None)
    | ReHzClr => Some (rwith_thr s t (set_hz0 (rfinish th (LInt 0)) 0), Some (LInt 0))

    | RdLdHead => go (RdHz0 (r_head s))
    | RdHz0 hd => Some (rwith_thr s t (set_hz0 (rgoto th (RdChkHead hd)) (pa hd)), None)
    | RdChkHead hd => if pa hd =? pa (r_head s) then go (RdLdTail (r_head s)) else go RdLdHead
    | RdLdTail hd => go (RdLdNext hd (r_tail s))
    | RdLdNext hd tl => go (RdHz1 hd tl (rn_next (rget (r_heap s) (pa hd))))
    | RdHz1 hd tl nx =>
        if pa nx =? 0 then Some (rwith_thr s t (set_hz1 (rfinish th (LPtr 0)) (pa nx)), Some (LPtr 0))
        else if pa hd =? pa tl then Some (rwith_thr s t (set_hz1 (rgoto th (RdCasHelp tl nx)) (pa nx)), None)
        else Some (rwith_thr s t (set_hz1 (rgoto th (RdLdVal hd nx)) (pa nx)), None)
    | RdCasHelp tl nx =>
        let tail' := if pa (r_tail s) =? pa tl then nx else r_tail s in
        Some (rwith_tail s tail' t (rgoto th RdLdHead), None)
    | RdLdVal hd nx => go (RdCasHead hd nx (rn_val (rget (r_heap s) (pa nx))))
    | RdCasHead hd nx p =>
        if pa (r_head s) =? pa hd then
          Some (mkRS (r_heap s) nx (r_tail s) (r_free s) (r_bump s) (r_fmax s)
                    (lset_nth (r_thr s) t (rgoto th (RdRel hd p)))
                    (r_lid s) (r_own s) (rg_enq s) (rg_deq s ++ [(t, p)]), None)
        else go RdLdHead

    | RdRel hd p => Some (rwith_thr s t (set_rl (rgoto th (RdClr0 p)) (rt_rl th ++ [pa hd])), None)
    | RdClr0 p => Some (rwith_thr s t (set_hz0 (rgoto th (RdClr1 p)) 0), None)
    | RdClr1 p =>
        if Nat.eqb (length (rt_rl th)) (r_fmax s)
        then Some (rwith_thr s t (set_hz1 (rgoto th (RdScan p 0 [])) 0), None)
        else Some (rwith_thr s t (set_hz1 (rfinish th (LPtr p)) 0), Some (LPtr p))
    | RdScan p i acc =>
        if Nat.ltb i (2 * length (r_thr s))
        then go (RdScan p (S i) (acc ++ [slot_of (r_thr s) t (Nat.div i 2) (Nat.modulo i 2)]))
        else go (RdFree p (isort acc) (rt_rl th) [])                (* qsort(plist, num_hps, ..., void_cmp) *)
    | RdFree p srt todo kept =>
        let finish_pass :=
          if Nat.eqb (length kept) (r_fmax s) then go (RdScan p 0 [])      (* do { ... } while (count == freelist_max) *)
          else Some (rwith_thr s t (set_rl (rfinish th (LPtr p)) kept), Some (LPtr p)) in
        match todo with
        | [] => finish_pass
        | a :: todo' =>
            if a =? 0 then finish_pass                                   (* if (ptr == 0) break; *)
            else match binary_search srt a (N.of_nat (length srt)) with
                 | Some false =>                                         (* not hazardous: freefunc(ptr) *)
                     Some (mkRS (r_heap s) (r_head s) (r_tail s) (a :: r_free s) (r_bump s) (r_fmax s)
                               (lset_nth (r_thr s) t (rgoto th (RdFree p srt todo' kept)))
                               (r_lid s) (r_own s) (rg_enq s) (rg_deq s), None)
                 | _ => go (RdFree p srt todo' (kept ++ [a]))
                 end
        end

    | RmLdHead => go (RmLdTail (r_head s) (length (rg_enq s)))
    | RmLdTail hd g => go (RmLdNext hd (r_tail s) g)
    | RmLdNext hd tl g => go (RmMF hd tl (rn_next (rget (r_heap s) (pa hd))) g)
    | RmMF hd tl nx g => go (RmChk hd tl nx g)
    | RmChk hd tl nx g =>
        if pa hd =? pa (r_head s) then
          (if (pa hd =? pa tl) && (pa nx =? 0) then fin (LInt 1) else fin (LInt 0))
        else go RmLdHead
    end
  end.

Definition rstep' (s : rstate) (t : nat) : rstate := match rstep s t with Some (s', _) => s' | None => s end.
Definition rrun (s : rstate) (sched : list nat) : rstate := fold_left rstep' sched s.

Definition rpc_of (s : rstate) (t : nat) : rpc :=
  match nth_error (r_thr s) t with Some th => rt_pc th | None => RIdle end.

(* M3 replay step: run thread t until it returns from its call or stands before the next interposed operation *)
Fixpoint rrun_to_sp (fuel : nat) (s : rstate) (t : nat) : rstate * option lkind :=
  match fuel with
  | O => (s, None)
  | S f => match rstep s t with
           | None => (s, None)
           | Some (s', Some r) => (s', Some (LKEnd r))
           | Some (s', None) => match rsp_kind (rpc_of s' t) with
                                | Some k => (s', Some k)
                                | None => rrun_to_sp f s' t
                                end
           end
  end.

(* dump: the addresses on the chain from head with their values, where tail stands, the pool, every worker's slots and list *)
Fixpoint rchain (fuel : nat) (h : rheap) (a : N) : list N :=
  match fuel with
  | O => []
  | S f => if a =? 0 then [] else a :: rchain f h (pa (rn_next (rget h a)))
  end.
Definition rchain_from_head (s : rstate) : list N := rchain (S (length (r_heap s))) (r_heap s) (pa (r_head s)).
Definition rcontents (s : rstate) : list N := map (fun a => rn_val (rget (r_heap s) a)) (List.tl (rchain_from_head s)).

(* ---- what the safety theorems talk about ---- *)
(* the address is allocated and still holds the incarnation the pointer's ghost tag names *)
Definition live (s : rstate) (p : ptr) : Prop :=
  pa p <> 0 /\ ~ In (pa p) (r_free s) /\ pa p < r_bump s /\ aget (r_own s) (pa p) = pl p.

(* the node whose `next` field thread-local code is about to load or CAS on *)
Definition deref_next (p : rpc) : option ptr :=
  match p with
  | ReLdNext _ tl | ReCasLink _ tl => Some tl
  | RdLdNext hd _ => Some hd
  | _ => None
  end.
(* the pointer a CAS on q->head / q->tail compares with, and the shared word *)
Inductive casword := WHead | WTail.
Definition cas_expect (p : rpc) : option (casword * ptr) :=
  match p with
  | ReCasHelp _ tl _ | ReCasSwing _ tl | RdCasHelp tl _ => Some (WTail, tl)
  | RdCasHead hd _ _ => Some (WHead, hd)
  | _ => None
  end.
Definition word_of (s : rstate) (w : casword) : ptr := match w with WHead => r_head s | WTail => r_tail s end.
