From Coq Require Import List NArith.
From QV Require CQueues.Swsr CQueues.Lfq CQueues.Hazard CQueues.Dq.
Require Extraction.
Require Import ExtrOcamlBasic.
Extraction Language OCaml.
Extraction "../ocaml/gen/c15_model.ml" Swsr.create_size Swsr.init Swsr.run_to_sp Swsr.contents Swsr.enq_seq Swsr.deq_seq Lfq.linit Lfq.lrun_to_sp Lfq.lcontents Lfq.tail_pos Hazard.void_cmp Hazard.binary_search Hazard.scan Hazard.collect Dq.seq_deq_ok.
