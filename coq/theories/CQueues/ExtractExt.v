From Coq Require Import List NArith.
From QV Require CQueues.Lfq CQueues.LfqReclaim.
Require Extraction.
Require Import ExtrOcamlBasic.
Extraction Language OCaml.
Extraction "../ocaml/gen/c15ext_model.ml" LfqReclaim.rinit LfqReclaim.rrun_to_sp LfqReclaim.rcontents LfqReclaim.rchain_from_head LfqReclaim.rstep.
