From Coq Require Import List NArith.
From QV Require CQueues.Lfq CQueues.LfqReclaim.
From QV Require CQueues.DqMicro.   (* extension H (DM) *)
Require Extraction.
Require Import ExtrOcamlBasic.
Extraction Language OCaml.
Extraction "../ocaml/gen/c15ext_model.ml" LfqReclaim.rinit LfqReclaim.rrun_to_sp LfqReclaim.rcontents LfqReclaim.rchain_from_head LfqReclaim.rstep DqMicro.dm_init DqMicro.hints_create DqMicro.dm_cfg_ok DqMicro.dm_step DqMicro.dm_run_to_sp DqMicro.dm_sp_target DqMicro.dm_pc_of DqMicro.getq DqMicro.dm_contents DqMicro.dm_last_consumed DqMicro.dm_last_ad_issued DqMicro.dm_last_ad_consumed DqMicro.dm_lock_holder DqMicro.dm_heap_chain DqMicro.dm_heap_elems DqMicro.dm_outs DqMicro.dm_crashed.
