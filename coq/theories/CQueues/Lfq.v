(* C15 qlfqueue: executable micro-step model of src/ds/qlfqueue.c (Michael-Scott queue with hazard pointers).

   Heap: node id |-> (value, next); id 0 is NULL.  Every access to q->head, q->tail, node->next, node->value of a
   linked node is one step.  Nodes come from a counter (fresh ids): reclamation/reuse is abstracted here and
   modelled separately in Hazard.v; hazardous_ptr()/hazardous_release_node() are steps without effect that only
   mark schedule points.  A lthread standing at a lpc with [sp_kind lpc = Some k] is about to execute the interposed
   operation k (qpool_alloc, hazardous_ptr, qthread_cas_ptr, MACHINE_FENCE, hazardous_release_node): this is where
   the M3 harness can preempt the real code.                                                                  *)
From Coq Require Import List NArith Bool.
Import ListNotations.
Local Open Scope N_scope.

Record node := mkNode { n_val : N; n_next : N }.
Definition heap := list (N * node).

Fixpoint hget (h : heap) (a : N) : node :=
  match h with
  | [] => mkNode 0 0
  | (b, n) :: h' => if a =? b then n else hget h' a
  end.
Fixpoint hset (h : heap) (a : N) (n : node) : heap :=
  match h with
  | [] => [(a, n)]
  | (b, m) :: h' => if a =? b then (b, n) :: h' else (b, m) :: hset h' a n
  end.

Inductive lop := LEnq (v : N) | LDeq | LEmp.
Inductive lres := LInt (n : N) | LPtr (v : N).

Inductive lpc :=
| LIdle
(* qlfqueue_enqueue(q, v) *)
| QeAlloc (v : N)                      (* node = qpool_alloc(); memset; node->value = elem *)
| QeLdTail (nd : N)                    (* tail = q->tail *)
| QeHz (nd tl : N)                     (* hazardous_ptr(0, tail) *)
| QeChkTail (nd tl : N)                (* if (tail != q->tail) continue *)
| QeLdNext (nd tl : N)                 (* next = tail->next *)
| QeCasHelp (nd tl nx : N)             (* cas(&q->tail, tail, next); continue *)
| QeCasLink (nd tl : N)                (* if (cas(&tail->next, NULL, node) == NULL) break *)
| QeCasSwing (nd tl : N)               (* cas(&q->tail, tail, node) *)
| QeHzClr                              (* hazardous_ptr(0, NULL); return QTHREAD_SUCCESS *)
(* qlfqueue_dequeue(q) *)
| QdLdHead                             (* head = q->head *)
| QdHz0 (hd : N)                       (* hazardous_ptr(0, head) *)
| QdChkHead (hd : N)                   (* if (head != q->head) continue *)
| QdLdTail (hd : N)                    (* tail = q->tail *)
| QdLdNext (hd tl : N)                 (* next_ptr = head->next *)
| QdHz1 (hd tl nx : N)                 (* hazardous_ptr(1, next_ptr); if (next_ptr == NULL) return NULL; if (head == tail) ... *)
| QdCasHelp (tl nx : N)                (* cas(&q->tail, tail, next_ptr); continue *)
| QdLdVal (hd nx : N)                  (* p = next_ptr->value *)
| QdCasHead (hd nx p : N)              (* if (cas(&q->head, head, next_ptr) == head) break *)
| QdRel (hd p : N)                     (* hazardous_release_node(free, head); return p *)
(* qlfqueue_empty(q) *)
| QmLdHead                             (* head = q->head *)
| QmLdTail (hd : N) (g : nat)          (* tail = q->tail   (g: ghost = number of elements linked when head was read; every completed enqueue is linked) *)
| QmLdNext (hd tl : N) (g : nat)       (* next = head->next *)
| QmMF (hd tl nx : N) (g : nat)        (* MACHINE_FENCE *)
| QmChk (hd tl nx : N) (g : nat).      (* if (head == q->head) return (head == tail && next == NULL) ... else retry *)

Definition lstart (o : lop) : lpc :=
  match o with LEnq v => QeAlloc v | LDeq => QdLdHead | LEmp => QmLdHead end.

Inductive lkind := KAlloc | KHz0 | KHz1 | KCasTail | KCasNext | KCasHead | LKMF | KRel | LKEnd (r : lres).

Definition sp_kind (p : lpc) : option lkind :=
  match p with
  | QeAlloc _ => Some KAlloc
  | QeHz _ _ => Some KHz0
  | QeCasHelp _ _ _ => Some KCasTail
  | QeCasLink _ _ => Some KCasNext
  | QeCasSwing _ _ => Some KCasTail
  | QeHzClr => Some KHz0
  | QdHz0 _ => Some KHz0
  | QdHz1 _ _ _ => Some KHz1
  | QdCasHelp _ _ => Some KCasTail
  | QdCasHead _ _ _ => Some KCasHead
  | QdRel _ _ => Some KRel
  | QmMF _ _ _ _ => Some LKMF
  | _ => None
  end.

Record lthread := mkLT { lt_pc : lpc; lt_cur : option lop; lt_ops : list lop; lt_out : list (lop * lres) }.

Record lstate := mkLS {
  s_heap  : heap;
  s_head  : N;
  s_tail  : N;
  s_fresh : N;                       (* next unused node id *)
  s_thr   : list lthread;
  (* ghost history (not used by any step to decide anything): *)
  g_enq   : list (nat * N);          (* (producer, value) in the order of the successful link CAS *)
  g_deq   : list (nat * N)           (* (consumer, value) in the order of the successful head CAS *)
}.

(* qlfqueue_create(): one dummy node, head = tail = dummy *)
Definition linit (progs : list (list lop)) : lstate :=
  mkLS [(1, mkNode 0 0)] 1 1 2 (map (fun p => mkLT LIdle None p []) progs) [] [].

Fixpoint lset_nth {A} (l : list A) (i : nat) (x : A) : list A :=
  match l, i with
  | [], _ => []
  | _ :: l', O => x :: l'
  | y :: l', S i' => y :: lset_nth l' i' x
  end.

Definition lgoto (th : lthread) (p : lpc) := mkLT p (lt_cur th) (lt_ops th) (lt_out th).
Definition lfinish (th : lthread) (r : lres) :=
  match lt_cur th with
  | Some o => mkLT LIdle None (lt_ops th) (lt_out th ++ [(o, r)])
  | None => mkLT LIdle None (lt_ops th) (lt_out th)
  end.

Definition with_thr (s : lstate) (t : nat) (th : lthread) : lstate :=
  mkLS (s_heap s) (s_head s) (s_tail s) (s_fresh s) (lset_nth (s_thr s) t th) (g_enq s) (g_deq s).

Definition set_next (h : heap) (a nx : N) : heap := hset h a (mkNode (n_val (hget h a)) nx).

(* number of enqueue calls that have returned *)
Definition completed_enq (s : lstate) : nat :=
  fold_right (fun th acc => (length (filter (fun x => match fst x with LEnq _ => true | _ => false end) (lt_out th)) + acc)%nat)
             O (s_thr s).

(* one atomic step of thread t; result: new state and Some r when the call returned *)
Definition lstep (s : lstate) (t : nat) : option (lstate * option lres) :=
  match nth_error (s_thr s) t with
  | None => None
  | Some th =>
    let go p := Some (with_thr s t (lgoto th p), None) in
    let fin r := Some (with_thr s t (lfinish th r), Some r) in
    match lt_pc th with
    | LIdle => match lt_ops th with
              | [] => None
              | o :: rest => Some (with_thr s t (mkLT (lstart o) (Some o) rest (lt_out th)), None)
              end
    | QeAlloc v =>
        let nd := s_fresh s in
        Some (mkLS (hset (s_heap s) nd (mkNode v 0)) (s_head s) (s_tail s) (nd + 1)
                  (lset_nth (s_thr s) t (lgoto th (QeLdTail nd))) (g_enq s) (g_deq s), None)
    | QeLdTail nd => go (QeHz nd (s_tail s))
    | QeHz nd tl => go (QeChkTail nd tl)
    | QeChkTail nd tl => if tl =? s_tail s then go (QeLdNext nd tl) else go (QeLdTail nd)
    | QeLdNext nd tl =>
        let nx := n_next (hget (s_heap s) tl) in
        if nx =? 0 then go (QeCasLink nd tl) else go (QeCasHelp nd tl nx)
    | QeCasHelp nd tl nx =>
        let tail' := if s_tail s =? tl then nx else s_tail s in
        Some (mkLS (s_heap s) (s_head s) tail' (s_fresh s) (lset_nth (s_thr s) t (lgoto th (QeLdTail nd))) (g_enq s) (g_deq s), None)
    | QeCasLink nd tl =>
        if n_next (hget (s_heap s) tl) =? 0 then
          Some (mkLS (set_next (s_heap s) tl nd) (s_head s) (s_tail s) (s_fresh s)
                    (lset_nth (s_thr s) t (lgoto th (QeCasSwing nd tl)))
                    (g_enq s ++ [(t, n_val (hget (s_heap s) nd))]) (g_deq s), None)
        else go (QeLdTail nd)
    | QeCasSwing nd tl =>
        let tail' := if s_tail s =? tl then nd else s_tail s in
        Some (mkLS (s_heap s) (s_head s) tail' (s_fresh s) (lset_nth (s_thr s) t (lgoto th QeHzClr)) (g_enq s) (g_deq s), None)
    | QeHzClr => fin (LInt 0)

    | QdLdHead => go (QdHz0 (s_head s))
    | QdHz0 hd => go (QdChkHead hd)
    | QdChkHead hd => if hd =? s_head s then go (QdLdTail hd) else go QdLdHead
    | QdLdTail hd => go (QdLdNext hd (s_tail s))
    | QdLdNext hd tl => go (QdHz1 hd tl (n_next (hget (s_heap s) hd)))
    | QdHz1 hd tl nx =>
        if nx =? 0 then fin (LPtr 0)
        else if hd =? tl then go (QdCasHelp tl nx) else go (QdLdVal hd nx)
    | QdCasHelp tl nx =>
        let tail' := if s_tail s =? tl then nx else s_tail s in
        Some (mkLS (s_heap s) (s_head s) tail' (s_fresh s) (lset_nth (s_thr s) t (lgoto th QdLdHead)) (g_enq s) (g_deq s), None)
    | QdLdVal hd nx => go (QdCasHead hd nx (n_val (hget (s_heap s) nx)))
    | QdCasHead hd nx p =>
        if s_head s =? hd then
          Some (mkLS (s_heap s) nx (s_tail s) (s_fresh s) (lset_nth (s_thr s) t (lgoto th (QdRel hd p)))
                    (g_enq s) (g_deq s ++ [(t, p)]), None)
        else go QdLdHead
    | QdRel hd p => fin (LPtr p)

    | QmLdHead => go (QmLdTail (s_head s) (length (g_enq s)))
    | QmLdTail hd g => go (QmLdNext hd (s_tail s) g)
    | QmLdNext hd tl g => go (QmMF hd tl (n_next (hget (s_heap s) hd)) g)
    | QmMF hd tl nx g => go (QmChk hd tl nx g)
    | QmChk hd tl nx g =>
        if hd =? s_head s then
          (if (hd =? tl) && (nx =? 0) then fin (LInt 1) else fin (LInt 0))
        else go QmLdHead
    end
  end.

Definition lstep' (s : lstate) (t : nat) : lstate := match lstep s t with Some (s', _) => s' | None => s end.
Definition lrun (s : lstate) (sched : list nat) : lstate := fold_left lstep' sched s.

Definition pc_of (s : lstate) (t : nat) : lpc :=
  match nth_error (s_thr s) t with Some th => lt_pc th | None => LIdle end.

(* M3 replay step: run thread t until it returns from its call or stands before the next interposed operation *)
Fixpoint lrun_to_sp (fuel : nat) (s : lstate) (t : nat) : lstate * option lkind :=
  match fuel with
  | O => (s, None)
  | S f => match lstep s t with
           | None => (s, None)
           | Some (s', Some r) => (s', Some (LKEnd r))
           | Some (s', None) => match sp_kind (pc_of s' t) with
                                | Some k => (s', Some k)
                                | None => lrun_to_sp f s' t
                                end
           end
  end.

(* abstract dump: values reachable from head (dummy excluded), and the position of tail on that chain *)
Fixpoint chain (fuel : nat) (h : heap) (a : N) : list N :=
  match fuel with
  | O => []
  | S f => if a =? 0 then [] else a :: chain f h (n_next (hget h a))
  end.
Definition chain_from_head (s : lstate) : list N := chain (S (length (s_heap s))) (s_heap s) (s_head s).
Definition lcontents (s : lstate) : list N := map (fun a => n_val (hget (s_heap s) a)) (tl (chain_from_head s)).
Fixpoint index_of (a : N) (l : list N) (i : N) : option N :=
  match l with [] => None | b :: l' => if a =? b then Some i else index_of a l' (i + 1) end.
Definition tail_pos (s : lstate) : option N := index_of (s_tail s) (chain_from_head s) 0.
