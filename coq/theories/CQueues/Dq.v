(* C15 qdqueue: model of src/ds/qdqueue.c over abstract FIFO sub-queues (definitions only).

   One sub-queue per shepherd (a qlfqueue, here a list).  qdqueue_dequeue on shepherd `me` tries, in this order:
   its own sub-queue; sub-queues named by advertisements; then every entry of allsheps[me] (all other shepherds
   ordered by distance), for each also the queue that shepherd last consumed from; when the advertisement heap
   became non-empty it jumps back (goto checkads) and the allsheps pass restarts.  NULL is returned only at the
   end of a complete allsheps pass.  The advertisement / last_consumed heuristics only choose WHICH extra
   sub-queues are tried; they are abstracted as arbitrary extra attempts: `pre` (everything tried before the
   final, complete pass) and `lcs` (the last_consumed attempt next to each allsheps entry of the final pass).
   Each sub-queue operation is atomic (qlfqueue, see Lfq.v); operations of other tasks may interleave between
   the attempts of one dequeue (step machine below).                                                          *)
From Coq Require Import List NArith Bool Arith.
Import ListNotations.

Definition queues := list (list N).

Fixpoint qpop (qs : queues) (i : nat) : option (N * queues) :=
  match qs, i with
  | [], _ => None
  | q :: qs', O => match q with [] => None | x :: q' => Some (x, q' :: qs') end
  | q :: qs', S i' => match qpop qs' i' with Some (x, qs'') => Some (x, q :: qs'') | None => None end
  end.
Fixpoint qpush (qs : queues) (i : nat) (x : N) : queues :=
  match qs, i with
  | [], _ => []
  | q :: qs', O => (q ++ [x]) :: qs'
  | q :: qs', S i' => q :: qpush qs' i' x
  end.

(* the attempts one dequeue makes, in order: own, pre, then for each allsheps entry: it, then its lc *)
Fixpoint final_pass (alls : list nat) (lcs : list (option nat)) : list nat :=
  match alls with
  | [] => []
  | r :: alls' =>
      match lcs with
      | Some l :: lcs' => r :: l :: final_pass alls' lcs'
      | None :: lcs' => r :: final_pass alls' lcs'
      | [] => r :: final_pass alls' []
      end
  end.
Definition attempts (me : nat) (pre : list nat) (alls : list nat) (lcs : list (option nat)) : list nat :=
  me :: pre ++ final_pass alls lcs.

Inductive dop :=
| DEnq (there : nat) (x : N)                                    (* qdqueue_enqueue / _enqueue_there *)
| DDeq (me : nat) (pre : list nat) (lcs : list (option nat)).   (* qdqueue_dequeue on shepherd me *)

Record task := mkTask {
  k_todo : list nat;            (* remaining attempts of the running dequeue *)
  k_seen : list nat;            (* ghost: sub-queues this dequeue found empty *)
  k_run  : bool;                (* a dequeue is in progress *)
  k_ops  : list dop;
  k_out  : list (option N)      (* results of completed dequeues (None = NULL) *)
}.

Record dstate := mkD {
  d_qs   : queues;
  d_alls : list (list nat);     (* allsheps[me] *)
  d_tasks: list task;
  d_enq  : list N;              (* ghost: everything enqueued so far *)
  d_deq  : list N               (* ghost: everything dequeued so far *)
}.

Fixpoint set_nth {A} (l : list A) (i : nat) (x : A) : list A :=
  match l, i with
  | [], _ => []
  | _ :: l', O => x :: l'
  | y :: l', S i' => y :: set_nth l' i' x
  end.

Definition dstep (s : dstate) (t : nat) : option dstate :=
  match nth_error (d_tasks s) t with
  | None => None
  | Some k =>
    if k_run k then
      match k_todo k with
      | [] => (* complete pass done, nothing found: return NULL *)
          Some (mkD (d_qs s) (d_alls s) (set_nth (d_tasks s) t (mkTask [] (k_seen k) false (k_ops k) (k_out k ++ [None])))
                    (d_enq s) (d_deq s))
      | i :: rest =>
          match qpop (d_qs s) i with
          | Some (x, qs') =>
              Some (mkD qs' (d_alls s) (set_nth (d_tasks s) t (mkTask [] (k_seen k) false (k_ops k) (k_out k ++ [Some x])))
                        (d_enq s) (d_deq s ++ [x]))
          | None =>
              Some (mkD (d_qs s) (d_alls s) (set_nth (d_tasks s) t (mkTask rest (i :: k_seen k) true (k_ops k) (k_out k)))
                        (d_enq s) (d_deq s))
          end
      end
    else
      match k_ops k with
      | [] => None
      | DEnq there x :: ops =>
          Some (mkD (qpush (d_qs s) there x) (d_alls s) (set_nth (d_tasks s) t (mkTask [] [] false ops (k_out k)))
                    (d_enq s ++ [x]) (d_deq s))
      | DDeq me pre lcs :: ops =>
          Some (mkD (d_qs s) (d_alls s)
                    (set_nth (d_tasks s) t (mkTask (attempts me pre (nth me (d_alls s) []) lcs) [] true ops (k_out k)))
                    (d_enq s) (d_deq s))
      end
  end.

Definition dstep' (s : dstate) (t : nat) : dstate := match dstep s t with Some s' => s' | None => s end.
Definition drun (s : dstate) (sched : list nat) : dstate := fold_left dstep' sched s.

(* allsheps[me] for n shepherds must name every other shepherd (checked against the real arrays by the harness) *)
Definition alls_ok (n : nat) (alls : list (list nat)) : bool :=
  (length alls =? n) &&
  forallb (fun me => forallb (fun r => (r =? me) || existsb (Nat.eqb r) (nth me alls [])) (seq 0 n)) (seq 0 n).

Definition dinit (n : nat) (alls : list (list nat)) (progs : list (list dop)) : dstate :=
  mkD (repeat [] n) alls (map (fun p => mkTask [] [] false p []) progs) [] [].

(* Sequential acceptor (used by the scripted one-operation-at-a-time qdqueue mode of the check): with no other operation in
   flight, a dequeue on shepherd `me` from sub-queues `qs` may return NULL only when every sub-queue is empty, and an element
   only when it is the head of the shepherd's own sub-queue or, that one being empty, the head of some sub-queue. *)
Definition is_empty (q : list N) : bool := match q with [] => true | _ => false end.
Definition head_is (x : N) (q : list N) : bool := match q with y :: _ => N.eqb x y | [] => false end.
Definition seq_deq_ok (qs : queues) (me : nat) (r : option N) : bool :=
  match r with
  | None => forallb is_empty qs
  | Some x => if is_empty (nth me qs []) then existsb (head_is x) qs else head_is x (nth me qs [])
  end.
