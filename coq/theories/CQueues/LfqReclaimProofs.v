(* C15 extension H: the hazard-pointer protocol of qlfqueue.c + hazardptrs.c makes node re-use safe, end to end.

   Method: a forward simulation from the reclaiming machine of LfqReclaim.v (addresses, pool, hazard slots, retired lists, scan) to
   the fresh-id machine of Lfq.v.  The relation [Rel] ties a reclaiming state c to a fresh-id state s (same ghost ids, same
   histories, thread by thread the same pc with the ghost tags of its pointers) and carries the reclamation invariants: an
   address status map st (unused / free / allocated / dequeued-not-yet-retired by t / retired by t), la : logical id -> address,
   every validated hazard slot names an allocated address whose current incarnation is the one the thread means, and every
   running scan has already collected every validated slot it has passed that names one of its retired nodes.
   One reclaiming step is matched by 0, 1 or 4 steps of the same thread of the fresh-id machine (4: a validation that succeeds on
   a re-used address is matched by: validation fails, re-load, publish, validation succeeds).  qlfqueue_empty() calls are not
   simulated (they change nothing shared; the fresh-id machine runs the programs without them).
   Consequences: no_use_after_free, no_aba, conservation / FIFO / consumer results for the reclaiming machine.            *)
From Coq Require Import List NArith Bool Arith Lia ZifyBool ZifyNat ZifyN Permutation.
From QV Require Import CQueues.Lfq CQueues.LfqProofs CQueues.Hazard CQueues.HazardProofs CQueues.LfqReclaim CQueues.LfqReclaimTail.
Import ListNotations.
Local Open Scope N_scope.

(* ------------------------------------------------------------------ basics *)
Lemma rget_rset h a n b : rget (rset h a n) b = if b =? a then n else rget h b.
Proof.
  induction h as [|[c m] h IH]; cbn [rset rget].
  - destruct (N.eqb_spec b a); reflexivity.
  - destruct (N.eqb_spec a c) as [->|Hac]; cbn [rget].
    + destruct (N.eqb_spec b c); reflexivity.
    + destruct (N.eqb_spec b c) as [->|Hbc].
      * destruct (N.eqb_spec c a); [congruence|reflexivity].
      * exact IH.
Qed.
Lemma aget_aset m a v b : aget (aset m a v) b = if b =? a then v else aget m b.
Proof.
  induction m as [|[c w] m IH]; cbn [aset aget].
  - destruct (N.eqb_spec b a); reflexivity.
  - destruct (N.eqb_spec a c) as [->|Hac]; cbn [aget].
    + destruct (N.eqb_spec b c); reflexivity.
    + destruct (N.eqb_spec b c) as [->|Hbc].
      * destruct (N.eqb_spec c a); [congruence|reflexivity].
      * exact IH.
Qed.

Lemma lset_lset {A} (l : list A) i x y : lset_nth (lset_nth l i x) i y = lset_nth l i y.
Proof. revert i; induction l as [|a l IH]; intros [|i]; cbn; try reflexivity. rewrite IH; reflexivity. Qed.
Lemma lset_length {A} (l : list A) i x : length (lset_nth l i x) = length l.
Proof. revert i; induction l as [|a l IH]; intros [|i]; cbn; try reflexivity. rewrite IH; reflexivity. Qed.
Lemma nth_lset_eq' {A} (l : list A) i y : (i < length l)%nat -> nth_error (lset_nth l i y) i = Some y.
Proof.
  intros H. destruct (nth_error l i) eqn:E; [eapply nth_lset_eq; eauto|]. apply nth_error_None in E. lia.
Qed.

(* ------------------------------------------------------------------ abstraction of threads *)
Definition notemp (o : lop) : bool := match o with LEmp => false | _ => true end.
Definition notemp_out (x : lop * lres) : bool := notemp (fst x).
Definition acur (c : option lop) : option lop := match c with Some LEmp => None | x => x end.

Definition apc (p : rpc) : lpc :=
  match p with
  | RIdle => LIdle
  | ReAlloc v => QeAlloc v
  | ReLdTail nd => QeLdTail (pl nd)
  | ReHz nd tl => QeHz (pl nd) (pl tl)
  | ReChkTail nd tl => QeChkTail (pl nd) (pl tl)
  | ReLdNext nd tl => QeLdNext (pl nd) (pl tl)
  | ReCasHelp nd tl nx => QeCasHelp (pl nd) (pl tl) (pl nx)
  | ReCasLink nd tl => QeCasLink (pl nd) (pl tl)
  | ReCasSwing nd tl => QeCasSwing (pl nd) (pl tl)
  | ReHzClr => QeHzClr
  | RdLdHead => QdLdHead
  | RdHz0 hd => QdHz0 (pl hd)
  | RdChkHead hd => QdChkHead (pl hd)
  | RdLdTail hd => QdLdTail (pl hd)
  | RdLdNext hd tl => QdLdNext (pl hd) (pl tl)
  | RdHz1 hd tl nx => QdHz1 (pl hd) (pl tl) (pl nx)
  | RdCasHelp tl nx => QdCasHelp (pl tl) (pl nx)
  | RdLdVal hd nx => QdLdVal (pl hd) (pl nx)
  | RdCasHead hd nx p => QdCasHead (pl hd) (pl nx) p
  | RdRel hd p => QdRel (pl hd) p
  | RdClr0 p | RdClr1 p | RdScan p _ _ | RdFree p _ _ _ => QdRel 0 p
  | RmLdHead | RmLdTail _ _ | RmLdNext _ _ _ | RmMF _ _ _ _ | RmChk _ _ _ _ => LIdle
  end.

(* the pc relation: apc, except that the value read at RdLdVal may differ when the head CAS is going to fail anyway, and the
   retired node is forgotten after RdRel *)
Definition pcr (hdl : N) (rp : rpc) (ap : lpc) : Prop :=
  match rp with
  | RdCasHead hd nx p => exists p', ap = QdCasHead (pl hd) (pl nx) p' /\ (hdl = pl hd -> p' = p)
  | RdRel _ p | RdClr0 p | RdClr1 p | RdScan p _ _ | RdFree p _ _ _ => exists x, ap = QdRel x p
  | _ => ap = apc rp
  end.

Definition threl (hdl : N) (rt : rthread) (lt : lthread) : Prop :=
  pcr hdl (rt_pc rt) (lt_pc lt) /\ lt_cur lt = acur (rt_cur rt) /\
  lt_ops lt = filter notemp (rt_ops rt) /\ lt_out lt = filter notemp_out (rt_out rt).

(* ------------------------------------------------------------------ reclamation invariants *)
Inductive status := SU | SF | SA | SP (t : nat) | SR (t : nat).

Definition gp (la : N -> N) (lid : N) (p : ptr) : Prop :=
  (pa p = 0 /\ pl p = 0) \/ (pa p <> 0 /\ pl p <> 0 /\ pl p < lid /\ la (pl p) = pa p).

Definition pc_ptrs (p : rpc) : list ptr :=
  match p with
  | ReLdTail nd => [nd]
  | ReHz nd tl | ReChkTail nd tl | ReLdNext nd tl | ReCasLink nd tl | ReCasSwing nd tl => [nd; tl]
  | ReCasHelp nd tl nx => [nd; tl; nx]
  | RdHz0 hd | RdChkHead hd | RdLdTail hd => [hd]
  | RdLdNext hd tl => [hd; tl]
  | RdHz1 hd tl nx => [hd; tl; nx]
  | RdCasHelp tl nx => [tl; nx]
  | RdLdVal hd nx | RdCasHead hd nx _ => [hd; nx]
  | RdRel hd _ => [hd]
  | _ => []
  end.

(* the pointer the thread's hazard slot 0 protects AFTER a successful validation *)
Definition prot0 (p : rpc) : option ptr :=
  match p with
  | ReLdNext _ tl | ReCasHelp _ tl _ | ReCasLink _ tl | ReCasSwing _ tl => Some tl
  | RdLdTail hd | RdLdNext hd _ | RdHz1 hd _ _ | RdLdVal hd _ | RdCasHead hd _ _ => Some hd
  | RdCasHelp tl _ => Some tl
  | _ => None
  end.

Definition rpriv (p : rpc) : option ptr :=
  match p with
  | ReLdTail nd | ReHz nd _ | ReChkTail nd _ | ReLdNext nd _ | ReCasHelp nd _ _ | ReCasLink nd _ => Some nd
  | _ => None
  end.

Definition keepf (srt : list N) (a : N) : bool :=
  match binary_search srt a (N.of_nat (length srt)) with Some false => false | _ => true end.

(* the retired entries a thread still answers for *)
Definition eff_rl (th : rthread) : list N :=
  match rt_pc th with RdFree _ _ todo kept => kept ++ todo | _ => rt_rl th end.

(* scanner u (thread record uth) has not missed the validated slot 0 of thread t naming address a *)
Definition scan_cov (t : nat) (a : N) (uth : rthread) : Prop :=
  match rt_pc uth with
  | RdScan _ i acc => In a (rt_rl uth) -> (2 * t < i)%nat -> In a acc
  | RdFree _ srt todo _ => In a todo -> In a srt
  | _ => True
  end.

Definition xpc (st : N -> status) (fmax : nat) (t : nat) (th : rthread) : Prop :=
  match rt_pc th with
  | ReChkTail _ tl => rt_hz0 th = pa tl
  | RdChkHead hd => rt_hz0 th = pa hd
  | RdLdNext hd tl | RdHz1 hd tl _ => pa tl = pa hd -> pl tl = pl hd
  | RdRel hd _ => st (pa hd) = SP t
  | RdScan _ _ _ => length (rt_rl th) = fmax
  | RdFree _ srt todo kept =>
      length (rt_rl th) = fmax /\ (exists pre, rt_rl th = pre ++ todo /\ kept = filter (keepf srt) pre) /\ exists acc, srt = isort acc
  | RmLdHead | RmLdTail _ _ | RmLdNext _ _ _ | RmMF _ _ _ _ | RmChk _ _ _ _ => rt_cur th = Some LEmp
  | _ => True
  end.

Record Rel (c : rstate) (s : lstate) (L : list N) (la : N -> N) (st : N -> status) : Prop := {
  R_head : s_head s = pl (r_head c);
  R_tail : s_tail s = pl (r_tail c);
  R_fresh : s_fresh s = r_lid c;
  R_enq : g_enq s = rg_enq c;
  R_deq : g_deq s = rg_deq c;
  R_len : length (s_thr s) = length (r_thr c);
  R_thr : forall t rt, nth_error (r_thr c) t = Some rt ->
            exists lt, nth_error (s_thr s) t = Some lt /\ threl (pl (r_head c)) rt lt;
  R_heap : forall a, st a <> SU -> st a <> SF ->
            hget (s_heap s) (aget (r_own c) a) = mkNode (rn_val (rget (r_heap c) a)) (pl (rn_next (rget (r_heap c) a)));
  G_U : forall a, st a = SU <-> (a = 0 \/ r_bump c <= a);
  G_F : forall a, st a = SF <-> In a (r_free c);
  G_Fnd : NoDup (r_free c);
  G_bump : 1 <= r_bump c;
  G_lid : 1 <= r_lid c;
  G_own : forall a, st a <> SU -> aget (r_own c) a < r_lid c /\ aget (r_own c) a <> 0 /\ la (aget (r_own c) a) = a;
  G_R : forall t th a, nth_error (r_thr c) t = Some th -> In a (eff_rl th) -> st a = SR t;
  G_Rnd : forall t th, nth_error (r_thr c) t = Some th -> NoDup (rt_rl th);
  G_chain : forall l, In l (skipn (length (rg_deq c)) L) -> st (la l) = SA /\ aget (r_own c) (la l) = l;
  G_priv : forall t th nd, nth_error (r_thr c) t = Some th -> rpriv (rt_pc th) = Some nd ->
            st (pa nd) = SA /\ aget (r_own c) (pa nd) = pl nd;
  G_gph : gp la (r_lid c) (r_head c);
  G_gpt : gp la (r_lid c) (r_tail c);
  G_gpn : forall a, st a <> SU -> gp la (r_lid c) (rn_next (rget (r_heap c) a));
  G_gpp : forall t th p, nth_error (r_thr c) t = Some th -> In p (pc_ptrs (rt_pc th)) -> gp la (r_lid c) p;
  H_prot : forall t th p, nth_error (r_thr c) t = Some th -> prot0 (rt_pc th) = Some p ->
            rt_hz0 th = pa p /\ aget (r_own c) (pa p) = pl p /\ st (pa p) <> SF /\ st (pa p) <> SU;
  H_scan : forall t th p u uth, nth_error (r_thr c) t = Some th -> prot0 (rt_pc th) = Some p ->
            nth_error (r_thr c) u = Some uth -> scan_cov t (pa p) uth;
  X_pc : forall t th, nth_error (r_thr c) t = Some th -> xpc st (r_fmax c) t th
}.

Definition aprogs (progs : list (list lop)) : list (list lop) := map (filter notemp) progs.

Lemma rel_init fmax progs :
  Rel (rinit fmax progs) (linit (aprogs progs)) [1]
      (fun l => if l =? 1 then 1 else 0) (fun a => if a =? 1 then SA else SU).
Proof.
  assert (Hth : forall t rt, nth_error (r_thr (rinit fmax progs)) t = Some rt ->
                  exists p, nth_error progs t = Some p /\ rt = mkRT RIdle None p [] 0 0 []).
  { intros t rt H. cbn [rinit r_thr] in H. rewrite nth_error_map in H.
    destruct (nth_error progs t) as [p|]; [|discriminate]. injection H as <-. eauto. }
  constructor; cbn [rinit linit r_head r_tail r_lid rg_enq rg_deq r_thr r_heap r_own r_free r_bump r_fmax
                    s_head s_tail s_fresh g_enq g_deq s_thr s_heap pl pa]; try reflexivity.
  - unfold aprogs. rewrite !map_length. reflexivity.
  - intros t rt H. destruct (Hth t rt H) as (p & Hp & ->).
    exists (mkLT LIdle None (filter notemp p) []). split.
    + unfold aprogs. rewrite !nth_error_map, Hp. reflexivity.
    + repeat split.
  - intros a H1 _. destruct (N.eqb_spec a 1) as [E|E]; [subst a; reflexivity|congruence].
  - intros a. destruct (N.eqb_spec a 1) as [E|E]; split; intros H; try discriminate; try reflexivity; try (exfalso; lia); lia.
  - intros a. destruct (a =? 1); split; intros H; try discriminate; destruct H.
  - constructor.
  - lia.
  - lia.
  - intros a H. destruct (N.eqb_spec a 1) as [E|E]; [subst a|congruence]. cbn. repeat split; lia.
  - intros t th a H. destruct (Hth t th H) as (p & _ & ->). intros [].
  - intros t th H. destruct (Hth t th H) as (p & _ & ->). constructor.
  - intros l [<-|[]]. cbn. split; reflexivity.
  - intros t th nd H. destruct (Hth t th H) as (p & _ & ->). discriminate.
  - right. cbn. repeat split; lia.
  - right. cbn. repeat split; lia.
  - intros a H. destruct (N.eqb_spec a 1) as [E|E]; [subst a|congruence]. left. split; reflexivity.
  - intros t th p H. destruct (Hth t th H) as (p0 & _ & ->). intros [].
  - intros t th p H. destruct (Hth t th H) as (p0 & _ & ->). discriminate.
  - intros t th p u uth H. destruct (Hth t th H) as (p0 & _ & ->). discriminate.
  - intros t th H. destruct (Hth t th H) as (p0 & _ & ->). exact I.
Qed.

(* ------------------------------------------------------------------ re-establishing Rel after a thread-local step *)
Lemma nth_rwith c t th' t2 :
  nth_error (r_thr (rwith_thr c t th')) t2 =
  if Nat.eq_dec t t2 then (match nth_error (r_thr c) t with Some _ => Some th' | None => None end) else nth_error (r_thr c) t2.
Proof.
  cbn [rwith_thr r_thr]. destruct (Nat.eq_dec t t2) as [<-|Hne].
  - destruct (nth_error (r_thr c) t) eqn:E; [eapply nth_lset_eq; eauto|].
    apply nth_error_None. rewrite lset_length. apply nth_error_None. exact E.
  - apply nth_lset_ne. exact Hne.
Qed.

Lemma nth_lset_case {A} (l : list A) t x t2 y :
  nth_error (lset_nth l t x) t2 = Some y ->
  (t2 = t /\ y = x /\ (t < length l)%nat) \/ (t2 <> t /\ nth_error l t2 = Some y).
Proof.
  intros H. destruct (Nat.eq_dec t t2) as [<-|Hne].
  - left. assert (Hlt : (t < length l)%nat).
    { rewrite <- (lset_length l t x). apply nth_error_Some. congruence. }
    rewrite nth_lset_eq' in H by exact Hlt. injection H as <-. auto.
  - right. rewrite nth_lset_ne in H by exact Hne. split; [congruence|exact H].
Qed.

Lemma rel_local c s L la st t th th' lt' tl' :
  Rel c s L la st ->
  nth_error (r_thr c) t = Some th ->
  threl (pl (r_head c)) th' lt' ->
  gp la (r_lid c) tl' ->
  NoDup (rt_rl th') -> eff_rl th' = eff_rl th ->
  (forall p, In p (pc_ptrs (rt_pc th')) -> gp la (r_lid c) p) ->
  (forall nd, rpriv (rt_pc th') = Some nd -> rpriv (rt_pc th) = Some nd) ->
  (forall p, prot0 (rt_pc th') = Some p ->
     rt_hz0 th' = pa p /\ aget (r_own c) (pa p) = pl p /\ st (pa p) <> SF /\ st (pa p) <> SU /\
     (forall u uth, u <> t -> nth_error (r_thr c) u = Some uth -> scan_cov t (pa p) uth) /\
     scan_cov t (pa p) th') ->
  (forall u uth p, u <> t -> nth_error (r_thr c) u = Some uth -> prot0 (rt_pc uth) = Some p -> scan_cov u (pa p) th') ->
  xpc st (r_fmax c) t th' ->
  Rel (rwith_tail c tl' t th')
      (mkLS (s_heap s) (s_head s) (pl tl') (s_fresh s) (lset_nth (s_thr s) t lt') (g_enq s) (g_deq s)) L la st.
Proof.
  intros R Hth Htr Hgt Hrl Heff Hgp Hpriv Hprot Hsc Hx.
  assert (Hlt : (t < length (r_thr c))%nat) by (apply nth_error_Some; congruence).
  destruct R. constructor; cbn [rwith_tail r_head r_tail r_lid rg_enq rg_deq r_thr r_heap r_own r_free r_bump r_fmax
                                s_head s_tail s_fresh g_enq g_deq s_thr s_heap]; auto.
  - rewrite !lset_length. assumption.
  - intros t2 rt H. apply nth_lset_case in H. destruct H as [(-> & -> & _)|(Hne & H)].
    + exists lt'. split; [apply nth_lset_eq'; lia|exact Htr].
    + rewrite nth_lset_ne by congruence. auto.
  - intros t2 th2 a H Ha. apply nth_lset_case in H. destruct H as [(-> & -> & _)|(Hne & H)].
    + rewrite Heff in Ha. eauto.
    + eauto.
  - intros t2 th2 H. apply nth_lset_case in H. destruct H as [(-> & -> & _)|(Hne & H)]; eauto.
  - intros t2 th2 nd H Hp. apply nth_lset_case in H. destruct H as [(-> & -> & _)|(Hne & H)].
    + eapply G_priv0; [exact Hth|auto].
    + eauto.
  - intros t2 th2 p H Hp. apply nth_lset_case in H. destruct H as [(-> & -> & _)|(Hne & H)]; eauto.
  - intros t2 th2 p H Hp. apply nth_lset_case in H. destruct H as [(-> & -> & _)|(Hne & H)].
    + destruct (Hprot p Hp) as (A & B & C & D & _). auto.
    + eauto.
  - intros t2 th2 p u uth H Hp Hu.
    apply nth_lset_case in H. apply nth_lset_case in Hu.
    destruct H as [(-> & -> & _)|(Hne & H)]; destruct Hu as [(-> & -> & _)|(Hne2 & Hu)].
    + apply Hprot; exact Hp.
    + destruct (Hprot p Hp) as (_ & _ & _ & _ & E & _). eapply E; eauto.
    + eapply Hsc; eauto.
    + eauto.
  - intros t2 th2 H. apply nth_lset_case in H. destruct H as [(-> & -> & _)|(Hne & H)]; eauto.
Qed.

(* ------------------------------------------------------------------ the fresh-id side *)
Definition notlink (s : lstate) (t : nat) : Prop :=
  forall th nd tl, nth_error (s_thr s) t = Some th -> lt_pc th = QeCasLink nd tl -> n_next (hget (s_heap s) tl) <> 0.

Lemma abs1 s L t s' r : Inv s L -> TInv s L -> lstep s t = Some (s', r) -> notlink s t -> Inv s' L /\ TInv s' L.
Proof.
  intros HI HT Hs Hn. destruct (step_tinv _ _ _ _ _ HI HT Hs) as (X & A & B & [->|(th & nd & tl & H1 & H2)]).
  - rewrite app_nil_r in A, B. auto.
  - exfalso. destruct H2 as (H2 & H3 & _). eapply Hn; eauto.
Qed.

Lemma lrun1 s t s' r : lstep s t = Some (s', r) -> lrun s [t] = s'.
Proof. intros H. cbn [lrun fold_left]. unfold lstep'. rewrite H. reflexivity. Qed.

Lemma lrun_app s a b : lrun s (a ++ b) = lrun (lrun s a) b.
Proof. unfold lrun. apply fold_left_app. Qed.

Lemma lset_same {A} (l : list A) t x : nth_error l t = Some x -> lset_nth l t x = l.
Proof. revert t; induction l as [|a l IH]; intros [|t] H; cbn in *; try discriminate; [congruence|]. rewrite IH; auto. Qed.

Lemma with_thr_same s t lt : nth_error (s_thr s) t = Some lt -> with_thr s t lt = s.
Proof. intros H. unfold with_thr. rewrite (lset_same _ _ _ H). destruct s; reflexivity. Qed.

Lemma with_thr_twice s t a b : with_thr (with_thr s t a) t b = with_thr s t b.
Proof. unfold with_thr; cbn [s_heap s_head s_tail s_fresh s_thr g_enq g_deq]. rewrite lset_lset. reflexivity. Qed.

Lemma nth_with_thr s t a : (t < length (s_thr s))%nat -> nth_error (s_thr (with_thr s t a)) t = Some a.
Proof. intros H. cbn [with_thr s_thr]. apply nth_lset_eq'. exact H. Qed.

Definition Sim (c : rstate) (s : lstate) (L : list N) : Prop := exists la st, Rel c s L la st.

(* ---- pointer facts *)
Lemma gp_null la lid p : gp la lid p -> (pa p =? 0) = (pl p =? 0).
Proof. intros [[-> ->]|(A & B & _)]; [reflexivity|]. destruct (N.eqb_spec (pa p) 0), (N.eqb_spec (pl p) 0); congruence. Qed.
Lemma gp_lid_addr la lid p q : gp la lid p -> gp la lid q -> pl p = pl q -> pa p = pa q.
Proof.
  intros [[A B]|(A & B & C & D)] [[E F]|(E & F & G & H)] Heq; try congruence.
Qed.
Lemma gp_pnull la lid : gp la lid pnull.
Proof. left; split; reflexivity. Qed.

(* ------------------------------------------------------------------ small facts used by the step cases *)
Lemma nth_in_skipn {A} (l : list A) : forall k j x, nth_error l j = Some x -> (k <= j)%nat -> In x (skipn k l).
Proof.
  induction l as [|a l IH]; intros k j x H Hk; [destruct j; discriminate|].
  destruct k as [|k]; [eapply nth_error_In; eauto|].
  destruct j as [|j]; [lia|]. cbn [skipn]. eapply IH; [exact H|lia].
Qed.
Lemma nodup_not_firstn {A} (l : list A) : forall k x, NoDup l -> nth_error l k = Some x -> ~ In x (firstn k l).
Proof.
  intros k x Hnd Hk Hin. destruct (in_firstn_nth _ _ _ Hin) as (i & Hi & Hn).
  assert (i = k) by (eapply nodup_idx; eauto). lia.
Qed.
Lemma in_skipn_nth {A} (l : list A) : forall k x, In x (skipn k l) -> exists j, (k <= j)%nat /\ nth_error l j = Some x.
Proof.
  induction l as [|a l IH]; intros k x H; [destruct k; destruct H|].
  destruct k as [|k].
  - destruct (In_nth_error _ _ H) as [j Hj]. exists j. split; [lia|exact Hj].
  - cbn [skipn] in H. destruct (IH k x H) as (j & Hj & Hn). exists (S j). split; [lia|exact Hn].
Qed.
Lemma filter_len_eq {A} (f : A -> bool) (l : list A) : length (filter f l) = length l -> filter f l = l.
Proof.
  induction l as [|a l IH]; [reflexivity|]. cbn [filter]. destruct (f a); cbn [length]; intros H.
  - f_equal. apply IH. lia.
  - pose proof (filter_len_le f l). lia.
Qed.
Lemma found_sorted acc a : In a (isort acc) -> binary_search (isort acc) a (N.of_nat (length (isort acc))) = Some true.
Proof.
  intros Hin. destruct (In_nth _ _ 0 Hin) as [n [Hn Hnth]].
  apply (bsearch_finds _ a _ (N.of_nat n)).
  - intros j k Hjk Hk. apply isort_sorted_at; [exact Hjk|]. rewrite isort_length in Hk. exact Hk.
  - lia.
  - unfold at_. rewrite Nat2N.id. exact Hnth.
Qed.

Lemma rfin_proj th r : rt_pc (rfinish th r) = RIdle /\ rt_cur (rfinish th r) = None /\ rt_ops (rfinish th r) = rt_ops th /\
  rt_rl (rfinish th r) = rt_rl th /\ rt_hz0 (rfinish th r) = rt_hz0 th /\ rt_hz1 (rfinish th r) = rt_hz1 th.
Proof. unfold rfinish. destruct (rt_cur th); repeat split; reflexivity. Qed.

Lemma acur_some x o : acur x = Some o -> x = Some o /\ notemp o = true.
Proof. destruct x as [[v| |]|]; cbn; intros H; try discriminate; injection H as <-; auto. Qed.

Lemma threl_mk hdl0 hdl th th' lt lt' :
  threl hdl0 th lt -> rt_cur th' = rt_cur th -> rt_ops th' = rt_ops th -> rt_out th' = rt_out th ->
  lt_cur lt' = lt_cur lt -> lt_ops lt' = lt_ops lt -> lt_out lt' = lt_out lt ->
  pcr hdl (rt_pc th') (lt_pc lt') -> threl hdl th' lt'.
Proof. intros (A & B & C & D) E1 E2 E3 E4 E5 E6 P. repeat split; congruence. Qed.

Lemma threl_fin hdl th th' lt r o :
  threl hdl th lt -> lt_cur lt = Some o -> rt_pc th' = RIdle -> rt_cur th' = None -> rt_ops th' = rt_ops th ->
  rt_out th' = rt_out (rfinish th r) -> threl hdl th' (lfinish lt r).
Proof.
  intros (A & B & C & D) Hc E1 E2 E3 E4. rewrite Hc in B. symmetry in B. apply acur_some in B. destruct B as [B1 B2].
  unfold lfinish. rewrite Hc. unfold rfinish in E4. rewrite B1 in E4. cbn [rt_out] in E4.
  repeat split; cbn [lt_pc lt_cur lt_ops lt_out].
  - rewrite E1. reflexivity.
  - rewrite E2. reflexivity.
  - congruence.
  - rewrite E4, filter_app, D. simpl filter. change (notemp_out (o, r)) with (notemp o). rewrite B2. reflexivity.
Qed.

Lemma threl_fin_emp hdl th th' lt r :
  threl hdl th lt -> lt_pc lt = LIdle -> rt_cur th = Some LEmp -> rt_pc th' = RIdle -> rt_cur th' = None -> rt_ops th' = rt_ops th ->
  rt_out th' = rt_out (rfinish th r) -> threl hdl th' lt.
Proof.
  intros (A & B & C & D) Hp Hc E1 E2 E3 E4. unfold rfinish in E4. rewrite Hc in E4. cbn [rt_out] in E4.
  rewrite Hc in B. cbn [acur] in B.
  repeat split.
  - rewrite E1, Hp. reflexivity.
  - rewrite E2. exact B.
  - congruence.
  - rewrite E4, filter_app, D. simpl. rewrite app_nil_r. reflexivity.
Qed.

Lemma cov_fresh c s L la st t a u uth :
  Rel c s L la st -> nth_error (r_thr c) u = Some uth -> st a = SA -> scan_cov t a uth.
Proof.
  intros R Hu Ha. unfold scan_cov. destruct (rt_pc uth) eqn:E; auto.
  - intros Hin _. exfalso. assert (H : st a = SR u).
    { eapply (G_R _ _ _ _ _ R u uth); [exact Hu|]. unfold eff_rl. rewrite E. exact Hin. }
    congruence.
  - intros Hin. exfalso. assert (H : st a = SR u).
    { eapply (G_R _ _ _ _ _ R u uth); [exact Hu|]. unfold eff_rl. rewrite E. apply in_or_app; right; exact Hin. }
    congruence.
Qed.

Lemma gp_nonnull la lid p : gp la lid p -> pl p <> 0 -> pa p <> 0 /\ la (pl p) = pa p.
Proof. intros [[A B]|(A & B & C & D)] H; [congruence|auto]. Qed.

Lemma tail_live c s L la st : Inv s L -> TInv s L -> Rel c s L la st ->
  st (pa (r_tail c)) = SA /\ aget (r_own c) (pa (r_tail c)) = pl (r_tail c) /\ pa (r_tail c) <> 0.
Proof.
  intros (G & _) ((j & Hj & Hle) & _) R.
  rewrite (R_tail _ _ _ _ _ R), (R_deq _ _ _ _ _ R) in *.
  assert (Hin : In (pl (r_tail c)) (skipn (length (rg_deq c)) L)) by (eapply nth_in_skipn; eauto).
  destruct (G_chain _ _ _ _ _ R _ Hin) as [A B].
  assert (Hnz : pl (r_tail c) <> 0).
  { apply nth_error_In in Hj. apply (g_rng _ _ _ _ _ _ _ G) in Hj. lia. }
  destruct (gp_nonnull _ _ _ (G_gpt _ _ _ _ _ R) Hnz) as [C D]. rewrite D in A, B. auto.
Qed.

Lemma head_live c s L la st : Inv s L -> Rel c s L la st ->
  st (pa (r_head c)) = SA /\ aget (r_own c) (pa (r_head c)) = pl (r_head c) /\ pa (r_head c) <> 0.
Proof.
  intros (G & _) R. pose proof (g_head _ _ _ _ _ _ _ G) as Hj.
  rewrite (R_head _ _ _ _ _ R), (R_deq _ _ _ _ _ R) in *.
  assert (Hin : In (pl (r_head c)) (skipn (length (rg_deq c)) L)) by (eapply nth_in_skipn; eauto).
  destruct (G_chain _ _ _ _ _ R _ Hin) as [A B].
  assert (Hnz : pl (r_head c) <> 0).
  { apply nth_error_In in Hj. apply (g_rng _ _ _ _ _ _ _ G) in Hj. lia. }
  destruct (gp_nonnull _ _ _ (G_gph _ _ _ _ _ R) Hnz) as [C D]. rewrite D in A, B. auto.
Qed.

(* ------------------------------------------------------------------ one reclaiming step, case by case *)
Section Step.
  Variables (c : rstate) (s : lstate) (L : list N) (la : N -> N) (st : N -> status) (t : nat) (th : rthread) (lt : lthread).
  Hypotheses (HI : Inv s L) (HT : TInv s L) (R : Rel c s L la st).
  Hypotheses (Hth : nth_error (r_thr c) t = Some th) (Hlt : nth_error (s_thr s) t = Some lt).
  Hypothesis (Htr : threl (pl (r_head c)) th lt).

  Definition SGoal (c' : rstate) : Prop :=
    exists k s' X, lrun s (repeat t k) = s' /\ Inv s' (L ++ X) /\ TInv s' (L ++ X) /\ Sim c' s' (L ++ X).

  Let Hpcr := proj1 Htr.
  Let Hcur := proj1 (proj2 Htr).

  Lemma abs_stay : lrun s (repeat t 0) = with_thr s t lt /\ Inv (with_thr s t lt) L /\ TInv (with_thr s t lt) L.
  Proof. rewrite (with_thr_same _ _ _ Hlt). auto. Qed.

  Lemma abs_go lt' r0 : lstep s t = Some (with_thr s t lt', r0) ->
    (forall nd tl, lt_pc lt = QeCasLink nd tl -> n_next (hget (s_heap s) tl) <> 0) ->
    lrun s (repeat t 1) = with_thr s t lt' /\ Inv (with_thr s t lt') L /\ TInv (with_thr s t lt') L.
  Proof.
    intros Hs Hn. split; [eapply lrun1; eauto|]. eapply abs1; eauto.
    intros th0 nd0 tl0 H0. rewrite Hlt in H0. injection H0 as <-. apply Hn.
  Qed.

  Lemma local_goal th' lt' k :
    lrun s (repeat t k) = with_thr s t lt' /\ Inv (with_thr s t lt') L /\ TInv (with_thr s t lt') L ->
    threl (pl (r_head c)) th' lt' ->
    NoDup (rt_rl th') -> eff_rl th' = eff_rl th ->
    (forall p, In p (pc_ptrs (rt_pc th')) -> gp la (r_lid c) p) ->
    (forall nd, rpriv (rt_pc th') = Some nd -> rpriv (rt_pc th) = Some nd) ->
    (forall p, prot0 (rt_pc th') = Some p ->
       rt_hz0 th' = pa p /\ aget (r_own c) (pa p) = pl p /\ st (pa p) <> SF /\ st (pa p) <> SU /\
       (forall u uth, u <> t -> nth_error (r_thr c) u = Some uth -> scan_cov t (pa p) uth) /\
       scan_cov t (pa p) th') ->
    (forall u uth p, u <> t -> nth_error (r_thr c) u = Some uth -> prot0 (rt_pc uth) = Some p -> scan_cov u (pa p) th') ->
    xpc st (r_fmax c) t th' ->
    SGoal (rwith_thr c t th').
  Proof.
    intros (A1 & A2 & A3) B1 B2 B3 B4 B5 B6 B7 B8.
    exists k, (with_thr s t lt'), []. rewrite app_nil_r. split; [exact A1|split; [exact A2|split; [exact A3|]]].
    exists la, st.
    pose proof (rel_local c s L la st t th th' lt' (r_tail c) R Hth B1 (G_gpt _ _ _ _ _ R) B2 B3 B4 B5 B6 B7 B8) as H.
    rewrite <- (R_tail _ _ _ _ _ R) in H. exact H.
  Qed.

  (* protection of the same address as before survives *)
  Lemma cov_keep p0 a : prot0 (rt_pc th) = Some p0 -> a = pa p0 ->
    forall u uth, u <> t -> nth_error (r_thr c) u = Some uth -> scan_cov t a uth.
  Proof. intros H -> u uth _ Hu. eapply (H_scan _ _ _ _ _ R); eauto. Qed.

  Lemma cov_new a : st a = SA -> forall u uth, u <> t -> nth_error (r_thr c) u = Some uth -> scan_cov t a uth.
  Proof. intros H u uth _ Hu. eapply cov_fresh; eauto. Qed.

  Lemma gp_of p : In p (pc_ptrs (rt_pc th)) -> gp la (r_lid c) p.
  Proof. apply (G_gpp _ _ _ _ _ R t th p Hth). Qed.

  Lemma nodup_rl : NoDup (rt_rl th).
  Proof. apply (G_Rnd _ _ _ _ _ R t th Hth). Qed.

  Ltac absstep Hlt Hpcl := unfold lstep; rewrite Hlt; cbv zeta; rewrite Hpcl.
  Ltac nolink Hpcl := let nd := fresh in let tl := fresh in let H := fresh in intros nd tl H; rewrite Hpcl in H; discriminate H.
  Ltac noprot := let p := fresh in let H := fresh in intros p H; cbn in H; discriminate H.
  Ltac nocov := intros; unfold scan_cov; cbn; exact I.

  (* ---- enqueue, thread-local steps *)
  Lemma case_ReLdTail nd : rt_pc th = ReLdTail nd -> SGoal (rwith_thr c t (rgoto th (ReHz nd (r_tail c)))).
  Proof.
    intros Hpc. pose proof Hpcr as Hpcl. rewrite Hpc in Hpcl. cbn [pcr apc] in Hpcl.
    eapply local_goal with (lt' := lgoto lt (QeHz (pl nd) (s_tail s))).
    - apply abs_go with (r0 := None); [absstep Hlt Hpcl; reflexivity|nolink Hpcl].
    - eapply threl_mk; try exact Htr; try reflexivity. cbn. rewrite (R_tail _ _ _ _ _ R). reflexivity.
    - apply nodup_rl.
    - unfold eff_rl. rewrite Hpc. reflexivity.
    - cbn. intros p [<-|[<-|[]]]; [apply gp_of; rewrite Hpc; left; reflexivity|apply (G_gpt _ _ _ _ _ R)].
    - cbn. rewrite Hpc. auto.
    - noprot.
    - nocov.
    - exact I.
  Qed.

  Lemma case_ReHz nd tl : rt_pc th = ReHz nd tl -> SGoal (rwith_thr c t (set_hz0 (rgoto th (ReChkTail nd tl)) (pa tl))).
  Proof.
    intros Hpc. pose proof Hpcr as Hpcl. rewrite Hpc in Hpcl. cbn [pcr apc] in Hpcl.
    eapply local_goal with (lt' := lgoto lt (QeChkTail (pl nd) (pl tl))).
    - apply abs_go with (r0 := None); [absstep Hlt Hpcl; reflexivity|nolink Hpcl].
    - eapply threl_mk; try exact Htr; try reflexivity.
    - apply nodup_rl.
    - unfold eff_rl. rewrite Hpc. reflexivity.
    - cbn. intros p Hp. apply gp_of. rewrite Hpc. exact Hp.
    - cbn. rewrite Hpc. auto.
    - noprot.
    - nocov.
    - reflexivity.
  Qed.

  Lemma case_ReChkTail nd tl : rt_pc th = ReChkTail nd tl ->
    SGoal (rwith_thr c t (rgoto th (if pa tl =? pa (r_tail c) then ReLdNext nd (r_tail c) else ReLdTail nd))).
  Proof.
    intros Hpc. pose proof Hpcr as Hpcl. rewrite Hpc in Hpcl. cbn [pcr apc] in Hpcl.
    pose proof (X_pc _ _ _ _ _ R t th Hth) as Hx. unfold xpc in Hx. rewrite Hpc in Hx.
    assert (Hgnd : gp la (r_lid c) nd) by (apply gp_of; rewrite Hpc; left; reflexivity).
    assert (Hgtl : gp la (r_lid c) tl) by (apply gp_of; rewrite Hpc; right; left; reflexivity).
    destruct (tail_live _ _ _ _ _ HI HT R) as (TA & TB & TC).
    assert (Hlen : (t < length (s_thr s))%nat) by (apply nth_error_Some; congruence).
    destruct (N.eqb_spec (pa tl) (pa (r_tail c))) as [Ea|Ea].
    - (* validation succeeds; possibly on a re-used address *)
      assert (Habs : exists k, lrun s (repeat t k) = with_thr s t (lgoto lt (QeLdNext (pl nd) (pl (r_tail c)))) /\
                               Inv (with_thr s t (lgoto lt (QeLdNext (pl nd) (pl (r_tail c))))) L /\
                               TInv (with_thr s t (lgoto lt (QeLdNext (pl nd) (pl (r_tail c))))) L).
      { destruct (N.eq_dec (pl tl) (pl (r_tail c))) as [El|El].
        * exists 1%nat. apply abs_go with (r0 := None); [|nolink Hpcl]. absstep Hlt Hpcl.
          rewrite (R_tail _ _ _ _ _ R), <- El, N.eqb_refl, El. reflexivity.
        * (* fails, re-load, publish, succeeds *)
          exists 4%nat.
          assert (S1 : lstep s t = Some (with_thr s t (lgoto lt (QeLdTail (pl nd))), None)).
          { absstep Hlt Hpcl. rewrite (R_tail _ _ _ _ _ R). destruct (N.eqb_spec (pl tl) (pl (r_tail c))); [contradiction|reflexivity]. }
          destruct (abs_go _ _ S1 ltac:(nolink Hpcl)) as (_ & I1 & T1).
          set (s1 := with_thr s t (lgoto lt (QeLdTail (pl nd)))) in *.
          assert (S2 : lstep s1 t = Some (with_thr s1 t (lgoto (lgoto lt (QeLdTail (pl nd))) (QeHz (pl nd) (s_tail s))), None)).
          { unfold lstep. subst s1. rewrite (nth_with_thr _ _ _ Hlen). reflexivity. }
          destruct (abs1 _ _ _ _ _ I1 T1 S2) as (I2 & T2).
          { intros th0 nd0 tl0 H0. subst s1. rewrite (nth_with_thr _ _ _ Hlen) in H0. injection H0 as <-. intros H1; discriminate H1. }
          set (s2 := with_thr s1 t (lgoto (lgoto lt (QeLdTail (pl nd))) (QeHz (pl nd) (s_tail s)))) in *.
          assert (Hlen1 : (t < length (s_thr s1))%nat) by (subst s1; cbn [with_thr s_thr]; rewrite lset_length; exact Hlen).
          assert (S3 : lstep s2 t = Some (with_thr s2 t (lgoto (lgoto (lgoto lt (QeLdTail (pl nd))) (QeHz (pl nd) (s_tail s))) (QeChkTail (pl nd) (s_tail s))), None)).
          { unfold lstep. subst s2. rewrite (nth_with_thr _ _ _ Hlen1). reflexivity. }
          destruct (abs1 _ _ _ _ _ I2 T2 S3) as (I3 & T3).
          { intros th0 nd0 tl0 H0. subst s2. rewrite (nth_with_thr _ _ _ Hlen1) in H0. injection H0 as <-. intros H1; discriminate H1. }
          set (s3 := with_thr s2 t (lgoto (lgoto (lgoto lt (QeLdTail (pl nd))) (QeHz (pl nd) (s_tail s))) (QeChkTail (pl nd) (s_tail s)))) in *.
          assert (Hlen2 : (t < length (s_thr s2))%nat) by (subst s2; cbn [with_thr s_thr]; rewrite lset_length; exact Hlen1).
          assert (S4 : lstep s3 t = Some (with_thr s3 t (lgoto (lgoto (lgoto (lgoto lt (QeLdTail (pl nd))) (QeHz (pl nd) (s_tail s))) (QeChkTail (pl nd) (s_tail s))) (QeLdNext (pl nd) (s_tail s))), None)).
          { unfold lstep. subst s3. rewrite (nth_with_thr _ _ _ Hlen2). cbv zeta. cbn [lgoto lt_pc].
            subst s2 s1. cbn [with_thr s_tail]. rewrite N.eqb_refl. reflexivity. }
          destruct (abs1 _ _ _ _ _ I3 T3 S4) as (I4 & T4).
          { intros th0 nd0 tl0 H0. subst s3. rewrite (nth_with_thr _ _ _ Hlen2) in H0. injection H0 as <-. intros H1; discriminate H1. }
          assert (Efin : with_thr s3 t (lgoto (lgoto (lgoto (lgoto lt (QeLdTail (pl nd))) (QeHz (pl nd) (s_tail s))) (QeChkTail (pl nd) (s_tail s))) (QeLdNext (pl nd) (s_tail s)))
                         = with_thr s t (lgoto lt (QeLdNext (pl nd) (pl (r_tail c))))).
          { subst s3 s2 s1. rewrite !with_thr_twice. rewrite (R_tail _ _ _ _ _ R). reflexivity. }
          rewrite Efin in *. split; [|split; assumption].
          change (repeat t 4) with ([t] ++ [t] ++ [t] ++ [t]). rewrite !lrun_app.
          rewrite (lrun1 _ _ _ _ S1). fold s1. rewrite (lrun1 _ _ _ _ S2). fold s2. rewrite (lrun1 _ _ _ _ S3). fold s3.
          rewrite (lrun1 _ _ _ _ S4). reflexivity. }
      destruct Habs as (k & Habs).
      eapply local_goal with (lt' := lgoto lt (QeLdNext (pl nd) (pl (r_tail c)))) (k := k).
      + exact Habs.
      + eapply threl_mk; try exact Htr; try reflexivity.
      + apply nodup_rl.
      + unfold eff_rl. rewrite Hpc. reflexivity.
      + cbn. intros p [<-|[<-|[]]]; [exact Hgnd|apply (G_gpt _ _ _ _ _ R)].
      + cbn. rewrite Hpc. auto.
      + cbn. intros p [= <-]. split; [rewrite Hx; exact Ea|]. split; [exact TB|]. split; [congruence|]. split; [congruence|].
        split; [apply cov_new; exact TA|unfold scan_cov; cbn; exact I].
      + nocov.
      + exact I.
    - eapply local_goal with (lt' := lgoto lt (QeLdTail (pl nd))).
      + apply abs_go with (r0 := None); [|nolink Hpcl]. absstep Hlt Hpcl. rewrite (R_tail _ _ _ _ _ R).
        destruct (N.eqb_spec (pl tl) (pl (r_tail c))) as [El|El]; [|reflexivity].
        exfalso. apply Ea. eapply gp_lid_addr; eauto. apply (G_gpt _ _ _ _ _ R).
      + eapply threl_mk; try exact Htr; try reflexivity.
      + apply nodup_rl.
      + unfold eff_rl. rewrite Hpc. reflexivity.
      + cbn. intros p [<-|[]]. exact Hgnd.
      + cbn. rewrite Hpc. auto.
      + noprot.
      + nocov.
      + exact I.
  Qed.

  Lemma prot_facts p : prot0 (rt_pc th) = Some p ->
    rt_hz0 th = pa p /\ aget (r_own c) (pa p) = pl p /\ st (pa p) <> SF /\ st (pa p) <> SU /\
    hget (s_heap s) (pl p) = mkNode (rn_val (rget (r_heap c) (pa p))) (pl (rn_next (rget (r_heap c) (pa p)))) /\
    gp la (r_lid c) (rn_next (rget (r_heap c) (pa p))).
  Proof.
    intros H. destruct (H_prot _ _ _ _ _ R t th p Hth H) as (A & B & C & D).
    repeat split; auto.
    - rewrite <- B. apply (R_heap _ _ _ _ _ R); auto.
    - apply (G_gpn _ _ _ _ _ R); auto.
  Qed.

  Lemma keep_prot p q th' : prot0 (rt_pc th) = Some p -> pa q = pa p -> pl q = pl p -> rt_hz0 th' = rt_hz0 th -> scan_cov t (pa q) th' ->
    rt_hz0 th' = pa q /\ aget (r_own c) (pa q) = pl q /\ st (pa q) <> SF /\ st (pa q) <> SU /\
    (forall u uth, u <> t -> nth_error (r_thr c) u = Some uth -> scan_cov t (pa q) uth) /\ scan_cov t (pa q) th'.
  Proof.
    intros H Ea El Hz Hc. destruct (H_prot _ _ _ _ _ R t th p Hth H) as (A & B & C & D).
    rewrite Ea, El in *. repeat split; auto; try congruence.
    eapply cov_keep; eauto.
  Qed.

  Lemma case_ReLdNext nd tl : rt_pc th = ReLdNext nd tl ->
    SGoal (rwith_thr c t (rgoto th (if pa (rn_next (rget (r_heap c) (pa tl))) =? 0 then ReCasLink nd tl
                                     else ReCasHelp nd tl (rn_next (rget (r_heap c) (pa tl)))))).
  Proof.
    intros Hpc. pose proof Hpcr as Hpcl. rewrite Hpc in Hpcl. cbn [pcr apc] in Hpcl.
    assert (Hpr : prot0 (rt_pc th) = Some tl) by (rewrite Hpc; reflexivity).
    destruct (prot_facts tl Hpr) as (A & B & C & D & E & F).
    set (nx := rn_next (rget (r_heap c) (pa tl))) in *.
    assert (Hz : (pa nx =? 0) = (pl nx =? 0)) by (eapply gp_null; eauto).
    eapply local_goal with (lt' := lgoto lt (if pl nx =? 0 then QeCasLink (pl nd) (pl tl) else QeCasHelp (pl nd) (pl tl) (pl nx))).
    - apply abs_go with (r0 := None); [|nolink Hpcl]. absstep Hlt Hpcl. rewrite E. cbn [n_next].
      destruct (pl nx =? 0); reflexivity.
    - eapply threl_mk; try exact Htr; try reflexivity. cbn. rewrite Hz. destruct (pl nx =? 0); reflexivity.
    - apply nodup_rl.
    - unfold eff_rl. rewrite Hpc. cbn. destruct (pa nx =? 0); reflexivity.
    - cbn. intros p Hp. destruct (pa nx =? 0); cbn in Hp.
      + apply gp_of. rewrite Hpc. exact Hp.
      + destruct Hp as [<-|[<-|[<-|[]]]]; [apply gp_of; rewrite Hpc; left; reflexivity|apply gp_of; rewrite Hpc; right; left; reflexivity|exact F].
    - cbn. rewrite Hpc. destruct (pa nx =? 0); auto.
    - intros p Hp. cbn [rgoto rt_pc] in Hp. assert (p = tl) by (destruct (pa nx =? 0); cbn in Hp; congruence). subst p.
      apply keep_prot with (p := tl); auto. unfold scan_cov. cbn [rgoto rt_pc]. destruct (pa nx =? 0); exact I.
    - intros. unfold scan_cov. cbn. destruct (pa nx =? 0); exact I.
    - unfold xpc. cbn. destruct (pa nx =? 0); exact I.
  Qed.

  Lemma case_ReCasLink_fail nd tl : rt_pc th = ReCasLink nd tl -> (pa (rn_next (rget (r_heap c) (pa tl))) =? 0) = false ->
    SGoal (rwith_thr c t (rgoto th (ReLdTail nd))).
  Proof.
    intros Hpc Hne. pose proof Hpcr as Hpcl. rewrite Hpc in Hpcl. cbn [pcr apc] in Hpcl.
    assert (Hpr : prot0 (rt_pc th) = Some tl) by (rewrite Hpc; reflexivity).
    destruct (prot_facts tl Hpr) as (A & B & C & D & E & F).
    pose proof (gp_null _ _ _ F) as Hz. rewrite Hne in Hz. symmetry in Hz.
    eapply local_goal with (lt' := lgoto lt (QeLdTail (pl nd))).
    - apply abs_go with (r0 := None).
      + absstep Hlt Hpcl. rewrite E. cbn [n_next]. rewrite Hz. reflexivity.
      + intros nd0 tl0 H0. rewrite Hpcl in H0. injection H0 as <- <-. rewrite E. cbn [n_next].
        destruct (N.eqb_spec (pl (rn_next (rget (r_heap c) (pa tl)))) 0); [discriminate|assumption].
    - eapply threl_mk; try exact Htr; try reflexivity.
    - apply nodup_rl.
    - unfold eff_rl. rewrite Hpc. reflexivity.
    - cbn. intros p [<-|[]]. apply gp_of. rewrite Hpc. left; reflexivity.
    - cbn. rewrite Hpc. auto.
    - noprot.
    - nocov.
    - exact I.
  Qed.

  Lemma abs_cur o : lt_cur lt = Some o -> rt_cur th = Some o /\ notemp o = true.
  Proof. intros H. rewrite Hcur in H. apply acur_some. exact H. Qed.

  Lemma case_ReHzClr : rt_pc th = ReHzClr -> SGoal (rwith_thr c t (set_hz0 (rfinish th (LInt 0)) 0)).
  Proof.
    intros Hpc. pose proof Hpcr as Hpcl. rewrite Hpc in Hpcl. cbn [pcr apc] in Hpcl.
    destruct HI as (_ & TO & _). pose proof (TO t lt Hlt) as Hp. rewrite Hpcl in Hp. cbn [pcinv] in Hp. destruct Hp as (v & Hc).
    destruct (abs_cur _ Hc) as (Hrc & _).
    destruct (rfin_proj th (LInt 0)) as (Hf1 & Hf3 & Hf4 & Hf2 & _).
    eapply local_goal with (lt' := lfinish lt (LInt 0)).
    - apply abs_go with (r0 := Some (LInt 0)); [|nolink Hpcl]. absstep Hlt Hpcl. reflexivity.
    - eapply threl_fin with (o := LEnq v); try exact Htr; try exact Hc; cbn; auto.
    - cbn. rewrite Hf2. apply nodup_rl.
    - unfold eff_rl. cbn. rewrite Hf1, Hf2, Hpc. reflexivity.
    - cbn. rewrite Hf1. intros p [].
    - cbn. rewrite Hf1. discriminate.
    - cbn. rewrite Hf1. discriminate.
    - intros. unfold scan_cov. cbn. rewrite Hf1. exact I.
    - unfold xpc. cbn. rewrite Hf1. exact I.
  Qed.

  Lemma case_RIdle o rest : rt_pc th = RIdle -> rt_ops th = o :: rest ->
    SGoal (rwith_thr c t (mkRT (rstart o) (Some o) rest (rt_out th) (rt_hz0 th) (rt_hz1 th) (rt_rl th))).
  Proof.
    intros Hpc Hops. pose proof Hpcr as Hpcl. rewrite Hpc in Hpcl. cbn [pcr apc] in Hpcl.
    pose proof Htr as (_ & _ & Hops' & Hout'). rewrite Hops in Hops'.
    pose proof HI as (_ & TO & _). pose proof (TO t lt Hlt) as Hp. rewrite Hpcl in Hp. cbn [pcinv] in Hp.
    destruct (notemp o) eqn:Ho.
    - cbn [filter] in Hops'. rewrite Ho in Hops'.
      eapply local_goal with (lt' := mkLT (lstart o) (Some o) (filter notemp rest) (lt_out lt)).
      + apply abs_go with (r0 := None); [|nolink Hpcl]. absstep Hlt Hpcl. rewrite Hops'. reflexivity.
      + repeat split; cbn; auto. destruct o; try discriminate; reflexivity. destruct o; try discriminate; reflexivity.
      + cbn. apply nodup_rl.
      + unfold eff_rl. cbn. rewrite Hpc. destruct o; reflexivity.
      + cbn. destruct o; intros p [].
      + cbn. destruct o; discriminate.
      + cbn. destruct o; discriminate.
      + intros. unfold scan_cov. cbn. destruct o; exact I.
      + unfold xpc. cbn. destruct o; try exact I. discriminate.
    - cbn [filter] in Hops'. rewrite Ho in Hops'. destruct o; try discriminate.
      eapply local_goal with (lt' := lt) (k := 0%nat).
      + apply abs_stay.
      + repeat split; cbn; auto. 
      + cbn. apply nodup_rl.
      + unfold eff_rl. cbn. rewrite Hpc. reflexivity.
      + cbn. intros p [].
      + cbn. discriminate.
      + cbn. discriminate.
      + intros. unfold scan_cov. cbn. exact I.
      + unfold xpc. cbn. reflexivity.
  Qed.

  (* ---- dequeue, thread-local steps *)
  Lemma case_RdLdHead : rt_pc th = RdLdHead -> SGoal (rwith_thr c t (rgoto th (RdHz0 (r_head c)))).
  Proof.
    intros Hpc. pose proof Hpcr as Hpcl. rewrite Hpc in Hpcl. cbn [pcr apc] in Hpcl.
    eapply local_goal with (lt' := lgoto lt (QdHz0 (s_head s))).
    - apply abs_go with (r0 := None); [absstep Hlt Hpcl; reflexivity|nolink Hpcl].
    - eapply threl_mk; try exact Htr; try reflexivity. cbn. rewrite (R_head _ _ _ _ _ R). reflexivity.
    - apply nodup_rl.
    - unfold eff_rl. rewrite Hpc. reflexivity.
    - cbn. intros p [<-|[]]. apply (G_gph _ _ _ _ _ R).
    - cbn. discriminate.
    - noprot.
    - nocov.
    - exact I.
  Qed.

  Lemma case_RdHz0 hd : rt_pc th = RdHz0 hd -> SGoal (rwith_thr c t (set_hz0 (rgoto th (RdChkHead hd)) (pa hd))).
  Proof.
    intros Hpc. pose proof Hpcr as Hpcl. rewrite Hpc in Hpcl. cbn [pcr apc] in Hpcl.
    eapply local_goal with (lt' := lgoto lt (QdChkHead (pl hd))).
    - apply abs_go with (r0 := None); [absstep Hlt Hpcl; reflexivity|nolink Hpcl].
    - eapply threl_mk; try exact Htr; try reflexivity.
    - apply nodup_rl.
    - unfold eff_rl. rewrite Hpc. reflexivity.
    - cbn. intros p Hp. apply gp_of. rewrite Hpc. exact Hp.
    - cbn. discriminate.
    - noprot.
    - nocov.
    - reflexivity.
  Qed.

  Lemma case_RdChkHead hd : rt_pc th = RdChkHead hd ->
    SGoal (rwith_thr c t (rgoto th (if pa hd =? pa (r_head c) then RdLdTail (r_head c) else RdLdHead))).
  Proof.
    intros Hpc. pose proof Hpcr as Hpcl. rewrite Hpc in Hpcl. cbn [pcr apc] in Hpcl.
    pose proof (X_pc _ _ _ _ _ R t th Hth) as Hx. unfold xpc in Hx. rewrite Hpc in Hx.
    assert (Hghd : gp la (r_lid c) hd) by (apply gp_of; rewrite Hpc; left; reflexivity).
    destruct (head_live _ _ _ _ _ HI R) as (TA & TB & TC).
    assert (Hlen : (t < length (s_thr s))%nat) by (apply nth_error_Some; congruence).
    destruct (N.eqb_spec (pa hd) (pa (r_head c))) as [Ea|Ea].
    - assert (Habs : exists k, lrun s (repeat t k) = with_thr s t (lgoto lt (QdLdTail (pl (r_head c)))) /\
                               Inv (with_thr s t (lgoto lt (QdLdTail (pl (r_head c))))) L /\
                               TInv (with_thr s t (lgoto lt (QdLdTail (pl (r_head c))))) L).
      { destruct (N.eq_dec (pl hd) (pl (r_head c))) as [El|El].
        * exists 1%nat. apply abs_go with (r0 := None); [|nolink Hpcl]. absstep Hlt Hpcl.
          rewrite (R_head _ _ _ _ _ R), <- El, N.eqb_refl, El. reflexivity.
        * exists 4%nat.
          assert (S1 : lstep s t = Some (with_thr s t (lgoto lt QdLdHead), None)).
          { absstep Hlt Hpcl. rewrite (R_head _ _ _ _ _ R). destruct (N.eqb_spec (pl hd) (pl (r_head c))); [contradiction|reflexivity]. }
          destruct (abs_go _ _ S1 ltac:(nolink Hpcl)) as (_ & I1 & T1).
          set (s1 := with_thr s t (lgoto lt QdLdHead)) in *.
          assert (S2 : lstep s1 t = Some (with_thr s1 t (lgoto (lgoto lt QdLdHead) (QdHz0 (s_head s))), None)).
          { unfold lstep. subst s1. rewrite (nth_with_thr _ _ _ Hlen). reflexivity. }
          destruct (abs1 _ _ _ _ _ I1 T1 S2) as (I2 & T2).
          { intros th0 nd0 tl0 H0. subst s1. rewrite (nth_with_thr _ _ _ Hlen) in H0. injection H0 as <-. intros H1; discriminate H1. }
          set (s2 := with_thr s1 t (lgoto (lgoto lt QdLdHead) (QdHz0 (s_head s)))) in *.
          assert (Hlen1 : (t < length (s_thr s1))%nat) by (subst s1; cbn [with_thr s_thr]; rewrite lset_length; exact Hlen).
          assert (S3 : lstep s2 t = Some (with_thr s2 t (lgoto (lgoto (lgoto lt QdLdHead) (QdHz0 (s_head s))) (QdChkHead (s_head s))), None)).
          { unfold lstep. subst s2. rewrite (nth_with_thr _ _ _ Hlen1). reflexivity. }
          destruct (abs1 _ _ _ _ _ I2 T2 S3) as (I3 & T3).
          { intros th0 nd0 tl0 H0. subst s2. rewrite (nth_with_thr _ _ _ Hlen1) in H0. injection H0 as <-. intros H1; discriminate H1. }
          set (s3 := with_thr s2 t (lgoto (lgoto (lgoto lt QdLdHead) (QdHz0 (s_head s))) (QdChkHead (s_head s)))) in *.
          assert (Hlen2 : (t < length (s_thr s2))%nat) by (subst s2; cbn [with_thr s_thr]; rewrite lset_length; exact Hlen1).
          assert (S4 : lstep s3 t = Some (with_thr s3 t (lgoto (lgoto (lgoto (lgoto lt QdLdHead) (QdHz0 (s_head s))) (QdChkHead (s_head s))) (QdLdTail (s_head s))), None)).
          { unfold lstep. subst s3. rewrite (nth_with_thr _ _ _ Hlen2). cbv zeta. cbn [lgoto lt_pc].
            subst s2 s1. cbn [with_thr s_head]. rewrite N.eqb_refl. reflexivity. }
          destruct (abs1 _ _ _ _ _ I3 T3 S4) as (I4 & T4).
          { intros th0 nd0 tl0 H0. subst s3. rewrite (nth_with_thr _ _ _ Hlen2) in H0. injection H0 as <-. intros H1; discriminate H1. }
          assert (Efin : with_thr s3 t (lgoto (lgoto (lgoto (lgoto lt QdLdHead) (QdHz0 (s_head s))) (QdChkHead (s_head s))) (QdLdTail (s_head s)))
                         = with_thr s t (lgoto lt (QdLdTail (pl (r_head c))))).
          { subst s3 s2 s1. rewrite !with_thr_twice. rewrite (R_head _ _ _ _ _ R). reflexivity. }
          rewrite Efin in *. split; [|split; assumption].
          change (repeat t 4) with ([t] ++ [t] ++ [t] ++ [t]). rewrite !lrun_app.
          rewrite (lrun1 _ _ _ _ S1). fold s1. rewrite (lrun1 _ _ _ _ S2). fold s2. rewrite (lrun1 _ _ _ _ S3). fold s3.
          rewrite (lrun1 _ _ _ _ S4). reflexivity. }
      destruct Habs as (k & Habs).
      eapply local_goal with (lt' := lgoto lt (QdLdTail (pl (r_head c)))) (k := k).
      + exact Habs.
      + eapply threl_mk; try exact Htr; try reflexivity.
      + apply nodup_rl.
      + unfold eff_rl. rewrite Hpc. reflexivity.
      + cbn. intros p [<-|[]]. apply (G_gph _ _ _ _ _ R).
      + cbn. discriminate.
      + cbn. intros p [= <-]. split; [rewrite Hx; exact Ea|]. split; [exact TB|]. split; [congruence|]. split; [congruence|].
        split; [apply cov_new; exact TA|unfold scan_cov; cbn; exact I].
      + nocov.
      + exact I.
    - eapply local_goal with (lt' := lgoto lt QdLdHead).
      + apply abs_go with (r0 := None); [|nolink Hpcl]. absstep Hlt Hpcl. rewrite (R_head _ _ _ _ _ R).
        destruct (N.eqb_spec (pl hd) (pl (r_head c))) as [El|El]; [|reflexivity].
        exfalso. apply Ea. eapply gp_lid_addr; eauto. apply (G_gph _ _ _ _ _ R).
      + eapply threl_mk; try exact Htr; try reflexivity.
      + apply nodup_rl.
      + unfold eff_rl. rewrite Hpc. reflexivity.
      + cbn. intros p [].
      + cbn. discriminate.
      + noprot.
      + nocov.
      + exact I.
  Qed.

  Lemma case_RdLdTail hd : rt_pc th = RdLdTail hd -> SGoal (rwith_thr c t (rgoto th (RdLdNext hd (r_tail c)))).
  Proof.
    intros Hpc. pose proof Hpcr as Hpcl. rewrite Hpc in Hpcl. cbn [pcr apc] in Hpcl.
    assert (Hpr : prot0 (rt_pc th) = Some hd) by (rewrite Hpc; reflexivity).
    destruct (prot_facts hd Hpr) as (A & B & C & D & E & F).
    destruct (tail_live _ _ _ _ _ HI HT R) as (TA & TB & TC).
    eapply local_goal with (lt' := lgoto lt (QdLdNext (pl hd) (s_tail s))).
    - apply abs_go with (r0 := None); [absstep Hlt Hpcl; reflexivity|nolink Hpcl].
    - eapply threl_mk; try exact Htr; try reflexivity. cbn. rewrite (R_tail _ _ _ _ _ R). reflexivity.
    - apply nodup_rl.
    - unfold eff_rl. rewrite Hpc. reflexivity.
    - cbn. intros p [<-|[<-|[]]]; [apply gp_of; rewrite Hpc; left; reflexivity|apply (G_gpt _ _ _ _ _ R)].
    - cbn. discriminate.
    - intros p Hp. cbn [rgoto rt_pc prot0] in Hp. injection Hp as <-.
      apply keep_prot with (p := hd); auto. unfold scan_cov. cbn. exact I.
    - nocov.
    - unfold xpc. cbn. intros Ea. congruence.
  Qed.

  Lemma case_RdLdNext hd tl : rt_pc th = RdLdNext hd tl ->
    SGoal (rwith_thr c t (rgoto th (RdHz1 hd tl (rn_next (rget (r_heap c) (pa hd)))))).
  Proof.
    intros Hpc. pose proof Hpcr as Hpcl. rewrite Hpc in Hpcl. cbn [pcr apc] in Hpcl.
    assert (Hpr : prot0 (rt_pc th) = Some hd) by (rewrite Hpc; reflexivity).
    destruct (prot_facts hd Hpr) as (A & B & C & D & E & F).
    pose proof (X_pc _ _ _ _ _ R t th Hth) as Hx. unfold xpc in Hx. rewrite Hpc in Hx.
    eapply local_goal with (lt' := lgoto lt (QdHz1 (pl hd) (pl tl) (pl (rn_next (rget (r_heap c) (pa hd)))))).
    - apply abs_go with (r0 := None); [|nolink Hpcl]. absstep Hlt Hpcl. rewrite E. reflexivity.
    - eapply threl_mk; try exact Htr; try reflexivity.
    - apply nodup_rl.
    - unfold eff_rl. rewrite Hpc. reflexivity.
    - cbn. intros p [<-|[<-|[<-|[]]]]; [apply gp_of; rewrite Hpc; left; reflexivity|apply gp_of; rewrite Hpc; right; left; reflexivity|exact F].
    - cbn. discriminate.
    - intros p Hp. cbn [rgoto rt_pc prot0] in Hp. injection Hp as <-.
      apply keep_prot with (p := hd); auto. unfold scan_cov. cbn. exact I.
    - nocov.
    - unfold xpc. cbn. exact Hx.
  Qed.


  Lemma case_RdHz1_null hd tl nx : rt_pc th = RdHz1 hd tl nx -> pa nx = 0 ->
    SGoal (rwith_thr c t (set_hz1 (rfinish th (LPtr 0)) (pa nx))).
  Proof.
    intros Hpc Hz. pose proof Hpcr as Hpcl. rewrite Hpc in Hpcl. cbn [pcr apc] in Hpcl.
    assert (Hg : gp la (r_lid c) nx) by (apply gp_of; rewrite Hpc; right; right; left; reflexivity).
    assert (Hlz : pl nx = 0) by (destruct Hg as [[_ ?]|(? & _)]; congruence).
    pose proof HI as (_ & TO & _). pose proof (TO t lt Hlt) as Hp. rewrite Hpcl in Hp. cbn [pcinv] in Hp. destruct Hp as (Hc & _).
    destruct (rfin_proj th (LPtr 0)) as (Hf1 & Hf3 & Hf4 & Hf2 & _).
    eapply local_goal with (lt' := lfinish lt (LPtr 0)).
    - apply abs_go with (r0 := Some (LPtr 0)); [|nolink Hpcl]. absstep Hlt Hpcl. rewrite Hlz. reflexivity.
    - eapply threl_fin with (o := LDeq); try exact Htr; try exact Hc; cbn; auto.
    - cbn. rewrite Hf2. apply nodup_rl.
    - unfold eff_rl. cbn. rewrite Hf1, Hf2, Hpc. reflexivity.
    - cbn. rewrite Hf1. intros p [].
    - cbn. rewrite Hf1. discriminate.
    - cbn. rewrite Hf1. discriminate.
    - intros. unfold scan_cov. cbn. rewrite Hf1. exact I.
    - unfold xpc. cbn. rewrite Hf1. exact I.
  Qed.

  Lemma case_RdHz1_help hd tl nx : rt_pc th = RdHz1 hd tl nx -> pa nx <> 0 -> pa hd = pa tl ->
    SGoal (rwith_thr c t (set_hz1 (rgoto th (RdCasHelp tl nx)) (pa nx))).
  Proof.
    intros Hpc Hnz Ea. pose proof Hpcr as Hpcl. rewrite Hpc in Hpcl. cbn [pcr apc] in Hpcl.
    assert (Hg : gp la (r_lid c) nx) by (apply gp_of; rewrite Hpc; right; right; left; reflexivity).
    assert (Hlz : pl nx <> 0) by (destruct Hg as [[? _]|(_ & ? & _)]; congruence).
    pose proof (X_pc _ _ _ _ _ R t th Hth) as Hx. unfold xpc in Hx. rewrite Hpc in Hx. symmetry in Ea. specialize (Hx Ea).
    assert (Hpr : prot0 (rt_pc th) = Some hd) by (rewrite Hpc; reflexivity).
    eapply local_goal with (lt' := lgoto lt (QdCasHelp (pl tl) (pl nx))).
    - apply abs_go with (r0 := None); [|nolink Hpcl]. absstep Hlt Hpcl.
      destruct (N.eqb_spec (pl nx) 0); [contradiction|]. rewrite Hx, N.eqb_refl. reflexivity.
    - eapply threl_mk; try exact Htr; try reflexivity.
    - apply nodup_rl.
    - unfold eff_rl. rewrite Hpc. reflexivity.
    - cbn. intros p [<-|[<-|[]]]; apply gp_of; rewrite Hpc; cbn; auto.
    - cbn. discriminate.
    - intros p Hp. cbn [set_hz1 rgoto rt_pc prot0] in Hp. injection Hp as <-.
      apply keep_prot with (p := hd); auto. unfold scan_cov. cbn. exact I.
    - nocov.
    - exact I.
  Qed.

  Lemma case_RdHz1_val hd tl nx : rt_pc th = RdHz1 hd tl nx -> pa nx <> 0 -> pa hd <> pa tl ->
    SGoal (rwith_thr c t (set_hz1 (rgoto th (RdLdVal hd nx)) (pa nx))).
  Proof.
    intros Hpc Hnz Ea. pose proof Hpcr as Hpcl. rewrite Hpc in Hpcl. cbn [pcr apc] in Hpcl.
    assert (Hg : gp la (r_lid c) nx) by (apply gp_of; rewrite Hpc; right; right; left; reflexivity).
    assert (Hlz : pl nx <> 0) by (destruct Hg as [[? _]|(_ & ? & _)]; congruence).
    assert (Hne : pl hd <> pl tl).
    { intros El. apply Ea. eapply gp_lid_addr; [| |exact El]; apply gp_of; rewrite Hpc; cbn; auto. }
    assert (Hpr : prot0 (rt_pc th) = Some hd) by (rewrite Hpc; reflexivity).
    eapply local_goal with (lt' := lgoto lt (QdLdVal (pl hd) (pl nx))).
    - apply abs_go with (r0 := None); [|nolink Hpcl]. absstep Hlt Hpcl.
      destruct (N.eqb_spec (pl nx) 0); [contradiction|]. destruct (N.eqb_spec (pl hd) (pl tl)); [contradiction|]. reflexivity.
    - eapply threl_mk; try exact Htr; try reflexivity.
    - apply nodup_rl.
    - unfold eff_rl. rewrite Hpc. reflexivity.
    - cbn. intros p [<-|[<-|[]]]; apply gp_of; rewrite Hpc; cbn; auto.
    - cbn. discriminate.
    - intros p Hp. cbn [set_hz1 rgoto rt_pc prot0] in Hp. injection Hp as <-.
      apply keep_prot with (p := hd); auto. unfold scan_cov. cbn. exact I.
    - nocov.
    - exact I.
  Qed.

  Lemma case_RdLdVal hd nx : rt_pc th = RdLdVal hd nx ->
    SGoal (rwith_thr c t (rgoto th (RdCasHead hd nx (rn_val (rget (r_heap c) (pa nx)))))).
  Proof.
    intros Hpc. pose proof Hpcr as Hpcl. rewrite Hpc in Hpcl. cbn [pcr apc] in Hpcl.
    assert (Hpr : prot0 (rt_pc th) = Some hd) by (rewrite Hpc; reflexivity).
    assert (Hg : gp la (r_lid c) nx) by (apply gp_of; rewrite Hpc; right; left; reflexivity).
    eapply local_goal with (lt' := lgoto lt (QdCasHead (pl hd) (pl nx) (n_val (hget (s_heap s) (pl nx))))).
    - apply abs_go with (r0 := None); [absstep Hlt Hpcl; reflexivity|nolink Hpcl].
    - eapply threl_mk; try exact Htr; try reflexivity. cbn.
      exists (n_val (hget (s_heap s) (pl nx))). split; [reflexivity|]. intros Hhd.
      pose proof HI as (G & TO & _). pose proof (TO t lt Hlt) as Hp. rewrite Hpcl in Hp. cbn [pcinv] in Hp.
      destruct Hp as (_ & _ & Hnz & Hn). rewrite <- Hhd, <- (R_head _ _ _ _ _ R) in Hn.
      destruct (head_succ _ _ _ _ _ _ _ G _ Hn Hnz) as [H1 _].
      rewrite (R_deq _ _ _ _ _ R) in H1.
      assert (Hin : In (pl nx) (skipn (length (rg_deq c)) L)) by (eapply nth_in_skipn; [exact H1|lia]).
      destruct (G_chain _ _ _ _ _ R _ Hin) as [A B].
      destruct (gp_nonnull _ _ _ Hg Hnz) as [C D]. rewrite D in A, B.
      rewrite <- B at 1. rewrite (R_heap _ _ _ _ _ R (pa nx)); [reflexivity|congruence|congruence].
    - apply nodup_rl.
    - unfold eff_rl. rewrite Hpc. reflexivity.
    - cbn. intros p Hp. apply gp_of. rewrite Hpc. exact Hp.
    - cbn. discriminate.
    - intros p Hp. cbn [rgoto rt_pc prot0] in Hp. injection Hp as <-.
      apply keep_prot with (p := hd); auto. unfold scan_cov. cbn. exact I.
    - nocov.
    - exact I.
  Qed.

  (* a thread that protects p: address equality with a live shared pointer is incarnation equality *)
  Lemma prot_cmp p q : prot0 (rt_pc th) = Some p -> gp la (r_lid c) p -> gp la (r_lid c) q ->
    aget (r_own c) (pa q) = pl q -> (pa q =? pa p) = (pl q =? pl p).
  Proof.
    intros Hpr Hp Hq Hoq. destruct (H_prot _ _ _ _ _ R t th p Hth Hpr) as (_ & B & _).
    destruct (N.eqb_spec (pa q) (pa p)) as [E|E]; destruct (N.eqb_spec (pl q) (pl p)) as [F|F]; try reflexivity.
    - exfalso. apply F. rewrite <- Hoq, <- B, E. reflexivity.
    - exfalso. apply E. eapply gp_lid_addr; eauto.
  Qed.

  Lemma case_RdCasHead_fail hd nx p : rt_pc th = RdCasHead hd nx p -> (pa (r_head c) =? pa hd) = false ->
    SGoal (rwith_thr c t (rgoto th RdLdHead)).
  Proof.
    intros Hpc Hne. pose proof Hpcr as Hpcl. rewrite Hpc in Hpcl. cbn [pcr] in Hpcl. destruct Hpcl as (p' & Hpcl & _).
    assert (Hpr : prot0 (rt_pc th) = Some hd) by (rewrite Hpc; reflexivity).
    destruct (head_live _ _ _ _ _ HI R) as (TA & TB & TC).
    assert (Hcmp := prot_cmp hd (r_head c) Hpr ltac:(apply gp_of; rewrite Hpc; left; reflexivity) (G_gph _ _ _ _ _ R) TB).
    rewrite Hne in Hcmp.
    eapply local_goal with (lt' := lgoto lt QdLdHead).
    - apply abs_go with (r0 := None); [|nolink Hpcl]. absstep Hlt Hpcl. rewrite (R_head _ _ _ _ _ R), <- Hcmp. reflexivity.
    - eapply threl_mk; try exact Htr; try reflexivity.
    - apply nodup_rl.
    - unfold eff_rl. rewrite Hpc. reflexivity.
    - cbn. intros q [].
    - cbn. discriminate.
    - noprot.
    - nocov.
    - exact I.
  Qed.

  (* ---- hazardous_release_node / hazardous_scan, thread-local steps (the fresh-id machine waits at QdRel) *)
  Lemma pcr_rel p0 : (exists x, lt_pc lt = QdRel x p0) -> forall th', rt_cur th' = rt_cur th -> rt_ops th' = rt_ops th -> rt_out th' = rt_out th ->
    (exists x, pcr (pl (r_head c)) (rt_pc th') (QdRel x p0)) -> threl (pl (r_head c)) th' lt.
  Proof.
    intros (x & Hx) th' E1 E2 E3 (y & Hy). destruct Htr as (A & B & C & D). repeat split; try congruence.
    rewrite Hx. destruct (rt_pc th'); cbn [pcr] in *; try discriminate; try (destruct Hy as (z & Hz); injection Hz as <- <-; eauto).
    destruct Hy as (p' & Hy & _). discriminate.
  Qed.

  Lemma case_RdClr0 p0 : rt_pc th = RdClr0 p0 -> SGoal (rwith_thr c t (set_hz0 (rgoto th (RdClr1 p0)) 0)).
  Proof.
    intros Hpc. pose proof Hpcr as Hpcl. rewrite Hpc in Hpcl. cbn [pcr] in Hpcl.
    eapply local_goal with (lt' := lt) (k := 0%nat).
    - apply abs_stay.
    - apply (pcr_rel p0 Hpcl); try reflexivity. exists 0. cbn. eauto.
    - apply nodup_rl.
    - unfold eff_rl. rewrite Hpc. reflexivity.
    - cbn. intros p [].
    - cbn. discriminate.
    - noprot.
    - nocov.
    - exact I.
  Qed.

  Lemma case_RdClr1_scan p0 : rt_pc th = RdClr1 p0 -> length (rt_rl th) = r_fmax c ->
    SGoal (rwith_thr c t (set_hz1 (rgoto th (RdScan p0 0 [])) 0)).
  Proof.
    intros Hpc Hlen. pose proof Hpcr as Hpcl. rewrite Hpc in Hpcl. cbn [pcr] in Hpcl.
    eapply local_goal with (lt' := lt) (k := 0%nat).
    - apply abs_stay.
    - apply (pcr_rel p0 Hpcl); try reflexivity. exists 0. cbn. eauto.
    - apply nodup_rl.
    - unfold eff_rl. rewrite Hpc. reflexivity.
    - cbn. intros p [].
    - cbn. discriminate.
    - noprot.
    - intros u uth p _ _ _. unfold scan_cov. cbn. intros _ H9. lia.
    - unfold xpc. cbn. exact Hlen.
  Qed.

  Lemma case_RdClr1_fin p0 : rt_pc th = RdClr1 p0 -> SGoal (rwith_thr c t (set_hz1 (rfinish th (LPtr p0)) 0)).
  Proof.
    intros Hpc. pose proof Hpcr as Hpcl. rewrite Hpc in Hpcl. cbn [pcr] in Hpcl. destruct Hpcl as (x & Hpcl).
    pose proof HI as (_ & TO & _). pose proof (TO t lt Hlt) as Hp. rewrite Hpcl in Hp. cbn [pcinv] in Hp.
    destruct (rfin_proj th (LPtr p0)) as (Hf1 & Hf3 & Hf4 & Hf2 & _).
    eapply local_goal with (lt' := lfinish lt (LPtr p0)).
    - apply abs_go with (r0 := Some (LPtr p0)); [|nolink Hpcl]. absstep Hlt Hpcl. reflexivity.
    - eapply threl_fin with (o := LDeq); try exact Htr; try exact Hp; cbn; auto.
    - cbn. rewrite Hf2. apply nodup_rl.
    - unfold eff_rl. cbn. rewrite Hf1, Hf2, Hpc. reflexivity.
    - cbn. rewrite Hf1. intros p [].
    - cbn. rewrite Hf1. discriminate.
    - cbn. rewrite Hf1. discriminate.
    - intros. unfold scan_cov. cbn. rewrite Hf1. exact I.
    - unfold xpc. cbn. rewrite Hf1. exact I.
  Qed.

  Lemma case_RdScan_slot p0 i acc : rt_pc th = RdScan p0 i acc ->
    SGoal (rwith_thr c t (rgoto th (RdScan p0 (S i) (acc ++ [slot_of (r_thr c) t (Nat.div i 2) (Nat.modulo i 2)])))).
  Proof.
    intros Hpc. pose proof Hpcr as Hpcl. rewrite Hpc in Hpcl. cbn [pcr] in Hpcl.
    pose proof (X_pc _ _ _ _ _ R t th Hth) as Hx. unfold xpc in Hx. rewrite Hpc in Hx.
    eapply local_goal with (lt' := lt) (k := 0%nat).
    - apply abs_stay.
    - apply (pcr_rel p0 Hpcl); try reflexivity. exists 0. cbn. eauto.
    - apply nodup_rl.
    - unfold eff_rl. rewrite Hpc. reflexivity.
    - cbn. intros p [].
    - cbn. discriminate.
    - noprot.
    - intros u uth p Hne Hu Hp. unfold scan_cov. cbn [rgoto rt_pc rt_rl]. intros Hin Hlt2.
      pose proof (H_scan _ _ _ _ _ R u uth p t th Hu Hp Hth) as Hc. unfold scan_cov in Hc. rewrite Hpc in Hc.
      apply in_or_app. destruct (Nat.lt_ge_cases (2 * u) i) as [Hl|Hg]; [left; auto|right].
      assert (Hi : i = (u * 2)%nat) by lia. subst i.
      rewrite Nat.div_mul, Nat.mod_mul by lia. unfold slot_of.
      destruct (Nat.eqb_spec u t); [contradiction|]. rewrite Hu. cbn.
      destruct (H_prot _ _ _ _ _ R u uth p Hu Hp) as (A & _). left. exact A.
    - unfold xpc. cbn. exact Hx.
  Qed.

  Lemma case_RdScan_sort p0 i acc : rt_pc th = RdScan p0 i acc -> (2 * length (r_thr c) <= i)%nat ->
    SGoal (rwith_thr c t (rgoto th (RdFree p0 (isort acc) (rt_rl th) []))).
  Proof.
    intros Hpc Hge. pose proof Hpcr as Hpcl. rewrite Hpc in Hpcl. cbn [pcr] in Hpcl.
    pose proof (X_pc _ _ _ _ _ R t th Hth) as Hx. unfold xpc in Hx. rewrite Hpc in Hx.
    eapply local_goal with (lt' := lt) (k := 0%nat).
    - apply abs_stay.
    - apply (pcr_rel p0 Hpcl); try reflexivity. exists 0. cbn. eauto.
    - apply nodup_rl.
    - unfold eff_rl. cbn. rewrite Hpc. reflexivity.
    - cbn. intros p [].
    - cbn. discriminate.
    - noprot.
    - intros u uth p Hne Hu Hp. unfold scan_cov. cbn [rgoto rt_pc rt_rl]. intros Hin.
      pose proof (H_scan _ _ _ _ _ R u uth p t th Hu Hp Hth) as Hc. unfold scan_cov in Hc. rewrite Hpc in Hc.
      assert (Hul : (u < length (r_thr c))%nat) by (apply nth_error_Some; congruence).
      eapply Permutation_in; [apply Permutation_sym, isort_perm|]. apply Hc; [exact Hin|lia].
    - unfold xpc. cbn. split; [exact Hx|]. split; [exists []; split; reflexivity|exists acc; reflexivity].
  Qed.

  Lemma case_RdFree_keep p0 srt a todo kept : rt_pc th = RdFree p0 srt (a :: todo) kept -> keepf srt a = true ->
    SGoal (rwith_thr c t (rgoto th (RdFree p0 srt todo (kept ++ [a])))).
  Proof.
    intros Hpc Hk. pose proof Hpcr as Hpcl. rewrite Hpc in Hpcl. cbn [pcr] in Hpcl.
    pose proof (X_pc _ _ _ _ _ R t th Hth) as Hx. unfold xpc in Hx. rewrite Hpc in Hx.
    destruct Hx as (Hl & (pre & Hpre & Hkept) & Hacc).
    eapply local_goal with (lt' := lt) (k := 0%nat).
    - apply abs_stay.
    - apply (pcr_rel p0 Hpcl); try reflexivity. exists 0. cbn. eauto.
    - apply nodup_rl.
    - unfold eff_rl. cbn. rewrite Hpc, <- app_assoc. reflexivity.
    - cbn. intros p [].
    - cbn. discriminate.
    - noprot.
    - intros u uth p Hne Hu Hp. unfold scan_cov. cbn [rgoto rt_pc rt_rl]. intros Hin.
      pose proof (H_scan _ _ _ _ _ R u uth p t th Hu Hp Hth) as Hc. unfold scan_cov in Hc. rewrite Hpc in Hc.
      apply Hc. right; exact Hin.
    - unfold xpc. cbn. split; [exact Hl|]. split; [|exact Hacc]. exists (pre ++ [a]). split.
      + rewrite Hpre, <- app_assoc. reflexivity.
      + rewrite filter_app, <- Hkept. cbn [filter]. rewrite Hk. reflexivity.
  Qed.

  Lemma rdfree_todo_nz p0 srt a todo kept : rt_pc th = RdFree p0 srt (a :: todo) kept -> a <> 0.
  Proof.
    intros Hpc Hz. assert (H : st a = SR t).
    { eapply (G_R _ _ _ _ _ R t th); [exact Hth|]. unfold eff_rl. rewrite Hpc. apply in_or_app; right; left; reflexivity. }
    assert (H0 : st a = SU) by (apply (G_U _ _ _ _ _ R); left; exact Hz). congruence.
  Qed.

  Lemma case_RdFree_again p0 srt kept : rt_pc th = RdFree p0 srt [] kept -> length kept = r_fmax c ->
    SGoal (rwith_thr c t (rgoto th (RdScan p0 0 []))).
  Proof.
    intros Hpc Hk. pose proof Hpcr as Hpcl. rewrite Hpc in Hpcl. cbn [pcr] in Hpcl.
    pose proof (X_pc _ _ _ _ _ R t th Hth) as Hx. unfold xpc in Hx. rewrite Hpc in Hx.
    destruct Hx as (Hl & (pre & Hpre & Hkept) & Hacc). rewrite app_nil_r in Hpre.
    assert (Hkp : kept = rt_rl th).
    { rewrite Hpre, Hkept. apply filter_len_eq. rewrite <- Hkept, Hk, <- Hl, Hpre. reflexivity. }
    eapply local_goal with (lt' := lt) (k := 0%nat).
    - apply abs_stay.
    - apply (pcr_rel p0 Hpcl); try reflexivity. exists 0. cbn. eauto.
    - apply nodup_rl.
    - unfold eff_rl. cbn. rewrite Hpc, app_nil_r. congruence.
    - cbn. intros p [].
    - cbn. discriminate.
    - noprot.
    - intros u uth p _ _ _. unfold scan_cov. cbn. intros _ H9. lia.
    - unfold xpc. cbn. exact Hl.
  Qed.

  Lemma case_RdFree_fin p0 srt kept : rt_pc th = RdFree p0 srt [] kept ->
    SGoal (rwith_thr c t (set_rl (rfinish th (LPtr p0)) kept)).
  Proof.
    intros Hpc. pose proof Hpcr as Hpcl. rewrite Hpc in Hpcl. cbn [pcr] in Hpcl. destruct Hpcl as (x & Hpcl).
    pose proof (X_pc _ _ _ _ _ R t th Hth) as Hx. unfold xpc in Hx. rewrite Hpc in Hx.
    destruct Hx as (Hl & (pre & Hpre & Hkept) & Hacc). rewrite app_nil_r in Hpre.
    pose proof HI as (_ & TO & _). pose proof (TO t lt Hlt) as Hp. rewrite Hpcl in Hp. cbn [pcinv] in Hp.
    destruct (rfin_proj th (LPtr p0)) as (Hf1 & Hf3 & Hf4 & Hf2 & _).
    eapply local_goal with (lt' := lfinish lt (LPtr p0)).
    - apply abs_go with (r0 := Some (LPtr p0)); [|nolink Hpcl]. absstep Hlt Hpcl. reflexivity.
    - eapply threl_fin with (o := LDeq); try exact Htr; try exact Hp; cbn; auto.
    - cbn. rewrite Hkept. apply NoDup_filter. rewrite <- Hpre. apply nodup_rl.
    - unfold eff_rl. cbn. rewrite Hf1, Hpc, app_nil_r. reflexivity.
    - cbn. rewrite Hf1. intros p [].
    - cbn. rewrite Hf1. discriminate.
    - cbn. rewrite Hf1. discriminate.
    - intros. unfold scan_cov. cbn. rewrite Hf1. exact I.
    - unfold xpc. cbn. rewrite Hf1. exact I.
  Qed.

  (* ---- qlfqueue_empty: not simulated (the fresh-id machine does not run it) *)
  Definition is_rm (p : rpc) : bool :=
    match p with RmLdHead | RmLdTail _ _ | RmLdNext _ _ _ | RmMF _ _ _ _ | RmChk _ _ _ _ => true | _ => false end.

  Lemma rm_facts : is_rm (rt_pc th) = true -> lt_pc lt = LIdle /\ rt_cur th = Some LEmp.
  Proof.
    intros H. pose proof Hpcr as Hpcl. pose proof (X_pc _ _ _ _ _ R t th Hth) as Hx. unfold xpc in Hx.
    set (r := rt_pc th) in H, Hpcl, Hx. clearbody r.
    destruct r; try discriminate; cbn [pcr apc] in Hpcl; auto.
  Qed.

  Lemma rm_eff : is_rm (rt_pc th) = true -> eff_rl th = rt_rl th.
  Proof. unfold eff_rl. intros H. set (r := rt_pc th) in H |- *. clearbody r. destruct r; try discriminate; reflexivity. Qed.

  Lemma case_Rm pc' : is_rm (rt_pc th) = true -> is_rm pc' = true -> SGoal (rwith_thr c t (rgoto th pc')).
  Proof.
    intros H1 H2. destruct (rm_facts H1) as (Hpl & Hc).
    eapply local_goal with (lt' := lt) (k := 0%nat).
    - apply abs_stay.
    - eapply threl_mk; try exact Htr; try reflexivity. cbn. rewrite Hpl. destruct pc'; try discriminate; reflexivity.
    - apply nodup_rl.
    - rewrite (rm_eff H1). unfold eff_rl. cbn. destruct pc'; try discriminate; reflexivity.
    - cbn. destruct pc'; try discriminate; intros p [].
    - cbn. destruct pc'; discriminate.
    - cbn. destruct pc'; discriminate.
    - intros. unfold scan_cov. cbn. destruct pc'; try discriminate; exact I.
    - unfold xpc. cbn. destruct pc'; try discriminate; exact Hc.
  Qed.

  Lemma case_Rm_fin r0 : is_rm (rt_pc th) = true -> SGoal (rwith_thr c t (rfinish th r0)).
  Proof.
    intros H1. destruct (rm_facts H1) as (Hpl & Hc).
    destruct (rfin_proj th r0) as (Hf1 & Hf3 & Hf4 & Hf2 & _).
    eapply local_goal with (lt' := lt) (k := 0%nat).
    - apply abs_stay.
    - eapply threl_fin_emp with (r := r0); try exact Htr; auto.
    - rewrite Hf2. apply nodup_rl.
    - rewrite (rm_eff H1). unfold eff_rl. rewrite Hf1, Hf2. reflexivity.
    - rewrite Hf1. intros p [].
    - rewrite Hf1. discriminate.
    - rewrite Hf1. discriminate.
    - intros. unfold scan_cov. rewrite Hf1. exact I.
    - unfold xpc. rewrite Hf1. exact I.
  Qed.

  (* ---- the three CAS on q->tail *)
  Lemma tail_goal th' lt' tl' :
    lrun s (repeat t 1) = mkLS (s_heap s) (s_head s) (pl tl') (s_fresh s) (lset_nth (s_thr s) t lt') (g_enq s) (g_deq s) /\
    Inv (mkLS (s_heap s) (s_head s) (pl tl') (s_fresh s) (lset_nth (s_thr s) t lt') (g_enq s) (g_deq s)) L /\
    TInv (mkLS (s_heap s) (s_head s) (pl tl') (s_fresh s) (lset_nth (s_thr s) t lt') (g_enq s) (g_deq s)) L ->
    threl (pl (r_head c)) th' lt' -> gp la (r_lid c) tl' ->
    NoDup (rt_rl th') -> eff_rl th' = eff_rl th ->
    (forall p, In p (pc_ptrs (rt_pc th')) -> gp la (r_lid c) p) ->
    (forall nd, rpriv (rt_pc th') = Some nd -> rpriv (rt_pc th) = Some nd) ->
    (forall p, prot0 (rt_pc th') = Some p ->
       rt_hz0 th' = pa p /\ aget (r_own c) (pa p) = pl p /\ st (pa p) <> SF /\ st (pa p) <> SU /\
       (forall u uth, u <> t -> nth_error (r_thr c) u = Some uth -> scan_cov t (pa p) uth) /\
       scan_cov t (pa p) th') ->
    (forall u uth p, u <> t -> nth_error (r_thr c) u = Some uth -> prot0 (rt_pc uth) = Some p -> scan_cov u (pa p) th') ->
    xpc st (r_fmax c) t th' ->
    SGoal (rwith_tail c tl' t th').
  Proof.
    intros (A1 & A2 & A3) B1 B0 B2 B3 B4 B5 B6 B7 B8.
    eexists 1%nat, _, []. rewrite app_nil_r. split; [exact A1|split; [exact A2|split; [exact A3|]]].
    exists la, st. eapply rel_local; eauto.
  Qed.

  Lemma tail_cas_abs lt' (tlx nxx : N) :
    lstep s t = Some (mkLS (s_heap s) (s_head s) (if s_tail s =? tlx then nxx else s_tail s) (s_fresh s)
                           (lset_nth (s_thr s) t lt') (g_enq s) (g_deq s), None) ->
    (forall nd tl, lt_pc lt = QeCasLink nd tl -> n_next (hget (s_heap s) tl) <> 0) ->
    forall tl', pl tl' = (if s_tail s =? tlx then nxx else s_tail s) ->
    lrun s (repeat t 1) = mkLS (s_heap s) (s_head s) (pl tl') (s_fresh s) (lset_nth (s_thr s) t lt') (g_enq s) (g_deq s) /\
    Inv (mkLS (s_heap s) (s_head s) (pl tl') (s_fresh s) (lset_nth (s_thr s) t lt') (g_enq s) (g_deq s)) L /\
    TInv (mkLS (s_heap s) (s_head s) (pl tl') (s_fresh s) (lset_nth (s_thr s) t lt') (g_enq s) (g_deq s)) L.
  Proof.
    intros Hs Hn tl' ->. split; [eapply lrun1; eauto|]. eapply abs1; eauto.
    intros th0 nd0 tl0 H0. rewrite Hlt in H0. injection H0 as <-. apply Hn.
  Qed.

  Lemma case_ReCasHelp nd tl nx : rt_pc th = ReCasHelp nd tl nx ->
    SGoal (rwith_tail c (if pa (r_tail c) =? pa tl then nx else r_tail c) t (rgoto th (ReLdTail nd))).
  Proof.
    intros Hpc. pose proof Hpcr as Hpcl. rewrite Hpc in Hpcl. cbn [pcr apc] in Hpcl.
    assert (Hpr : prot0 (rt_pc th) = Some tl) by (rewrite Hpc; reflexivity).
    destruct (tail_live _ _ _ _ _ HI HT R) as (TA & TB & TC).
    assert (Hcmp := prot_cmp tl (r_tail c) Hpr ltac:(apply gp_of; rewrite Hpc; right; left; reflexivity) (G_gpt _ _ _ _ _ R) TB).
    eapply tail_goal with (lt' := lgoto lt (QeLdTail (pl nd))).
    - apply tail_cas_abs with (tlx := pl tl) (nxx := pl nx); [absstep Hlt Hpcl; reflexivity|nolink Hpcl|].
      rewrite Hcmp, (R_tail _ _ _ _ _ R). destruct (pl (r_tail c) =? pl tl); reflexivity.
    - eapply threl_mk; try exact Htr; try reflexivity.
    - destruct (pa (r_tail c) =? pa tl); [apply gp_of; rewrite Hpc; right; right; left; reflexivity|apply (G_gpt _ _ _ _ _ R)].
    - apply nodup_rl.
    - unfold eff_rl. rewrite Hpc. reflexivity.
    - cbn. intros p [<-|[]]. apply gp_of. rewrite Hpc. left; reflexivity.
    - cbn. rewrite Hpc. auto.
    - noprot.
    - nocov.
    - exact I.
  Qed.

  Lemma case_ReCasSwing nd tl : rt_pc th = ReCasSwing nd tl ->
    SGoal (rwith_tail c (if pa (r_tail c) =? pa tl then nd else r_tail c) t (rgoto th ReHzClr)).
  Proof.
    intros Hpc. pose proof Hpcr as Hpcl. rewrite Hpc in Hpcl. cbn [pcr apc] in Hpcl.
    assert (Hpr : prot0 (rt_pc th) = Some tl) by (rewrite Hpc; reflexivity).
    destruct (tail_live _ _ _ _ _ HI HT R) as (TA & TB & TC).
    assert (Hcmp := prot_cmp tl (r_tail c) Hpr ltac:(apply gp_of; rewrite Hpc; right; left; reflexivity) (G_gpt _ _ _ _ _ R) TB).
    eapply tail_goal with (lt' := lgoto lt QeHzClr).
    - apply tail_cas_abs with (tlx := pl tl) (nxx := pl nd); [absstep Hlt Hpcl; reflexivity|nolink Hpcl|].
      rewrite Hcmp, (R_tail _ _ _ _ _ R). destruct (pl (r_tail c) =? pl tl); reflexivity.
    - eapply threl_mk; try exact Htr; try reflexivity.
    - destruct (pa (r_tail c) =? pa tl); [apply gp_of; rewrite Hpc; left; reflexivity|apply (G_gpt _ _ _ _ _ R)].
    - apply nodup_rl.
    - unfold eff_rl. rewrite Hpc. reflexivity.
    - cbn. intros p [].
    - cbn. discriminate.
    - noprot.
    - nocov.
    - exact I.
  Qed.

  Lemma case_RdCasHelp tl nx : rt_pc th = RdCasHelp tl nx ->
    SGoal (rwith_tail c (if pa (r_tail c) =? pa tl then nx else r_tail c) t (rgoto th RdLdHead)).
  Proof.
    intros Hpc. pose proof Hpcr as Hpcl. rewrite Hpc in Hpcl. cbn [pcr apc] in Hpcl.
    assert (Hpr : prot0 (rt_pc th) = Some tl) by (rewrite Hpc; reflexivity).
    destruct (tail_live _ _ _ _ _ HI HT R) as (TA & TB & TC).
    assert (Hcmp := prot_cmp tl (r_tail c) Hpr ltac:(apply gp_of; rewrite Hpc; left; reflexivity) (G_gpt _ _ _ _ _ R) TB).
    eapply tail_goal with (lt' := lgoto lt QdLdHead).
    - apply tail_cas_abs with (tlx := pl tl) (nxx := pl nx); [absstep Hlt Hpcl; reflexivity|nolink Hpcl|].
      rewrite Hcmp, (R_tail _ _ _ _ _ R). destruct (pl (r_tail c) =? pl tl); reflexivity.
    - eapply threl_mk; try exact Htr; try reflexivity.
    - destruct (pa (r_tail c) =? pa tl); [apply gp_of; rewrite Hpc; right; left; reflexivity|apply (G_gpt _ _ _ _ _ R)].
    - apply nodup_rl.
    - unfold eff_rl. rewrite Hpc. reflexivity.
    - cbn. intros p [].
    - cbn. discriminate.
    - noprot.
    - nocov.
    - exact I.
  Qed.

  (* ---- hazardous_release_node: the dequeued node enters the thread's retired list *)
  Lemma case_RdRel hd p0 : rt_pc th = RdRel hd p0 ->
    SGoal (rwith_thr c t (set_rl (rgoto th (RdClr0 p0)) (rt_rl th ++ [pa hd]))).
  Proof.
    intros Hpc. pose proof Hpcr as Hpcl. rewrite Hpc in Hpcl. cbn [pcr] in Hpcl.
    pose proof (X_pc _ _ _ _ _ R t th Hth) as Hx. unfold xpc in Hx. rewrite Hpc in Hx.
    set (a := pa hd) in *.
    set (st' := fun x => if x =? a then SR t else st x).
    assert (Hst : forall x, st x <> SP t -> st' x = st x).
    { intros x H. unfold st'. destruct (N.eqb_spec x a); [subst x; contradiction|reflexivity]. }
    assert (Hsu : forall x, st' x = SU <-> st x = SU).
    { intros x. unfold st'. destruct (N.eqb_spec x a); [subst x; rewrite Hx; split; discriminate|tauto]. }
    assert (Hsf : forall x, st' x = SF <-> st x = SF).
    { intros x. unfold st'. destruct (N.eqb_spec x a); [subst x; rewrite Hx; split; discriminate|tauto]. }
    assert (Hlt' : (t < length (r_thr c))%nat) by (apply nth_error_Some; congruence).
    assert (Heff : eff_rl th = rt_rl th) by (unfold eff_rl; rewrite Hpc; reflexivity).
    exists 0%nat, s, []. rewrite app_nil_r. split; [reflexivity|split; [exact HI|split; [exact HT|]]].
    exists la, st'. pose proof R as R0. destruct R.
    constructor; cbn [rwith_thr r_head r_tail r_lid rg_enq rg_deq r_thr r_heap r_own r_free r_bump r_fmax]; auto.
    - rewrite lset_length. assumption.
    - intros t2 rt H. apply nth_lset_case in H. destruct H as [(-> & -> & _)|(Hne & H)]; [|auto].
      exists lt. split; [exact Hlt|]. apply (pcr_rel p0 Hpcl); try reflexivity. exists 0. cbn. eauto.
    - intros b H1 H2. apply R_heap0; [rewrite <- Hsu|rewrite <- Hsf]; assumption.
    - intros b. rewrite Hsu. apply G_U0.
    - intros b. rewrite Hsf. apply G_F0.
    - intros b H. apply G_own0. rewrite <- Hsu. exact H.
    - intros t2 th2 b H Hb. apply nth_lset_case in H. destruct H as [(-> & -> & _)|(Hne & H)].
      + unfold eff_rl in Hb. cbn in Hb. apply in_app_or in Hb. unfold st'. destruct (N.eqb_spec b a); [reflexivity|].
        destruct Hb as [Hb|[Hb|[]]]; [|congruence]. eapply G_R0; [exact Hth|rewrite Heff; exact Hb].
      + pose proof (G_R0 _ _ _ H Hb) as E. rewrite Hst; [exact E|]. rewrite E. discriminate.
    - intros t2 th2 H. apply nth_lset_case in H. destruct H as [(-> & -> & _)|(Hne & H)]; [|eauto].
      cbn. apply NoDup_snoc; [eapply G_Rnd0; eauto|]. intros Hin.
      assert (E : st a = SR t) by (eapply G_R0; [exact Hth|rewrite Heff; exact Hin]). congruence.
    - intros l Hl. destruct (G_chain0 l Hl) as [A B]. split; [|exact B]. rewrite Hst; [exact A|congruence].
    - intros t2 th2 nd H Hp. apply nth_lset_case in H. destruct H as [(-> & -> & _)|(Hne & H)]; [discriminate Hp|].
      destruct (G_priv0 _ _ _ H Hp) as [A B]. split; [|exact B]. rewrite Hst; [exact A|congruence].
    - intros b H. apply G_gpn0. rewrite <- Hsu. exact H.
    - intros t2 th2 p H Hp. apply nth_lset_case in H. destruct H as [(-> & -> & _)|(Hne & H)]; [destruct Hp|eauto].
    - intros t2 th2 p H Hp. apply nth_lset_case in H. destruct H as [(-> & -> & _)|(Hne & H)]; [discriminate Hp|].
      destruct (H_prot0 _ _ _ H Hp) as (A & B & C & D). repeat split; auto; [rewrite Hsf|rewrite Hsu]; assumption.
    - intros t2 th2 p u uth H Hp Hu. apply nth_lset_case in H. destruct H as [(-> & -> & _)|(Hne & H)]; [discriminate Hp|].
      apply nth_lset_case in Hu. destruct Hu as [(-> & -> & _)|(Hne2 & Hu)]; [unfold scan_cov; cbn; exact I|eauto].
    - intros t2 th2 H. apply nth_lset_case in H. destruct H as [(-> & -> & _)|(Hne & H)]; [exact I|].
      pose proof (X_pc0 _ _ H) as Hx2. unfold xpc in *. destruct (rt_pc th2); auto.
      rewrite Hst; [exact Hx2|]. rewrite Hx2. intros [= ?]. congruence.
  Qed.

  (* ---- stage 2 of the scan frees a retired node that no collected slot names *)
  Lemma case_RdFree_free p0 srt a todo kept : rt_pc th = RdFree p0 srt (a :: todo) kept -> keepf srt a = false ->
    SGoal (mkRS (r_heap c) (r_head c) (r_tail c) (a :: r_free c) (r_bump c) (r_fmax c)
                (lset_nth (r_thr c) t (rgoto th (RdFree p0 srt todo kept)))
                (r_lid c) (r_own c) (rg_enq c) (rg_deq c)).
  Proof.
    intros Hpc Hk. pose proof Hpcr as Hpcl. rewrite Hpc in Hpcl. cbn [pcr] in Hpcl.
    pose proof (X_pc _ _ _ _ _ R t th Hth) as Hx. unfold xpc in Hx. rewrite Hpc in Hx.
    destruct Hx as (Hl & (pre & Hpre & Hkept) & (acc & Hacc)).
    assert (Heff : eff_rl th = kept ++ a :: todo) by (unfold eff_rl; rewrite Hpc; reflexivity).
    assert (Hsa : st a = SR t).
    { eapply (G_R _ _ _ _ _ R t th); [exact Hth|]. rewrite Heff. apply in_or_app; right; left; reflexivity. }
    assert (Hnd : NoDup (pre ++ a :: todo)) by (rewrite <- Hpre; apply nodup_rl).
    assert (Hnk : ~ In a (kept ++ todo)).
    { apply NoDup_remove_2 in Hnd. intros Hin. apply Hnd. apply in_app_or in Hin. apply in_or_app.
      destruct Hin as [Hin|Hin]; [left|right; exact Hin]. rewrite Hkept in Hin. apply filter_In in Hin. tauto. }
    set (st' := fun x => if x =? a then SF else st x).
    assert (Hst : forall x, x <> a -> st' x = st x).
    { intros x H. unfold st'. destruct (N.eqb_spec x a); [contradiction|reflexivity]. }
    assert (Hsu : forall x, st' x = SU <-> st x = SU).
    { intros x. unfold st'. destruct (N.eqb_spec x a); [subst x; rewrite Hsa; split; discriminate|tauto]. }
    assert (Hnsf : forall x, st' x <> SF -> st x <> SF /\ x <> a).
    { intros x. unfold st'. destruct (N.eqb_spec x a); [congruence|auto]. }
    assert (Hnf : keepf srt a = false -> ~ In a srt).
    { intros _ Hin. subst srt. unfold keepf in Hk. rewrite (found_sorted _ _ Hin) in Hk. discriminate. }
    exists 0%nat, s, []. rewrite app_nil_r. split; [reflexivity|split; [exact HI|split; [exact HT|]]].
    exists la, st'. pose proof R as R0. destruct R.
    constructor; cbn [r_head r_tail r_lid rg_enq rg_deq r_thr r_heap r_own r_free r_bump r_fmax]; auto.
    - rewrite lset_length. assumption.
    - intros t2 rt H. apply nth_lset_case in H. destruct H as [(-> & -> & _)|(Hne & H)]; [|auto].
      exists lt. split; [exact Hlt|]. apply (pcr_rel p0 Hpcl); try reflexivity. exists 0. cbn. eauto.
    - intros b H1 H2. destruct (Hnsf b H2) as [H3 _]. apply R_heap0; [rewrite <- Hsu; exact H1|exact H3].
    - intros b. rewrite Hsu. apply G_U0.
    - intros b. unfold st'. destruct (N.eqb_spec b a) as [->|Hne].
      + split; [intros _; left; reflexivity|reflexivity].
      + rewrite G_F0. split; [intros H; right; exact H|intros [H|H]; [congruence|exact H]].
    - constructor; [|exact G_Fnd0]. intros Hin. apply G_F0 in Hin. congruence.
    - intros b H. apply G_own0. rewrite <- Hsu. exact H.
    - intros t2 th2 b H Hb. apply nth_lset_case in H. destruct H as [(-> & -> & _)|(Hne & H)].
      + unfold eff_rl in Hb. cbn in Hb. assert (b <> a) by (intros ->; contradiction). rewrite Hst by assumption.
        eapply G_R0; [exact Hth|]. rewrite Heff. apply in_app_or in Hb. apply in_or_app. destruct Hb; [left|right; right]; assumption.
      + pose proof (G_R0 _ _ _ H Hb) as E. rewrite Hst; [exact E|]. intros ->. congruence.
    - intros t2 th2 H. apply nth_lset_case in H. destruct H as [(-> & -> & _)|(Hne & H)]; [cbn [rgoto rt_rl]|]; eauto.
    - intros l Hl0. destruct (G_chain0 l Hl0) as [A B]. split; [|exact B]. rewrite Hst; [exact A|congruence].
    - intros t2 th2 nd H Hp. apply nth_lset_case in H. destruct H as [(-> & -> & _)|(Hne & H)]; [discriminate Hp|].
      destruct (G_priv0 _ _ _ H Hp) as [A B]. split; [|exact B]. rewrite Hst; [exact A|congruence].
    - intros b H. apply G_gpn0. rewrite <- Hsu. exact H.
    - intros t2 th2 p H Hp. apply nth_lset_case in H. destruct H as [(-> & -> & _)|(Hne & H)]; [destruct Hp|eauto].
    - intros t2 th2 p H Hp. apply nth_lset_case in H. destruct H as [(-> & -> & _)|(Hne & H)]; [discriminate Hp|].
      destruct (H_prot0 _ _ _ H Hp) as (A & B & C & D).
      assert (Hpa : pa p <> a).
      { intros E. pose proof (H_scan0 _ _ _ _ _ H Hp Hth) as Hc. unfold scan_cov in Hc. rewrite Hpc in Hc.
        apply (Hnf Hk). rewrite <- E. apply Hc. left. auto. }
      repeat split; auto; [rewrite Hst; assumption|rewrite Hsu; assumption].
    - intros t2 th2 p u uth H Hp Hu. apply nth_lset_case in H. destruct H as [(-> & -> & _)|(Hne & H)]; [discriminate Hp|].
      apply nth_lset_case in Hu. destruct Hu as [(-> & -> & _)|(Hne2 & Hu)]; [|eauto].
      pose proof (H_scan0 _ _ _ _ _ H Hp Hth) as Hc. unfold scan_cov in *. rewrite Hpc in Hc. cbn. intros Hin. apply Hc. right; exact Hin.
    - intros t2 th2 H. apply nth_lset_case in H. destruct H as [(-> & -> & _)|(Hne & H)].
      + unfold xpc. cbn. split; [exact Hl|]. split; [|exists acc; exact Hacc]. exists (pre ++ [a]). split.
        * rewrite Hpre, <- app_assoc. reflexivity.
        * rewrite filter_app, <- Hkept. cbn [filter]. rewrite Hk, app_nil_r. reflexivity.
      + pose proof (X_pc0 _ _ H) as Hx2. unfold xpc in *. destruct (rt_pc th2); auto.
        rewrite Hst; [exact Hx2|]. intros E. rewrite E in Hx2. congruence.
  Qed.

  (* ---- the successful CAS on q->head *)
  Lemma skipn_S_in {A} (l : list A) k x : In x (skipn (S k) l) -> In x (skipn k l).
  Proof.
    intros H. destruct (in_skipn_nth _ _ _ H) as (j & Hj & Hn). eapply nth_in_skipn; [exact Hn|lia].
  Qed.

  Lemma rpriv_priv hdl rp ap nd : rpriv rp = Some nd -> pcr hdl rp ap -> priv ap = Some (pl nd).
  Proof. destruct rp; cbn [rpriv pcr apc]; try discriminate; intros [= <-] ->; reflexivity. Qed.

  Lemma case_RdCasHead_ok hd nx p0 : rt_pc th = RdCasHead hd nx p0 -> pa (r_head c) = pa hd ->
    SGoal (mkRS (r_heap c) nx (r_tail c) (r_free c) (r_bump c) (r_fmax c)
                (lset_nth (r_thr c) t (rgoto th (RdRel hd p0)))
                (r_lid c) (r_own c) (rg_enq c) (rg_deq c ++ [(t, p0)])).
  Proof.
    intros Hpc Ea. pose proof Hpcr as Hpcl. rewrite Hpc in Hpcl. cbn [pcr] in Hpcl. destruct Hpcl as (p' & Hpcl & Hp').
    assert (Hpr : prot0 (rt_pc th) = Some hd) by (rewrite Hpc; reflexivity).
    destruct (head_live _ _ _ _ _ HI R) as (TA & TB & TC).
    destruct (H_prot _ _ _ _ _ R t th hd Hth Hpr) as (PA & PB & PC & PD).
    assert (El : pl (r_head c) = pl hd) by (rewrite <- TB, <- PB, Ea; reflexivity).
    specialize (Hp' El). subst p'.
    set (a := pa hd) in *. rewrite Ea in TA.
    assert (Habs : lstep s t = Some (mkLS (s_heap s) (pl nx) (s_tail s) (s_fresh s) (lset_nth (s_thr s) t (lgoto lt (QdRel (pl hd) p0)))
                                          (g_enq s) (g_deq s ++ [(t, p0)]), None)).
    { absstep Hlt Hpcl. rewrite (R_head _ _ _ _ _ R), El, N.eqb_refl. reflexivity. }
    set (s' := mkLS (s_heap s) (pl nx) (s_tail s) (s_fresh s) (lset_nth (s_thr s) t (lgoto lt (QdRel (pl hd) p0))) (g_enq s) (g_deq s ++ [(t, p0)])) in *.
    destruct (abs1 _ _ _ _ _ HI HT Habs) as (HI' & HT').
    { intros th0 nd0 tl0 H0. rewrite Hlt in H0. injection H0 as <-. rewrite Hpcl. discriminate. }
    pose proof HI as (G & TO & _). pose proof HI' as (G' & _).
    pose proof (g_head _ _ _ _ _ _ _ G) as Hh. pose proof (g_head _ _ _ _ _ _ _ G') as Hh'.
    cbn [s' s_head g_deq] in Hh'. rewrite app_length in Hh'. cbn [length] in Hh'. rewrite Nat.add_1_r in Hh'.
    rewrite (R_head _ _ _ _ _ R), El in Hh. rewrite (R_deq _ _ _ _ _ R) in Hh, Hh'.
    pose proof (g_nd _ _ _ _ _ _ _ G) as HndL.
    set (st' := fun x => if x =? a then SP t else st x).
    assert (Hst : forall x, st x <> SA -> st' x = st x).
    { intros x H. unfold st'. destruct (N.eqb_spec x a); [subst x; contradiction|reflexivity]. }
    assert (Hsu : forall x, st' x = SU <-> st x = SU).
    { intros x. unfold st'. destruct (N.eqb_spec x a); [subst x; rewrite TA; split; discriminate|tauto]. }
    assert (Hsf : forall x, st' x = SF <-> st x = SF).
    { intros x. unfold st'. destruct (N.eqb_spec x a); [subst x; rewrite TA; split; discriminate|tauto]. }
    exists 1%nat, s', []. rewrite app_nil_r. split; [eapply lrun1; eauto|split; [exact HI'|split; [exact HT'|]]].
    exists la, st'. pose proof R as R0. destruct R.
    constructor; cbn [s' r_head r_tail r_lid rg_enq rg_deq r_thr r_heap r_own r_free r_bump r_fmax
                      s_head s_tail s_fresh g_enq g_deq s_thr s_heap]; auto.
    - congruence.
    - rewrite !lset_length. assumption.
    - intros t2 rt H. apply nth_lset_case in H. destruct H as [(-> & -> & Hlen)|(Hne & H)].
      + exists (lgoto lt (QdRel (pl hd) p0)). split; [apply nth_lset_eq'; lia|].
        eapply threl_mk; try exact Htr; try reflexivity. cbn. eauto.
      + rewrite nth_lset_ne by congruence. destruct (R_thr0 _ _ H) as (lt2 & Hl2 & (P1 & P2)). exists lt2. split; [exact Hl2|].
        split; [|exact P2]. destruct (rt_pc rt) eqn:Erp; cbn [pcr] in *; auto.
        destruct P1 as (p2 & Q1 & Q2). exists p2. split; [exact Q1|]. intros Hx. exfalso.
        pose proof (TO t2 lt2 Hl2) as Hp2. rewrite Q1 in Hp2. cbn [pcinv] in Hp2. destruct Hp2 as (_ & Hb & _).
        rewrite (R_deq _ _ _ _ _ R0) in Hb. unfold before in Hb. rewrite <- Hx in Hb.
        exact (nodup_not_firstn L _ _ HndL Hh' Hb).
    - intros b H1 H2. apply R_heap0; [rewrite <- Hsu|rewrite <- Hsf]; assumption.
    - intros b. rewrite Hsu. apply G_U0.
    - intros b. rewrite Hsf. apply G_F0.
    - intros b H. apply G_own0. rewrite <- Hsu. exact H.
    - intros t2 th2 b H Hb. apply nth_lset_case in H. destruct H as [(-> & -> & _)|(Hne & H)].
      + assert (E : st b = SR t) by (eapply G_R0; [exact Hth|unfold eff_rl in *; rewrite Hpc; exact Hb]).
        rewrite Hst; [exact E|congruence].
      + pose proof (G_R0 _ _ _ H Hb) as E. rewrite Hst; [exact E|congruence].
    - intros t2 th2 H. apply nth_lset_case in H. destruct H as [(-> & -> & _)|(Hne & H)]; [cbn [rgoto rt_rl]|]; eauto.
    - intros l Hl0. rewrite app_length in Hl0. cbn [length] in Hl0. rewrite Nat.add_1_r in Hl0.
      destruct (G_chain0 l (skipn_S_in _ _ _ Hl0)) as [A B]. split; [|exact B].
      unfold st'. destruct (N.eqb_spec (la l) a) as [E|E]; [exfalso|exact A].
      assert (l = pl hd) by (rewrite <- B, E; exact PB). subst l.
      destruct (in_skipn_nth _ _ _ Hl0) as (j & Hj & Hn).
      assert (j = length (rg_deq c)) by exact (nodup_idx L _ _ _ HndL Hn Hh). lia.
    - intros t2 th2 nd H Hp. apply nth_lset_case in H. destruct H as [(-> & -> & _)|(Hne & H)]; [discriminate Hp|].
      destruct (G_priv0 _ _ _ H Hp) as [A B]. split; [|exact B].
      unfold st'. destruct (N.eqb_spec (pa nd) a) as [E|E]; [exfalso|exact A].
      destruct (R_thr0 _ _ H) as (lt2 & Hl2 & (P1 & P2)).
      pose proof (rpriv_priv _ _ _ _ Hp P1) as Hpv.
      destruct (priv_privn _ _ _ _ _ _ _ _ Hpv (TO t2 lt2 Hl2)) as (v2 & _ & (_ & _ & Hni & _)).
      apply Hni. assert (pl nd = pl hd) by (rewrite <- B, E; exact PB). rewrite H0. eapply nth_error_In; eauto.
    - apply (G_gpp0 t th nx Hth). rewrite Hpc. right; left; reflexivity.
    - intros b H. apply G_gpn0. rewrite <- Hsu. exact H.
    - intros t2 th2 p H Hp. apply nth_lset_case in H. destruct H as [(-> & -> & _)|(Hne & H)]; [|eauto].
      cbn in Hp. destruct Hp as [<-|[]]. apply (G_gpp0 t th hd Hth). rewrite Hpc. left; reflexivity.
    - intros t2 th2 p H Hp. apply nth_lset_case in H. destruct H as [(-> & -> & _)|(Hne & H)]; [discriminate Hp|].
      destruct (H_prot0 _ _ _ H Hp) as (A & B & C & D). repeat split; auto; [rewrite Hsf|rewrite Hsu]; assumption.
    - intros t2 th2 p u uth H Hp Hu. apply nth_lset_case in H. destruct H as [(-> & -> & _)|(Hne & H)]; [discriminate Hp|].
      apply nth_lset_case in Hu. destruct Hu as [(-> & -> & _)|(Hne2 & Hu)]; [unfold scan_cov; cbn; exact I|eauto].
    - intros t2 th2 H. apply nth_lset_case in H. destruct H as [(-> & -> & _)|(Hne & H)].
      + unfold xpc, st'. cbn. rewrite N.eqb_refl. reflexivity.
      + pose proof (X_pc0 _ _ H) as Hx2. unfold xpc in *. destruct (rt_pc th2); auto.
        rewrite Hst; [exact Hx2|congruence].
  Qed.


  (* ---- the successful link CAS *)
  Lemma in_skipn_app {A} (l x : list A) k a : In a (skipn k (l ++ x)) -> In a (skipn k l) \/ In a x.
  Proof.
    rewrite skipn_app. intros H. apply in_app_or in H. destruct H as [H|H]; [left; exact H|right].
    revert H. generalize (k - length l)%nat. intros n. revert x. induction n as [|n IH]; intros x H; [exact H|].
    destruct x as [|y x]; [destruct H|]. right. apply IH. exact H.
  Qed.

  Lemma case_ReCasLink_ok nd tl : rt_pc th = ReCasLink nd tl -> pa (rn_next (rget (r_heap c) (pa tl))) = 0 ->
    SGoal (mkRS (rset_next (r_heap c) (pa tl) nd) (r_head c) (r_tail c) (r_free c) (r_bump c) (r_fmax c)
                (lset_nth (r_thr c) t (rgoto th (ReCasSwing nd tl)))
                (r_lid c) (r_own c) (rg_enq c ++ [(t, rn_val (rget (r_heap c) (pa nd)))]) (rg_deq c)).
  Proof.
    intros Hpc Hz. pose proof Hpcr as Hpcl. rewrite Hpc in Hpcl. cbn [pcr apc] in Hpcl.
    assert (Hpr : prot0 (rt_pc th) = Some tl) by (rewrite Hpc; reflexivity).
    destruct (prot_facts tl Hpr) as (PA & PB & PC & PD & PE & PF).
    assert (Hlz : pl (rn_next (rget (r_heap c) (pa tl))) = 0).
    { destruct PF as [[_ ?]|(? & _)]; congruence. }
    assert (Hgnd : gp la (r_lid c) nd) by (apply gp_of; rewrite Hpc; left; reflexivity).
    assert (Hgtl : gp la (r_lid c) tl) by (apply gp_of; rewrite Hpc; right; left; reflexivity).
    destruct (G_priv _ _ _ _ _ R t th nd Hth ltac:(rewrite Hpc; reflexivity)) as (NA & NB).
    assert (NC : hget (s_heap s) (pl nd) = mkNode (rn_val (rget (r_heap c) (pa nd))) (pl (rn_next (rget (r_heap c) (pa nd))))).
    { rewrite <- NB. apply (R_heap _ _ _ _ _ R); congruence. }
    destruct (G_own _ _ _ _ _ R (pa nd) ltac:(congruence)) as (_ & ND & _). rewrite NB in ND.
    destruct (gp_nonnull _ _ _ Hgnd ND) as (NE & NF).
    destruct (G_own _ _ _ _ _ R (pa tl) PD) as (_ & TD & TE). rewrite PB in TD, TE.
    set (v := rn_val (rget (r_heap c) (pa nd))) in *.
    assert (Habs : lstep s t = Some (mkLS (set_next (s_heap s) (pl tl) (pl nd)) (s_head s) (s_tail s) (s_fresh s)
                                          (lset_nth (s_thr s) t (lgoto lt (QeCasSwing (pl nd) (pl tl))))
                                          (g_enq s ++ [(t, v)]) (g_deq s), None)).
    { absstep Hlt Hpcl. rewrite PE. cbn [n_next]. rewrite Hlz, N.eqb_refl, NC. reflexivity. }
    set (s' := mkLS (set_next (s_heap s) (pl tl) (pl nd)) (s_head s) (s_tail s) (s_fresh s)
                    (lset_nth (s_thr s) t (lgoto lt (QeCasSwing (pl nd) (pl tl)))) (g_enq s ++ [(t, v)]) (g_deq s)) in *.
    destruct (step_tinv _ _ _ _ _ HI HT Habs) as (X & HI' & HT' & HX).
    assert (EX : X = [pl nd]).
    { destruct HX as [->|(th0 & nd0 & tl0 & H1 & H2 & _ & ->)].
      - exfalso. pose proof HI as (G & _). pose proof HI' as (G' & _).
        pose proof (g_lenE _ _ _ _ _ _ _ G) as E1. pose proof (g_lenE _ _ _ _ _ _ _ G') as E2.
        cbn [s' g_enq] in E2. rewrite app_length, app_nil_r in E2. cbn [length] in E2. lia.
      - rewrite Hlt in H1. injection H1 as <-. rewrite Hpcl in H2. injection H2 as <- _. reflexivity. }
    subst X.
    exists 1%nat, s', [pl nd]. split; [eapply lrun1; eauto|split; [exact HI'|split; [exact HT'|]]].
    exists la, st. pose proof R as R0. destruct R.
    constructor; cbn [s' r_head r_tail r_lid rg_enq rg_deq r_thr r_heap r_own r_free r_bump r_fmax
                      s_head s_tail s_fresh g_enq g_deq s_thr s_heap]; auto.
    - congruence.
    - rewrite !lset_length. assumption.
    - intros t2 rt H. apply nth_lset_case in H. destruct H as [(-> & -> & Hlen)|(Hne & H)].
      + exists (lgoto lt (QeCasSwing (pl nd) (pl tl))). split; [apply nth_lset_eq'; lia|].
        eapply threl_mk; try exact Htr; try reflexivity.
      + rewrite nth_lset_ne by congruence. auto.
    - intros b H1 H2. unfold rset_next, set_next. rewrite rget_rset.
      destruct (N.eqb_spec b (pa tl)) as [->|Hne].
      + rewrite PB, hget_hset_eq, PE. reflexivity.
      + rewrite hget_hset_ne; [apply R_heap0; assumption|].
        intros E. apply Hne. destruct (G_own0 b H1) as (_ & _ & F). rewrite E in F. congruence.
    - intros t2 th2 a H Ha. apply nth_lset_case in H. destruct H as [(-> & -> & _)|(Hne & H)]; [|eauto].
      eapply G_R0; [exact Hth|]. unfold eff_rl in *. rewrite Hpc. exact Ha.
    - intros t2 th2 H. apply nth_lset_case in H. destruct H as [(-> & -> & _)|(Hne & H)]; [cbn [rgoto rt_rl]|]; eauto.
    - intros l Hl0. apply in_skipn_app in Hl0. destruct Hl0 as [Hl0|[<-|[]]]; [auto|]. rewrite NF. auto.
    - intros t2 th2 nd2 H Hp. apply nth_lset_case in H. destruct H as [(-> & -> & _)|(Hne & H)]; [discriminate Hp|eauto].
    - intros b H. unfold rset_next. rewrite rget_rset. destruct (b =? pa tl); [exact Hgnd|auto].
    - intros t2 th2 p H Hp. apply nth_lset_case in H. destruct H as [(-> & -> & _)|(Hne & H)]; [|eauto].
      apply (G_gpp0 t th p Hth). rewrite Hpc. exact Hp.
    - intros t2 th2 p H Hp. apply nth_lset_case in H. destruct H as [(-> & -> & _)|(Hne & H)]; [|eauto].
      cbn in Hp. injection Hp as <-. auto.
    - intros t2 th2 p u uth H Hp Hu. apply nth_lset_case in H. apply nth_lset_case in Hu.
      destruct H as [(-> & -> & _)|(Hne & H)]; destruct Hu as [(-> & -> & _)|(Hne2 & Hu)].
      + unfold scan_cov. cbn. exact I.
      + cbn in Hp. injection Hp as <-. eapply H_scan0; eauto.
      + unfold scan_cov. cbn. exact I.
      + eauto.
    - intros t2 th2 H. apply nth_lset_case in H. destruct H as [(-> & -> & _)|(Hne & H)]; [exact I|eauto].
  Qed.


  (* ---- qpool_alloc: a free (possibly re-used) address becomes a new incarnation *)
  Lemma gp_mono la' lid p : (forall l, l < r_lid c -> la' l = la l) -> r_lid c <= lid -> gp la (r_lid c) p -> gp la' lid p.
  Proof.
    intros H Hle [[A B]|(A & B & C & D)]; [left; auto|right]. repeat split; auto; try lia. rewrite H; auto.
  Qed.

  Lemma case_ReAlloc v : rt_pc th = ReAlloc v ->
    SGoal (mkRS (rset (r_heap c) (match r_free c with x :: _ => x | [] => r_bump c end) (mkRN v pnull)) (r_head c) (r_tail c)
                (match r_free c with _ :: f => f | [] => [] end)
                (match r_free c with _ :: _ => r_bump c | [] => r_bump c + 1 end) (r_fmax c)
                (lset_nth (r_thr c) t (rgoto th (ReLdTail (mkP (match r_free c with x :: _ => x | [] => r_bump c end) (r_lid c)))))
                (r_lid c + 1) (aset (r_own c) (match r_free c with x :: _ => x | [] => r_bump c end) (r_lid c)) (rg_enq c) (rg_deq c)).
  Proof.
    intros Hpc. pose proof Hpcr as Hpcl. rewrite Hpc in Hpcl. cbn [pcr apc] in Hpcl.
    set (a := match r_free c with x :: _ => x | [] => r_bump c end).
    set (free' := match r_free c with _ :: f => f | [] => [] end).
    set (bump' := match r_free c with _ :: _ => r_bump c | [] => r_bump c + 1 end).
    set (l := r_lid c).
    pose proof (G_bump _ _ _ _ _ R) as Hb1. pose proof (G_lid _ _ _ _ _ R) as Hl1.
    (* facts about the address handed out *)
    assert (Ha : (st a = SF \/ st a = SU) /\ a <> 0 /\ a < bump' /\ r_bump c <= bump' /\
                 (forall x, In x free' <-> (In x (r_free c) /\ x <> a)) /\ NoDup free' /\
                 (forall x, (x = 0 \/ bump' <= x) <-> (x <> a /\ (x = 0 \/ r_bump c <= x)))).
    { subst a free' bump'. pose proof (G_Fnd _ _ _ _ _ R) as Hnd. destruct (r_free c) as [|x f] eqn:Ef.
      - split; [right; apply (G_U _ _ _ _ _ R); right; lia|]. split; [lia|]. split; [lia|]. split; [lia|].
        split; [intros y; split; [intros []|intros [[] _]]|]. split; [constructor|]. intros y; lia.
      - assert (Hx : st x = SF) by (apply (G_F _ _ _ _ _ R); rewrite Ef; left; reflexivity).
        assert (Hxu : ~ (x = 0 \/ r_bump c <= x)).
        { intros H. apply (G_U _ _ _ _ _ R) in H. congruence. }
        inversion Hnd as [|? ? Hni Hnd']; subst.
        split; [left; exact Hx|]. split; [lia|]. split; [lia|]. split; [lia|].
        split; [|split; [exact Hnd'|]].
        + intros y; split; [intros H; split; [right; exact H|intros ->; contradiction]|intros [[->|H] Hne]; [congruence|exact H]].
        + intros y; split; [intros H; split; [intros ->; tauto|exact H]|tauto]. }
    destruct Ha as (Hsa & Ha0 & Hab & Hbb & Hfree & Hfnd & Hub).
    set (st' := fun x => if x =? a then SA else st x).
    set (la' := fun x => if x =? l then a else la x).
    assert (Hst : forall x, x <> a -> st' x = st x).
    { intros x H. unfold st'. destruct (N.eqb_spec x a); [contradiction|reflexivity]. }
    assert (Hsta : st' a = SA) by (unfold st'; rewrite N.eqb_refl; reflexivity).
    assert (Hla : forall x, x < r_lid c -> la' x = la x).
    { intros x H. unfold la'. fold l in H. destruct (N.eqb_spec x l); [lia|reflexivity]. }
    assert (Hnsu : forall x, x <> a -> st' x <> SU -> st x <> SU) by (intros x H; rewrite Hst by exact H; auto).
    assert (Hlive : forall x, st x <> SF -> st x <> SU -> x <> a) by (intros x H1 H2 ->; destruct Hsa; contradiction).
    assert (Habs : lstep s t = Some (mkLS (hset (s_heap s) (s_fresh s) (mkNode v 0)) (s_head s) (s_tail s) (s_fresh s + 1)
                                          (lset_nth (s_thr s) t (lgoto lt (QeLdTail (s_fresh s)))) (g_enq s) (g_deq s), None)).
    { absstep Hlt Hpcl. reflexivity. }
    destruct (abs1 _ _ _ _ _ HI HT Habs) as (HI' & HT').
    { intros th0 nd0 tl0 H0. rewrite Hlt in H0. injection H0 as <-. rewrite Hpcl. discriminate. }
    eexists 1%nat, _, []. rewrite app_nil_r. split; [eapply lrun1; eauto|split; [exact HI'|split; [exact HT'|]]].
    exists la', st'. pose proof R as R0. destruct R. rewrite R_fresh0 in *. fold l.
    constructor; cbn [r_head r_tail r_lid rg_enq rg_deq r_thr r_heap r_own r_free r_bump r_fmax
                      s_head s_tail s_fresh g_enq g_deq s_thr s_heap]; auto.
    - rewrite !lset_length. assumption.
    - intros t2 rt H. apply nth_lset_case in H. destruct H as [(-> & -> & Hlen)|(Hne & H)].
      + exists (lgoto lt (QeLdTail l)). split; [apply nth_lset_eq'; lia|].
        eapply threl_mk; try exact Htr; try reflexivity.
      + rewrite nth_lset_ne by congruence. auto.
    - intros b H1 H2. rewrite aget_aset, rget_rset. destruct (N.eqb_spec b a) as [->|Hne].
      + rewrite hget_hset_eq. reflexivity.
      + rewrite Hst in H1, H2 by exact Hne. destruct (G_own0 b H1) as (Hlt2 & _).
        rewrite hget_hset_ne by (fold l in Hlt2; lia). apply R_heap0; assumption.
    - intros b. unfold st'. destruct (N.eqb_spec b a) as [->|Hne].
      + split; [discriminate|]. intros H. apply Hub in H. tauto.
      + rewrite G_U0, Hub. tauto.
    - intros b. unfold st'. destruct (N.eqb_spec b a) as [->|Hne].
      + split; [discriminate|]. intros H. apply Hfree in H. tauto.
      + rewrite G_F0, Hfree. tauto.
    - lia.
    - lia.
    - intros b H. rewrite aget_aset. destruct (N.eqb_spec b a) as [->|Hne].
      + unfold la'. rewrite N.eqb_refl. repeat split; lia.
      + destruct (G_own0 b (Hnsu b Hne H)) as (A & B & C). fold l in A. repeat split; try lia; auto. rewrite Hla; auto.
    - intros t2 th2 b H Hb. apply nth_lset_case in H. destruct H as [(-> & -> & _)|(Hne & H)].
      + assert (E : st b = SR t) by (eapply G_R0; [exact Hth|unfold eff_rl in *; rewrite Hpc; exact Hb]).
        rewrite Hst; [exact E|]. apply Hlive; congruence.
      + pose proof (G_R0 _ _ _ H Hb) as E. rewrite Hst; [exact E|]. apply Hlive; congruence.
    - intros t2 th2 H. apply nth_lset_case in H. destruct H as [(-> & -> & _)|(Hne & H)]; [cbn [rgoto rt_rl]|]; eauto.
    - intros l0 Hl0. destruct (G_chain0 l0 Hl0) as [A B].
      assert (Hlt2 : l0 < l). { destruct (G_own0 (la l0) ltac:(congruence)) as (C & _). rewrite B in C. exact C. }
      rewrite Hla by exact Hlt2. assert (la l0 <> a) by (apply Hlive; congruence).
      rewrite Hst, aget_aset by assumption. destruct (N.eqb_spec (la l0) a); [contradiction|auto].
    - intros t2 th2 nd H Hp. apply nth_lset_case in H. destruct H as [(-> & -> & _)|(Hne & H)].
      + cbn in Hp. injection Hp as <-. cbn [pa pl]. rewrite aget_aset, N.eqb_refl. auto.
      + destruct (G_priv0 _ _ _ H Hp) as [A B]. assert (pa nd <> a) by (apply Hlive; congruence).
        rewrite Hst, aget_aset by assumption. destruct (N.eqb_spec (pa nd) a); [contradiction|auto].
    - eapply gp_mono; eauto; lia.
    - eapply gp_mono; eauto; lia.
    - intros b H. rewrite rget_rset. destruct (N.eqb_spec b a) as [->|Hne]; [apply gp_pnull|].
      eapply gp_mono; eauto; try lia.
    - intros t2 th2 p H Hp. apply nth_lset_case in H. destruct H as [(-> & -> & _)|(Hne & H)].
      + cbn in Hp. destruct Hp as [<-|[]]. right. cbn [pa pl]. unfold la'. rewrite N.eqb_refl. repeat split; lia.
      + eapply gp_mono; eauto; lia.
    - intros t2 th2 p H Hp. apply nth_lset_case in H. destruct H as [(-> & -> & _)|(Hne & H)]; [discriminate Hp|].
      destruct (H_prot0 _ _ _ H Hp) as (A & B & C & D). assert (pa p <> a) by (apply Hlive; assumption).
      rewrite Hst, aget_aset by assumption. destruct (N.eqb_spec (pa p) a); [contradiction|auto].
    - intros t2 th2 p u uth H Hp Hu. apply nth_lset_case in H. destruct H as [(-> & -> & _)|(Hne & H)]; [discriminate Hp|].
      apply nth_lset_case in Hu. destruct Hu as [(-> & -> & _)|(Hne2 & Hu)]; [unfold scan_cov; cbn; exact I|eauto].
    - intros t2 th2 H. apply nth_lset_case in H. destruct H as [(-> & -> & _)|(Hne & H)]; [exact I|].
      pose proof (X_pc0 _ _ H) as Hx2. unfold xpc in *. destruct (rt_pc th2); auto.
      rewrite Hst; [exact Hx2|]. apply Hlive; congruence.
  Qed.

End Step.

(* ------------------------------------------------------------------ the simulation *)
Lemma sim_step c s L t c' r : Inv s L -> TInv s L -> Sim c s L -> rstep c t = Some (c', r) ->
  exists k s' X, lrun s (repeat t k) = s' /\ Inv s' (L ++ X) /\ TInv s' (L ++ X) /\ Sim c' s' (L ++ X).
Proof.
  intros HI HT (la & st & R) Hstep. unfold rstep in Hstep.
  destruct (nth_error (r_thr c) t) as [th|] eqn:Hth; [|discriminate].
  destruct (R_thr _ _ _ _ _ R t th Hth) as (lt & Hlt & Htr).
  cbv zeta in Hstep.
  destruct (rt_pc th) eqn:Hpc.
  - destruct (rt_ops th) as [|o rest] eqn:Hops; [discriminate|]. injection Hstep as <- <-. eapply case_RIdle; eauto.
  - injection Hstep as <- <-. eapply case_ReAlloc; eauto.
  - injection Hstep as <- <-. eapply case_ReLdTail; eauto.
  - injection Hstep as <- <-. eapply case_ReHz; eauto.
  - pose proof (case_ReChkTail c s L la st t th lt HI HT R Hth Hlt Htr nd tl Hpc) as H.
    destruct (pa tl =? pa (r_tail c)); injection Hstep as <- <-; exact H.
  - pose proof (case_ReLdNext c s L la st t th lt HI HT R Hth Hlt Htr nd tl Hpc) as H.
    destruct (pa (rn_next (rget (r_heap c) (pa tl))) =? 0); injection Hstep as <- <-; exact H.
  - injection Hstep as <- <-. eapply case_ReCasHelp; eauto.
  - destruct (N.eqb_spec (pa (rn_next (rget (r_heap c) (pa tl)))) 0) as [E|E]; injection Hstep as <- <-.
    + eapply case_ReCasLink_ok; eauto.
    + eapply case_ReCasLink_fail; eauto. apply N.eqb_neq. exact E.
  - injection Hstep as <- <-. eapply case_ReCasSwing; eauto.
  - injection Hstep as <- <-. eapply case_ReHzClr; eauto.
  - injection Hstep as <- <-. eapply case_RdLdHead; eauto.
  - injection Hstep as <- <-. eapply case_RdHz0; eauto.
  - pose proof (case_RdChkHead c s L la st t th lt HI HT R Hth Hlt Htr hd Hpc) as H.
    destruct (pa hd =? pa (r_head c)); injection Hstep as <- <-; exact H.
  - injection Hstep as <- <-. eapply case_RdLdTail; eauto.
  - injection Hstep as <- <-. eapply case_RdLdNext; eauto.
  - destruct (N.eqb_spec (pa nx) 0) as [E|E]; [injection Hstep as <- <-; eapply case_RdHz1_null; eauto|].
    destruct (N.eqb_spec (pa hd) (pa tl)) as [F|F]; injection Hstep as <- <-.
    + eapply case_RdHz1_help; eauto.
    + eapply case_RdHz1_val; eauto.
  - injection Hstep as <- <-. eapply case_RdCasHelp; eauto.
  - injection Hstep as <- <-. eapply case_RdLdVal; eauto.
  - destruct (N.eqb_spec (pa (r_head c)) (pa hd)) as [E|E]; injection Hstep as <- <-.
    + eapply case_RdCasHead_ok; eauto.
    + eapply case_RdCasHead_fail; eauto. apply N.eqb_neq. exact E.
  - injection Hstep as <- <-. eapply case_RdRel; eauto.
  - injection Hstep as <- <-. eapply case_RdClr0; eauto.
  - destruct (Nat.eqb_spec (length (rt_rl th)) (r_fmax c)) as [E|E]; injection Hstep as <- <-.
    + eapply case_RdClr1_scan; eauto.
    + eapply case_RdClr1_fin; eauto.
  - destruct (Nat.ltb_spec i (2 * length (r_thr c))) as [E|E]; injection Hstep as <- <-.
    + eapply case_RdScan_slot; eauto.
    + eapply case_RdScan_sort; eauto.
  - assert (Hfin : forall c'' r'',
              (if Nat.eqb (length kept) (r_fmax c) then Some (rwith_thr c t (rgoto th (RdScan p 0 [])), None)
               else Some (rwith_thr c t (set_rl (rfinish th (LPtr p)) kept), Some (LPtr p))) = Some (c'', r'') ->
              todo = [] -> exists k s' X, lrun s (repeat t k) = s' /\ Inv s' (L ++ X) /\ TInv s' (L ++ X) /\ Sim c'' s' (L ++ X)).
    { intros c'' r'' H ->. destruct (Nat.eqb_spec (length kept) (r_fmax c)) as [E|E]; injection H as <- <-.
      - eapply case_RdFree_again; eauto.
      - eapply case_RdFree_fin; eauto. }
    destruct todo as [|a todo']; [eapply Hfin; eauto|].
    destruct (N.eqb_spec a 0) as [Ez|Ez].
    { exfalso. eapply rdfree_todo_nz; eauto. }
    destruct (binary_search srt a (N.of_nat (length srt))) as [[|]|] eqn:Eb.
    + injection Hstep as <- <-. eapply case_RdFree_keep; eauto. unfold keepf. rewrite Eb. reflexivity.
    + injection Hstep as <- <-. eapply case_RdFree_free; eauto. unfold keepf. rewrite Eb. reflexivity.
    + injection Hstep as <- <-. eapply case_RdFree_keep; eauto. unfold keepf. rewrite Eb. reflexivity.
  - injection Hstep as <- <-. eapply case_Rm; eauto; rewrite ?Hpc; reflexivity.
  - injection Hstep as <- <-. eapply case_Rm; eauto; rewrite ?Hpc; reflexivity.
  - injection Hstep as <- <-. eapply case_Rm; eauto; rewrite ?Hpc; reflexivity.
  - injection Hstep as <- <-. eapply case_Rm; eauto; rewrite ?Hpc; reflexivity.
  - destruct (pa hd =? pa (r_head c)); [destruct ((pa hd =? pa tl) && (pa nx =? 0))|]; injection Hstep as <- <-.
    + eapply case_Rm_fin; eauto; rewrite ?Hpc; reflexivity.
    + eapply case_Rm_fin; eauto; rewrite ?Hpc; reflexivity.
    + eapply case_Rm; eauto; rewrite ?Hpc; reflexivity.
Qed.

Lemma sim_run_gen sched : forall c s L, Inv s L -> TInv s L -> Sim c s L ->
  exists asched L', Inv (lrun s asched) L' /\ TInv (lrun s asched) L' /\ Sim (rrun c sched) (lrun s asched) L'.
Proof.
  induction sched as [|t sched IH]; intros c s L HI HT HS.
  - exists [], L. auto.
  - cbn [rrun fold_left]. change (fold_left rstep' sched (rstep' c t)) with (rrun (rstep' c t) sched).
    unfold rstep'. destruct (rstep c t) as [[c' r]|] eqn:Hs.
    + destruct (sim_step _ _ _ _ _ _ HI HT HS Hs) as (k & s' & X & E & HI' & HT' & HS').
      destruct (IH c' s' (L ++ X) HI' HT' HS') as (as' & L'' & A & B & C).
      exists (repeat t k ++ as'), L''. rewrite lrun_app, E. auto.
    + apply (IH c s L); auto.
Qed.

Theorem sim_run fmax progs sched :
  exists asched L, Inv (lrun (linit (aprogs progs)) asched) L /\ TInv (lrun (linit (aprogs progs)) asched) L /\
                   Sim (rrun (rinit fmax progs) sched) (lrun (linit (aprogs progs)) asched) L.
Proof.
  apply sim_run_gen with (L := [1]).
  - apply inv_init.
  - apply tinv_init.
  - eexists _, _. apply rel_init.
Qed.

(* ------------------------------------------------------------------ theorems about the reclaiming machine *)
Theorem lfqr_refines_lfq fmax progs sched :
  exists asched,
    let c := rrun (rinit fmax progs) sched in
    let s := lrun (linit (aprogs progs)) asched in
    rg_enq c = g_enq s /\ rg_deq c = g_deq s /\ length (r_thr c) = length (s_thr s) /\
    forall t rt, nth_error (r_thr c) t = Some rt ->
      exists lt, nth_error (s_thr s) t = Some lt /\ lt_out lt = filter notemp_out (rt_out rt).
Proof.
  destruct (sim_run fmax progs sched) as (asched & L & _ & _ & (la & st & R)). exists asched. cbv zeta.
  destruct R. repeat split; auto.
  intros t rt H. destruct (R_thr0 t rt H) as (lt & Hl & (_ & _ & _ & Ho)). eauto.
Qed.

Theorem lfqr_conservation fmax progs sched :
  let c := rrun (rinit fmax progs) sched in
  map snd (rg_deq c) = firstn (length (rg_deq c)) (map snd (rg_enq c)) /\
  (length (rg_deq c) <= length (rg_enq c))%nat.
Proof.
  intros c. destruct (lfqr_refines_lfq fmax progs sched) as (asched & E1 & E2 & _). fold c in E1, E2.
  rewrite E1, E2. apply lfq_conservation_partial.
Qed.

Lemma enq_vals_filter ops : enq_vals (filter notemp ops) = enq_vals ops.
Proof. induction ops as [|[v| |] ops IH]; cbn [filter notemp enq_vals]; rewrite ?IH; reflexivity. Qed.

Lemma deq_results_filter out : deq_results (filter notemp_out out) = deq_results out.
Proof.
  induction out as [|[o r] out IH]; [reflexivity|]. cbn [filter]. unfold notemp_out at 1. cbn [fst].
  destruct o; cbn [notemp deq_results]; rewrite ?IH; reflexivity.
Qed.

Theorem lfqr_per_producer_fifo fmax progs sched :
  let c := rrun (rinit fmax progs) sched in
  forall p, exists k,
    map snd (filter (fun x => Nat.eqb (fst x) p) (rg_enq c)) = firstn k (enq_vals (nth p progs [])).
Proof.
  intros c p. destruct (lfqr_refines_lfq fmax progs sched) as (asched & E1 & _). fold c in E1. rewrite E1.
  destruct (lfq_per_producer_fifo (aprogs progs) asched p) as [k Hk]. exists k. rewrite Hk.
  unfold aprogs. change (@nil lop) with (filter notemp []) at 1. rewrite map_nth, enq_vals_filter. reflexivity.
Qed.

Theorem lfqr_consumer_results fmax progs sched :
  (forall ops v, In ops progs -> In (LEnq v) ops -> v <> 0) ->
  let c := rrun (rinit fmax progs) sched in
  forall t rt, nth_error (r_thr c) t = Some rt ->
    exists pending,
      deq_results (rt_out rt) ++ pending = map snd (filter (fun x => Nat.eqb (fst x) t) (rg_deq c)) /\
      (length pending <= 1)%nat.
Proof.
  intros Hnz c t rt Hrt. destruct (lfqr_refines_lfq fmax progs sched) as (asched & _ & E2 & _ & Ht). fold c in E2, Ht.
  destruct (Ht t rt Hrt) as (lt & Hl & Ho).
  assert (Hnz' : forall ops v, In ops (aprogs progs) -> In (LEnq v) ops -> v <> 0).
  { intros ops v Hin Hv. unfold aprogs in Hin. apply in_map_iff in Hin. destruct Hin as (ops0 & <- & Hin).
    apply filter_In in Hv. eapply Hnz; [exact Hin|apply Hv]. }
  destruct (lfq_consumer_results (aprogs progs) asched Hnz' t lt Hl) as (pending & A & B).
  exists pending. rewrite E2, <- A, Ho, deq_results_filter. auto.
Qed.

(* every reachable state satisfies the invariants behind the simulation *)
Lemma reach_rel fmax progs sched :
  exists s L la st, Inv s L /\ TInv s L /\ Rel (rrun (rinit fmax progs) sched) s L la st.
Proof. destruct (sim_run fmax progs sched) as (asched & L & A & B & (la & st & R)). eauto 8. Qed.

Lemma prot_live c s L la st t th p : Rel c s L la st -> nth_error (r_thr c) t = Some th -> prot0 (rt_pc th) = Some p ->
  live c p /\ rt_hz0 th = pa p.
Proof.
  intros R Hth Hp. destruct (H_prot _ _ _ _ _ R t th p Hth Hp) as (A & B & C & D). split; [|exact A].
  assert (Hu : ~ (pa p = 0 \/ r_bump c <= pa p)) by (intros H; apply (G_U _ _ _ _ _ R) in H; contradiction).
  unfold live. repeat split; auto; try lia. intros Hin. apply (G_F _ _ _ _ _ R) in Hin. contradiction.
Qed.

(* no thread loads `next` of, or CASes on `next` of, a node that is free or has been recycled since the thread validated its hazard
   slot; and the slot names the node all the time *)
Theorem lfqr_no_use_after_free fmax progs sched :
  let c := rrun (rinit fmax progs) sched in
  forall t th p, nth_error (r_thr c) t = Some th -> deref_next (rt_pc th) = Some p -> live c p /\ rt_hz0 th = pa p.
Proof.
  intros c t th p Hth Hd. destruct (reach_rel fmax progs sched) as (s & L & la & st & _ & _ & R). fold c in R.
  eapply prot_live; eauto. destruct (rt_pc th); cbn in *; try discriminate; exact Hd.
Qed.

(* a CAS on q->head / q->tail whose addresses compare equal compares the SAME incarnation; the expected node is live *)
Theorem lfqr_no_aba fmax progs sched :
  let c := rrun (rinit fmax progs) sched in
  forall t th w p, nth_error (r_thr c) t = Some th -> cas_expect (rt_pc th) = Some (w, p) ->
    live c p /\ rt_hz0 th = pa p /\ (pa (word_of c w) = pa p -> pl (word_of c w) = pl p).
Proof.
  intros c t th w p Hth Hc. destruct (reach_rel fmax progs sched) as (s & L & la & st & HI & HT & R). fold c in R.
  assert (Hp : prot0 (rt_pc th) = Some p).
  { destruct (rt_pc th); cbn in *; try discriminate; injection Hc as _ <-; reflexivity. }
  destruct (prot_live _ _ _ _ _ _ _ _ R Hth Hp) as (A & B). split; [exact A|split; [exact B|]].
  intros E. destruct A as (_ & _ & _ & Ho).
  destruct w; cbn [word_of] in *.
  - destruct (head_live _ _ _ _ _ HI R) as (_ & H & _). rewrite <- H, E. exact Ho.
  - destruct (tail_live _ _ _ _ _ HI HT R) as (_ & H & _). rewrite <- H, E. exact Ho.
Qed.

(* q->head and q->tail always point to allocated nodes of the incarnation they mean (tail never falls behind head) *)
Theorem lfqr_head_tail_live fmax progs sched :
  let c := rrun (rinit fmax progs) sched in live c (r_head c) /\ live c (r_tail c).
Proof.
  intros c. destruct (reach_rel fmax progs sched) as (s & L & la & st & HI & HT & R). fold c in R.
  destruct (head_live _ _ _ _ _ HI R) as (A1 & A2 & A3). destruct (tail_live _ _ _ _ _ HI HT R) as (B1 & B2 & B3).
  assert (Hl : forall a, st a = SA -> a <> 0 /\ ~ In a (r_free c) /\ a < r_bump c).
  { intros a Ha. assert (Hu : ~ (a = 0 \/ r_bump c <= a)) by (intros H; apply (G_U _ _ _ _ _ R) in H; congruence).
    repeat split; try lia. intros Hin. apply (G_F _ _ _ _ _ R) in Hin. congruence. }
  unfold live. destruct (Hl _ A1) as (? & ? & ?). destruct (Hl _ B1) as (? & ? & ?). auto 10.
Qed.

(* the pool never hands out an address that is still in use: free list duplicate-free, disjoint from every retired list *)
Theorem lfqr_pool_sound fmax progs sched :
  let c := rrun (rinit fmax progs) sched in
  NoDup (r_free c) /\ forall t th a, nth_error (r_thr c) t = Some th -> In a (eff_rl th) -> ~ In a (r_free c).
Proof.
  intros c. destruct (reach_rel fmax progs sched) as (s & L & la & st & HI & HT & R). fold c in R.
  split; [apply (G_Fnd _ _ _ _ _ R)|]. intros t th a Hth Ha Hin.
  apply (G_F _ _ _ _ _ R) in Hin. rewrite (G_R _ _ _ _ _ R t th a Hth Ha) in Hin. discriminate.
Qed.

(* the value read of qlfqueue_dequeue is safe whenever it can matter: if q->head still is the validated head, next_ptr is live *)
Theorem lfqr_value_read_live_when_head_unchanged fmax progs sched :
  let c := rrun (rinit fmax progs) sched in
  forall t th hd nx, nth_error (r_thr c) t = Some th -> rt_pc th = RdLdVal hd nx -> pa (r_head c) = pa hd -> live c nx.
Proof.
  intros c t th hd nx Hth Hpc Ea. destruct (reach_rel fmax progs sched) as (s & L & la & st & HI & HT & R). fold c in R.
  destruct (R_thr _ _ _ _ _ R t th Hth) as (lt & Hlt & (Hpcl & _)). rewrite Hpc in Hpcl. cbn [pcr apc] in Hpcl.
  assert (Hp : prot0 (rt_pc th) = Some hd) by (rewrite Hpc; reflexivity).
  destruct (H_prot _ _ _ _ _ R t th hd Hth Hp) as (_ & PB & _).
  destruct (head_live _ _ _ _ _ HI R) as (_ & TB & _).
  assert (El : pl (r_head c) = pl hd) by (rewrite <- TB, <- PB, Ea; reflexivity).
  pose proof HI as (G & TO & _). pose proof (TO t lt Hlt) as Hq. rewrite Hpcl in Hq. cbn [pcinv] in Hq.
  destruct Hq as (_ & _ & Hnz & Hn). rewrite <- El, <- (R_head _ _ _ _ _ R) in Hn.
  destruct (head_succ _ _ _ _ _ _ _ G _ Hn Hnz) as [H1 _]. rewrite (R_deq _ _ _ _ _ R) in H1.
  assert (Hin : In (pl nx) (skipn (length (rg_deq c)) L)) by (eapply nth_in_skipn; [exact H1|lia]).
  destruct (G_chain _ _ _ _ _ R _ Hin) as [A B].
  assert (Hg : gp la (r_lid c) nx) by (apply (G_gpp _ _ _ _ _ R t th nx Hth); rewrite Hpc; right; left; reflexivity).
  destruct (gp_nonnull _ _ _ Hg Hnz) as [C D]. rewrite D in A, B.
  assert (Hu : ~ (pa nx = 0 \/ r_bump c <= pa nx)) by (intros H; apply (G_U _ _ _ _ _ R) in H; congruence).
  unfold live. repeat split; auto; try lia. intros Hf. apply (G_F _ _ _ _ _ R) in Hf. congruence.
Qed.

(* ------------------------------------------------------------------ what the code does NOT guarantee (witness schedules)
   freelist_max = 10 (three workers + 7), thread 0 = the idle controller, thread 1 = A, thread 2 = B.
   B enqueues 12 elements; A begins an operation and is stopped; B dequeues 10 elements: its 10th hazardous_release_node runs the
   scan, which frees every retired node that A's slots do not name; A continues.                                              *)
Definition w_enqs : list lop := map (fun v => LEnq v) [101;102;103;104;105;106;107;108;109;110;111;112].
Definition w_deqs : list lop := repeat LDeq 10.
Definition w_sched (a_steps : nat) : list nat := repeat 2%nat 108 ++ repeat 1%nat a_steps ++ repeat 2%nat 200.

(* qlfqueue_dequeue: A stands between `next_ptr = head->next` and hazardous_ptr(1, next_ptr) while next_ptr is dequeued, retired and
   freed; then `p = next_ptr->value` loads from a node that is in the pool's free list.  (The following CAS on q->head fails, see
   lfqr_value_read_live_when_head_unchanged / lfqr_consumer_results: the stale value is never returned.)                       *)
Theorem lfqr_value_read_uaf_refuted :
  exists fmax progs sched t th hd nx,
    let c := rrun (rinit fmax progs) sched in
    nth_error (r_thr c) t = Some th /\ rt_pc th = RdLdVal hd nx /\ rt_hz1 th = pa nx /\ In (pa nx) (r_free c).
Proof.
  exists 10%nat, [[]; [LDeq]; w_enqs ++ w_deqs], (w_sched 6 ++ [1%nat]), 1%nat.
  eexists. eexists. eexists. cbv zeta. vm_compute. repeat split. cbn. tauto.
Qed.

(* qlfqueue_empty uses no hazard pointer: `next = head->next` loads from a node that has been freed meanwhile *)
Theorem lfqr_empty_uaf_refuted :
  exists fmax progs sched t th hd tl g,
    let c := rrun (rinit fmax progs) sched in
    nth_error (r_thr c) t = Some th /\ rt_pc th = RmLdNext hd tl g /\ In (pa hd) (r_free c).
Proof.
  exists 10%nat, [[]; [LEmp]; w_enqs ++ w_deqs], (w_sched 3), 1%nat.
  eexists. eexists. eexists. eexists. cbv zeta. vm_compute. repeat split. cbn. tauto.
Qed.

(* ------------------------------------------------------------------ non-vacuity *)
(* a run in which the scan frees nodes, addresses are handed out again, and a validation succeeds on a re-used address while the
   thread's ghost tag was that of the old incarnation (the 4-step case of the simulation) *)
Definition ex_r_progs : list (list lop) := [[]; [LEnq 7; LEnq 8]; w_enqs ++ w_deqs ++ [LEnq 201; LEnq 202; LDeq; LDeq]].
Definition ex_r_sched : list nat := repeat 2%nat 108 ++ repeat 1%nat 3 ++ repeat 2%nat 400 ++ repeat 1%nat 40.
Example ex_reuse :
  let c := rrun (rinit 10 ex_r_progs) ex_r_sched in
  r_bump c = 15 /\ r_lid c = 18 /\ length (rg_enq c) = 16%nat /\ length (rg_deq c) = 12%nat /\
  map snd (rg_deq c) = firstn 12 (map snd (rg_enq c)) /\
  r_tail c = mkP 8 17 (* address 8, handed out a second time, is the last node *) /\ r_free c = [7; 6; 5; 4; 3; 2; 1].
Proof. vm_compute. repeat split; reflexivity. Qed.

Example ex_protected_kept :
  (* A (thread 1) validated the dummy node 1 as head and is stopped; B's scan keeps exactly that node *)
  let c := rrun (rinit 10 [[]; [LDeq]; w_enqs ++ w_deqs]) (w_sched 6) in
  match nth_error (r_thr c) 1, nth_error (r_thr c) 2 with
  | Some a, Some b => rt_hz0 a = 1 /\ rt_rl b = [1] /\ ~ In 1 (r_free c) /\ length (r_free c) = 9%nat
  | _, _ => False
  end.
Proof. vm_compute. repeat split; try reflexivity. intros H. repeat (destruct H as [H|H]; [discriminate H|]). exact H. Qed.

(* ------------------------------------------------------------------ qlfqueue_empty on the reclaiming machine
   empty() uses no hazard pointer: the head it read may be freed and re-used while it runs, and its final `head == q->head` compares
   addresses.  What survives (the C15 clause): if it answers 1, every element linked before the call began has been dequeued.
   What does not: "the queue was empty at some moment of the call" (lfqr_empty_never_empty_refuted).                          *)
Definition epc (c : rstate) (L : list N) (hd : ptr) (g : nat) : Prop :=
  (S g <= length L)%nat /\ pl hd < r_lid c /\ pa hd <> 0 /\ pa hd < r_bump c /\
  (aget (r_own c) (pa hd) = pl hd \/ ~ In (aget (r_own c) (pa hd)) (firstn (S g) L)).

Definition einv_pc (c : rstate) (L : list N) (p : rpc) : Prop :=
  match p with
  | RmLdTail hd g | RmLdNext hd _ g =>
      epc c L hd g /\ exists i, (i <= length (rg_deq c))%nat /\ nth_error L i = Some (pl hd)
  | RmMF hd _ nx g | RmChk hd _ nx g =>
      epc c L hd g /\ ((pa nx = 0 -> (g <= length (rg_deq c))%nat) \/ aget (r_own c) (pa hd) <> pl hd \/ In (pa hd) (r_free c))
  | _ => True
  end.
Definition EInv (c : rstate) (L : list N) : Prop :=
  forall t th, nth_error (r_thr c) t = Some th -> einv_pc c L (rt_pc th).

Lemma firstn_app_le {A} (l x : list A) n : (n <= length l)%nat -> firstn n (l ++ x) = firstn n l.
Proof. intros H. rewrite firstn_app. replace (n - length l)%nat with O by lia. cbn. apply app_nil_r. Qed.

Section EStep.
  Variables (c c' : rstate) (s : lstate) (L X : list N) (la : N -> N) (st : N -> status).
  Hypotheses (HI : Inv s L) (R : Rel c s L la st).
  Hypotheses (E1 : r_lid c <= r_lid c') (E2 : r_bump c <= r_bump c') (E3 : (length (rg_deq c) <= length (rg_deq c'))%nat).
  Hypothesis E4 : forall a, aget (r_own c') a = aget (r_own c) a \/ (aget (r_own c') a = r_lid c /\ r_lid c < r_lid c').
  Hypothesis E5 : forall a, In a (r_free c) -> In a (r_free c') \/ (aget (r_own c') a = r_lid c /\ r_lid c < r_lid c').

  Lemma lid_notin l : In l L -> l < r_lid c.
  Proof. intros H. destruct HI as (G & _). apply (g_rng _ _ _ _ _ _ _ G) in H. rewrite (R_fresh _ _ _ _ _ R) in H. lia. Qed.

  Lemma epc_stable hd g : epc c L hd g -> epc c' (L ++ X) hd g.
  Proof.
    intros (A & B & C & D & F). unfold epc. rewrite firstn_app_le by lia. rewrite app_length.
    repeat split; try lia; auto.
    destruct (E4 (pa hd)) as [H|(H & _)]; rewrite H; [exact F|].
    right. intros Hin. destruct (in_firstn_nth _ _ _ Hin) as (j & _ & Hj). apply nth_error_In in Hj. apply lid_notin in Hj. lia.
  Qed.

  Lemma einv_pc_stable p : einv_pc c L p -> einv_pc c' (L ++ X) p.
  Proof.
    destruct p; cbn [einv_pc]; auto.
    - intros (A & i & Hi & Hn). split; [apply epc_stable; exact A|]. exists i. split; [lia|].
      rewrite nth_error_app1; [exact Hn|]. apply nth_error_Some. congruence.
    - intros (A & i & Hi & Hn). split; [apply epc_stable; exact A|]. exists i. split; [lia|].
      rewrite nth_error_app1; [exact Hn|]. apply nth_error_Some. congruence.
    - intros (A & B). split; [apply epc_stable; exact A|]. destruct A as (_ & Hl & _).
      destruct B as [B|[B|B]].
      + left. intros Hz. specialize (B Hz). lia.
      + right; left. destruct (E4 (pa hd)) as [H|(H & _)]; rewrite H; [exact B|lia].
      + destruct (E5 _ B) as [H|(H & _)]; [right; right; exact H|right; left; rewrite H; lia].
    - intros (A & B). split; [apply epc_stable; exact A|]. destruct A as (_ & Hl & _).
      destruct B as [B|[B|B]].
      + left. intros Hz. specialize (B Hz). lia.
      + right; left. destruct (E4 (pa hd)) as [H|(H & _)]; rewrite H; [exact B|lia].
      + destruct (E5 _ B) as [H|(H & _)]; [right; right; exact H|right; left; rewrite H; lia].
  Qed.

  Lemma einv_update t th th' :
    EInv c L -> nth_error (r_thr c) t = Some th -> r_thr c' = lset_nth (r_thr c) t th' ->
    einv_pc c' (L ++ X) (rt_pc th') -> EInv c' (L ++ X).
  Proof.
    intros HE Hth Hthr Hnew u uth Hu. rewrite Hthr in Hu. apply nth_lset_case in Hu.
    destruct Hu as [(-> & -> & _)|(Hne & Hu)]; [exact Hnew|]. apply einv_pc_stable. eapply HE; eauto.
  Qed.
End EStep.

Lemma einv_init fmax progs : EInv (rinit fmax progs) [1].
Proof.
  intros t th H. cbn [rinit r_thr] in H. rewrite nth_error_map in H.
  destruct (nth_error progs t); [|discriminate]. injection H as <-. exact I.
Qed.

Lemma einv_step c s L la st t c' r X :
  Inv s L -> TInv s L -> Rel c s L la st -> EInv c L -> rstep c t = Some (c', r) -> EInv c' (L ++ X).
Proof.
  intros HI HT R HE Hstep. unfold rstep in Hstep.
  destruct (nth_error (r_thr c) t) as [th|] eqn:Hth; [|discriminate].
  pose proof (HE t th Hth) as Hold.
  cbv zeta in Hstep.
  assert (Hfin : forall r0 th0, rt_pc th0 = rt_pc (rfinish th r0) -> einv_pc c' (L ++ X) (rt_pc th0)).
  { intros r0 th0 ->. rewrite (proj1 (rfin_proj th r0)). exact I. }
  Ltac eup HI R HE Hth := eapply einv_update; [exact HI|exact R| | | | | |exact HE|exact Hth|reflexivity|];
    cbn [rwith_thr rwith_tail r_lid r_bump rg_deq r_own r_free];
    try lia; try (intros; left; reflexivity); try (intros; left; assumption).
  destruct (rt_pc th) eqn:Hpc.
  - destruct (rt_ops th) as [|o rest]; [discriminate|]. injection Hstep as <- <-. eup HI R HE Hth. cbn. destruct o; exact I.
  - (* ReAlloc *) injection Hstep as <- <-.
    eapply einv_update; [exact HI|exact R| | | | | |exact HE|exact Hth|reflexivity|exact I];
      cbn [r_lid r_bump rg_deq r_own r_free]; try lia.
    + destruct (r_free c); lia.
    + intros a. rewrite aget_aset. destruct (a =? _); [right; split; [reflexivity|lia]|left; reflexivity].
    + intros a Ha. destruct (r_free c) as [|x f]; [destruct Ha|]. destruct Ha as [<-|Ha]; [right|left; exact Ha].
      rewrite aget_aset, N.eqb_refl. split; [reflexivity|lia].
  - injection Hstep as <- <-. eup HI R HE Hth. exact I.
  - injection Hstep as <- <-. eup HI R HE Hth. exact I.
  - destruct (pa tl =? pa (r_tail c)); injection Hstep as <- <-; eup HI R HE Hth; exact I.
  - destruct (pa (rn_next (rget (r_heap c) (pa tl))) =? 0); injection Hstep as <- <-; eup HI R HE Hth; exact I.
  - injection Hstep as <- <-. eup HI R HE Hth. exact I.
  - destruct (pa (rn_next (rget (r_heap c) (pa tl))) =? 0); injection Hstep as <- <-; eup HI R HE Hth; exact I.
  - injection Hstep as <- <-. eup HI R HE Hth. exact I.
  - injection Hstep as <- <-. eup HI R HE Hth. cbn [set_hz0 rt_pc]. eapply Hfin; reflexivity.
  - injection Hstep as <- <-. eup HI R HE Hth. exact I.
  - injection Hstep as <- <-. eup HI R HE Hth. exact I.
  - destruct (pa hd =? pa (r_head c)); injection Hstep as <- <-; eup HI R HE Hth; exact I.
  - injection Hstep as <- <-. eup HI R HE Hth. exact I.
  - injection Hstep as <- <-. eup HI R HE Hth. exact I.
  - destruct (pa nx =? 0); [|destruct (pa hd =? pa tl)]; injection Hstep as <- <-; eup HI R HE Hth; try exact I.
    cbn [set_hz1 rt_pc]. eapply Hfin; reflexivity.
  - injection Hstep as <- <-. eup HI R HE Hth. exact I.
  - injection Hstep as <- <-. eup HI R HE Hth. exact I.
  - destruct (pa (r_head c) =? pa hd); injection Hstep as <- <-; eup HI R HE Hth; try exact I.
    rewrite app_length. lia.
  - injection Hstep as <- <-. eup HI R HE Hth. exact I.
  - injection Hstep as <- <-. eup HI R HE Hth. exact I.
  - destruct (Nat.eqb (length (rt_rl th)) (r_fmax c)); injection Hstep as <- <-; eup HI R HE Hth; try exact I.
    cbn [set_hz1 rt_pc]. eapply Hfin; reflexivity.
  - destruct (Nat.ltb i (2 * length (r_thr c))); injection Hstep as <- <-; eup HI R HE Hth; exact I.
  - assert (Hfp : forall c'' r'',
              (if Nat.eqb (length kept) (r_fmax c) then Some (rwith_thr c t (rgoto th (RdScan p 0 [])), None)
               else Some (rwith_thr c t (set_rl (rfinish th (LPtr p)) kept), Some (LPtr p))) = Some (c'', r'') -> c'' = c' -> EInv c' (L ++ X)).
    { intros c'' r'' H <-. destruct (Nat.eqb (length kept) (r_fmax c)); injection H as <- <-; eup HI R HE Hth; try exact I.
      cbn [set_rl rt_pc]. rewrite (proj1 (rfin_proj th (LPtr p))). exact I. }
    destruct todo as [|a todo']; [eapply Hfp; eauto|].
    destruct (a =? 0); [eapply Hfp; eauto|].
    destruct (binary_search srt a (N.of_nat (length srt))) as [[|]|]; injection Hstep as <- <-.
    + eup HI R HE Hth. exact I.
    + eapply einv_update; [exact HI|exact R| | | | | |exact HE|exact Hth|reflexivity|exact I];
        cbn [r_lid r_bump rg_deq r_own r_free]; try lia; try (intros; left; reflexivity). intros b Hb. left. right. exact Hb.
    + eup HI R HE Hth. exact I.
  - (* RmLdHead: head and the number of linked elements are read *)
    injection Hstep as <- <-. eup HI R HE Hth. cbn [rgoto rt_pc einv_pc].
    destruct (head_live _ _ _ _ _ HI R) as (A1 & A2 & A3).
    pose proof HI as (G & _). pose proof (g_lenE _ _ _ _ _ _ _ G) as HlE. pose proof (g_lenD _ _ _ _ _ _ _ G) as HlD.
    pose proof (g_head _ _ _ _ _ _ _ G) as Hh. rewrite (R_head _ _ _ _ _ R), (R_deq _ _ _ _ _ R) in Hh.
    rewrite (R_enq _ _ _ _ _ R) in HlE.
    destruct (G_own _ _ _ _ _ R (pa (r_head c)) ltac:(congruence)) as (B1 & _). rewrite A2 in B1.
    assert (Hu : ~ (pa (r_head c) = 0 \/ r_bump c <= pa (r_head c))) by (intros H; apply (G_U _ _ _ _ _ R) in H; congruence).
    split.
    + unfold epc. cbn [rwith_thr r_lid r_bump r_own]. rewrite app_length. split; [lia|]. split; [lia|]. split; [exact A3|]. split; [lia|]. left. exact A2.
    + exists (length (rg_deq c)). split; [cbn; lia|]. rewrite nth_error_app1 by (rewrite (R_deq _ _ _ _ _ R) in HlD; lia). exact Hh.
  - (* RmLdTail *) injection Hstep as <- <-. eup HI R HE Hth. cbn [rgoto rt_pc].
    eapply (einv_pc_stable c _ s L X la st HI R) with (p := RmLdNext hd (r_tail c) g); cbn [rwith_thr r_lid r_bump rg_deq r_own r_free];
      try lia; try (intros; left; reflexivity); try (intros; left; assumption). exact Hold.
  - (* RmLdNext: head->next is loaded, possibly from a node that is no longer the incarnation read *)
    injection Hstep as <- <-. eup HI R HE Hth. cbn [rgoto rt_pc].
    set (nx := rn_next (rget (r_heap c) (pa hd))).
    eapply (einv_pc_stable c _ s L X la st HI R) with (p := RmMF hd tl nx g); cbn [rwith_thr r_lid r_bump rg_deq r_own r_free];
      try lia; try (intros; left; reflexivity); try (intros; left; assumption).
    cbn [einv_pc] in *. destruct Hold as (A & i & Hi & Hn). split; [exact A|].
    destruct (N.eq_dec (aget (r_own c) (pa hd)) (pl hd)) as [Eo|Eo]; [|right; left; exact Eo].
    destruct (in_dec N.eq_dec (pa hd) (r_free c)) as [Ef|Ef]; [right; right; exact Ef|]. left. intros Hz.
    destruct A as (A1 & A2 & A3 & A4 & _).
    assert (S1 : st (pa hd) <> SF) by (intros H; apply (G_F _ _ _ _ _ R) in H; contradiction).
    assert (S2 : st (pa hd) <> SU) by (intros H; apply (G_U _ _ _ _ _ R) in H; lia).
    pose proof (R_heap _ _ _ _ _ R (pa hd) S2 S1) as Hh. rewrite Eo in Hh. fold nx in Hh.
    assert (Hlz : pl nx = 0). { destruct (G_gpn _ _ _ _ _ R (pa hd) S2) as [[_ ?]|(? & _)]; [assumption|contradiction]. }
    pose proof HI as (G & _).
    assert (Hb : before L (length (g_deq s)) (pl hd)).
    { unfold before. rewrite (R_deq _ _ _ _ _ R). eapply nth_in_firstn; [exact Hn|lia]. }
    assert (Hn0 : n_next (hget (s_heap s) (pl hd)) = 0) by (rewrite Hh; exact Hlz).
    pose proof (before_last _ _ _ _ _ _ _ G _ Hb Hn0) as HDE. pose proof (g_lenE _ _ _ _ _ _ _ G) as HlE.
    rewrite (R_deq _ _ _ _ _ R) in HDE. lia.
  - (* RmMF *) injection Hstep as <- <-. eup HI R HE Hth. cbn [rgoto rt_pc].
    eapply (einv_pc_stable c _ s L X la st HI R) with (p := RmChk hd tl nx g); cbn [rwith_thr r_lid r_bump rg_deq r_own r_free];
      try lia; try (intros; left; reflexivity); try (intros; left; assumption). exact Hold.
  - destruct (pa hd =? pa (r_head c)); [destruct ((pa hd =? pa tl) && (pa nx =? 0))|]; injection Hstep as <- <-; eup HI R HE Hth; try exact I.
    + eapply Hfin; reflexivity.
    + eapply Hfin; reflexivity.
Qed.

Lemma sim_run_e_gen sched : forall c s L, Inv s L -> TInv s L -> Sim c s L -> EInv c L ->
  exists asched L', Inv (lrun s asched) L' /\ TInv (lrun s asched) L' /\ Sim (rrun c sched) (lrun s asched) L' /\ EInv (rrun c sched) L'.
Proof.
  induction sched as [|t sched IH]; intros c s L HI HT HS HE.
  - exists [], L. auto.
  - cbn [rrun fold_left]. change (fold_left rstep' sched (rstep' c t)) with (rrun (rstep' c t) sched).
    unfold rstep'. destruct (rstep c t) as [[c' r]|] eqn:Hs.
    + destruct (sim_step _ _ _ _ _ _ HI HT HS Hs) as (k & s' & X & E & HI' & HT' & HS').
      assert (HE' : EInv c' (L ++ X)) by (destruct HS as (la & st & R); eapply einv_step; eauto).
      destruct (IH c' s' (L ++ X) HI' HT' HS' HE') as (as' & L'' & A & B & C & D).
      exists (repeat t k ++ as'), L''. rewrite lrun_app, E. auto.
    + apply (IH c s L); auto.
Qed.

Lemma reach_rel_e fmax progs sched :
  exists s L la st, Inv s L /\ TInv s L /\ Rel (rrun (rinit fmax progs) sched) s L la st /\ EInv (rrun (rinit fmax progs) sched) L.
Proof.
  destruct (sim_run_e_gen sched (rinit fmax progs) (linit (aprogs progs)) [1]) as (asched & L & A & B & (la & st & R) & D).
  - apply inv_init.
  - apply tinv_init.
  - eexists _, _. apply rel_init.
  - apply einv_init.
  - eauto 10.
Qed.

(* The C15 clause for qlfqueue_empty WITH node re-use: when empty() answers 1, every element that was linked (in particular every
   element whose enqueue had completed) when the call read q->head has been dequeued.  g is the ghost recorded at that read. *)
Theorem lfqr_empty_sound fmax progs sched :
  let c := rrun (rinit fmax progs) sched in
  forall t hd tl nx g c', rpc_of c t = RmChk hd tl nx g -> rstep c t = Some (c', Some (LInt 1)) ->
    (g <= length (rg_deq c))%nat.
Proof.
  intros c t hd tl nx g c' Hpc Hstep. destruct (reach_rel_e fmax progs sched) as (s & L & la & st & HI & HT & R & HE). fold c in R, HE.
  unfold rpc_of in Hpc. unfold rstep in Hstep.
  destruct (nth_error (r_thr c) t) as [th|] eqn:Hth; [|discriminate].
  pose proof (HE t th Hth) as Hq. rewrite Hpc in *. cbn [einv_pc] in Hq. cbv zeta in Hstep.
  destruct (N.eqb_spec (pa hd) (pa (r_head c))) as [Ea|Ea]; [|discriminate].
  destruct (pa hd =? pa tl); cbn [andb] in Hstep; [|unfold rfinish in Hstep; destruct (rt_cur th); discriminate].
  destruct (N.eqb_spec (pa nx) 0) as [Hz|Hnz]; [|unfold rfinish in Hstep; destruct (rt_cur th); discriminate].
  destruct Hq as ((A1 & A2 & A3 & A4 & A5) & B).
  destruct (head_live _ _ _ _ _ HI R) as (H1 & H2 & H3).
  assert (Hnf : ~ In (pa hd) (r_free c)).
  { rewrite Ea. intros Hin. apply (G_F _ _ _ _ _ R) in Hin. congruence. }
  pose proof HI as (G & _). pose proof (g_head _ _ _ _ _ _ _ G) as Hh.
  rewrite (R_head _ _ _ _ _ R), (R_deq _ _ _ _ _ R) in Hh.
  destruct A5 as [A5|A5].
  - destruct B as [B|[B|B]]; [auto|contradiction|contradiction].
  - rewrite Ea, H2 in A5. destruct (le_lt_dec g (length (rg_deq c))) as [Hle|Hlt]; [exact Hle|exfalso].
    apply A5. eapply nth_in_firstn; [exact Hh|lia].
Qed.

(* ... but empty() is NOT linearizable once addresses are re-used: it can answer 1 although the queue was non-empty at every moment of
   the call.  freelist_max = 10; A (thread 1) = [empty()], B (thread 2): 12 enqueues | A reads q->head (the dummy, address 1) |
   B: 10 dequeues (the scan frees addresses 1..10: A publishes no hazard pointer), 10 enqueues (LIFO pool: the 10th node is address 1
   again, it is q->tail and its next is NULL) | A reads q->tail (address 1 = head) and head->next (NULL, of the new incarnation) |
   B: 1 enqueue, 12 dequeues (q->head reaches address 1 again; element 301 is queued) | A: `head == q->head` holds, returns 1.   *)
Definition w2_enqs (b n : nat) : list lop := map (fun k => LEnq (N.of_nat k)) (seq b n).
Definition w2_progs : list (list lop) :=
  [[]; [LEmp]; w2_enqs 101 12 ++ repeat LDeq 10 ++ w2_enqs 201 10 ++ w2_enqs 301 1 ++ repeat LDeq 12].
Definition w2_before : list nat := repeat 2%nat 108.
Definition w2_call : list nat :=
  repeat 1%nat 2 ++ repeat 2%nat (138 + 90) ++ repeat 1%nat 2 ++ repeat 2%nat (9 + 162) ++ repeat 1%nat 2.

Theorem lfqr_empty_never_empty_refuted :
  exists fmax progs before call,
    (* before the call A is idle with empty() as its next operation; after it A has returned 1 *)
    (exists th, nth_error (r_thr (rrun (rinit fmax progs) before)) 1 = Some th /\ rt_pc th = RIdle /\ rt_ops th = [LEmp]) /\
    (exists th, nth_error (r_thr (rrun (rinit fmax progs) (before ++ call))) 1 = Some th /\ rt_out th = [(LEmp, LInt 1)]) /\
    (* at every moment of the call more elements have been linked than dequeued: the queue is never empty *)
    forall n, let c := rrun (rinit fmax progs) (before ++ firstn n call) in (length (rg_deq c) < length (rg_enq c))%nat.
Proof.
  exists 10%nat, w2_progs, w2_before, w2_call. split; [|split].
  - eexists. vm_compute. repeat split.
  - eexists. vm_compute. repeat split.
  - assert (H : forallb (fun n => let c := rrun (rinit 10 w2_progs) (w2_before ++ firstn n w2_call) in
                                  Nat.ltb (length (rg_deq c)) (length (rg_enq c))) (seq 0 (S (length w2_call))) = true)
      by (vm_compute; reflexivity).
    rewrite forallb_forall in H. intros n. cbv zeta.
    destruct (le_lt_dec n (length w2_call)) as [Hle|Hgt].
    + apply Nat.ltb_lt. apply (H n). apply in_seq. lia.
    + rewrite firstn_all2 by lia. rewrite <- (firstn_all w2_call). apply Nat.ltb_lt. apply (H (length w2_call)). apply in_seq. lia.
Qed.

