(* C15 extension H: the hazard-pointer protocol of qlfqueue.c + hazardptrs.c makes node re-use safe, end to end.

   Method: a forward simulation from the reclaiming machine of LfqReclaim.v (addresses, pool, hazard slots, retired lists, scan) to
   the fresh-id machine of Lfq.v.  The relation [Rel] ties a reclaiming state c to a fresh-id state s (same ghost ids, same
   histories, thread by thread the same pc with the ghost tags of its pointers) and carries the reclamation invariants: an
   address status map st (unused / free / allocated / dequeued-not-yet-retired by t / retired by t), la : logical id -> address,
   every validated hazard slot names an allocated address whose current incarnation is the one the thread means, and every
   running scan has already collected every validated slot it has passed that names one of its retired nodes.
   One reclaiming step is matched by 0, 1 or 4 steps of the same thread of the fresh-id machine (4: a validation that succeeds on
   a re-used address is matched by: validation fails, re-load, publish, validation succeeds).  qlfqueue_empty() calls are not
   simulated (they change nothing shared; the fresh-id machine runs the programs without them).
   Consequences: no_use_after_free, no_aba, conservation / FIFO / consumer results for the reclaiming machine.            *)
From Coq Require Import List NArith Bool Arith Lia ZifyBool ZifyNat ZifyN Permutation.
From QV Require Import CQueues.Lfq CQueues.LfqProofs CQueues.Hazard CQueues.HazardProofs CQueues.LfqReclaim CQueues.LfqReclaimTail.
Import ListNotations.
Local Open Scope N_scope.

(* ------------------------------------------------------------------ basics *)
Lemma rget_rset h a n b : rget (rset h a n) b = if b =? a then n else rget h b.
Proof.
  induction h as [|[c m] h IH]; cbn [rset rget].
  - destruct (N.eqb_spec b a); reflexivity.
  - destruct (N.eqb_spec a c) as [->|Hac]; cbn [rget].
    + destruct (N.eqb_spec b c); reflexivity.
    + destruct (N.eqb_spec b c) as [->|Hbc].
      * destruct (N.eqb_spec c a); [congruence|reflexivity].
      * exact IH.
Qed.
Lemma aget_aset m a v b : aget (aset m a v) b = if b =? a then v else aget m b.
Proof.
  induction m as [|[c w] m IH]; cbn [aset aget].
  - destruct (N.eqb_spec b a); reflexivity.
  - destruct (N.eqb_spec a c) as [->|Hac]; cbn [aget].
    + destruct (N.eqb_spec b c); reflexivity.
    + destruct (N.eqb_spec b c) as [->|Hbc].
      * destruct (N.eqb_spec c a); [congruence|reflexivity].
      * exact IH.
Qed.

Lemma lset_lset {A} (l : list A) i x y : lset_nth (lset_nth l i x) i y = lset_nth l i y.
Proof. revert i; induction l as [|a l IH]; intros [|i]; cbn; try reflexivity. rewrite IH; reflexivity. Qed.
Lemma lset_length {A} (l : list A) i x : length (lset_nth l i x) = length l.
Proof. revert i; induction l as [|a l IH]; intros [|i]; cbn; try reflexivity. rewrite IH; reflexivity. Qed.
Lemma nth_lset_eq' {A} (l : list A) i y : (i < length l)%nat -> nth_error (lset_nth l i y) i = Some y.
Proof.
  intros H. destruct (nth_error l i) eqn:E; [eapply nth_lset_eq; eauto|]. apply nth_error_None in E. lia.
Qed.

(* ------------------------------------------------------------------ abstraction of threads *)
Definition notemp (o : lop) : bool := match o with LEmp => false | _ => true end.
Definition notemp_out (x : lop * lres) : bool := notemp (fst x).
Definition acur (c : option lop) : option lop := match c with Some LEmp => None | x => x end.

Definition apc (p : rpc) : lpc :=
  match p with
  | RIdle => LIdle
  | ReAlloc v => QeAlloc v
  | ReLdTail nd => QeLdTail (pl nd)
  | ReHz nd tl => QeHz (pl nd) (pl tl)
  | ReChkTail nd tl => QeChkTail (pl nd) (pl tl)
  | ReLdNext nd tl => QeLdNext (pl nd) (pl tl)
  | ReCasHelp nd tl nx => QeCasHelp (pl nd) (pl tl) (pl nx)
  | ReCasLink nd tl => QeCasLink (pl nd) (pl tl)
  | ReCasSwing nd tl => QeCasSwing (pl nd) (pl tl)
  | ReHzClr => QeHzClr
  | RdLdHead => QdLdHead
  | RdHz0 hd => QdHz0 (pl hd)
  | RdChkHead hd => QdChkHead (pl hd)
  | RdLdTail hd => QdLdTail (pl hd)
  | RdLdNext hd tl => QdLdNext (pl hd) (pl tl)
  | RdHz1 hd tl nx => QdHz1 (pl hd) (pl tl) (pl nx)
  | RdCasHelp tl nx => QdCasHelp (pl tl) (pl nx)
  | RdLdVal hd nx => QdLdVal (pl hd) (pl nx)
  | RdCasHead hd nx p => QdCasHead (pl hd) (pl nx) p
  | RdRel hd p => QdRel (pl hd) p
  | RdClr0 p | RdClr1 p | RdScan p _ _ | RdFree p _ _ _ => QdRel 0 p
  | RmLdHead | RmLdTail _ _ | RmLdNext _ _ _ | RmMF _ _ _ _ | RmChk _ _ _ _ => LIdle
  end.

(* the pc relation: apc, except that the value read at RdLdVal may differ when the head CAS is going to fail anyway, and the
   retired node is forgotten after RdRel *)
Definition pcr (hdl : N) (rp : rpc) (ap : lpc) : Prop :=
  match rp with
  | RdCasHead hd nx p => exists p', ap = QdCasHead (pl hd) (pl nx) p' /\ (hdl = pl hd -> p' = p)
  | RdRel _ p | RdClr0 p | RdClr1 p | RdScan p _ _ | RdFree p _ _ _ => exists x, ap = QdRel x p
  | _ => ap = apc rp
  end.

Definition threl (hdl : N) (rt : rthread) (lt : lthread) : Prop :=
  pcr hdl (rt_pc rt) (lt_pc lt) /\ lt_cur lt = acur (rt_cur rt) /\
  lt_ops lt = filter notemp (rt_ops rt) /\ lt_out lt = filter notemp_out (rt_out rt).

(* ------------------------------------------------------------------ reclamation invariants *)
Inductive status := SU | SF | SA | SP (t : nat) | SR (t : nat).

Definition gp (la : N -> N) (lid : N) (p : ptr) : Prop :=
  (pa p = 0 /\ pl p = 0) \/ (pa p <> 0 /\ pl p <> 0 /\ pl p < lid /\ la (pl p) = pa p).

Definition pc_ptrs (p : rpc) : list ptr :=
  match p with
  | ReLdTail nd => [nd]
  | ReHz nd tl | ReChkTail nd tl | ReLdNext nd tl | ReCasLink nd tl | ReCasSwing nd tl => [nd; tl]
  | ReCasHelp nd tl nx => [nd; tl; nx]
  | RdHz0 hd | RdChkHead hd | RdLdTail hd => [hd]
  | RdLdNext hd tl => [hd; tl]
  | RdHz1 hd tl nx => [hd; tl; nx]
  | RdCasHelp tl nx => [tl; nx]
  | RdLdVal hd nx | RdCasHead hd nx _ => [hd; nx]
  | RdRel hd _ => [hd]
  | RmLdTail hd _ => [hd]
  | RmLdNext hd tl _ => [hd; tl]
  | RmMF hd tl nx _ | RmChk hd tl nx _ => [hd; tl; nx]
  | _ => []
  end.

(* the pointer the thread's hazard slot 0 protects AFTER a successful validation *)
Definition prot0 (p : rpc) : option ptr :=
  match p with
  | ReLdNext _ tl | ReCasHelp _ tl _ | ReCasLink _ tl | ReCasSwing _ tl => Some tl
  | RdLdTail hd | RdLdNext hd _ | RdHz1 hd _ _ | RdLdVal hd _ | RdCasHead hd _ _ => Some hd
  | RdCasHelp tl _ => Some tl
  | _ => None
  end.

Definition rpriv (p : rpc) : option ptr :=
  match p with
  | ReLdTail nd | ReHz nd _ | ReChkTail nd _ | ReLdNext nd _ | ReCasHelp nd _ _ | ReCasLink nd _ => Some nd
  | _ => None
  end.

Definition keepf (srt : list N) (a : N) : bool :=
  match binary_search srt a (N.of_nat (length srt)) with Some false => false | _ => true end.

(* the retired entries a thread still answers for *)
Definition eff_rl (th : rthread) : list N :=
  match rt_pc th with RdFree _ _ todo kept => kept ++ todo | _ => rt_rl th end.

(* scanner u (thread record uth) has not missed the validated slot 0 of thread t naming address a *)
Definition scan_cov (t : nat) (a : N) (uth : rthread) : Prop :=
  match rt_pc uth with
  | RdScan _ i acc => In a (rt_rl uth) -> (2 * t < i)%nat -> In a acc
  | RdFree _ srt todo _ => In a todo -> In a srt
  | _ => True
  end.

Definition xpc (st : N -> status) (fmax : nat) (t : nat) (th : rthread) : Prop :=
  match rt_pc th with
  | RdLdNext hd tl | RdHz1 hd tl _ => pa tl = pa hd -> pl tl = pl hd
  | RdRel hd _ => st (pa hd) = SP t
  | RdScan _ _ _ => length (rt_rl th) = fmax
  | RdFree _ srt todo kept => length (rt_rl th) = fmax /\ exists pre, rt_rl th = pre ++ todo /\ kept = filter (keepf srt) pre
  | _ => True
  end.

Record Rel (c : rstate) (s : lstate) (L : list N) (la : N -> N) (st : N -> status) : Prop := {
  R_head : s_head s = pl (r_head c);
  R_tail : s_tail s = pl (r_tail c);
  R_fresh : s_fresh s = r_lid c;
  R_enq : g_enq s = rg_enq c;
  R_deq : g_deq s = rg_deq c;
  R_len : length (s_thr s) = length (r_thr c);
  R_thr : forall t rt, nth_error (r_thr c) t = Some rt ->
            exists lt, nth_error (s_thr s) t = Some lt /\ threl (pl (r_head c)) rt lt;
  R_heap : forall a, st a <> SU -> st a <> SF ->
            hget (s_heap s) (aget (r_own c) a) = mkNode (rn_val (rget (r_heap c) a)) (pl (rn_next (rget (r_heap c) a)));
  G_U : forall a, st a = SU <-> (a = 0 \/ r_bump c <= a);
  G_F : forall a, st a = SF <-> In a (r_free c);
  G_Fnd : NoDup (r_free c);
  G_own : forall a, st a <> SU -> aget (r_own c) a < r_lid c /\ aget (r_own c) a <> 0 /\ la (aget (r_own c) a) = a;
  G_R : forall t th a, nth_error (r_thr c) t = Some th -> In a (eff_rl th) -> st a = SR t;
  G_Rnd : forall t th, nth_error (r_thr c) t = Some th -> NoDup (rt_rl th);
  G_chain : forall l, In l (skipn (length (rg_deq c)) L) -> st (la l) = SA /\ aget (r_own c) (la l) = l;
  G_priv : forall t th nd, nth_error (r_thr c) t = Some th -> rpriv (rt_pc th) = Some nd ->
            st (pa nd) = SA /\ aget (r_own c) (pa nd) = pl nd;
  G_gph : gp la (r_lid c) (r_head c);
  G_gpt : gp la (r_lid c) (r_tail c);
  G_gpn : forall a, st a <> SU -> gp la (r_lid c) (rn_next (rget (r_heap c) a));
  G_gpp : forall t th p, nth_error (r_thr c) t = Some th -> In p (pc_ptrs (rt_pc th)) -> gp la (r_lid c) p;
  H_prot : forall t th p, nth_error (r_thr c) t = Some th -> prot0 (rt_pc th) = Some p ->
            rt_hz0 th = pa p /\ aget (r_own c) (pa p) = pl p /\ st (pa p) <> SF /\ st (pa p) <> SU;
  H_scan : forall t th p u uth, nth_error (r_thr c) t = Some th -> prot0 (rt_pc th) = Some p ->
            nth_error (r_thr c) u = Some uth -> scan_cov t (pa p) uth;
  X_pc : forall t th, nth_error (r_thr c) t = Some th -> xpc st (r_fmax c) t th
}.

Definition aprogs (progs : list (list lop)) : list (list lop) := map (filter notemp) progs.

Lemma rel_init fmax progs :
  Rel (rinit fmax progs) (linit (aprogs progs)) [1]
      (fun l => if l =? 1 then 1 else 0) (fun a => if a =? 1 then SA else SU).
Proof.
  assert (Hth : forall t rt, nth_error (r_thr (rinit fmax progs)) t = Some rt ->
                  exists p, nth_error progs t = Some p /\ rt = mkRT RIdle None p [] 0 0 []).
  { intros t rt H. cbn [rinit r_thr] in H. rewrite nth_error_map in H.
    destruct (nth_error progs t) as [p|]; [|discriminate]. injection H as <-. eauto. }
  constructor; cbn [rinit linit r_head r_tail r_lid rg_enq rg_deq r_thr r_heap r_own r_free r_bump r_fmax
                    s_head s_tail s_fresh g_enq g_deq s_thr s_heap pl pa]; try reflexivity.
  - unfold aprogs. rewrite !map_length. reflexivity.
  - intros t rt H. destruct (Hth t rt H) as (p & Hp & ->).
    exists (mkLT LIdle None (filter notemp p) []). split.
    + unfold aprogs. rewrite !nth_error_map, Hp. reflexivity.
    + repeat split.
  - intros a H1 _. destruct (N.eqb_spec a 1) as [->|]; [reflexivity|congruence].
  - intros a. destruct (N.eqb_spec a 1) as [->|]; split; intros H; try discriminate; try lia. destruct H; [left; assumption|right; lia].
  - intros a. destruct (a =? 1); split; intros H; try discriminate; destruct H.
  - constructor.
  - intros a H. destruct (N.eqb_spec a 1) as [->|]; [|congruence]. cbn. repeat split; lia.
  - intros t th a H. destruct (Hth t th H) as (p & _ & ->). intros [].
  - intros t th H. destruct (Hth t th H) as (p & _ & ->). constructor.
  - intros l [<-|[]]. cbn. split; reflexivity.
  - intros t th nd H. destruct (Hth t th H) as (p & _ & ->). discriminate.
  - right. cbn. repeat split; lia.
  - right. cbn. repeat split; lia.
  - intros a H. destruct (N.eqb_spec a 1) as [->|]; [|congruence]. left. split; reflexivity.
  - intros t th p H. destruct (Hth t th H) as (p0 & _ & ->). intros [].
  - intros t th p H. destruct (Hth t th H) as (p0 & _ & ->). discriminate.
  - intros t th p u uth H. destruct (Hth t th H) as (p0 & _ & ->). discriminate.
  - intros t th H. destruct (Hth t th H) as (p0 & _ & ->). exact I.
Qed.
