(* C15 extension H: the tail pointer of the Michael-Scott queue of CQueues/Lfq.v never falls behind the head pointer.

   [Inv s L] of LfqProofs.v carries the ghost list L of all nodes ever linked, in link order; positions in L never change
   (L only grows at its end, exactly at the successful link CAS).  [TInv s L] adds:
     - the position of q->tail in L is at least length (g_deq s), the position of q->head (g_head);
     - per pc, where the thread's local copies of head / tail stand in L relative to q->tail (tpc).
   step_tinv: one step keeps Inv /\ TInv and says how L grew; reach_tinv: every reachable state has both;
   lfq_tail_not_behind_head: position of head <= position of tail, in every reachable state.                   *)
From Coq Require Import List NArith Bool Arith Lia ZifyBool ZifyNat ZifyN.
From QV Require Import CQueues.Lfq CQueues.LfqProofs.
Import ListNotations.
Local Open Scope N_scope.

Definition tpc (s : lstate) (L : list N) (p : lpc) : Prop :=
  match p with
  | QdLdNext hd tl | QdHz1 hd tl _ =>
      exists i j jt, nth_error L i = Some hd /\ nth_error L j = Some tl /\ (i <= j)%nat /\ nth_error L jt = Some (s_tail s) /\ (j <= jt)%nat
  | QdLdVal hd _ | QdCasHead hd _ _ =>
      exists i jt, nth_error L i = Some hd /\ nth_error L jt = Some (s_tail s) /\ (i < jt)%nat
  | QeCasHelp _ tl nx | QdCasHelp tl nx => exists j, nth_error L j = Some tl /\ nth_error L (S j) = Some nx
  | QeCasSwing nd tl => exists j, nth_error L j = Some tl /\ nth_error L (S j) = Some nd
  | _ => True
  end.
Definition TInv (s : lstate) (L : list N) : Prop :=
  (exists j, nth_error L j = Some (s_tail s) /\ (length (g_deq s) <= j)%nat) /\
  (forall t th, nth_error (s_thr s) t = Some th -> tpc s L (lt_pc th)).

(* what the step of thread t appends to L: [nd] exactly at the successful link CAS *)
Definition linkX (s : lstate) (t : nat) : list N :=
  match nth_error (s_thr s) t with
  | Some th => match lt_pc th with
               | QeCasLink nd tl => if n_next (hget (s_heap s) tl) =? 0 then [nd] else []
               | _ => []
               end
  | None => []
  end.

Lemma linkX_spec s t :
  linkX s t = [] \/
  exists th nd tl, nth_error (s_thr s) t = Some th /\ lt_pc th = QeCasLink nd tl /\
                   n_next (hget (s_heap s) tl) = 0 /\ linkX s t = [nd].
Proof.
  unfold linkX. destruct (nth_error (s_thr s) t) as [th|]; [|left; reflexivity].
  destruct (lt_pc th) eqn:Hpc; try (left; reflexivity).
  destruct (N.eqb_spec (n_next (hget (s_heap s) tl)) 0) as [Hz|Hnz]; [|left; reflexivity].
  right. exists th, nd, tl. repeat split; auto.
Qed.

(* ------------------------------------------------------------------ step_inv with the new L made explicit *)
Ltac loc' Hth Hpc :=
  eapply inv_local;
  [eassumption | exact Hth | cbn [lgoto lt_cur lt_pc pcinv]
  | rewrite Hpc; cbn [lgoto lt_pc priv]; auto].
Ltac locfin' Hth :=
  eapply inv_local;
  [eassumption | exact Hth
  | rewrite (proj1 (lfinish_pc _ _)), (proj2 (lfinish_pc _ _)); reflexivity
  | left; rewrite (proj1 (lfinish_pc _ _)); reflexivity].

Lemma step_inv_ext s t s' r L : Inv s L -> lstep s t = Some (s', r) -> Inv s' (L ++ linkX s t).
Proof.
  intros HI Hstep. unfold linkX. unfold lstep in Hstep.
  destruct (nth_error (s_thr s) t) as [th|] eqn:Hth; [|discriminate].
  pose proof HI as (G & TO & DJ). pose proof (TO t th Hth) as Hp.
  cbv zeta in Hstep.
  destruct (lt_pc th) eqn:Hpc; cbn [pcinv] in Hp; cbv beta iota; rewrite ?app_nil_r.
  - (* LIdle *)
    destruct (lt_ops th) as [|o rest]; [discriminate|]. injection Hstep as <- <-.
    eapply inv_local; [eassumption|exact Hth| |]; cbn [lt_cur lt_pc].
    + destruct o; reflexivity.
    + left; destruct o; reflexivity.
  - (* QeAlloc *) injection Hstep as <- <-. apply inv_alloc; auto.
  - (* QeLdTail *) injection Hstep as <- <-. loc' Hth Hpc.
    destruct Hp as (v0 & Hc & Hv). exists v0. split; [|split]; auto. apply (g_tail _ _ _ _ _ _ _ G).
  - (* QeHz *) injection Hstep as <- <-. loc' Hth Hpc. exact Hp.
  - (* QeChkTail *)
    destruct Hp as (v0 & Hc & Hv & Hi).
    destruct (tl =? s_tail s); injection Hstep as <- <-; loc' Hth Hpc; exists v0; auto.
  - (* QeLdNext *)
    destruct Hp as (v0 & Hc & Hv & Hi).
    destruct (N.eqb_spec (n_next (hget (s_heap s) tl)) 0) as [Hz|Hnz]; injection Hstep as <- <-; loc' Hth Hpc;
      exists v0; split; auto; split; auto.
    eapply chain_next_in; eauto.
  - (* QeCasHelp *)
    destruct Hp as (v0 & Hc & Hv & Hi). injection Hstep as <- <-.
    eapply inv_tail with (th := th); [eassumption|exact Hth| | |rewrite Hpc; cbn [lgoto lt_pc priv]; auto].
    + destruct (s_tail s =? tl); [exact Hi|apply (g_tail _ _ _ _ _ _ _ G)].
    + cbn [lgoto lt_cur lt_pc pcinv]. exists v0; auto.
  - (* QeCasLink *)
    destruct (N.eqb_spec (n_next (hget (s_heap s) tl)) 0) as [Hz|Hnz]; injection Hstep as <- <-; cbv iota.
    + apply inv_link; auto.
    + rewrite app_nil_r. destruct Hp as (v0 & Hc & Hv & Hi). loc' Hth Hpc. exists v0; auto.
  - (* QeCasSwing *)
    destruct Hp as (v0 & Hc & Hi). injection Hstep as <- <-.
    eapply inv_tail with (th := th); [eassumption|exact Hth| | |rewrite Hpc; cbn [lgoto lt_pc priv]; auto].
    + destruct (s_tail s =? tl); [exact Hi|apply (g_tail _ _ _ _ _ _ _ G)].
    + cbn [lgoto lt_cur lt_pc pcinv]. exists v0; auto.
  - (* QeHzClr *) injection Hstep as <- <-. locfin' Hth.
  - (* QdLdHead *) injection Hstep as <- <-. loc' Hth Hpc. split; [exact Hp|eapply head_before; eauto].
  - (* QdHz0 *) injection Hstep as <- <-. loc' Hth Hpc. exact Hp.
  - (* QdChkHead *)
    destruct (hd =? s_head s); injection Hstep as <- <-; loc' Hth Hpc; tauto.
  - (* QdLdTail *) injection Hstep as <- <-. loc' Hth Hpc. exact Hp.
  - (* QdLdNext *) injection Hstep as <- <-. loc' Hth Hpc. destruct Hp; split; [|split]; auto.
  - (* QdHz1 *)
    destruct Hp as (Hc & Hb & Hn).
    destruct (N.eqb_spec nx 0) as [Hz|Hnz]; [injection Hstep as <- <-; locfin' Hth|].
    destruct (hd =? tl); injection Hstep as <- <-; loc' Hth Hpc.
    + split; [exact Hc|]. rewrite <- (Hn Hnz). eapply chain_next_in; eauto.
      * eapply before_in; eauto.
      * rewrite (Hn Hnz); exact Hnz.
    + tauto.
  - (* QdCasHelp *)
    destruct Hp as (Hc & Hi). injection Hstep as <- <-.
    eapply inv_tail with (th := th); [eassumption|exact Hth| | |rewrite Hpc; cbn [lgoto lt_pc priv]; auto].
    + destruct (s_tail s =? tl); [exact Hi|apply (g_tail _ _ _ _ _ _ _ G)].
    + cbn [lgoto lt_cur lt_pc pcinv]. exact Hc.
  - (* QdLdVal *)
    destruct Hp as (Hc & Hb & Hnz & Hn). injection Hstep as <- <-. loc' Hth Hpc.
    repeat split; auto. rewrite <- Hn. eapply chain_next_in; eauto.
    + eapply before_in; eauto.
    + rewrite Hn; exact Hnz.
  - (* QdCasHead *)
    destruct (N.eqb_spec (s_head s) hd) as [He|Hne]; injection Hstep as <- <-.
    + apply inv_headcas; auto.
    + loc' Hth Hpc. tauto.
  - (* QdRel *) injection Hstep as <- <-. locfin' Hth.
  - (* QmLdHead *) injection Hstep as <- <-. loc' Hth Hpc.
    split; [exact Hp|]. split; [lia|eapply head_before; eauto].
  - (* QmLdTail *) injection Hstep as <- <-. loc' Hth Hpc. exact Hp.
  - (* QmLdNext *)
    destruct Hp as (Hc & Hg & Hb). injection Hstep as <- <-. loc' Hth Hpc.
    split; [exact Hc|]. intros Hz. rewrite (before_last _ _ _ _ _ _ _ G hd Hb Hz). exact Hg.
  - (* QmMF *) injection Hstep as <- <-. loc' Hth Hpc. exact Hp.
  - (* QmChk *)
    destruct (hd =? s_head s); [destruct ((hd =? tl) && (nx =? 0))|]; injection Hstep as <- <-.
    + locfin' Hth.
    + locfin' Hth.
    + loc' Hth Hpc. tauto.
Qed.

(* ------------------------------------------------------------------ TInv: generic re-establishment *)
(* the successor in L of a linked node with next <> 0 *)
Lemma nth_succ h hdp tlp f L E D j a nx : ginv h hdp tlp f L E D ->
  nth_error L j = Some a -> n_next (hget h a) = nx -> nx <> 0 -> nth_error L (S j) = Some nx.
Proof.
  intros G Hj Hn Hnz. rewrite (g_chain _ _ _ _ _ _ _ G _ _ Hj) in Hn.
  assert (Hlt : (S j < length L)%nat).
  { destruct (lt_dec (S j) (length L)); [assumption|]. rewrite nth_overflow in Hn by lia. congruence. }
  rewrite (nth_error_nth' L 0 Hlt). congruence.
Qed.

(* tpc survives when positions in L are kept and the position of the tail does not decrease *)
Lemma tpc_stable s s' L L' p :
  (forall i a, nth_error L i = Some a -> nth_error L' i = Some a) ->
  (forall jt, nth_error L jt = Some (s_tail s) -> exists jt', (jt <= jt')%nat /\ nth_error L' jt' = Some (s_tail s')) ->
  tpc s L p -> tpc s' L' p.
Proof.
  intros Hpre Htl. destruct p; cbn [tpc]; auto.
  - (* QeCasHelp *) intros (j & H1 & H2). exists j; auto.
  - (* QeCasSwing *) intros (j & H1 & H2). exists j; auto.
  - (* QdLdNext *) intros (i & j & jt & H1 & H2 & H3 & H4 & H5).
    destruct (Htl jt H4) as (jt' & Hle & Hjt'). exists i, j, jt'. repeat split; auto; lia.
  - (* QdHz1 *) intros (i & j & jt & H1 & H2 & H3 & H4 & H5).
    destruct (Htl jt H4) as (jt' & Hle & Hjt'). exists i, j, jt'. repeat split; auto; lia.
  - (* QdCasHelp *) intros (j & H1 & H2). exists j; auto.
  - (* QdLdVal *) intros (i & jt & H1 & H4 & H3).
    destruct (Htl jt H4) as (jt' & Hle & Hjt'). exists i, jt'. repeat split; auto; lia.
  - (* QdCasHead *) intros (i & jt & H1 & H4 & H3).
    destruct (Htl jt H4) as (jt' & Hle & Hjt'). exists i, jt'. repeat split; auto; lia.
Qed.

Lemma tinv_update s L t th s' L' th' :
  TInv s L -> nth_error (s_thr s) t = Some th -> s_thr s' = lset_nth (s_thr s) t th' ->
  (forall i a, nth_error L i = Some a -> nth_error L' i = Some a) ->
  (forall jt, nth_error L jt = Some (s_tail s) -> exists jt', (jt <= jt')%nat /\ nth_error L' jt' = Some (s_tail s')) ->
  (forall j, nth_error L j = Some (s_tail s) -> (length (g_deq s) <= j)%nat -> (length (g_deq s') <= j)%nat) ->
  tpc s' L' (lt_pc th') ->
  TInv s' L'.
Proof.
  intros ((j & Hj & Hle) & TP) Hth Hthr Hpre Htl Hdq Hp'. split.
  - destruct (Htl j Hj) as (j' & Hjj & Hj'). exists j'. split; [exact Hj'|]. pose proof (Hdq j Hj Hle). lia.
  - intros t2 th2 H2. rewrite Hthr in H2. destruct (Nat.eq_dec t t2) as [Heq|Hne].
    + subst t2. rewrite (nth_lset_eq _ _ _ _ Hth) in H2. injection H2 as <-. exact Hp'.
    + rewrite nth_lset_ne in H2 by exact Hne. eapply tpc_stable; eauto.
Qed.

(* a CAS on q->tail from L[j] to L[S j]: the position of the tail does not decrease *)
Lemma tail_cas_mono L tlp tl nx j : NoDup L -> nth_error L j = Some tl -> nth_error L (S j) = Some nx ->
  forall jt, nth_error L jt = Some tlp ->
    exists jt', (jt <= jt')%nat /\ nth_error L jt' = Some (if tlp =? tl then nx else tlp).
Proof.
  intros Hnd Hj Hs jt Hjt. destruct (N.eqb_spec tlp tl) as [He|Hne].
  - subst tlp. assert (jt = j) by (eapply nodup_idx; eauto). subst jt. exists (S j); split; [lia|exact Hs].
  - exists jt; split; [lia|exact Hjt].
Qed.

Ltac tgo HT Hth :=
  eapply (tinv_update _ _ _ _ _ _ _ HT Hth);
  [ reflexivity | auto | intros jt0 Hjt0; exists jt0; split; [lia|exact Hjt0] | intros j0 _ Hj0; exact Hj0
  | cbn [lgoto lt_pc tpc] ].
Ltac tfin HT Hth := tgo HT Hth; rewrite (proj1 (lfinish_pc _ _)); exact I.
Ltac tcas HT Hth Hnd :=
  eapply (tinv_update _ _ _ _ _ _ _ HT Hth);
  [ reflexivity | auto | cbn [s_tail]; eapply tail_cas_mono; eauto | intros j0 _ Hj0; exact Hj0 | exact I ].

Lemma step_tinv_only s t s' r L : Inv s L -> TInv s L -> lstep s t = Some (s', r) -> TInv s' (L ++ linkX s t).
Proof.
  intros HI HT Hstep. unfold linkX. unfold lstep in Hstep.
  destruct (nth_error (s_thr s) t) as [th|] eqn:Hth; [|discriminate].
  pose proof HI as (G & TO & DJ). pose proof (TO t th Hth) as Hp.
  pose proof HT as (T0 & TP). pose proof (TP t th Hth) as Htp.
  pose proof (g_nd _ _ _ _ _ _ _ G) as Hnd.
  cbv zeta in Hstep.
  destruct (lt_pc th) eqn:Hpc; cbn [pcinv] in Hp; cbn [tpc] in Htp; cbv beta iota; rewrite ?app_nil_r.
  - (* LIdle *)
    destruct (lt_ops th) as [|o rest]; [discriminate|]. injection Hstep as <- <-.
    tgo HT Hth. destruct o; exact I.
  - (* QeAlloc *) injection Hstep as <- <-. tgo HT Hth. exact I.
  - (* QeLdTail *) injection Hstep as <- <-. tgo HT Hth. exact I.
  - (* QeHz *) injection Hstep as <- <-. tgo HT Hth. exact I.
  - (* QeChkTail *) destruct (tl =? s_tail s); injection Hstep as <- <-; tgo HT Hth; exact I.
  - (* QeLdNext: tl is in L and its next is not 0, so the next is the successor of tl in L *)
    destruct Hp as (v0 & Hc & Hv & Hi).
    destruct (N.eqb_spec (n_next (hget (s_heap s) tl)) 0) as [Hz|Hnz]; injection Hstep as <- <-; tgo HT Hth; [exact I|].
    destruct (In_nth_error _ _ Hi) as [j Hj]. exists j. split; [exact Hj|].
    exact (nth_succ _ _ _ _ _ _ _ j tl _ G Hj eq_refl Hnz).
  - (* QeCasHelp: tail CAS *)
    destruct Htp as (j & Hj & Hsj). injection Hstep as <- <-. tcas HT Hth Hnd.
  - (* QeCasLink *)
    destruct (N.eqb_spec (n_next (hget (s_heap s) tl)) 0) as [Hz|Hnz]; injection Hstep as <- <-; cbv iota.
    + (* success: tl is the last element of L, L grows by nd *)
      destruct Hp as (v0 & Hc & Hv & Hi). destruct (In_nth_error _ _ Hi) as [i Hi'].
      pose proof (chain_last _ _ _ _ _ _ _ G i tl Hi' Hz) as Hlast.
      assert (Hpre : forall k a, nth_error L k = Some a -> nth_error (L ++ [nd]) k = Some a).
      { intros k a Hk. rewrite nth_error_app1; [exact Hk|]. apply nth_error_Some; congruence. }
      eapply (tinv_update _ _ _ _ _ _ _ HT Hth); [reflexivity | exact Hpre | | intros j0 _ Hj0; exact Hj0 | ].
      * intros jt Hjt. exists jt. split; [lia|]. apply Hpre. exact Hjt.
      * cbn [lgoto lt_pc tpc]. exists i. split; [apply Hpre; exact Hi'|].
        rewrite nth_error_app2 by lia. rewrite Hlast, Nat.sub_diag. reflexivity.
    + rewrite app_nil_r. tgo HT Hth. exact I.
  - (* QeCasSwing: tail CAS *)
    destruct Htp as (j & Hj & Hsj). injection Hstep as <- <-. tcas HT Hth Hnd.
  - (* QeHzClr *) injection Hstep as <- <-. tfin HT Hth.
  - (* QdLdHead *) injection Hstep as <- <-. tgo HT Hth. exact I.
  - (* QdHz0 *) injection Hstep as <- <-. tgo HT Hth. exact I.
  - (* QdChkHead *) destruct (hd =? s_head s); injection Hstep as <- <-; tgo HT Hth; exact I.
  - (* QdLdTail: hd stands at or before position length D, the tail at or after it *)
    injection Hstep as <- <-. tgo HT Hth.
    destruct Hp as (_ & Hb). destruct (in_firstn_nth _ _ _ Hb) as (i & Hi & Hnth).
    destruct T0 as (jt & Hjt & Hle). exists i, jt, jt.
    split; [exact Hnth|]. split; [exact Hjt|]. split; [lia|]. split; [exact Hjt|lia].
  - (* QdLdNext *) injection Hstep as <- <-. tgo HT Hth. exact Htp.
  - (* QdHz1 *)
    destruct Hp as (Hc & Hb & Hn). destruct Htp as (i & j & jt & Hi & Hj & Hij & Hjt & Hjjt).
    destruct (N.eqb_spec nx 0) as [Hz|Hnz]; [injection Hstep as <- <-; tfin HT Hth|].
    destruct (N.eqb_spec hd tl) as [He|Hne]; injection Hstep as <- <-; tgo HT Hth.
    + (* hd = tl: nx is the successor of tl in L *)
      exists i. split; [congruence|]. exact (nth_succ _ _ _ _ _ _ _ i hd nx G Hi (Hn Hnz) Hnz).
    + (* hd <> tl: hd stands strictly before tl, hence strictly before the tail *)
      exists i, jt. split; [exact Hi|]. split; [exact Hjt|].
      assert (i <> j) by (intros ->; congruence). lia.
  - (* QdCasHelp: tail CAS *)
    destruct Htp as (j & Hj & Hsj). injection Hstep as <- <-. tcas HT Hth Hnd.
  - (* QdLdVal *) injection Hstep as <- <-. tgo HT Hth. exact Htp.
  - (* QdCasHead *)
    destruct (N.eqb_spec (s_head s) hd) as [He|Hne]; injection Hstep as <- <-.
    + (* success: hd = head stands at position length D, strictly before the tail *)
      destruct Htp as (i & jt & Hi & Hjt & Hlt).
      eapply (tinv_update _ _ _ _ _ _ _ HT Hth);
        [reflexivity | auto | intros k Hk; exists k; split; [lia|exact Hk] | | exact I].
      intros j0 Hj0 _. cbn [g_deq]. rewrite last_length.
      assert (jt = j0) by (eapply nodup_idx; eauto).
      assert (i = length (g_deq s)).
      { eapply nodup_idx; [exact Hnd|exact Hi|]. rewrite <- He. apply (g_head _ _ _ _ _ _ _ G). }
      lia.
    + tgo HT Hth. exact I.
  - (* QdRel *) injection Hstep as <- <-. tfin HT Hth.
  - (* QmLdHead *) injection Hstep as <- <-. tgo HT Hth. exact I.
  - (* QmLdTail *) injection Hstep as <- <-. tgo HT Hth. exact I.
  - (* QmLdNext *) injection Hstep as <- <-. tgo HT Hth. exact I.
  - (* QmMF *) injection Hstep as <- <-. tgo HT Hth. exact I.
  - (* QmChk *)
    destruct (hd =? s_head s); [destruct ((hd =? tl) && (nx =? 0))|]; injection Hstep as <- <-.
    + tfin HT Hth.
    + tfin HT Hth.
    + tgo HT Hth. exact I.
Qed.

(* ------------------------------------------------------------------ the theorems *)
Theorem step_tinv : forall s t s' r L, Inv s L -> TInv s L -> lstep s t = Some (s', r) ->
  exists X, Inv s' (L ++ X) /\ TInv s' (L ++ X) /\
    (X = [] \/ exists th nd tl, nth_error (s_thr s) t = Some th /\ lt_pc th = QeCasLink nd tl /\ n_next (hget (s_heap s) tl) = 0%N /\ X = [nd]).
Proof.
  intros s t s' r L HI HT Hs. exists (linkX s t).
  split; [eapply step_inv_ext; eauto|]. split; [eapply step_tinv_only; eauto|].
  destruct (linkX_spec s t) as [H|(th & nd & tl & H1 & H2 & H3 & H4)]; [left; exact H|].
  right. exists th, nd, tl. auto.
Qed.

Theorem tinv_init : forall progs, TInv (linit progs) [1%N].
Proof.
  intros progs. split; cbn [linit s_tail s_thr g_deq].
  - exists O. split; [reflexivity|cbn [length]; lia].
  - intros t th Hn. rewrite nth_error_map in Hn. destruct (nth_error progs t); [|discriminate].
    injection Hn as <-. exact I.
Qed.

Lemma run_tinv sched : forall s L, Inv s L -> TInv s L ->
  exists L', Inv (lrun s sched) L' /\ TInv (lrun s sched) L'.
Proof.
  induction sched as [|t sched IH]; intros s L HI HT.
  - exists L; split; assumption.
  - cbn [lrun fold_left]. change (exists L', Inv (lrun (lstep' s t) sched) L' /\ TInv (lrun (lstep' s t) sched) L').
    unfold lstep'. destruct (lstep s t) as [[s' r]|] eqn:Hs.
    + destruct (step_tinv _ _ _ _ _ HI HT Hs) as (X & HI' & HT' & _). eapply IH; eauto.
    + eapply IH; eauto.
Qed.

Theorem reach_tinv : forall progs sched, exists L, Inv (lrun (linit progs) sched) L /\ TInv (lrun (linit progs) sched) L.
Proof. intros progs sched. eapply run_tinv; [apply inv_init|apply tinv_init]. Qed.

Theorem lfq_tail_not_behind_head : forall progs sched, let s := lrun (linit progs) sched in
  exists L i j, Inv s L /\ nth_error L i = Some (s_head s) /\ nth_error L j = Some (s_tail s) /\ (i <= j)%nat.
Proof.
  intros progs sched s. destruct (reach_tinv progs sched) as (L & HI & (j & Hj & Hle) & _). fold s in HI, Hj, Hle.
  exists L, (length (g_deq s)), j. split; [exact HI|]. split; [|split; [exact Hj|exact Hle]].
  destruct HI as (G & _). apply (g_head _ _ _ _ _ _ _ G).
Qed.

(* ------------------------------------------------------------------ Examples (non-vacuity) *)
(* one enqueue run up to (and including) the swing CAS: the tail is strictly ahead of the head *)
Example ex_tail_ahead :
  let s := lrun (linit [[LEnq 5]]) (repeat 0%nat 8) in
  pc_of s 0 = QeHzClr /\ s_head s = 1 /\ s_tail s = 2 /\ chain_from_head s = [1; 2] /\ tail_pos s = Some 1.
Proof. vm_compute. repeat split. Qed.

(* the same run stopped after the link CAS: the tail lags behind the last node but is not behind the head *)
Example ex_tail_lags :
  let s := lrun (linit [[LEnq 5]]) (repeat 0%nat 7) in
  pc_of s 0 = QeCasSwing 2 1 /\ s_head s = 1 /\ s_tail s = 1 /\ chain_from_head s = [1; 2] /\ tail_pos s = Some 0.
Proof. vm_compute. repeat split. Qed.

(* in the first run the positions given by the theorem are strictly ordered *)
Example ex_tail_ahead_pos :
  let s := lrun (linit [[LEnq 5]]) (repeat 0%nat 8) in
  exists L i j, Inv s L /\ nth_error L i = Some (s_head s) /\ nth_error L j = Some (s_tail s) /\ (i < j)%nat.
Proof.
  intros s. destruct (lfq_tail_not_behind_head [[LEnq 5]] (repeat 0%nat 8)) as (L & i & j & HI & Hi & Hj & Hle).
  fold s in HI, Hi, Hj. exists L, i, j.
  split; [exact HI|]. split; [exact Hi|]. split; [exact Hj|].
  assert (i <> j); [|lia]. intros ->. rewrite Hi in Hj. vm_compute in Hj. discriminate.
Qed.
