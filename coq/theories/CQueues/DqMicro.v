(* C15 qdqueue: executable MICRO-STEP model of src/ds/qdqueue.c (definitions only; theorems in DqMicroProofs.v).

   qdqueue_enqueue / qdqueue_enqueue_there / qdqueue_dequeue over S shepherds' sub-queues, branch by branch,
   INCLUDING the advertisement heap (ads), last_consumed, last_ad_issued, last_ad_consumed heuristics exactly as
   the code has them.  Each sub-queue (a qlfqueue, modelled in Lfq.v) is abstracted to its atomic linearisation:
   a `list N`; qlfqueue_empty / qlfqueue_enqueue / qlfqueue_dequeue are ONE step each.

   One step per shared access: every read or write of last_consumed, last_ad_issued, last_ad_consumed, the
   unlocked reads of heap->first (pre-check of qdqueue_adheap_pop, qdqueue_adheap_empty), qthread_incr (returns
   the OLD value), qthread_cas (returns the old value; `while (last_ad < ad.generation)` is a loop of such
   steps), qthread_cas_ptr, qthread_lock (ENABLED only when the lock is free), the critical section of pop / push
   (ONE atomic step, executed while holding the lock: everything it touches is protected by the lock except
   `first`, which unlocked readers read atomically), qthread_unlock.

   Pointers are indices: &Qs[j] = j (option nat, None = NULL); &heap->heap[i] = i.  The linear search of
   qdqueue_adheap_push for the element naming `shep` reads immutable data (no step), `for (j = i - 1;; j--)` is
   mirrored by [scan_down], which FAILS when it would run below index 0: the task then stands at [PCrash 1]
   forever ([PCrash 0]: the search for `shep` fell off the array, i.e. assert(heap->heap[i].ad.shep == shep)).

   Ghost fields, never read by a step to decide anything: d_enq, d_deq (values in linearisation order), per task
   k_seen (sub-queue indices the CURRENT call observed empty: qlfqueue_dequeue returned NULL on them) and k_out
   (results of completed dequeues).

   The hint fields (last_consumed, last_ad_issued, last_ad_consumed, first, per element inheap / generation /
   prev / next) are ARGUMENTS of [dm_init]; [hints_create S] are the values qdqueue_create() writes.        *)
From Coq Require Import List NArith Bool Arith.
From QV Require Import CQueues.Dq.
Import ListNotations.
Local Open Scope N_scope.

(* ------------------------------------------------------------------------------------------------------ *)
(* shared data                                                                                             *)

(* struct qdqueue_adheap_elem_s: inheap, ad.shep (immutable), ad.generation, prev, next *)
Record elem := mkEl { e_inheap : bool; e_shep : nat; e_gen : N; e_prev : option nat; e_next : option nat }.

(* struct qdsubqueue_s without theQ (kept in dm_qs) and the immutable neighbors / allsheps arrays *)
Record subq := mkSub {
  q_lc       : option nat;      (* last_consumed: None = NULL, Some j = &Qs[j] *)
  q_issued   : N;               (* last_ad_issued *)
  q_consumed : N;               (* last_ad_consumed *)
  q_lock     : option nat;      (* ads.gateway_lock: held by task id *)
  q_first    : option nat;      (* ads.first: index into ads.heap *)
  q_heap     : list elem        (* ads.heap[0..S-1] *)
}.

Definition dflt_elem : elem := mkEl false 0 0 None None.
Definition dflt_sub : subq := mkSub None 0 0 None None [].

(* initial values of the hint fields *)
Record ehint := mkEH { h_inheap : bool; h_gen : N; h_prev : option nat; h_next : option nat }.
Record shint := mkSH { h_lc : option nat; h_issued : N; h_consumed : N; h_first : option nat; h_elems : list ehint }.
Definition hints := list shint.

Definition ehint_create : ehint := mkEH false 0 None None.                                  (* qt_calloc *)
Definition shint_create (ns : nat) : shint := mkSH None 1 1 None (repeat ehint_create ns).
Definition hints_create (ns : nat) : hints := repeat (shint_create ns) ns.                    (* qdqueue_create() *)

(* ------------------------------------------------------------------------------------------------------ *)
(* tasks                                                                                                   *)

Inductive dmop :=
| DEnq (v : N)                         (* qdqueue_enqueue(q, v) *)
| DEnqThere (there : nat) (v : N)      (* qdqueue_enqueue_there(q, v, there) *)
| DDeq.                                (* qdqueue_dequeue(q) *)

Inductive dres := DInt (n : N) | DPtr (v : option N).

(* where qdqueue_adheap_push returns to *)
Inductive pcont :=
| KEnqNbr (qi : nat) (gen : N) (idx : nat)      (* the for loop over myq->neighbors of enqueue, at neighbor idx *)
| KDeqRepush (ash lc : nat).                    (* dequeue, after qdqueue_adheap_push(&myq->ads, lc, 0) *)

Inductive pc :=
| PIdle
| PCrash (why : nat)                            (* 0: search for shep fell off the array; 1: j-- below index 0 *)
(* qdqueue_enqueue / qdqueue_enqueue_there; qi = index of myq *)
| PEnqEmpty (qi : nat) (v : N)                  (* stat = qlfqueue_empty(myq->theQ) *)
| PEnqPut (qi : nat) (v : N) (stat : bool)      (* qlfqueue_enqueue(myq->theQ, elem); if (stat) ... else *)
| PEnqLdIssued (qi : nat)                       (* read myq->last_ad_issued *)
| PEnqLdConsumed (qi : nat) (iss : N)           (* read myq->last_ad_consumed; if (issued <= consumed) *)
| PEnqIncr (qi : nat)                           (* generation = qthread_incr(&myq->last_ad_issued, 1); for (shep = 0; ... *)
| PEnqRet                                       (* return QTHREAD_SUCCESS *)
(* qdqueue_adheap_push(&Qs[h].ads, shep, gen); i = index of the element naming shep *)
| PPushLock (h i : nat) (gen : N) (c : pcont)   (* qthread_lock(&heap->gateway_lock) *)
| PPushCrit (h i : nat) (gen : N) (c : pcont)   (* if ((heap[i].ad.generation < gen) || (gen == 0)) { ... } *)
| PPushUnlock (h : nat) (c : pcont)             (* done_pushing: qthread_unlock(&heap->gateway_lock) *)
(* qdqueue_dequeue; myq = &Qs[me] *)
| PDeqOwn                                       (* if ((ret = qlfqueue_dequeue(myq->theQ)) != NULL) *)
| PDeqStRet (tgt : nat) (x : N)                 (* myq->last_consumed = &Qs[tgt]; return ret *)
| PDeqStNull                                    (* myq->last_consumed = NULL; checkads: *)
| PPopPre                                       (* qdqueue_adheap_pop(&myq->ads): if (heap->first != NULL) *)
| PPopLock                                      (* qthread_lock(&heap->gateway_lock) *)
| PPopCrit                                      (* if ((tmp = heap->first) == NULL) ...; ret = tmp->ad; ...; tmp->inheap = 0 *)
| PPopUnlockEmpty                               (* qthread_unlock(&heap->gateway_lock); goto emptyheap *)
| PPopUnlock (ash : nat) (gen : N)              (* qthread_unlock(&heap->gateway_lock); return ret *)
| PDeqLdLc (ash : nat) (gen : N)                (* lc = ad.shep->last_consumed; if (lc == ad.shep) ... else if (lc != NULL) *)
| PDeqLdConsumed (ash : nat) (gen : N)          (* last_ad = ad.shep->last_ad_consumed; while (last_ad < ad.generation) *)
| PDeqCas (ash : nat) (gen la : N)              (* last_ad = qthread_cas(&ad.shep->last_ad_consumed, last_ad, ad.generation) *)
| PDeqSteal (ash : nat)                         (* if ((ret = qlfqueue_dequeue(ad.shep->theQ)) != NULL) *)
| PDeqCasP (ash lc : nat)                       (* qthread_cas_ptr(&ad.shep->last_consumed, lc, NULL) *)
| PDeqRLdLc (idx : nat)                         (* remoteshep = myq->allsheps[idx]; lc = remoteshep->last_consumed *)
| PDeqRDeq (idx : nat) (lc : option nat)        (* if ((ret = qlfqueue_dequeue(remoteshep->theQ)) != NULL) ... else if (lc && lc != remoteshep) *)
| PDeqLcDeq (idx : nat) (l : nat)               (* if ((ret = qlfqueue_dequeue(lc->theQ)) != NULL) *)
| PDeqEmptyChk (idx : nat)                      (* if (!qdqueue_adheap_empty(&myq->ads)) goto checkads; shep++ *)
| PDeqRetNull.                                  (* return NULL *)

Record dtask := mkDT {
  k_me   : nat;                 (* qthread_shep() *)
  k_pc   : pc;
  k_ops  : list dmop;
  k_seen : list nat;            (* ghost: sub-queues the current call found empty *)
  k_out  : list (option N)      (* ghost: results of completed dequeues (None = NULL) *)
}.

Record dstate := mkDM {
  dm_S     : nat;               (* maxsheps *)
  dm_alls  : list (list nat);   (* allsheps[i] *)
  dm_nbrs  : list (list nat);   (* neighbors[i] *)
  dm_qs    : queues;            (* theQ of every shepherd, as its linearisation *)
  dm_subs  : list subq;
  dm_tasks : list dtask;
  d_enq    : list N;            (* ghost: everything enqueued so far *)
  d_deq    : list N             (* ghost: everything dequeued so far *)
}.

(* ------------------------------------------------------------------------------------------------------ *)
(* initial state                                                                                           *)

(* ads.heap[0].ad.shep = &Qs[i]; ads.heap[k+1].ad.shep = allsheps[i][k] *)
Definition elem_shep (alls : list (list nat)) (i k : nat) : nat :=
  match k with O => i | S k' => nth k' (nth i alls []) O end.

Definition init_elem (alls : list (list nat)) (i : nat) (hs : list ehint) (k : nat) : elem :=
  let h := nth k hs ehint_create in
  mkEl (h_inheap h) (elem_shep alls i k) (h_gen h) (h_prev h) (h_next h).

Definition init_sub (ns : nat) (alls : list (list nat)) (hn : hints) (i : nat) : subq :=
  let h := nth i hn (shint_create ns) in
  mkSub (h_lc h) (h_issued h) (h_consumed h) None (h_first h) (map (init_elem alls i (h_elems h)) (seq 0 ns)).

Definition dm_init (ns : nat) (alls nbrs : list (list nat)) (hn : hints) (progs : list (nat * list dmop)) : dstate :=
  mkDM ns alls nbrs (repeat [] ns) (map (init_sub ns alls hn) (seq 0 ns))
       (map (fun p => mkDT (fst p) PIdle (snd p) [] []) progs) [] [].

(* ------------------------------------------------------------------------------------------------------ *)
(* field updates                                                                                           *)

Definition getq (s : dstate) (i : nat) : subq := nth i (dm_subs s) dflt_sub.

Definition set_lc (q : subq) (v : option nat) := mkSub v (q_issued q) (q_consumed q) (q_lock q) (q_first q) (q_heap q).
Definition set_issued (q : subq) (v : N) := mkSub (q_lc q) v (q_consumed q) (q_lock q) (q_first q) (q_heap q).
Definition set_consumed (q : subq) (v : N) := mkSub (q_lc q) (q_issued q) v (q_lock q) (q_first q) (q_heap q).
Definition set_lock (q : subq) (v : option nat) := mkSub (q_lc q) (q_issued q) (q_consumed q) v (q_first q) (q_heap q).
Definition set_ads (q : subq) (f : option nat) (hp : list elem) :=
  mkSub (q_lc q) (q_issued q) (q_consumed q) (q_lock q) f hp.

Definition set_inheap (v : bool) (e : elem) := mkEl v (e_shep e) (e_gen e) (e_prev e) (e_next e).
Definition set_gen (v : N) (e : elem) := mkEl (e_inheap e) (e_shep e) v (e_prev e) (e_next e).
Definition set_prev (v : option nat) (e : elem) := mkEl (e_inheap e) (e_shep e) (e_gen e) v (e_next e).
Definition set_next (v : option nat) (e : elem) := mkEl (e_inheap e) (e_shep e) (e_gen e) (e_prev e) v.

Definition hget (hp : list elem) (i : nat) : elem := nth i hp dflt_elem.
Definition hp_upd (hp : list elem) (i : nat) (f : elem -> elem) : list elem := set_nth hp i (f (hget hp i)).

(* ------------------------------------------------------------------------------------------------------ *)
(* the critical sections of the advertisement heap                                                         *)

(* qdqueue_adheap_pop between lock and unlock: new sub-queue record and the ad (shep, generation) taken *)
Definition pop_crit (q : subq) : subq * option (nat * N) :=
  match q_first q with
  | None => (q, None)                                                   (* (tmp = heap->first) == NULL *)
  | Some f =>
      let tmp := hget (q_heap q) f in                                   (* ret = tmp->ad *)
      let hp1 := match e_next tmp with                                  (* if ((heap->first = tmp->next) != NULL) *)
                 | Some n => hp_upd (q_heap q) n (set_prev None)        (*   heap->first->prev = NULL *)
                 | None => q_heap q
                 end in
      let hp2 := hp_upd hp1 f (set_inheap false) in                     (* tmp->inheap = 0 *)
      (set_ads q (e_next tmp) hp2, Some (e_shep tmp, e_gen tmp))
  end.

(* for (j = i - 1;; j--) if (heap->heap[j].inheap) ...: the first index <= j that is in the heap; None when the
   loop would run below index 0 *)
Fixpoint scan_down (hp : list elem) (j : nat) : option nat :=
  if e_inheap (hget hp j) then Some j
  else match j with O => None | S j' => scan_down hp j' end.

(* qdqueue_adheap_push between lock and done_pushing; None = out-of-bounds scan *)
Definition push_crit (q : subq) (i : nat) (gen : N) : option subq :=
  let hp := q_heap q in
  let ei := hget hp i in
  if (e_gen ei <? gen) || (gen =? 0) then
    let hp1 := if gen =? 0 then hp else hp_upd hp i (set_gen gen) in    (* if (gen != 0) heap[i].ad.generation = gen *)
    if e_inheap ei then Some (set_ads q (q_first q) hp1)                (* if (heap[i].inheap == 1) goto done_pushing *)
    else
      let hp2 := hp_upd hp1 i (set_inheap true) in                      (* heap[i].inheap = 1 *)
      match q_first q with
      | None =>                                                         (* if (heap->first == NULL) *)
          let hp3 := hp_upd hp2 i (set_prev None) in
          let hp4 := hp_upd hp3 i (set_next None) in
          Some (set_ads q (Some i) hp4)
      | Some f =>
          if (i <? f)%nat then                                          (* &heap[i] < heap->first *)
            let hp3 := hp_upd hp2 i (set_next (Some f)) in
            let hp4 := hp_upd hp3 i (set_prev None) in
            let hp5 := hp_upd hp4 f (set_prev (Some i)) in
            Some (set_ads q (Some i) hp5)
          else if (f <? i)%nat then                                     (* &heap[i] > heap->first *)
            match scan_down hp2 (i - 1) with
            | None => None
            | Some j =>
                let hp3 := hp_upd hp2 i (set_next (e_next (hget hp2 j))) in     (* heap[i].next = heap[j].next *)
                let hp4 := hp_upd hp3 i (set_prev (Some j)) in                  (* heap[i].prev = &heap[j] *)
                let hp5 := hp_upd hp4 j (set_next (Some i)) in                  (* heap[j].next = &heap[i] *)
                let hp6 := match e_next (hget hp5 i) with                       (* if (heap[i].next != NULL) *)
                           | Some n => hp_upd hp5 n (set_prev (Some i))         (*   heap[i].next->prev = heap + i *)
                           | None => hp5
                           end in
                Some (set_ads q (q_first q) hp6)
            end
          else Some (set_ads q (q_first q) hp2)                         (* it WAS the first already *)
      end
  else Some q.

(* for (i = 0; i < maxsheps; i++) if (heap->heap[i].ad.shep == shep) break; *)
Fixpoint find_shep (hp : list elem) (shep : nat) (i : nat) : option nat :=
  match hp with
  | [] => None
  | e :: hp' => if (e_shep e =? shep)%nat then Some i else find_shep hp' shep (S i)
  end.

(* ------------------------------------------------------------------------------------------------------ *)
(* control flow helpers                                                                                    *)

(* call qdqueue_adheap_push(&Qs[h].ads, &Qs[shep], gen) *)
Definition enter_push (s : dstate) (h shep : nat) (gen : N) (c : pcont) : pc :=
  match find_shep (q_heap (getq s h)) shep O with
  | Some i => PPushLock h i gen c
  | None => PCrash 0
  end.

(* for (shep = idx; shep < myq->nNeighbors; shep++) qdqueue_adheap_push(&(myq->neighbors[shep]->ads), myq, generation) *)
Definition enq_nbr (s : dstate) (qi : nat) (gen : N) (idx : nat) : pc :=
  match nth_error (nth qi (dm_nbrs s) []) idx with
  | Some nb => enter_push s nb qi gen (KEnqNbr qi gen idx)
  | None => PEnqRet
  end.

Definition after_push (s : dstate) (c : pcont) : pc :=
  match c with
  | KEnqNbr qi gen idx => enq_nbr s qi gen (S idx)
  | KDeqRepush ash lc => PDeqCasP ash lc
  end.

(* for (shep = idx; shep < (maxsheps - 1); shep++) ... return NULL *)
Definition loop_at (s : dstate) (idx : nat) : pc :=
  if (idx <? dm_S s - 1)%nat then PDeqRLdLc idx else PDeqRetNull.

Definition remote (s : dstate) (me idx : nat) : nat := nth idx (nth me (dm_alls s) []) O.

Definition start (me : nat) (o : dmop) : pc :=
  match o with
  | DEnq v => PEnqEmpty me v
  | DEnqThere there v => PEnqEmpty there v
  | DDeq => PDeqOwn
  end.

Definition tk_goto (k : dtask) (p : pc) : dtask := mkDT (k_me k) p (k_ops k) (k_seen k) (k_out k).
Definition tk_see (k : dtask) (i : nat) (p : pc) : dtask := mkDT (k_me k) p (k_ops k) (i :: k_seen k) (k_out k).
Definition tk_fin (k : dtask) (r : dres) : dtask :=
  mkDT (k_me k) PIdle (k_ops k) (k_seen k) (match r with DPtr o => k_out k ++ [o] | DInt _ => k_out k end).

Definition upd (s : dstate) (subs : list subq) (t : nat) (k : dtask) : dstate :=
  mkDM (dm_S s) (dm_alls s) (dm_nbrs s) (dm_qs s) subs (set_nth (dm_tasks s) t k) (d_enq s) (d_deq s).

(* qlfqueue_dequeue(Qs[i].theQ) by task t *)
Definition try_deq (s : dstate) (t : nat) (k : dtask) (i : nat) (on_some : N -> pc) (on_null : pc)
  : option (dstate * option dres) :=
  match qpop (dm_qs s) i with
  | Some (x, qs') =>
      Some (mkDM (dm_S s) (dm_alls s) (dm_nbrs s) qs' (dm_subs s) (set_nth (dm_tasks s) t (tk_goto k (on_some x)))
                 (d_enq s) (d_deq s ++ [x]), None)
  | None => Some (upd s (dm_subs s) t (tk_see k i on_null), None)
  end.

Definition is_nil (q : list N) : bool := match q with [] => true | _ => false end.

(* ------------------------------------------------------------------------------------------------------ *)
(* one atomic step of task t; result: new state and Some r when the call returned; None: t cannot move    *)

Definition dm_step (s : dstate) (t : nat) : option (dstate * option dres) :=
  match nth_error (dm_tasks s) t with
  | None => None
  | Some k =>
    let me := k_me k in
    let subs := dm_subs s in
    let go p := Some (upd s subs t (tk_goto k p), None) in
    let gos i q p := Some (upd s (set_nth subs i q) t (tk_goto k p), None) in
    let fin r := Some (upd s subs t (tk_fin k r), Some r) in
    match k_pc k with
    | PIdle =>
        match k_ops k with
        | [] => None
        | o :: rest => Some (upd s subs t (mkDT me (start me o) rest [] (k_out k)), None)
        end
    | PCrash _ => None

    | PEnqEmpty qi v => go (PEnqPut qi v (is_nil (nth qi (dm_qs s) [])))
    | PEnqPut qi v stat =>
        Some (mkDM (dm_S s) (dm_alls s) (dm_nbrs s) (qpush (dm_qs s) qi v) subs
                   (set_nth (dm_tasks s) t (tk_goto k (if stat then PEnqRet else PEnqLdIssued qi)))
                   (d_enq s ++ [v]) (d_deq s), None)
    | PEnqLdIssued qi => go (PEnqLdConsumed qi (q_issued (getq s qi)))
    | PEnqLdConsumed qi iss => if iss <=? q_consumed (getq s qi) then go (PEnqIncr qi) else go PEnqRet
    | PEnqIncr qi =>
        let gen := q_issued (getq s qi) in
        gos qi (set_issued (getq s qi) (gen + 1)) (enq_nbr s qi gen O)
    | PEnqRet => fin (DInt 0)

    | PPushLock h i gen c =>
        match q_lock (getq s h) with
        | None => gos h (set_lock (getq s h) (Some t)) (PPushCrit h i gen c)
        | Some _ => None
        end
    | PPushCrit h i gen c =>
        match push_crit (getq s h) i gen with
        | Some q' => gos h q' (PPushUnlock h c)
        | None => go (PCrash 1)
        end
    | PPushUnlock h c => gos h (set_lock (getq s h) None) (after_push s c)

    | PDeqOwn => try_deq s t k me (fun x => PDeqStRet me x) PDeqStNull
    | PDeqStRet tgt x =>
        Some (upd s (set_nth subs me (set_lc (getq s me) (Some tgt))) t (tk_fin k (DPtr (Some x))), Some (DPtr (Some x)))
    | PDeqStNull => gos me (set_lc (getq s me) None) PPopPre
    | PPopPre => match q_first (getq s me) with Some _ => go PPopLock | None => go (loop_at s O) end
    | PPopLock =>
        match q_lock (getq s me) with
        | None => gos me (set_lock (getq s me) (Some t)) PPopCrit
        | Some _ => None
        end
    | PPopCrit =>
        match pop_crit (getq s me) with
        | (q', Some (ash, gen)) => gos me q' (PPopUnlock ash gen)
        | (q', None) => gos me q' PPopUnlockEmpty
        end
    | PPopUnlockEmpty => gos me (set_lock (getq s me) None) (loop_at s O)
    | PPopUnlock ash gen => gos me (set_lock (getq s me) None) (PDeqLdLc ash gen)
    | PDeqLdLc ash gen =>
        match q_lc (getq s ash) with
        | None => go PPopPre
        | Some l => if (l =? ash)%nat then go (PDeqLdConsumed ash gen)
                    else go (enter_push s me l 0 (KDeqRepush ash l))
        end
    | PDeqLdConsumed ash gen =>
        let la := q_consumed (getq s ash) in
        if la <? gen then go (PDeqCas ash gen la) else go (PDeqSteal ash)
    | PDeqCas ash gen la =>
        let old := q_consumed (getq s ash) in
        let q' := if old =? la then set_consumed (getq s ash) gen else getq s ash in
        gos ash q' (if old <? gen then PDeqCas ash gen old else PDeqSteal ash)
    | PDeqSteal ash => try_deq s t k ash (fun x => PDeqStRet ash x) PPopPre
    | PDeqCasP ash lc =>
        let q := getq s ash in
        let q' := match q_lc q with
                  | Some l => if (l =? lc)%nat then set_lc q None else q
                  | None => q
                  end in
        gos ash q' PPopPre
    | PDeqRLdLc idx => go (PDeqRDeq idx (q_lc (getq s (remote s me idx))))
    | PDeqRDeq idx lc =>
        let r := remote s me idx in
        try_deq s t k r (fun x => PDeqStRet r x)
                (match lc with
                 | Some l => if (l =? r)%nat then PDeqEmptyChk idx else PDeqLcDeq idx l
                 | None => PDeqEmptyChk idx
                 end)
    | PDeqLcDeq idx l => try_deq s t k l (fun x => PDeqStRet l x) (PDeqEmptyChk idx)
    | PDeqEmptyChk idx =>
        match q_first (getq s me) with Some _ => go PPopPre | None => go (loop_at s (S idx)) end
    | PDeqRetNull => fin (DPtr None)
    end
  end.

Definition dm_step' (s : dstate) (t : nat) : dstate := match dm_step s t with Some (s', _) => s' | None => s end.
Definition dm_run (s : dstate) (sched : list nat) : dstate := fold_left dm_step' sched s.

(* ------------------------------------------------------------------------------------------------------ *)
(* M3 schedule replay                                                                                      *)

Inductive dkind := KLfEmpty | KLfEnq | KLfDeq | KIncr | KCas | KCasP | KLock | KUnlock | DKEnd (r : dres).

(* the INTERPOSABLE operation a task standing at this pc is about to execute (plain loads / stores and the
   critical sections run inside a grant) *)
Definition dm_sp_kind (p : pc) : option dkind :=
  match p with
  | PEnqEmpty _ _ => Some KLfEmpty
  | PEnqPut _ _ _ => Some KLfEnq
  | PEnqIncr _ => Some KIncr
  | PPushLock _ _ _ _ => Some KLock
  | PPushUnlock _ _ => Some KUnlock
  | PDeqOwn => Some KLfDeq
  | PPopLock => Some KLock
  | PPopUnlockEmpty => Some KUnlock
  | PPopUnlock _ _ => Some KUnlock
  | PDeqCas _ _ _ => Some KCas
  | PDeqSteal _ => Some KLfDeq
  | PDeqCasP _ _ => Some KCasP
  | PDeqRDeq _ _ => Some KLfDeq
  | PDeqLcDeq _ _ => Some KLfDeq
  | _ => None
  end.

Definition dm_pc_of (s : dstate) (t : nat) : pc :=
  match nth_error (dm_tasks s) t with Some k => k_pc k | None => PIdle end.
Definition dm_me_of (s : dstate) (t : nat) : nat :=
  match nth_error (dm_tasks s) t with Some k => k_me k | None => O end.

(* the sub-queue (index into Qs) the interposable operation of task t is aimed at *)
Definition dm_sp_target (s : dstate) (t : nat) : option nat :=
  let me := dm_me_of s t in
  match dm_pc_of s t with
  | PEnqEmpty qi _ => Some qi
  | PEnqPut qi _ _ => Some qi
  | PEnqIncr qi => Some qi
  | PPushLock h _ _ _ => Some h
  | PPushUnlock h _ => Some h
  | PDeqOwn => Some me
  | PPopLock => Some me
  | PPopUnlockEmpty => Some me
  | PPopUnlock _ _ => Some me
  | PDeqCas ash _ _ => Some ash
  | PDeqSteal ash => Some ash
  | PDeqCasP ash _ => Some ash
  | PDeqRDeq idx _ => Some (remote s me idx)
  | PDeqLcDeq _ l => Some l
  | _ => None
  end.

(* run task t until it returns from its call or stands before the next interposable operation (at least one step) *)
Fixpoint dm_run_to_sp (fuel : nat) (s : dstate) (t : nat) : dstate * option dkind :=
  match fuel with
  | O => (s, None)
  | S f => match dm_step s t with
           | None => (s, None)
           | Some (s', Some r) => (s', Some (DKEnd r))
           | Some (s', None) => match dm_sp_kind (dm_pc_of s' t) with
                                | Some k => (s', Some k)
                                | None => dm_run_to_sp f s' t
                                end
           end
  end.

(* ------------------------------------------------------------------------------------------------------ *)
(* canonical dump                                                                                          *)

Definition dm_contents (s : dstate) (i : nat) : list N := nth i (dm_qs s) [].
Definition dm_last_consumed (s : dstate) (i : nat) : option nat := q_lc (getq s i).
Definition dm_last_ad_issued (s : dstate) (i : nat) : N := q_issued (getq s i).
Definition dm_last_ad_consumed (s : dstate) (i : nat) : N := q_consumed (getq s i).
Definition dm_lock_holder (s : dstate) (i : nat) : option nat := q_lock (getq s i).
Definition dm_first (s : dstate) (i : nat) : option nat := q_first (getq s i).

(* element indices reached from `a` by `next` *)
Fixpoint heap_chain (fuel : nat) (hp : list elem) (a : option nat) : list nat :=
  match fuel with
  | O => []
  | S f => match a with
           | None => []
           | Some i => i :: heap_chain f hp (e_next (hget hp i))
           end
  end.
Definition dm_heap_chain (s : dstate) (i : nat) : list nat :=
  heap_chain (S (dm_S s)) (q_heap (getq s i)) (q_first (getq s i)).
(* per element: (inheap, generation) *)
Definition dm_heap_elems (s : dstate) (i : nat) : list (bool * N) :=
  map (fun e => (e_inheap e, e_gen e)) (q_heap (getq s i)).
(* per element: the shepherd it names (immutable) *)
Definition dm_heap_sheps (s : dstate) (i : nat) : list nat := map e_shep (q_heap (getq s i)).
Definition dm_outs (s : dstate) : list (list (option N)) := map k_out (dm_tasks s).
Definition dm_crashed (s : dstate) : bool :=
  existsb (fun k => match k_pc k with PCrash _ => true | _ => false end) (dm_tasks s).

(* configuration check: S sub-queues; allsheps[me] has S-1 entries, all < S, naming every other shepherd; neighbors < S *)
Definition dm_cfg_ok (ns : nat) (alls nbrs : list (list nat)) : bool :=
  forallb (fun me => (length (nth me alls []) =? ns - 1)%nat &&
                     forallb (fun r => (r <? ns)%nat) (nth me alls []) &&
                     forallb (fun r => (r =? me)%nat || existsb (Nat.eqb r) (nth me alls [])) (seq 0 ns) &&
                     forallb (fun r => (r <? ns)%nat) (nth me nbrs []))
          (seq 0 ns).
