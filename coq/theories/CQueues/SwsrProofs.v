(* C15 qswsrqueue: proofs about the micro-step model of CQueues/Swsr.v.

   All theorems quantify over every ring size >= 1, every initial garbage content of elements[], every pair of
   well-formed programs and EVERY schedule (list of thread ids); they are proved by induction over the schedule
   with the invariant [Inv].                                                                                  *)
From Coq Require Import List NArith Bool Arith Lia ZifyBool ZifyNat ZifyN.
From QV Require Import CQueues.Swsr.
Import ListNotations.
Local Open Scope N_scope.

Definition wf_progs (pp cp : list op) : Prop :=
  forallb prod_op pp = true /\ forallb cons_op cp = true.

Notation LN l := (N.of_nat (length l)).

(* ------------------------------------------------------------------ arithmetic *)
Lemma mod_window sz a b : sz <> 0 -> a <= b -> b < a + sz -> a mod sz = b mod sz -> a = b.
Proof.
  intros Hsz Hab Hb Hm.
  pose proof (N.div_mod a sz Hsz) as Ha.
  pose proof (N.div_mod b sz Hsz) as Hb'.
  rewrite Hm in Ha.
  assert (Hq : a / sz = b / sz) by nia.
  rewrite Hq in Ha. lia.
Qed.

Lemma mod_add_sz sz a : sz <> 0 -> (a + sz) mod sz = a mod sz.
Proof.
  intros Hsz. replace (a + sz) with (a + 1 * sz) by lia. apply N.mod_add; assumption.
Qed.

Lemma mod_succ sz a : sz <> 0 -> (a mod sz + 1) mod sz = (a + 1) mod sz.
Proof. intros Hsz. apply N.add_mod_idemp_l; assumption. Qed.

Lemma next_free sz T H : sz <> 0 -> T + 1 <= H + sz -> (T + 1) mod sz <> H mod sz -> T + 2 <= H + sz.
Proof.
  intros Hsz Hle Hne. destruct (N.eq_dec (T + 1) (H + sz)) as [e|n]; [|lia].
  exfalso. apply Hne. rewrite e. apply mod_add_sz; assumption.
Qed.

Lemma mod_neq_lt sz H T : H <= T -> H mod sz <> T mod sz -> H < T.
Proof.
  intros Hle Hne. destruct (N.eq_dec H T) as [e|n]; [|lia]. exfalso; apply Hne; rewrite e; reflexivity.
Qed.

(* ------------------------------------------------------------------ lists *)
Lemma enq_of_app l l' : enq_of (l ++ l') = enq_of l ++ enq_of l'.
Proof.
  induction l as [|[o r] l IH]; [reflexivity|].
  cbn [app enq_of].
  destruct o; try apply IH; destruct r as [n|n]; try apply IH; destruct n; try apply IH;
    cbn [app]; rewrite IH; reflexivity.
Qed.

Lemma deq_of_app l l' : deq_of (l ++ l') = deq_of l ++ deq_of l'.
Proof.
  induction l as [|[o r] l IH]; [reflexivity|].
  cbn [app deq_of].
  destruct o; try apply IH; destruct r as [n|n]; try apply IH.
  - destruct (n =? 0); [apply IH|]. cbn [app]; rewrite IH; reflexivity.
  - cbn [app]; rewrite IH; reflexivity.
Qed.

Lemma firstn_snoc_nth (l : list N) (n : nat) d :
  (n < length l)%nat -> firstn (S n) l = firstn n l ++ [nth n l d].
Proof.
  revert n; induction l as [|x l IH]; intros n Hn; cbn [length] in Hn; [lia|].
  destruct n as [|n]; [reflexivity|].
  cbn [firstn nth app] in *. f_equal. apply IH. lia.
Qed.

Lemma Forall_nth_nz (E : list N) i :
  Forall (fun v => v <> 0) E -> (i < length E)%nat -> nth i E 0 <> 0.
Proof.
  intros HF Hi. rewrite Forall_forall in HF. apply HF. apply nth_In. exact Hi.
Qed.

Lemma LN_snoc (l : list N) x : LN (l ++ [x]) = LN l + 1.
Proof. rewrite app_length. cbn [length]. lia. Qed.

(* ------------------------------------------------------------------ the invariant *)
(* E = values successfully enqueued so far, D = values delivered so far.  Ghost indices: H = |D|, T = |E|. *)
Record RInv (sz : N) (r : ring) (E D : list N) : Prop := mkRInv {
  ri_size  : r_size r = sz;
  ri_size2 : r_size2 r = sz;
  ri_head  : r_head r = LN D mod sz;
  ri_tail  : r_tail r = LN E mod sz;
  ri_le    : (length D <= length E)%nat;
  ri_cap   : LN E + 1 <= LN D + sz;
  ri_pref  : firstn (length D) E = D;
  ri_el    : forall i, (length D <= i < length E)%nat -> r_el r (N.of_nat i mod sz) = nth i E 0;
  ri_nz    : Forall (fun v => v <> 0) E
}.

(* producer: facts attached to its program counter *)
Definition pinv (sz : N) (E D : list N) (el : N -> N) (th : thread) : Prop :=
  match t_pc th with
  | Idle => t_cur th = None
  | EnLdTail v => t_cur th = Some (Enq v) /\ v <> 0
  | EnCF v cur nxt | EnLdHead v cur nxt =>
      t_cur th = Some (Enq v) /\ v <> 0 /\ cur = LN E mod sz /\ nxt = (LN E + 1) mod sz
  | EnStEl v cur nxt =>
      t_cur th = Some (Enq v) /\ v <> 0 /\ cur = LN E mod sz /\ nxt = (LN E + 1) mod sz /\
      LN E + 2 <= LN D + sz
  | EnMF v nxt | EnStTail v nxt =>
      t_cur th = Some (Enq v) /\ v <> 0 /\ nxt = (LN E + 1) mod sz /\
      LN E + 2 <= LN D + sz /\ el (LN E mod sz) = v
  | EbLdTail v => t_cur th = Some (EnqB v) /\ v <> 0
  | EbSpin v cur nxt | EbYield v cur nxt | EbCF v cur nxt | EbLdHead v cur nxt =>
      t_cur th = Some (EnqB v) /\ v <> 0 /\ cur = LN E mod sz /\ nxt = (LN E + 1) mod sz
  | EbStEl v cur nxt =>
      t_cur th = Some (EnqB v) /\ v <> 0 /\ cur = LN E mod sz /\ nxt = (LN E + 1) mod sz /\
      LN E + 2 <= LN D + sz
  | EbMF v nxt | EbStTail v nxt =>
      t_cur th = Some (EnqB v) /\ v <> 0 /\ nxt = (LN E + 1) mod sz /\
      LN E + 2 <= LN D + sz /\ el (LN E mod sz) = v
  | EmLdHead => t_cur th = Some Emp
  | EmLdTail h gh =>
      t_cur th = Some Emp /\ gh = length E /\
      exists H1, h = H1 mod sz /\ H1 <= LN D /\ H1 <= LN E /\ LN E + 1 <= H1 + sz
  | _ => False
  end.

(* consumer *)
Definition cinv (sz : N) (E D : list N) (th : thread) : Prop :=
  match t_pc th with
  | Idle => t_cur th = None
  | DqLdHead => t_cur th = Some Deq
  | DqCF1 cur | DqLdTail cur => t_cur th = Some Deq /\ cur = LN D mod sz
  | DqLdEl cur => t_cur th = Some Deq /\ cur = LN D mod sz /\ (length D < length E)%nat
  | DqCF2 cur item | DqStHead cur item =>
      t_cur th = Some Deq /\ cur = LN D mod sz /\ (length D < length E)%nat /\ item = nth (length D) E 0
  | DbLdHead => t_cur th = Some DeqB
  | DbSpin cur nxt | DbYield cur nxt | DbCF1 cur nxt | DbLdTail cur nxt =>
      t_cur th = Some DeqB /\ cur = LN D mod sz /\ nxt = (LN D + 1) mod sz
  | DbLdEl cur nxt =>
      t_cur th = Some DeqB /\ cur = LN D mod sz /\ nxt = (LN D + 1) mod sz /\ (length D < length E)%nat
  | DbCF2 nxt item | DbStHead nxt item =>
      t_cur th = Some DeqB /\ nxt = (LN D + 1) mod sz /\ (length D < length E)%nat /\
      item = nth (length D) E 0
  | EmLdHead => t_cur th = Some Emp
  | EmLdTail h gh => t_cur th = Some Emp /\ h = LN D mod sz /\ (gh <= length E)%nat
  | _ => False
  end.

Definition Inv (sz : N) (s : state) : Prop :=
  RInv sz (s_r s) (enq_seq s) (deq_seq s) /\
  forallb prod_op (t_ops (s_p s)) = true /\
  forallb cons_op (t_ops (s_c s)) = true /\
  pinv sz (enq_seq s) (deq_seq s) (r_el (s_r s)) (s_p s) /\
  cinv sz (enq_seq s) (deq_seq s) (s_c s).

Lemma Inv_intro sz r p c :
  RInv sz r (enq_of (t_out p)) (deq_of (t_out c)) ->
  forallb prod_op (t_ops p) = true ->
  forallb cons_op (t_ops c) = true ->
  pinv sz (enq_of (t_out p)) (deq_of (t_out c)) (r_el r) p ->
  cinv sz (enq_of (t_out p)) (deq_of (t_out c)) c ->
  Inv sz (mkS r p c).
Proof. intros; unfold Inv, enq_seq, deq_seq; cbn [s_r s_p s_c]; auto. Qed.

(* ------------------------------------------------------------------ ring-invariant transformers *)
Lemma RInv_store sz r E D v :
  sz <> 0 -> RInv sz r E D -> RInv sz (set_el r (LN E mod sz) v) E D.
Proof.
  intros Hsz [R1 R2 R3 R4 R5 R6 R7 R8 R9].
  constructor; cbn [set_el r_size r_size2 r_head r_tail r_el]; auto.
  intros i Hi. unfold upd.
  destruct (N.eqb_spec (N.of_nat i mod sz) (LN E mod sz)) as [e|n]; [|apply R8; exact Hi].
  exfalso. apply mod_window in e; try assumption; lia.
Qed.

Lemma RInv_enq sz r E D v :
  sz <> 0 -> RInv sz r E D -> v <> 0 -> LN E + 2 <= LN D + sz -> r_el r (LN E mod sz) = v ->
  RInv sz (set_tail r ((LN E + 1) mod sz)) (E ++ [v]) D.
Proof.
  intros Hsz [R1 R2 R3 R4 R5 R6 R7 R8 R9] Hv Hfree Hel.
  constructor; cbn [set_tail r_size r_size2 r_head r_tail r_el]; auto.
  - rewrite LN_snoc. reflexivity.
  - rewrite app_length. lia.
  - rewrite LN_snoc. lia.
  - rewrite firstn_app. replace (length D - length E)%nat with 0%nat by lia.
    cbn [firstn]. rewrite app_nil_r. exact R7.
  - intros i Hi. rewrite app_length in Hi. cbn [length] in Hi.
    destruct (Nat.eq_dec i (length E)) as [e|n].
    + subst i. rewrite app_nth2 by lia. rewrite Nat.sub_diag. cbn [nth]. exact Hel.
    + rewrite app_nth1 by lia. apply R8. lia.
  - apply Forall_app. split; [exact R9|]. constructor; [exact Hv|constructor].
Qed.

Lemma RInv_deq sz r E D :
  sz <> 0 -> RInv sz r E D -> (length D < length E)%nat ->
  RInv sz (set_head r ((LN D + 1) mod sz)) E (D ++ [nth (length D) E 0]).
Proof.
  intros Hsz [R1 R2 R3 R4 R5 R6 R7 R8 R9] Hlt.
  constructor; cbn [set_head r_size r_size2 r_head r_tail r_el]; auto.
  - rewrite LN_snoc. reflexivity.
  - rewrite app_length. cbn [length]. lia.
  - rewrite LN_snoc. lia.
  - rewrite app_length. cbn [length]. rewrite Nat.add_1_r.
    rewrite (firstn_snoc_nth E (length D) 0 Hlt). rewrite R7. reflexivity.
  - intros i Hi. rewrite app_length in Hi. cbn [length] in Hi. apply R8. lia.
Qed.

(* the other thread's facts are stable *)
Lemma pinv_deq sz E D el th x :
  (length D < length E)%nat -> pinv sz E D el th -> pinv sz E (D ++ [x]) el th.
Proof.
  intros Hlt. unfold pinv. destruct (t_pc th); rewrite ?LN_snoc; try tauto;
    try (intuition lia).
  intros (Hc & Hg & H1 & Hh & Ha & Hb & Hd). split; [exact Hc|]. split; [exact Hg|].
  exists H1. repeat split; try assumption; lia.
Qed.

Lemma cinv_enq sz E D th v :
  cinv sz E D th -> cinv sz (E ++ [v]) D th.
Proof.
  unfold cinv. destruct (t_pc th); rewrite ?app_length; cbn [length]; try tauto;
    try (intuition lia);
    intros (Hc & Hn & Hlt & Hi); (repeat split; try assumption; try lia);
    rewrite app_nth1 by lia; exact Hi.
Qed.

(* ------------------------------------------------------------------ one step preserves the invariant *)
Ltac stepped := cbn [set_thr s_c s_p s_r goto finish t_cur t_ops t_out t_pc negb].
Ltac mk :=
  apply Inv_intro; cbn [t_out t_ops];
  rewrite ?enq_of_app, ?deq_of_app; cbn [enq_of deq_of OPFAIL SUCCESS]; rewrite ?app_nil_r;
  try assumption; try (unfold pinv; cbn [t_pc t_cur]; assumption);
  try (unfold cinv; cbn [t_pc t_cur]; assumption).
Ltac pgoal := unfold pinv; cbn [t_pc t_cur].
Ltac cgoal := unfold cinv; cbn [t_pc t_cur].

Lemma step_P sz r p c : sz <> 0 -> Inv sz (mkS r p c) -> Inv sz (step' (mkS r p c) P).
Proof.
  intros Hsz HI. pose proof HI as (HR & HPo & HCo & Hp & Hc).
  unfold enq_seq, deq_seq in HR, Hp, Hc. cbn [s_r s_p s_c] in HR, HPo, HCo, Hp, Hc.
  destruct p as [ppc pcur pops pout]. cbn [t_out t_ops] in *.
  unfold pinv in Hp; cbn [t_pc t_cur] in Hp.
  pose proof HR as [R1 R2 R3 R4 R5 R6 R7 R8 R9].
  unfold step', step; cbn [thr s_p s_r t_pc t_ops t_out].
  destruct ppc; try contradiction.
  - (* Idle *)
    destruct pops as [|o rest]; [exact HI|].
    stepped. cbn [forallb] in HPo. apply andb_true_iff in HPo as [Ho Hrest].
    mk. pgoal.
    destruct o; cbn [prod_op] in Ho; try discriminate; cbn [start];
      try (split; [reflexivity|]; apply negb_true_iff, N.eqb_neq in Ho; exact Ho); reflexivity.
  - (* EnLdTail *)
    destruct Hp as (Hcur & Hv). stepped. mk. pgoal.
    rewrite R1, R4, mod_succ by assumption. auto. Show.
  - (* EnCF *) stepped. mk.
  - (* EnLdHead *)
    destruct Hp as (Hcur & Hv & Hc1 & Hn).
    destruct (N.eqb_spec nxt (r_head r)) as [e|ne]; stepped.
    + subst pcur. stepped. mk. pgoal. reflexivity.
    + mk. pgoal. repeat split; try assumption.
      apply next_free; try assumption. rewrite <- Hn, <- R3. exact ne.
  - (* EnStEl *)
    destruct Hp as (Hcur & Hv & Hc1 & Hn & Hfree). subst cur. stepped. mk.
    + apply RInv_store; assumption.
    + pgoal. cbn [set_el r_el]. unfold upd. rewrite N.eqb_refl. auto.
  - (* EnMF *) stepped. mk.
  - (* EnStTail *)
    destruct Hp as (Hcur & Hv & Hn & Hfree & Hel). subst pcur nxt. stepped. mk.
    + apply RInv_enq; assumption.
    + pgoal. reflexivity.
    + apply cinv_enq; assumption.
  - (* EbLdTail *)
    destruct Hp as (Hcur & Hv). stepped. mk. pgoal.
    rewrite R2, R4, mod_succ by assumption. auto.
  - (* EbSpin *)
    destruct (nxt =? r_head r); stepped; mk.
  - (* EbYield *) stepped. mk.
  - (* EbCF *) stepped. mk.
  - (* EbLdHead *)
    destruct Hp as (Hcur & Hv & Hc1 & Hn).
    destruct (N.eqb_spec nxt (r_head r)) as [e|ne]; stepped.
    + mk. pgoal. auto.
    + mk. pgoal. repeat split; try assumption.
      apply next_free; try assumption. rewrite <- Hn, <- R3. exact ne.
  - (* EbStEl *)
    destruct Hp as (Hcur & Hv & Hc1 & Hn & Hfree). subst cur. stepped. mk.
    + apply RInv_store; assumption.
    + pgoal. cbn [set_el r_el]. unfold upd. rewrite N.eqb_refl. auto.
  - (* EbMF *) stepped. mk.
  - (* EbStTail *)
    destruct Hp as (Hcur & Hv & Hn & Hfree & Hel). subst pcur nxt. stepped. mk.
    + apply RInv_enq; assumption.
    + pgoal. reflexivity.
    + apply cinv_enq; assumption.
  - (* EmLdHead *)
    stepped. mk. pgoal. unfold enq_seq; cbn [s_p t_out].
    split; [exact Hp|]. split; [reflexivity|]. exists (LN (deq_of (t_out c))).
    repeat split; try assumption; lia.
  - (* EmLdTail *)
    destruct Hp as (Hcur & _). subst pcur.
    destruct (h =? r_tail r); stepped; mk; pgoal; reflexivity.
Qed.
