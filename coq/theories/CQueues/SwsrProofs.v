(* C15 qswsrqueue: proofs about the micro-step model of CQueues/Swsr.v.

   All theorems quantify over every ring size >= 1, every initial garbage content of elements[], every pair of
   well-formed programs and EVERY schedule (list of thread ids); they are proved by induction over the schedule
   with the invariant [Inv].                                                                                  *)
From Coq Require Import List NArith Bool Arith Lia ZifyBool ZifyNat ZifyN.
From QV Require Import CQueues.Swsr.
Import ListNotations.
Local Open Scope N_scope.

Definition wf_progs (pp cp : list op) : Prop :=
  forallb prod_op pp = true /\ forallb cons_op cp = true.

Local Notation LN l := (N.of_nat (length l)).

(* ------------------------------------------------------------------ arithmetic *)
Lemma mod_window sz a b : sz <> 0 -> a <= b -> b < a + sz -> a mod sz = b mod sz -> a = b.
Proof.
  intros Hsz Hab Hb Hm.
  pose proof (N.div_mod a sz Hsz) as Ha.
  pose proof (N.div_mod b sz Hsz) as Hb'.
  rewrite Hm in Ha.
  assert (Hq : a / sz = b / sz) by nia.
  rewrite Hq in Ha. lia.
Qed.

Lemma mod_add_sz sz a : sz <> 0 -> (a + sz) mod sz = a mod sz.
Proof.
  intros Hsz. replace (a + sz) with (a + 1 * sz) by lia. apply N.mod_add; assumption.
Qed.

Lemma mod_succ sz a : sz <> 0 -> (a mod sz + 1) mod sz = (a + 1) mod sz.
Proof. intros Hsz. apply N.add_mod_idemp_l; assumption. Qed.

Lemma next_free sz T H : sz <> 0 -> T + 1 <= H + sz -> (T + 1) mod sz <> H mod sz -> T + 2 <= H + sz.
Proof.
  intros Hsz Hle Hne. destruct (N.eq_dec (T + 1) (H + sz)) as [e|n]; [|lia].
  exfalso. apply Hne. rewrite e. apply mod_add_sz; assumption.
Qed.

Lemma mod_neq_lt sz H T : H <= T -> H mod sz <> T mod sz -> H < T.
Proof.
  intros Hle Hne. destruct (N.eq_dec H T) as [e|n]; [|lia]. exfalso; apply Hne; rewrite e; reflexivity.
Qed.

(* ------------------------------------------------------------------ lists *)
Lemma enq_of_app l l' : enq_of (l ++ l') = enq_of l ++ enq_of l'.
Proof.
  induction l as [|[o r] l IH]; [reflexivity|].
  cbn [app enq_of].
  destruct o; try apply IH; destruct r as [n|n]; try apply IH; destruct n; try apply IH;
    cbn [app]; rewrite IH; reflexivity.
Qed.

Lemma deq_of_app l l' : deq_of (l ++ l') = deq_of l ++ deq_of l'.
Proof.
  induction l as [|[o r] l IH]; [reflexivity|].
  cbn [app deq_of].
  destruct o; try apply IH; destruct r as [n|n]; try apply IH.
  - destruct (n =? 0); [apply IH|]. cbn [app]; rewrite IH; reflexivity.
  - cbn [app]; rewrite IH; reflexivity.
Qed.

Lemma firstn_snoc_nth (l : list N) (n : nat) d :
  (n < length l)%nat -> firstn (S n) l = firstn n l ++ [nth n l d].
Proof.
  revert n; induction l as [|x l IH]; intros n Hn; cbn [length] in Hn; [lia|].
  destruct n as [|n]; [reflexivity|].
  cbn [firstn nth app] in *. f_equal. apply IH. lia.
Qed.

Lemma Forall_nth_nz (E : list N) i :
  Forall (fun v => v <> 0) E -> (i < length E)%nat -> nth i E 0 <> 0.
Proof.
  intros HF Hi. rewrite Forall_forall in HF. apply HF. apply nth_In. exact Hi.
Qed.

Lemma LN_snoc (l : list N) x : LN (l ++ [x]) = LN l + 1.
Proof. rewrite app_length. cbn [length]. lia. Qed.

(* ------------------------------------------------------------------ the invariant *)
(* E = values successfully enqueued so far, D = values delivered so far.  Ghost indices: H = |D|, T = |E|. *)
Record RInv (sz : N) (r : ring) (E D : list N) : Prop := mkRInv {
  ri_size  : r_size r = sz;
  ri_size2 : r_size2 r = sz;
  ri_head  : r_head r = LN D mod sz;
  ri_tail  : r_tail r = LN E mod sz;
  ri_le    : (length D <= length E)%nat;
  ri_cap   : LN E + 1 <= LN D + sz;
  ri_pref  : firstn (length D) E = D;
  ri_el    : forall i, (length D <= i < length E)%nat -> r_el r (N.of_nat i mod sz) = nth i E 0;
  ri_nz    : Forall (fun v => v <> 0) E
}.

(* producer: facts attached to its program counter *)
Definition pinv (sz : N) (E D : list N) (el : N -> N) (th : thread) : Prop :=
  match t_pc th with
  | Idle => t_cur th = None
  | EnLdTail v => t_cur th = Some (Enq v) /\ v <> 0
  | EnCF v cur nxt | EnLdHead v cur nxt =>
      t_cur th = Some (Enq v) /\ v <> 0 /\ cur = LN E mod sz /\ nxt = (LN E + 1) mod sz
  | EnStEl v cur nxt =>
      t_cur th = Some (Enq v) /\ v <> 0 /\ cur = LN E mod sz /\ nxt = (LN E + 1) mod sz /\
      LN E + 2 <= LN D + sz
  | EnMF v nxt | EnStTail v nxt =>
      t_cur th = Some (Enq v) /\ v <> 0 /\ nxt = (LN E + 1) mod sz /\
      LN E + 2 <= LN D + sz /\ el (LN E mod sz) = v
  | EbLdTail v => t_cur th = Some (EnqB v) /\ v <> 0
  | EbSpin v cur nxt | EbYield v cur nxt | EbCF v cur nxt | EbLdHead v cur nxt =>
      t_cur th = Some (EnqB v) /\ v <> 0 /\ cur = LN E mod sz /\ nxt = (LN E + 1) mod sz
  | EbStEl v cur nxt =>
      t_cur th = Some (EnqB v) /\ v <> 0 /\ cur = LN E mod sz /\ nxt = (LN E + 1) mod sz /\
      LN E + 2 <= LN D + sz
  | EbMF v nxt | EbStTail v nxt =>
      t_cur th = Some (EnqB v) /\ v <> 0 /\ nxt = (LN E + 1) mod sz /\
      LN E + 2 <= LN D + sz /\ el (LN E mod sz) = v
  | EmLdHead => t_cur th = Some Emp
  | EmLdTail h gh =>
      t_cur th = Some Emp /\ gh = length E /\
      exists H1, h = H1 mod sz /\ H1 <= LN D /\ H1 <= LN E /\ LN E + 1 <= H1 + sz
  | _ => False
  end.

(* consumer *)
Definition cinv (sz : N) (E D : list N) (th : thread) : Prop :=
  match t_pc th with
  | Idle => t_cur th = None
  | DqLdHead => t_cur th = Some Deq
  | DqCF1 cur | DqLdTail cur => t_cur th = Some Deq /\ cur = LN D mod sz
  | DqLdEl cur => t_cur th = Some Deq /\ cur = LN D mod sz /\ (length D < length E)%nat
  | DqCF2 cur item | DqStHead cur item =>
      t_cur th = Some Deq /\ cur = LN D mod sz /\ (length D < length E)%nat /\ item = nth (length D) E 0
  | DbLdHead => t_cur th = Some DeqB
  | DbSpin cur nxt | DbYield cur nxt | DbCF1 cur nxt | DbLdTail cur nxt =>
      t_cur th = Some DeqB /\ cur = LN D mod sz /\ nxt = (LN D + 1) mod sz
  | DbLdEl cur nxt =>
      t_cur th = Some DeqB /\ cur = LN D mod sz /\ nxt = (LN D + 1) mod sz /\ (length D < length E)%nat
  | DbCF2 nxt item | DbStHead nxt item =>
      t_cur th = Some DeqB /\ nxt = (LN D + 1) mod sz /\ (length D < length E)%nat /\
      item = nth (length D) E 0
  | EmLdHead => t_cur th = Some Emp
  | EmLdTail h gh => t_cur th = Some Emp /\ h = LN D mod sz /\ (gh <= length E)%nat
  | _ => False
  end.

Definition Inv (sz : N) (s : state) : Prop :=
  RInv sz (s_r s) (enq_seq s) (deq_seq s) /\
  forallb prod_op (t_ops (s_p s)) = true /\
  forallb cons_op (t_ops (s_c s)) = true /\
  pinv sz (enq_seq s) (deq_seq s) (r_el (s_r s)) (s_p s) /\
  cinv sz (enq_seq s) (deq_seq s) (s_c s).

Lemma Inv_intro sz r p c :
  RInv sz r (enq_of (t_out p)) (deq_of (t_out c)) ->
  forallb prod_op (t_ops p) = true ->
  forallb cons_op (t_ops c) = true ->
  pinv sz (enq_of (t_out p)) (deq_of (t_out c)) (r_el r) p ->
  cinv sz (enq_of (t_out p)) (deq_of (t_out c)) c ->
  Inv sz (mkS r p c).
Proof. intros; unfold Inv, enq_seq, deq_seq; cbn [s_r s_p s_c]; auto. Qed.

(* ------------------------------------------------------------------ ring-invariant transformers *)
Lemma RInv_store sz r E D v :
  sz <> 0 -> RInv sz r E D -> RInv sz (set_el r (LN E mod sz) v) E D.
Proof.
  intros Hsz [R1 R2 R3 R4 R5 R6 R7 R8 R9].
  constructor; cbn [set_el r_size r_size2 r_head r_tail r_el]; auto.
  intros i Hi. unfold upd.
  destruct (N.eqb_spec (N.of_nat i mod sz) (LN E mod sz)) as [e|n]; [|apply R8; exact Hi].
  exfalso. apply mod_window in e; try assumption; lia.
Qed.

Lemma RInv_enq sz r E D v :
  sz <> 0 -> RInv sz r E D -> v <> 0 -> LN E + 2 <= LN D + sz -> r_el r (LN E mod sz) = v ->
  RInv sz (set_tail r ((LN E + 1) mod sz)) (E ++ [v]) D.
Proof.
  intros Hsz [R1 R2 R3 R4 R5 R6 R7 R8 R9] Hv Hfree Hel.
  constructor; cbn [set_tail r_size r_size2 r_head r_tail r_el]; auto.
  - rewrite LN_snoc. reflexivity.
  - rewrite app_length. lia.
  - rewrite LN_snoc. lia.
  - rewrite firstn_app. replace (length D - length E)%nat with 0%nat by lia.
    cbn [firstn]. rewrite app_nil_r. exact R7.
  - intros i Hi. rewrite app_length in Hi. cbn [length] in Hi.
    destruct (Nat.eq_dec i (length E)) as [e|n].
    + subst i. rewrite app_nth2 by lia. rewrite Nat.sub_diag. cbn [nth]. exact Hel.
    + rewrite app_nth1 by lia. apply R8. lia.
  - apply Forall_app. split; [exact R9|]. constructor; [exact Hv|constructor].
Qed.

Lemma RInv_deq sz r E D :
  sz <> 0 -> RInv sz r E D -> (length D < length E)%nat ->
  RInv sz (set_head r ((LN D + 1) mod sz)) E (D ++ [nth (length D) E 0]).
Proof.
  intros Hsz [R1 R2 R3 R4 R5 R6 R7 R8 R9] Hlt.
  constructor; cbn [set_head r_size r_size2 r_head r_tail r_el]; auto.
  - rewrite LN_snoc. reflexivity.
  - rewrite app_length. cbn [length]. lia.
  - rewrite LN_snoc. lia.
  - rewrite app_length. cbn [length]. rewrite Nat.add_1_r.
    rewrite (firstn_snoc_nth E (length D) 0 Hlt). rewrite R7. reflexivity.
  - intros i Hi. rewrite app_length in Hi. cbn [length] in Hi. apply R8. lia.
Qed.

(* the other thread's facts are stable *)
Lemma pinv_deq sz E D el th x :
  (length D < length E)%nat -> pinv sz E D el th -> pinv sz E (D ++ [x]) el th.
Proof.
  intros Hlt. unfold pinv. destruct (t_pc th); rewrite ?LN_snoc; try tauto;
    try (intuition lia).
  intros (Hc & Hg & H1 & Hh & Ha & Hb & Hd). split; [exact Hc|]. split; [exact Hg|].
  exists H1. repeat split; try assumption; lia.
Qed.

Lemma cinv_enq sz E D th v :
  cinv sz E D th -> cinv sz (E ++ [v]) D th.
Proof.
  unfold cinv. destruct (t_pc th); rewrite ?app_length; cbn [length]; try tauto;
    try (intuition lia);
    intros (Hc & Hn & Hlt & Hi); (repeat split; try assumption; try lia);
    rewrite app_nth1 by lia; exact Hi.
Qed.

(* ------------------------------------------------------------------ one step preserves the invariant *)
Local Ltac stepped :=
  cbn [set_thr s_c s_p s_r negb]; unfold goto, finish; cbn [set_thr s_c s_p s_r t_cur t_ops t_out t_pc negb].
Local Ltac mk :=
  apply Inv_intro; cbn [t_out t_ops];
  rewrite ?enq_of_app, ?deq_of_app; cbn [enq_of deq_of OPFAIL SUCCESS]; rewrite ?app_nil_r;
  try assumption; try (unfold pinv; cbn [t_pc t_cur]; assumption);
  try (unfold cinv; cbn [t_pc t_cur]; assumption).
Local Ltac pgoal := unfold pinv; cbn [t_pc t_cur].
Local Ltac cgoal := unfold cinv; cbn [t_pc t_cur].

Lemma step_P sz r p c : sz <> 0 -> Inv sz (mkS r p c) -> Inv sz (step' (mkS r p c) P).
Proof.
  intros Hsz HI. pose proof HI as (HR & HPo & HCo & Hp & Hc).
  unfold enq_seq, deq_seq in HR, Hp, Hc. cbn [s_r s_p s_c] in HR, HPo, HCo, Hp, Hc.
  destruct p as [ppc pcur pops pout]. cbn [t_out t_ops] in *.
  unfold pinv in Hp; cbn [t_pc t_cur] in Hp.
  pose proof HR as [R1 R2 R3 R4 R5 R6 R7 R8 R9].
  unfold step', step; cbn [thr s_p s_r t_pc t_ops t_out].
  destruct ppc; try contradiction.
  - (* Idle *)
    destruct pops as [|o rest]; [exact HI|].
    stepped. cbn [forallb] in HPo. apply andb_true_iff in HPo as [Ho Hrest].
    mk. pgoal.
    destruct o; cbn [prod_op] in Ho; try discriminate; cbn [start];
      try (split; [reflexivity|]; apply negb_true_iff, N.eqb_neq in Ho; exact Ho); reflexivity.
  - (* EnLdTail *)
    destruct Hp as (Hcur & Hv). stepped. mk. pgoal.
    rewrite R1, R4, mod_succ by assumption. auto.
  - (* EnCF *) stepped. mk.
  - (* EnLdHead *)
    destruct Hp as (Hcur & Hv & Hc1 & Hn).
    destruct (N.eqb_spec nxt (r_head r)) as [e|ne]; stepped.
    + subst pcur. stepped. mk. pgoal. reflexivity.
    + mk. pgoal. repeat split; try assumption.
      apply next_free; try assumption. rewrite <- Hn, <- R3. exact ne.
  - (* EnStEl *)
    destruct Hp as (Hcur & Hv & Hc1 & Hn & Hfree). subst cur. stepped. mk.
    + apply RInv_store; assumption.
    + pgoal. cbn [set_el r_el]. unfold upd. rewrite N.eqb_refl. auto.
  - (* EnMF *) stepped. mk.
  - (* EnStTail *)
    destruct Hp as (Hcur & Hv & Hn & Hfree & Hel). subst pcur nxt. stepped. mk.
    + apply RInv_enq; assumption.
    + pgoal. reflexivity.
    + apply cinv_enq; assumption.
  - (* EbLdTail *)
    destruct Hp as (Hcur & Hv). stepped. mk. pgoal.
    rewrite R2, R4, mod_succ by assumption. auto.
  - (* EbSpin *)
    destruct (nxt =? r_head r); stepped; mk.
  - (* EbYield *) stepped. mk.
  - (* EbCF *) stepped. mk.
  - (* EbLdHead *)
    destruct Hp as (Hcur & Hv & Hc1 & Hn).
    destruct (N.eqb_spec nxt (r_head r)) as [e|ne]; stepped.
    + mk. pgoal. auto.
    + mk. pgoal. repeat split; try assumption.
      apply next_free; try assumption. rewrite <- Hn, <- R3. exact ne.
  - (* EbStEl *)
    destruct Hp as (Hcur & Hv & Hc1 & Hn & Hfree). subst cur. stepped. mk.
    + apply RInv_store; assumption.
    + pgoal. cbn [set_el r_el]. unfold upd. rewrite N.eqb_refl. auto.
  - (* EbMF *) stepped. mk.
  - (* EbStTail *)
    destruct Hp as (Hcur & Hv & Hn & Hfree & Hel). subst pcur nxt. stepped. mk.
    + apply RInv_enq; assumption.
    + pgoal. reflexivity.
    + apply cinv_enq; assumption.
  - (* EmLdHead *)
    stepped. mk. pgoal. unfold enq_seq; cbn [s_p t_out].
    split; [exact Hp|]. split; [reflexivity|]. exists (LN (deq_of (t_out c))).
    repeat split; try assumption; lia.
  - (* EmLdTail *)
    destruct Hp as (Hcur & _). subst pcur.
    destruct (h =? r_tail r); stepped; mk; pgoal; reflexivity.
Qed.

Lemma step_C sz r p c : sz <> 0 -> Inv sz (mkS r p c) -> Inv sz (step' (mkS r p c) C).
Proof.
  intros Hsz HI. pose proof HI as (HR & HPo & HCo & Hp & Hc).
  unfold enq_seq, deq_seq in HR, Hp, Hc. cbn [s_r s_p s_c] in HR, HPo, HCo, Hp, Hc.
  destruct c as [cpc ccur cops cout]. cbn [t_out t_ops] in *.
  unfold cinv in Hc; cbn [t_pc t_cur] in Hc.
  pose proof HR as [R1 R2 R3 R4 R5 R6 R7 R8 R9].
  unfold step', step; cbn [thr s_c s_r t_pc t_ops t_out].
  destruct cpc; try contradiction.
  - (* Idle *)
    destruct cops as [|o rest]; [exact HI|].
    stepped. cbn [forallb] in HCo. apply andb_true_iff in HCo as [Ho Hrest].
    mk. cgoal.
    destruct o; cbn [cons_op] in Ho; try discriminate; cbn [start]; reflexivity.
  - (* DqLdHead *) stepped. mk. cgoal. auto.
  - (* DqCF1 *) stepped. mk.
  - (* DqLdTail *)
    destruct Hc as (Hcur & Hc1).
    destruct (N.eqb_spec cur (r_tail r)) as [e|ne]; stepped.
    + subst ccur. stepped. mk. cgoal. reflexivity.
    + mk. cgoal. repeat split; try assumption.
      assert (LN (deq_of cout) < LN (enq_of (t_out p))); [|lia].
      apply (mod_neq_lt sz); [lia|]. rewrite <- Hc1, <- R4. exact ne.
  - (* DqLdEl *)
    destruct Hc as (Hcur & Hc1 & Hlt). stepped. mk. cgoal. repeat split; try assumption.
    subst cur. apply R8. lia.
  - (* DqCF2 *) stepped. mk.
  - (* DqStHead *)
    destruct Hc as (Hcur & Hc1 & Hlt & Hitem). subst ccur cur. stepped.
    assert (Hnz : item <> 0) by (subst item; apply Forall_nth_nz; assumption).
    apply N.eqb_neq in Hnz.
    mk; rewrite ?Hnz.
    + rewrite R1, mod_succ by assumption. subst item. apply RInv_deq; assumption.
    + apply pinv_deq; assumption.
    + cgoal. reflexivity.
  - (* DbLdHead *)
    stepped. mk. cgoal. rewrite R1, R3, mod_succ by assumption. auto.
  - (* DbSpin *)
    destruct (cur =? r_tail r); stepped; mk.
  - (* DbYield *) stepped. mk.
  - (* DbCF1 *) stepped. mk.
  - (* DbLdTail *)
    destruct Hc as (Hcur & Hc1 & Hn).
    destruct (N.eqb_spec cur (r_tail r)) as [e|ne]; stepped.
    + mk. cgoal. auto.
    + mk. cgoal. repeat split; try assumption.
      assert (LN (deq_of cout) < LN (enq_of (t_out p))); [|lia].
      apply (mod_neq_lt sz); [lia|]. rewrite <- Hc1, <- R4. exact ne.
  - (* DbLdEl *)
    destruct Hc as (Hcur & Hc1 & Hn & Hlt). stepped. mk. cgoal. repeat split; try assumption.
    subst cur. apply R8. lia.
  - (* DbCF2 *) stepped. mk.
  - (* DbStHead *)
    destruct Hc as (Hcur & Hn & Hlt & Hitem). subst ccur nxt. stepped.
    mk.
    + subst item. apply RInv_deq; assumption.
    + apply pinv_deq; assumption.
    + cgoal. reflexivity.
  - (* EmLdHead *)
    stepped. mk. cgoal. unfold enq_seq; cbn [s_p t_out]. auto.
  - (* EmLdTail *)
    destruct Hc as (Hcur & _). subst ccur.
    destruct (h =? r_tail r); stepped; mk; cgoal; reflexivity.
Qed.

Lemma step_inv sz s t : sz <> 0 -> Inv sz s -> Inv sz (step' s t).
Proof. destruct s as [r p c]; destruct t; [apply step_P|apply step_C]. Qed.

Lemma run_inv sz sched : sz <> 0 -> forall s, Inv sz s -> Inv sz (run s sched).
Proof.
  intros Hsz. induction sched as [|t sched IH]; intros s HI; [exact HI|].
  cbn [run fold_left]. apply IH. apply step_inv; assumption.
Qed.

Lemma init_inv size g pp cp : 1 <= size -> wf_progs pp cp -> Inv size (init size g pp cp).
Proof.
  intros Hsz [Hpp Hcp]. unfold init. apply Inv_intro; cbn [t_out t_ops enq_of deq_of]; try assumption;
    try reflexivity.
  assert (size <> 0) by lia.
  constructor; cbn [ring_init r_size r_size2 r_head r_tail r_el length firstn]; try reflexivity;
    try (rewrite N.mod_0_l by assumption; reflexivity); try lia.
  constructor.
Qed.

Lemma reach_inv size g pp cp sched :
  1 <= size -> wf_progs pp cp -> Inv size (run (init size g pp cp) sched).
Proof. intros Hsz Hwf. apply run_inv; [lia|]. apply init_inv; assumption. Qed.

(* ------------------------------------------------------------------ the theorems *)

(* 1. FIFO / no loss, no duplication, no invention: what has been dequeued is a prefix of what was enqueued *)
Theorem swsr_fifo : forall size g pp cp sched,
  1 <= size -> wf_progs pp cp ->
  exists rest, enq_seq (run (init size g pp cp) sched) = deq_seq (run (init size g pp cp) sched) ++ rest.
Proof.
  intros size g pp cp sched Hsz Hwf.
  destruct (reach_inv size g pp cp sched Hsz Hwf) as ([R1 R2 R3 R4 R5 R6 R7 R8 R9] & _).
  exists (skipn (length (deq_seq (run (init size g pp cp) sched))) (enq_seq (run (init size g pp cp) sched))).
  pose proof (firstn_skipn (length (deq_seq (run (init size g pp cp) sched)))
                (enq_seq (run (init size g pp cp) sched))) as Hfs.
  rewrite R7 in Hfs. symmetry. exact Hfs.
Qed.

(* 2. at most size-1 undelivered elements: no slot is overwritten before it is consumed *)
Theorem swsr_capacity : forall size g pp cp sched,
  1 <= size -> wf_progs pp cp ->
  let s := run (init size g pp cp) sched in
  (length (enq_seq s) <= length (deq_seq s) + N.to_nat size - 1)%nat.
Proof.
  intros size g pp cp sched Hsz Hwf s.
  destruct (reach_inv size g pp cp sched Hsz Hwf) as ([R1 R2 R3 R4 R5 R6 R7 R8 R9] & _).
  fold s in R6. lia.
Qed.

(* 3. dequeue returns NULL only if every successfully enqueued element has been delivered *)
Theorem swsr_deq_null_sound : forall size g pp cp sched,
  1 <= size -> wf_progs pp cp ->
  let s := run (init size g pp cp) sched in
  forall cur s', t_pc (s_c s) = DqLdTail cur -> step s C = Some (s', KEnd (RPtr 0)) ->
  deq_seq s = enq_seq s.
Proof.
  intros size g pp cp sched Hsz Hwf s cur s' Hpc Hstep.
  destruct (reach_inv size g pp cp sched Hsz Hwf) as ([R1 R2 R3 R4 R5 R6 R7 R8 R9] & _ & _ & _ & Hc).
  fold s in R1, R2, R3, R4, R5, R6, R7, R8, R9, Hc.
  unfold cinv in Hc. rewrite Hpc in Hc. destruct Hc as (_ & Hcur).
  unfold step in Hstep. cbn [thr] in Hstep. rewrite Hpc in Hstep.
  destruct (N.eqb_spec cur (r_tail (s_r s))) as [e|ne]; [|discriminate Hstep].
  rewrite Hcur, R4 in e. apply mod_window in e; try lia.
  assert (Hlen : length (deq_seq s) = length (enq_seq s)) by lia.
  rewrite <- R7. rewrite Hlen. apply firstn_all.
Qed.

(* 4. empty() = 1 implies that every enqueue completed before the test read head has been delivered *)
Theorem swsr_empty_sound : forall size g pp cp sched,
  1 <= size -> wf_progs pp cp ->
  let s := run (init size g pp cp) sched in
  forall t h gh s', t_pc (thr s t) = EmLdTail h gh -> step s t = Some (s', KEnd (RInt 1)) ->
  (gh <= length (deq_seq s))%nat.
Proof.
  intros size g pp cp sched Hsz Hwf s t h gh s' Hpc Hstep.
  destruct (reach_inv size g pp cp sched Hsz Hwf) as ([R1 R2 R3 R4 R5 R6 R7 R8 R9] & _ & _ & Hp & Hc).
  fold s in R1, R2, R3, R4, R5, R6, R7, R8, R9, Hp, Hc.
  unfold step in Hstep. rewrite Hpc in Hstep.
  destruct (N.eqb_spec h (r_tail (s_r s))) as [e|ne]; [|discriminate Hstep].
  rewrite R4 in e.
  destruct t; cbn [thr] in Hpc.
  - unfold pinv in Hp. rewrite Hpc in Hp. destruct Hp as (_ & Hg & H1 & Hh & Ha & Hb & Hd).
    rewrite Hh in e. apply mod_window in e; try lia.
  - unfold cinv in Hc. rewrite Hpc in Hc. destruct Hc as (_ & Hh & Hg).
    rewrite Hh in e. apply mod_window in e; try lia.
Qed.

(* 5. dequeue_blocking completes only with the real next element *)
Theorem swsr_deqb_real : forall size g pp cp sched,
  1 <= size -> wf_progs pp cp ->
  let s := run (init size g pp cp) sched in
  forall nxt item, t_pc (s_c s) = DbStHead nxt item ->
  (length (deq_seq s) < length (enq_seq s))%nat /\ nth (length (deq_seq s)) (enq_seq s) 0 = item.
Proof.
  intros size g pp cp sched Hsz Hwf s nxt item Hpc.
  destruct (reach_inv size g pp cp sched Hsz Hwf) as (_ & _ & _ & _ & Hc).
  fold s in Hc. unfold cinv in Hc. rewrite Hpc in Hc. destruct Hc as (_ & _ & Hlt & Hi).
  split; [exact Hlt|symmetry; exact Hi].
Qed.

(* the same for the non-blocking dequeue *)
Theorem swsr_deq_real : forall size g pp cp sched,
  1 <= size -> wf_progs pp cp ->
  let s := run (init size g pp cp) sched in
  forall cur item, t_pc (s_c s) = DqStHead cur item ->
  (length (deq_seq s) < length (enq_seq s))%nat /\ nth (length (deq_seq s)) (enq_seq s) 0 = item.
Proof.
  intros size g pp cp sched Hsz Hwf s cur item Hpc.
  destruct (reach_inv size g pp cp sched Hsz Hwf) as (_ & _ & _ & _ & Hc).
  fold s in Hc. unfold cinv in Hc. rewrite Hpc in Hc. destruct Hc as (_ & _ & Hlt & Hi).
  split; [exact Hlt|symmetry; exact Hi].
Qed.

(* 6. enqueue_blocking stores the new tail only when a free slot exists *)
Theorem swsr_enqb_free_slot : forall size g pp cp sched,
  1 <= size -> wf_progs pp cp ->
  let s := run (init size g pp cp) sched in
  forall v nxt, t_pc (s_p s) = EbStTail v nxt ->
  (length (enq_seq s) + 1 <= length (deq_seq s) + N.to_nat size - 1)%nat.
Proof.
  intros size g pp cp sched Hsz Hwf s v nxt Hpc.
  destruct (reach_inv size g pp cp sched Hsz Hwf) as (_ & _ & _ & Hp & _).
  fold s in Hp. unfold pinv in Hp. rewrite Hpc in Hp. destruct Hp as (_ & _ & _ & Hfree & _). lia.
Qed.

Theorem swsr_enq_free_slot : forall size g pp cp sched,
  1 <= size -> wf_progs pp cp ->
  let s := run (init size g pp cp) sched in
  forall v nxt, t_pc (s_p s) = EnStTail v nxt ->
  (length (enq_seq s) + 1 <= length (deq_seq s) + N.to_nat size - 1)%nat.
Proof.
  intros size g pp cp sched Hsz Hwf s v nxt Hpc.
  destruct (reach_inv size g pp cp sched Hsz Hwf) as (_ & _ & _ & Hp & _).
  fold s in Hp. unfold pinv in Hp. rewrite Hpc in Hp. destruct Hp as (_ & _ & _ & Hfree & _). lia.
Qed.

(* 7. nothing dequeued is NULL (so DeqB never returns NULL or garbage) *)
Theorem swsr_deq_nonnull : forall size g pp cp sched,
  1 <= size -> wf_progs pp cp ->
  let s := run (init size g pp cp) sched in
  Forall (fun v => v <> 0) (deq_seq s).
Proof.
  intros size g pp cp sched Hsz Hwf s.
  destruct (swsr_fifo size g pp cp sched Hsz Hwf) as [rest Hrest]. fold s in Hrest.
  destruct (reach_inv size g pp cp sched Hsz Hwf) as ([R1 R2 R3 R4 R5 R6 R7 R8 R9] & _).
  fold s in R9. rewrite Hrest in R9. apply Forall_app in R9. exact (proj1 R9).
Qed.

(* ------------------------------------------------------------------ 8. create: the size rounding *)
Theorem create_size_spec : forall cw ps e sz,
  0 < ps -> ps <= cw -> create_size cw ps e = Some sz ->
  e <= sz /\ 1 <= sz /\ sz mod cw = 0 /\ cw / ps <= sz /\ cw <= sz /\ sz <= UINT32_MAX.
Proof.
  intros cw ps e sz Hps Hcw Hc.
  assert (Hps0 : ps <> 0) by lia. assert (Hcw0 : cw <> 0) by lia.
  unfold create_size in Hc.
  set (e1 := if e * ps <? cw then cw / ps else e) in Hc.
  set (e2 := if negb (e1 mod cw =? 0) then e1 + (cw - e1 mod cw) else e1) in Hc.
  assert (Hq1 : 1 <= cw / ps) by (apply N.div_le_lower_bound; [assumption|lia]).
  assert (He1 : e <= e1 /\ cw / ps <= e1).
  { unfold e1. destruct (N.ltb_spec (e * ps) cw) as [Hlt|Hge].
    - split; [|lia]. apply N.div_le_lower_bound; [assumption|lia].
    - split; [lia|]. apply N.div_le_upper_bound; [assumption|lia]. }
  assert (He2 : e1 <= e2 /\ e2 mod cw = 0).
  { unfold e2. destruct (N.eqb_spec (e1 mod cw) 0) as [Hz|Hnz]; cbn [negb].
    - split; [lia|exact Hz].
    - pose proof (N.mod_lt e1 cw Hcw0) as Hlt. split; [lia|].
      pose proof (N.div_mod e1 cw Hcw0) as Hdm.
      replace (e1 + (cw - e1 mod cw)) with ((e1 / cw + 1) * cw) by lia.
      apply N.mod_mul; assumption. }
  destruct (N.ltb_spec UINT32_MAX e2) as [Hbig|Hok]; [discriminate Hc|].
  injection Hc as Hsz. rewrite <- Hsz.
  destruct He1 as [Ha Hb]. destruct He2 as [Hc' Hd].
  assert (Hcwle : cw <= e2).
  { pose proof (N.div_mod e2 cw Hcw0) as Hdm. rewrite Hd in Hdm.
    destruct (N.eq_dec (e2 / cw) 0) as [Hz|Hnz]; [rewrite Hz in Hdm; lia|nia]. }
  repeat split; try assumption; lia.
Qed.

Corollary create_size_ge2 : forall cw ps e sz,
  0 < ps -> 2 * ps <= cw -> create_size cw ps e = Some sz -> 2 <= sz.
Proof.
  intros cw ps e sz Hps Hcw Hc.
  destruct (create_size_spec cw ps e sz Hps ltac:(lia) Hc) as (_ & _ & _ & _ & Hle & _). lia.
Qed.

(* with the real constants (CACHELINE_WIDTH = 64, sizeof(void* ) = 8) a created ring satisfies the premise
   [1 <= size] of the theorems above *)
Corollary create_size_premise : forall e sz, create_size 64 8 e = Some sz -> 1 <= sz /\ 64 <= sz.
Proof.
  intros e sz Hc.
  destruct (create_size_spec 64 8 e sz ltac:(lia) ltac:(lia) Hc) as (_ & H1 & _ & _ & Hle & _).
  split; assumption.
Qed.

(* ------------------------------------------------------------------ 9. the hypotheses are satisfiable *)
Fixpoint sched_rep {A} (n : nat) (l : list A) : list A := match n with O => [] | S k => l ++ sched_rep k l end.

Definition ex_garbage : N -> N := fun _ => 999.
Definition ex_pp := [EnqB 1; EnqB 2; EnqB 3; EnqB 4; EnqB 5; EnqB 6].
Definition ex_cp := [DeqB; DeqB; DeqB; DeqB; DeqB; DeqB].

(* ring of size 4 (3 usable slots): the consumer first spins on the empty ring, the producer fills the ring and
   spins on the full ring, then both make progress and the indices wrap (6 elements through 4 slots)          *)
Definition ex_sched : list tid := sched_rep 5 [C] ++ sched_rep 40 [P] ++ sched_rep 20 [C] ++ sched_rep 60 [P; P; C] ++ sched_rep 40 [C].

Example ex_full_ring :
  let s := run (init 4 ex_garbage ex_pp ex_cp) (sched_rep 5 [C] ++ sched_rep 40 [P]) in
  (enq_seq s, deq_seq s, r_head (s_r s), r_tail (s_r s), t_pc (s_p s), t_pc (s_c s), contents (s_r s)) =
  ([1; 2; 3], [], 0, 3, EbSpin 4 3 0, DbYield 0 1, [1; 2; 3]).
Proof. vm_compute. reflexivity. Qed.

Example ex_wrap :
  let s := run (init 4 ex_garbage ex_pp ex_cp) ex_sched in
  (deq_seq s, enq_seq s, r_head (s_r s), r_tail (s_r s), t_pc (s_p s), t_pc (s_c s)) =
  ([1; 2; 3; 4; 5; 6], [1; 2; 3; 4; 5; 6], 2, 2, Idle, Idle).
Proof. vm_compute. reflexivity. Qed.

(* hypothesis of swsr_deqb_real is reachable *)
Example ex_reach_DbStHead :
  let s := run (init 4 ex_garbage [EnqB 7] [DeqB]) (sched_rep 8 [P] ++ sched_rep 7 [C]) in
  t_pc (s_c s) = DbStHead 1 7 /\ enq_seq s = [7] /\ deq_seq s = [].
Proof. vm_compute. auto. Qed.

(* hypothesis of swsr_enqb_free_slot is reachable *)
Example ex_reach_EbStTail :
  let s := run (init 4 ex_garbage [EnqB 7] [DeqB]) (sched_rep 7 [P]) in
  t_pc (s_p s) = EbStTail 7 1.
Proof. vm_compute. reflexivity. Qed.

(* hypotheses of swsr_empty_sound are reachable, for either thread, with a non-zero ghost *)
Example ex_reach_EmLdTail_P :
  let s := run (init 4 ex_garbage [EnqB 7; Emp] [DeqB]) (sched_rep 8 [P] ++ sched_rep 8 [C] ++ sched_rep 2 [P]) in
  t_pc (thr s P) = EmLdTail 1 1 /\
  (exists s', step s P = Some (s', KEnd (RInt 1))) /\ deq_seq s = [7].
Proof. vm_compute. split; [reflexivity|]. split; [eexists; reflexivity|reflexivity]. Qed.

Example ex_reach_EmLdTail_C :
  let s := run (init 4 ex_garbage [EnqB 7] [DeqB; Emp]) (sched_rep 8 [P] ++ sched_rep 10 [C]) in
  t_pc (thr s C) = EmLdTail 1 1 /\
  (exists s', step s C = Some (s', KEnd (RInt 1))) /\ deq_seq s = [7].
Proof. vm_compute. split; [reflexivity|]. split; [eexists; reflexivity|reflexivity]. Qed.

(* hypotheses of swsr_deq_null_sound are reachable *)
Example ex_reach_DqLdTail :
  let s := run (init 4 ex_garbage [Emp] [Deq]) [C; C; C] in
  t_pc (s_c s) = DqLdTail 0 /\ (exists s', step s C = Some (s', KEnd (RPtr 0))).
Proof. vm_compute. split; [reflexivity|eexists; reflexivity]. Qed.
