(* C15 hazard pointers: executable model of the reclamation scan in src/hazardptrs.c (definitions only).

   Pointers are N (< 2^64).  void_cmp subtracts two intptr_t and returns the result as `int`: the difference is
   truncated to 32 bits (2^32 divides 2^64, so the 64-bit wrap of the subtraction does not matter).
   binary_search and the free/keep loop of hazardous_scan are mirrored branch by branch.  qsort is modelled by
   insertion sort with the code's comparator; for a comparator that is consistent on the list every correct
   sorting algorithm returns the same list, outside that guard the result of the real qsort is unspecified.  *)
From Coq Require Import List NArith ZArith Bool.
Import ListNotations.
Local Open Scope N_scope.

Definition to_int32 (z : Z) : Z := ((z + 2147483648) mod 4294967296 - 2147483648)%Z.

(* static int void_cmp(a, b): returns  [intptr_t at a] - [intptr_t at b]  converted to int *)
Definition void_cmp (a b : N) : Z := to_int32 (Z.of_N a - Z.of_N b).

(* qsort(plist, n, sizeof(void* ), void_cmp) as insertion sort: insert x before the first y with cmp x y <= 0 *)
Fixpoint insert (x : N) (l : list N) : list N :=
  match l with
  | [] => [x]
  | y :: l' => if (void_cmp x y <=? 0)%Z then x :: y :: l' else y :: insert x l'
  end.
Fixpoint isort (l : list N) : list N :=
  match l with [] => [] | x :: l' => insert x (isort l') end.

Definition at_ (l : list N) (i : N) : N := nth (N.to_nat i) l 0.

(* static int binary_search(uintptr_t *list, uintptr_t findme, size_t len)
     size_t max = len, min = 0, curs = max / 2;
     while (list[curs] != findme) {
        if (list[curs] > findme) max = curs; else if (list[curs] < findme) min = curs;
        if (max == min + 1) break;
        curs = (max + min) / 2;
     }
     return (list[curs] == findme);
   None = the loop did not stop within `fuel` iterations (len = 1, list[0] > findme loops forever in the code) *)
Fixpoint bs_loop (fuel : nat) (l : list N) (findme mn mx curs : N) : option bool :=
  if at_ l curs =? findme then Some true else
  match fuel with
  | O => None
  | S f =>
      let mx' := if findme <? at_ l curs then curs else mx in
      let mn' := if at_ l curs <? findme then curs else mn in
      if mx' =? mn' + 1 then Some (at_ l curs =? findme)
      else bs_loop f l findme mn' mx' ((mx' + mn') / 2)
  end.
Definition binary_search (l : list N) (findme : N) (len : N) : option bool :=
  bs_loop (S (N.to_nat len)) l findme 0 len (len / 2).

(* Stage 1 of hazardous_scan: every worker's HAZARD_PTRS_PER_SHEP slots, the scanning worker's own slots as 0 *)
Definition collect (slots : list (list N)) (me : nat) : list N :=
  concat (map (fun iw => if Nat.eqb (fst iw) me then map (fun _ => 0) (snd iw) else snd iw)
              (combine (seq 0 (length slots)) slots)).

(* Stage 2: walk the free list up to the first 0 entry; keep what binary_search finds, free the rest *)
Fixpoint stage2 (sorted : list N) (nhp : N) (fl : list N) : option (list N * list N) :=   (* (kept, freed) *)
  match fl with
  | [] => Some ([], [])
  | p :: fl' =>
      if p =? 0 then Some ([], [])
      else match binary_search sorted p nhp, stage2 sorted nhp fl' with
           | Some true, Some (k, f) => Some (p :: k, f)
           | Some false, Some (k, f) => Some (k, p :: f)
           | _, _ => None
           end
  end.

Definition scan (slots : list (list N)) (me : nat) (freelist : list N) : option (list N * list N) :=
  let pl := collect slots me in
  stage2 (isort pl) (N.of_nat (length pl)) freelist.

(* the guard under which the truncating comparator orders the list like the unsigned order binary_search uses *)
Definition cmp_ok (a b : N) : bool :=
  match (void_cmp a b ?= 0)%Z, (a ?= b) with
  | Lt, Lt => true | Eq, Eq => true | Gt, Gt => true | _, _ => false
  end.
Definition cmp_consistent (l : list N) : bool := forallb (fun a => forallb (fun b => cmp_ok a b) l) l.
