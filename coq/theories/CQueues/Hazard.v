(* C15 hazard pointers: executable model of the reclamation scan in src/hazardptrs.c (definitions only).

   Pointers are N (< 2^64).  void_cmp compares two uintptr_t and returns (x > y) - (x < y); binary_search is the
   half-open [min,max) loop of the source; the free/keep loop of hazardous_scan is mirrored branch by branch.
   qsort is modelled by insertion sort with the code's comparator (the comparator is a total order, so every correct
   sorting algorithm returns the same list).
   History: before /repo commits e07a9b8 and 38d5aa8 void_cmp truncated the pointer difference to int and
   binary_search never examined index 0; inputs of those classes are kept as regression cases of the check.   *)
From Coq Require Import List NArith ZArith Bool.
Import ListNotations.
Local Open Scope N_scope.

(* static int void_cmp(a, b): x = [uintptr_t at a], y = [uintptr_t at b]; return (x > y) - (x < y); *)
Definition void_cmp (a b : N) : Z :=
  Z.sub (if b <? a then 1%Z else 0%Z) (if a <? b then 1%Z else 0%Z).

(* qsort(plist, n, sizeof(void* ), void_cmp) as insertion sort: insert x before the first y with cmp x y <= 0 *)
Fixpoint insert (x : N) (l : list N) : list N :=
  match l with
  | [] => [x]
  | y :: l' => if (void_cmp x y <=? 0)%Z then x :: y :: l' else y :: insert x l'
  end.
Fixpoint isort (l : list N) : list N :=
  match l with [] => [] | x :: l' => insert x (isort l') end.

Definition at_ (l : list N) (i : N) : N := nth (N.to_nat i) l 0.

(* static int binary_search(uintptr_t *list, uintptr_t findme, size_t len)
     size_t max = len, min = 0;
     while (min < max) {
        const size_t curs = min + ((max - min) / 2);
        if (list[curs] == findme) return 1;
        else if (list[curs] < findme) min = curs + 1;
        else max = curs;
     }
     return 0;
   None = the loop did not stop within `fuel` iterations (excluded by bsearch_total) *)
Fixpoint bs_loop (fuel : nat) (l : list N) (findme mn mx : N) : option bool :=
  if mn <? mx then
    match fuel with
    | O => None
    | S f =>
        let curs := mn + (mx - mn) / 2 in
        if at_ l curs =? findme then Some true
        else if at_ l curs <? findme then bs_loop f l findme (curs + 1) mx
        else bs_loop f l findme mn curs
    end
  else Some false.
Definition binary_search (l : list N) (findme : N) (len : N) : option bool :=
  bs_loop (S (N.to_nat len)) l findme 0 len.

(* Stage 1 of hazardous_scan: every worker's HAZARD_PTRS_PER_SHEP slots, the scanning worker's own slots as 0 *)
Definition collect (slots : list (list N)) (me : nat) : list N :=
  concat (map (fun iw => if Nat.eqb (fst iw) me then map (fun _ => 0) (snd iw) else snd iw)
              (combine (seq 0 (length slots)) slots)).

(* Stage 2: walk the free list up to the first 0 entry; keep what binary_search finds, free the rest *)
Fixpoint stage2 (sorted : list N) (nhp : N) (fl : list N) : option (list N * list N) :=   (* (kept, freed) *)
  match fl with
  | [] => Some ([], [])
  | p :: fl' =>
      if p =? 0 then Some ([], [])
      else match binary_search sorted p nhp, stage2 sorted nhp fl' with
           | Some true, Some (k, f) => Some (p :: k, f)
           | Some false, Some (k, f) => Some (k, p :: f)
           | _, _ => None
           end
  end.

Definition scan (slots : list (list N)) (me : nat) (freelist : list N) : option (list N * list N) :=
  let pl := collect slots me in
  stage2 (isort pl) (N.of_nat (length pl)) freelist.

