(* C15 qdqueue: theorems about the step machine in Dq.v (src/ds/qdqueue.c), for every schedule.

   M  dq_conservation            enqueued = dequeued + still queued (as multisets)
   N  dq_deq_results             the non-NULL results of all tasks are exactly the dequeued multiset;
                                 at most once, and only enqueued values
   O  dq_null_means_all_empty    a dequeue about to return NULL has seen every sub-queue empty
   P  dq_quiescent_not_null      a dequeue running alone with a non-empty sub-queue does not return NULL      *)
From Coq Require Import List NArith Bool Arith Lia Permutation.
From QV Require Import CQueues.Dq.
Import ListNotations.

(* ------------------------------------------------------------------------------------------------------ *)
(* list helpers                                                                                            *)

Lemma set_nth_split : forall (A : Type) (l : list A) (t : nat) (k : A),
  nth_error l t = Some k ->
  exists l1 l2, l = l1 ++ k :: l2 /\ length l1 = t /\ forall k', set_nth l t k' = l1 ++ k' :: l2.
Proof.
  intros A l. induction l as [|a l IH]; intros t k H.
  - destruct t; discriminate H.
  - destruct t as [|t]; cbn [nth_error] in H.
    + injection H as ->. exists [], l. split; [reflexivity|]. split; reflexivity.
    + destruct (IH t k H) as [l1 [l2 [E [Hl Hs]]]].
      exists (a :: l1), l2. split; [cbn [app]; f_equal; exact E|].
      split; [cbn [length]; f_equal; exact Hl|].
      intros k'. cbn [set_nth app]. f_equal. apply Hs.
Qed.

Lemma set_nth_In : forall (A : Type) (l : list A) (t : nat) (x y : A),
  In y (set_nth l t x) -> y = x \/ In y l.
Proof.
  intros A l. induction l as [|a l IH]; intros t x y H.
  - destruct t; destruct H.
  - destruct t as [|t]; cbn [set_nth] in H.
    + destruct H as [E|H]; [left; symmetry; exact E|right; right; exact H].
    + destruct H as [E|H]; [right; left; exact E|].
      destruct (IH t x y H) as [E|H']; [left; exact E|right; right; exact H'].
Qed.

Lemma nth_error_set_nth_same : forall (A : Type) (l : list A) (t : nat) (k x : A),
  nth_error l t = Some k -> nth_error (set_nth l t x) t = Some x.
Proof.
  intros A l. induction l as [|a l IH]; intros t k x H.
  - destruct t; discriminate H.
  - destruct t as [|t]; cbn [set_nth nth_error] in *; [reflexivity|]. eapply IH, H.
Qed.

(* ------------------------------------------------------------------------------------------------------ *)
(* sub-queue operations                                                                                    *)

Lemma qpop_spec : forall qs i x qs',
  qpop qs i = Some (x, qs') -> Permutation (concat qs) (x :: concat qs') /\ length qs' = length qs.
Proof.
  intros qs. induction qs as [|q qs IH]; intros i x qs' H.
  - destruct i; discriminate H.
  - destruct i as [|i]; cbn [qpop] in H.
    + destruct q as [|y q]; [discriminate H|]. injection H as -> <-.
      split; [apply Permutation_refl|reflexivity].
    + destruct (qpop qs i) as [[y qs'']|] eqn:E; [|discriminate H].
      destruct (IH i y qs'' E) as [HP HL]. injection H as -> <-.
      split; [|cbn [length]; f_equal; exact HL].
      cbn [concat]. eapply perm_trans; [apply Permutation_app_head, HP|].
      apply Permutation_sym, Permutation_middle.
Qed.

Lemma qpush_length : forall qs i x, length (qpush qs i x) = length qs.
Proof.
  intros qs. induction qs as [|q qs IH]; intros i x; destruct i; cbn [qpush length]; try reflexivity.
  f_equal. apply IH.
Qed.

Lemma qpush_perm : forall qs i x, (i < length qs)%nat -> Permutation (concat (qpush qs i x)) (x :: concat qs).
Proof.
  intros qs. induction qs as [|q qs IH]; intros i x H; cbn [length] in H.
  - exfalso; lia.
  - destruct i as [|i]; cbn [qpush concat].
    + rewrite <- app_assoc. cbn [app]. apply Permutation_sym, Permutation_middle.
    + eapply perm_trans; [apply Permutation_app_head, IH; lia|].
      apply Permutation_sym, Permutation_middle.
Qed.

(* without the bound: the element is either queued or dropped *)
Lemma qpush_perm_gen : forall qs i x,
  exists d, Permutation (concat (qpush qs i x) ++ d) (x :: concat qs).
Proof.
  intros qs i x. destruct (Nat.lt_ge_cases i (length qs)) as [L|L].
  - exists []. rewrite app_nil_r. apply qpush_perm, L.
  - exists [x]. revert i L. induction qs as [|q qs IH]; intros i L; cbn [length] in L.
    + destruct i; cbn [qpush concat app]; apply Permutation_refl.
    + destruct i as [|i]; [exfalso; lia|]. cbn [qpush concat]. rewrite <- app_assoc.
      eapply perm_trans; [apply Permutation_app_head, IH; lia|].
      apply Permutation_sym, Permutation_middle.
Qed.

(* ------------------------------------------------------------------------------------------------------ *)
(* the step function as a relation                                                                         *)

Inductive dstepR (s : dstate) (t : nat) (k : task) : dstate -> Prop :=
| R_null : k_run k = true -> k_todo k = [] ->
    dstepR s t k (mkD (d_qs s) (d_alls s)
                      (set_nth (d_tasks s) t (mkTask [] (k_seen k) false (k_ops k) (k_out k ++ [None])))
                      (d_enq s) (d_deq s))
| R_hit : forall i rest x qs', k_run k = true -> k_todo k = i :: rest -> qpop (d_qs s) i = Some (x, qs') ->
    dstepR s t k (mkD qs' (d_alls s)
                      (set_nth (d_tasks s) t (mkTask [] (k_seen k) false (k_ops k) (k_out k ++ [Some x])))
                      (d_enq s) (d_deq s ++ [x]))
| R_miss : forall i rest, k_run k = true -> k_todo k = i :: rest -> qpop (d_qs s) i = None ->
    dstepR s t k (mkD (d_qs s) (d_alls s)
                      (set_nth (d_tasks s) t (mkTask rest (i :: k_seen k) true (k_ops k) (k_out k)))
                      (d_enq s) (d_deq s))
| R_enq : forall there x ops, k_run k = false -> k_ops k = DEnq there x :: ops ->
    dstepR s t k (mkD (qpush (d_qs s) there x) (d_alls s)
                      (set_nth (d_tasks s) t (mkTask [] [] false ops (k_out k)))
                      (d_enq s ++ [x]) (d_deq s))
| R_start : forall me pre lcs ops, k_run k = false -> k_ops k = DDeq me pre lcs :: ops ->
    dstepR s t k (mkD (d_qs s) (d_alls s)
                      (set_nth (d_tasks s) t
                               (mkTask (attempts me pre (nth me (d_alls s) []) lcs) [] true ops (k_out k)))
                      (d_enq s) (d_deq s)).

Lemma dstep_R : forall s t s', dstep s t = Some s' ->
  exists k, nth_error (d_tasks s) t = Some k /\ dstepR s t k s'.
Proof.
  intros s t s' H. unfold dstep in H.
  destruct (nth_error (d_tasks s) t) as [k|] eqn:Ek; [|discriminate H].
  exists k. split; [reflexivity|].
  destruct (k_run k) eqn:Er.
  - destruct (k_todo k) as [|i rest] eqn:Et.
    + injection H as <-. apply R_null; assumption.
    + destruct (qpop (d_qs s) i) as [[x qs']|] eqn:Eq; injection H as <-.
      * eapply R_hit; eassumption.
      * eapply R_miss; eassumption.
  - destruct (k_ops k) as [|[there x|me pre lcs] ops] eqn:Eo; [discriminate H| |]; injection H as <-.
    + eapply R_enq; eassumption.
    + eapply R_start; eassumption.
Qed.

(* invariants of single steps lift to runs *)
Lemma drun_invariant : forall (P : dstate -> Prop),
  (forall s t s', P s -> dstep s t = Some s' -> P s') ->
  forall sched s, P s -> P (drun s sched).
Proof.
  intros P Hstep sched. induction sched as [|t sched IH]; intros s Hs; cbn [drun fold_left].
  - exact Hs.
  - apply IH. unfold dstep'. destruct (dstep s t) as [s'|] eqn:E; [eapply Hstep; eassumption|exact Hs].
Qed.

(* ------------------------------------------------------------------------------------------------------ *)
(* M : conservation                                                                                        *)

Definition enq_bounded (n : nat) (ops : list dop) : Prop :=
  forall there x, In (DEnq there x) ops -> (there < n)%nat.

Definition consv (n : nat) (s : dstate) : Prop :=
  length (d_qs s) = n /\
  (forall k, In k (d_tasks s) -> enq_bounded n (k_ops k)) /\
  Permutation (d_enq s) (d_deq s ++ concat (d_qs s)).

Lemma consv_step : forall n s t s', consv n s -> dstep s t = Some s' -> consv n s'.
Proof.
  intros n s t s' [HL [HB HP]] H. destruct (dstep_R _ _ _ H) as [k [Ek R]].
  assert (Hk : In k (d_tasks s)) by (eapply nth_error_In, Ek).
  assert (HBk := HB k Hk).
  assert (Hother : forall k0, enq_bounded n (k_ops k0) ->
            forall k', In k' (set_nth (d_tasks s) t k0) -> enq_bounded n (k_ops k')).
  { intros k0 H0 k' Hin. destruct (set_nth_In _ _ _ _ _ Hin) as [->|Hin']; [exact H0|apply HB, Hin']. }
  destruct R as [Hr Ht|i rest x qs' Hr Ht Hq|i rest Hr Ht Hq|there x ops Hr Ho|me pre lcs ops Hr Ho];
    unfold consv; cbn [d_qs d_tasks d_enq d_deq].
  - split; [exact HL|]. split; [|exact HP]. apply Hother. exact HBk.
  - destruct (qpop_spec _ _ _ _ Hq) as [HPq HLq].
    split; [congruence|]. split; [apply Hother; exact HBk|].
    eapply perm_trans; [exact HP|]. rewrite <- app_assoc. apply Permutation_app_head.
    cbn [app]. exact HPq.
  - split; [exact HL|]. split; [|exact HP]. apply Hother. exact HBk.
  - assert (Hth : (there < n)%nat) by (apply (HBk there x); rewrite Ho; left; reflexivity).
    split; [rewrite qpush_length; exact HL|]. split.
    + apply Hother. cbn [k_ops]. intros th y Hy. apply (HBk th y). rewrite Ho. right; exact Hy.
    + eapply perm_trans; [apply Permutation_app_tail, HP|].
      rewrite <- app_assoc. apply Permutation_app_head.
      eapply perm_trans; [apply Permutation_app_comm|]. cbn [app].
      apply Permutation_sym, qpush_perm. rewrite HL. exact Hth.
  - split; [exact HL|]. split; [|exact HP]. apply Hother. cbn [k_ops].
    intros th y Hy. apply (HBk th y). rewrite Ho. right; exact Hy.
Qed.

Lemma concat_repeat_nil : forall n, concat (repeat (@nil N) n) = [].
Proof. induction n as [|n IH]; [reflexivity|exact IH]. Qed.

Lemma consv_init : forall n alls progs,
  (forall p, In p progs -> forall there x, In (DEnq there x) p -> (there < n)%nat) ->
  consv n (dinit n alls progs).
Proof.
  intros n alls progs H. unfold consv, dinit; cbn [d_qs d_tasks d_enq d_deq].
  split; [apply repeat_length|]. split.
  - intros k Hk. apply in_map_iff in Hk. destruct Hk as [p [<- Hp]]. cbn [k_ops]. exact (H p Hp).
  - cbn [app]. rewrite concat_repeat_nil. apply perm_nil.
Qed.

Theorem dq_conservation : forall n alls progs sched,
  (forall p, In p progs -> forall there x, In (DEnq there x) p -> (there < n)%nat) ->
  let s := drun (dinit n alls progs) sched in
  Permutation (d_enq s) (d_deq s ++ concat (d_qs s)).
Proof.
  intros n alls progs sched H s.
  assert (Hc : consv n s).
  { apply (drun_invariant (consv n)); [apply consv_step|apply consv_init, H]. }
  apply Hc.
Qed.

(* without the bound on enqueue_there: nothing is invented, elements pushed out of range are dropped *)
Theorem dq_conservation_gen : forall n alls progs sched,
  let s := drun (dinit n alls progs) sched in
  exists dropped, Permutation (d_enq s) (d_deq s ++ concat (d_qs s) ++ dropped).
Proof.
  intros n alls progs sched s.
  apply (drun_invariant (fun s => exists dropped, Permutation (d_enq s) (d_deq s ++ concat (d_qs s) ++ dropped))).
  - clear. intros s t s' [dr HP] H. destruct (dstep_R _ _ _ H) as [k [Ek R]].
    destruct R as [Hr Ht|i rest x qs' Hr Ht Hq|i rest Hr Ht Hq|there x ops Hr Ho|me pre lcs ops Hr Ho];
      cbn [d_qs d_tasks d_enq d_deq]; try (exists dr; exact HP).
    + destruct (qpop_spec _ _ _ _ Hq) as [HPq _]. exists dr.
      eapply perm_trans; [exact HP|]. rewrite <- app_assoc. apply Permutation_app_head.
      cbn [app]. apply (Permutation_app_tail dr) in HPq. exact HPq.
    + destruct (qpush_perm_gen (d_qs s) there x) as [d Hd]. exists (d ++ dr).
      eapply perm_trans; [apply Permutation_app_tail, HP|].
      rewrite <- app_assoc. apply Permutation_app_head.
      eapply perm_trans; [apply Permutation_app_comm|]. cbn [app].
      rewrite app_assoc. rewrite app_comm_cons.
      apply Permutation_app_tail, Permutation_sym, Hd.
  - exists []. cbn [dinit d_qs d_enq d_deq app]. rewrite app_nil_r.
    rewrite concat_repeat_nil. apply perm_nil.
Qed.

(* ------------------------------------------------------------------------------------------------------ *)
(* N : results                                                                                             *)

Definition somes (o : list (option N)) : list N :=
  flat_map (fun r => match r with Some x => [x] | None => [] end) o.
Definition results (s : dstate) : list N := flat_map (fun k => somes (k_out k)) (d_tasks s).

Lemma somes_app : forall a b, somes (a ++ b) = somes a ++ somes b.
Proof. intros a b. unfold somes. apply flat_map_app. Qed.

Lemma results_set_nth : forall tasks t k k' extra,
  nth_error tasks t = Some k -> somes (k_out k') = somes (k_out k) ++ extra ->
  Permutation (flat_map (fun k => somes (k_out k)) (set_nth tasks t k'))
              (flat_map (fun k => somes (k_out k)) tasks ++ extra).
Proof.
  intros tasks t k k' extra Hn Ho.
  destruct (set_nth_split _ _ _ _ Hn) as [l1 [l2 [E [_ Hs]]]].
  rewrite Hs, E. rewrite !flat_map_app. cbn [flat_map]. rewrite Ho.
  rewrite <- !app_assoc. apply Permutation_app_head. apply Permutation_app_head.
  apply Permutation_app_comm.
Qed.

Lemma results_step : forall s t s',
  Permutation (results s) (d_deq s) -> dstep s t = Some s' -> Permutation (results s') (d_deq s').
Proof.
  intros s t s' HP H. destruct (dstep_R _ _ _ H) as [k [Ek R]]. unfold results in *.
  destruct R as [Hr Ht|i rest x qs' Hr Ht Hq|i rest Hr Ht Hq|there x ops Hr Ho|me pre lcs ops Hr Ho];
    cbn [d_qs d_tasks d_enq d_deq].
  - eapply perm_trans; [eapply (results_set_nth _ _ _ _ []); [exact Ek|]|].
    + cbn [k_out]. rewrite somes_app. reflexivity.
    + rewrite app_nil_r. exact HP.
  - eapply perm_trans; [eapply (results_set_nth _ _ _ _ [x]); [exact Ek|]|].
    + cbn [k_out]. rewrite somes_app. reflexivity.
    + apply Permutation_app_tail, HP.
  - eapply perm_trans; [eapply (results_set_nth _ _ _ _ []); [exact Ek|]|].
    + cbn [k_out]. rewrite app_nil_r. reflexivity.
    + rewrite app_nil_r. exact HP.
  - eapply perm_trans; [eapply (results_set_nth _ _ _ _ []); [exact Ek|]|].
    + cbn [k_out]. rewrite app_nil_r. reflexivity.
    + rewrite app_nil_r. exact HP.
  - eapply perm_trans; [eapply (results_set_nth _ _ _ _ []); [exact Ek|]|].
    + cbn [k_out]. rewrite app_nil_r. reflexivity.
    + rewrite app_nil_r. exact HP.
Qed.

Theorem dq_deq_results : forall n alls progs sched,
  let s := drun (dinit n alls progs) sched in Permutation (results s) (d_deq s).
Proof.
  intros n alls progs sched s.
  apply (drun_invariant (fun s => Permutation (results s) (d_deq s))).
  - intros s0 t s' HP H. eapply results_step; eassumption.
  - unfold results, dinit; cbn [d_tasks d_deq]. clear.
    induction progs as [|p progs IH]; [apply perm_nil|exact IH].
Qed.

Lemma nodup_app_l : forall (a b : list N), NoDup (a ++ b) -> NoDup a.
Proof.
  induction a as [|x a IH]; intros b H; [constructor|].
  cbn [app] in H. inversion H as [|x' l' Hn Hd]; subst. constructor; [|eapply IH, Hd].
  intros Hin. apply Hn, in_or_app. left; exact Hin.
Qed.

(* at most once, and only enqueued values: for every schedule and every program, no bound needed *)
Theorem dq_results_nodup : forall n alls progs sched,
  let s := drun (dinit n alls progs) sched in NoDup (d_enq s) -> NoDup (results s).
Proof.
  intros n alls progs sched s Hnd.
  destruct (dq_conservation_gen n alls progs sched) as [dr HP]. fold s in HP.
  eapply Permutation_NoDup; [apply Permutation_sym, dq_deq_results|].
  eapply nodup_app_l. eapply Permutation_NoDup; [exact HP|exact Hnd].
Qed.

Theorem dq_results_enqueued : forall n alls progs sched x,
  let s := drun (dinit n alls progs) sched in In x (results s) -> In x (d_enq s).
Proof.
  intros n alls progs sched x s Hin.
  destruct (dq_conservation_gen n alls progs sched) as [dr HP]. fold s in HP.
  eapply Permutation_in; [apply Permutation_sym, HP|]. apply in_or_app. left.
  eapply Permutation_in; [apply dq_deq_results|exact Hin].
Qed.

(* ------------------------------------------------------------------------------------------------------ *)
(* O : NULL means every sub-queue was seen empty                                                           *)

(* k_seen only grows by an index whose sub-queue is empty in that very step *)
Theorem seen_was_empty : forall s t s' k k',
  dstep s t = Some s' -> nth_error (d_tasks s) t = Some k -> nth_error (d_tasks s') t = Some k' ->
  k_seen k' = k_seen k \/ k_seen k' = [] \/
  exists i, k_seen k' = i :: k_seen k /\ qpop (d_qs s) i = None.
Proof.
  intros s t s' k k' H Ek Ek'. destruct (dstep_R _ _ _ H) as [k0 [Ek0 R]].
  rewrite Ek in Ek0. injection Ek0 as <-.
  destruct R as [Hr Ht|i rest x qs' Hr Ht Hq|i rest Hr Ht Hq|there x ops Hr Ho|me pre lcs ops Hr Ho];
    cbn [d_tasks] in Ek'; rewrite (nth_error_set_nth_same _ _ _ _ _ Ek) in Ek'; injection Ek' as <-;
    cbn [k_seen].
  - left; reflexivity.
  - left; reflexivity.
  - right; right. exists i. split; [reflexivity|exact Hq].
  - right; left; reflexivity.
  - right; left; reflexivity.
Qed.

Definition deq_bounded (n : nat) (ops : list dop) : Prop :=
  forall me pre lcs, In (DDeq me pre lcs) ops -> (me < n)%nat.

Definition covers (n : nat) (alls : list (list nat)) (k : task) : Prop :=
  k_run k = true ->
  exists me pre lcs, (me < n)%nat /\ incl (attempts me pre (nth me alls []) lcs) (k_seen k ++ k_todo k).

Definition scaninv (n : nat) (alls : list (list nat)) (s : dstate) : Prop :=
  d_alls s = alls /\
  forall k, In k (d_tasks s) -> deq_bounded n (k_ops k) /\ covers n alls k.

Lemma scaninv_step : forall n alls s t s', scaninv n alls s -> dstep s t = Some s' -> scaninv n alls s'.
Proof.
  intros n alls s t s' [HA HT] H. destruct (dstep_R _ _ _ H) as [k [Ek R]].
  assert (Hk : In k (d_tasks s)) by (eapply nth_error_In, Ek).
  destruct (HT k Hk) as [HBk HCk].
  assert (Hother : forall k0, deq_bounded n (k_ops k0) /\ covers n alls k0 ->
            forall k', In k' (set_nth (d_tasks s) t k0) -> deq_bounded n (k_ops k') /\ covers n alls k').
  { intros k0 H0 k' Hin. destruct (set_nth_In _ _ _ _ _ Hin) as [->|Hin']; [exact H0|apply HT, Hin']. }
  destruct R as [Hr Ht|i rest x qs' Hr Ht Hq|i rest Hr Ht Hq|there x ops Hr Ho|me pre lcs ops Hr Ho];
    unfold scaninv; cbn [d_alls d_tasks]; (split; [exact HA|]); apply Hother; cbn [k_ops].
  - split; [exact HBk|]. intros Hf; discriminate Hf.
  - split; [exact HBk|]. intros Hf; discriminate Hf.
  - split; [exact HBk|]. intros _. destruct (HCk Hr) as [me [pre [lcs [Hme Hincl]]]].
    exists me, pre, lcs. split; [exact Hme|]. cbn [k_seen k_todo].
    intros a Ha. specialize (Hincl a Ha). rewrite Ht in Hincl.
    apply in_app_or in Hincl. destruct Hincl as [Hi|[Hi|Hi]].
    + right. apply in_or_app. left. exact Hi.
    + left. exact Hi.
    + right. apply in_or_app. right. exact Hi.
  - split; [|intros Hf; discriminate Hf].
    intros m p l Hin. apply (HBk m p l). rewrite Ho. right; exact Hin.
  - split.
    + intros m p l Hin. apply (HBk m p l). rewrite Ho. right; exact Hin.
    + intros _. exists me, pre, lcs. split; [apply (HBk me pre lcs); rewrite Ho; left; reflexivity|].
      cbn [k_seen k_todo app]. rewrite HA. apply incl_refl.
Qed.

Lemma final_pass_In : forall alls lcs r, In r alls -> In r (final_pass alls lcs).
Proof.
  intros alls. induction alls as [|a alls IH]; intros lcs r H; [destruct H|].
  cbn [final_pass]. destruct lcs as [|[l|] lcs]; destruct H as [->|H];
    try (left; reflexivity); try (right; apply IH, H).
  right; right; apply IH, H.
Qed.

Lemma alls_ok_attempts : forall n alls me pre lcs i,
  alls_ok n alls = true -> (me < n)%nat -> (i < n)%nat -> In i (attempts me pre (nth me alls []) lcs).
Proof.
  intros n alls me pre lcs i Hok Hme Hi. unfold alls_ok in Hok.
  apply andb_true_iff in Hok. destruct Hok as [_ Hok].
  rewrite forallb_forall in Hok.
  assert (Hme' : In me (seq 0 n)) by (apply in_seq; lia).
  specialize (Hok me Hme'). rewrite forallb_forall in Hok.
  assert (Hi' : In i (seq 0 n)) by (apply in_seq; lia).
  specialize (Hok i Hi'). apply orb_true_iff in Hok. unfold attempts.
  destruct Hok as [E|E].
  - apply Nat.eqb_eq in E. left; symmetry; exact E.
  - right. apply in_or_app. right. apply final_pass_In.
    apply existsb_exists in E. destruct E as [y [Hy E]]. apply Nat.eqb_eq in E. subst y. exact Hy.
Qed.

Theorem dq_null_means_all_empty : forall n alls progs sched t k,
  alls_ok n alls = true ->
  (forall p, In p progs -> forall me pre lcs, In (DDeq me pre lcs) p -> (me < n)%nat) ->
  let s := drun (dinit n alls progs) sched in
  nth_error (d_tasks s) t = Some k -> k_run k = true -> k_todo k = [] ->
  forall i, (i < n)%nat -> In i (k_seen k).
Proof.
  intros n alls progs sched t k Hok Hb s Ek Hr Ht i Hi.
  assert (Hinv : scaninv n alls s).
  { apply (drun_invariant (scaninv n alls)); [apply scaninv_step|].
    unfold scaninv, dinit; cbn [d_alls d_tasks]. split; [reflexivity|].
    intros k0 Hk0. apply in_map_iff in Hk0. destruct Hk0 as [p [<- Hp]]. cbn [k_ops]. split.
    - exact (Hb p Hp).
    - intros Hf; discriminate Hf. }
  destruct Hinv as [_ HT]. destruct (HT k (nth_error_In _ _ Ek)) as [_ HC].
  destruct (HC Hr) as [me [pre [lcs [Hme Hincl]]]].
  rewrite Ht, app_nil_r in Hincl. apply Hincl. eapply alls_ok_attempts; eassumption.
Qed.

(* ------------------------------------------------------------------------------------------------------ *)
(* P : running alone, a dequeue that can still reach a non-empty sub-queue returns an element, not NULL     *)

Lemma qpop_None_stable : forall s t k i rest,
  nth_error (d_tasks s) t = Some k -> k_run k = true -> k_todo k = i :: rest -> qpop (d_qs s) i = None ->
  dstep' s t = mkD (d_qs s) (d_alls s)
                   (set_nth (d_tasks s) t (mkTask rest (i :: k_seen k) true (k_ops k) (k_out k)))
                   (d_enq s) (d_deq s).
Proof.
  intros s t k i rest Ek Hr Ht Hq. unfold dstep', dstep. rewrite Ek, Hr, Ht, Hq. reflexivity.
Qed.

Lemma dq_alone_returns : forall todo s t k,
  nth_error (d_tasks s) t = Some k -> k_run k = true -> k_todo k = todo ->
  (exists i, In i todo /\ qpop (d_qs s) i <> None) ->
  exists m x k', (m <= length todo)%nat /\
    nth_error (d_tasks (drun s (repeat t m))) t = Some k' /\
    k_run k' = false /\ k_ops k' = k_ops k /\ k_out k' = k_out k ++ [Some x].
Proof.
  induction todo as [|i0 rest IH]; intros s t k Ek Hr Ht [i [Hin Hne]]; [destruct Hin|].
  destruct (qpop (d_qs s) i0) as [[x qs']|] eqn:Eq.
  - exists 1%nat, x, (mkTask [] (k_seen k) false (k_ops k) (k_out k ++ [Some x])).
    split; [cbn [length]; lia|]. cbn [repeat drun fold_left]. unfold dstep', dstep.
    rewrite Ek, Hr, Ht, Eq. cbn [d_tasks]. split; [eapply nth_error_set_nth_same, Ek|].
    split; [reflexivity|]. split; reflexivity.
  - assert (Hi : In i rest).
    { destruct Hin as [E|Hin]; [subst i0; contradiction|exact Hin]. }
    pose (k1 := mkTask rest (i0 :: k_seen k) true (k_ops k) (k_out k)).
    assert (E1 := qpop_None_stable s t k i0 rest Ek Hr Ht Eq). fold k1 in E1.
    destruct (IH (dstep' s t) t k1) as [m [x [k' [Hm [Ek' [Hr' [Hops' Ho']]]]]]].
    + rewrite E1. cbn [d_tasks]. eapply nth_error_set_nth_same, Ek.
    + reflexivity.
    + reflexivity.
    + exists i. split; [exact Hi|]. rewrite E1. cbn [d_qs]. exact Hne.
    + exists (S m), x, k'. split; [cbn [length]; lia|].
      cbn [repeat drun fold_left]. split; [exact Ek'|]. split; [exact Hr'|]. split; [exact Hops'|exact Ho'].
Qed.

(* from the start of the dequeue: task t is idle, its next operation is a dequeue on shepherd me < n, and some
   sub-queue i < n is non-empty; running t alone, that dequeue completes with a non-NULL result *)
Theorem dq_quiescent_not_null : forall n s t k me pre lcs ops i,
  alls_ok n (d_alls s) = true -> (me < n)%nat -> (i < n)%nat ->
  nth_error (d_tasks s) t = Some k -> k_run k = false -> k_ops k = DDeq me pre lcs :: ops ->
  qpop (d_qs s) i <> None ->
  exists m x k', nth_error (d_tasks (drun s (repeat t m))) t = Some k' /\
    k_run k' = false /\ k_ops k' = ops /\ k_out k' = k_out k ++ [Some x].
Proof.
  intros n s t k me pre lcs ops i Hok Hme Hi Ek Hr Ho Hne.
  pose (k1 := mkTask (attempts me pre (nth me (d_alls s) []) lcs) [] true ops (k_out k)).
  assert (E1 : dstep' s t = mkD (d_qs s) (d_alls s) (set_nth (d_tasks s) t k1) (d_enq s) (d_deq s)).
  { unfold dstep', dstep. rewrite Ek, Hr, Ho. reflexivity. }
  destruct (dq_alone_returns (k_todo k1) (dstep' s t) t k1) as [m [x [k' [_ [Ek' [Hr' [Hops' Ho']]]]]]].
  - rewrite E1. cbn [d_tasks]. eapply nth_error_set_nth_same, Ek.
  - reflexivity.
  - reflexivity.
  - exists i. split; [apply (alls_ok_attempts n); assumption|]. rewrite E1. cbn [d_qs]. exact Hne.
  - exists (S m), x, k'. cbn [repeat drun fold_left].
    split; [exact Ek'|]. split; [exact Hr'|]. split; [exact Hops'|exact Ho'].
Qed.

(* ------------------------------------------------------------------------------------------------------ *)
(* Q : examples                                                                                            *)

Definition ex_alls : list (list nat) := [[1;2];[0;2];[0;1]]%nat.

Example ex_alls_ok : alls_ok 3 ex_alls = true.
Proof. vm_compute. reflexivity. Qed.

(* one task enqueues 7 on shepherd 2, then dequeues on shepherd 0: finds it in the final pass *)
Example ex_enq_deq :
  let s := drun (dinit 3 ex_alls [[DEnq 2 7%N; DDeq 0 [] []]]) (repeat 0%nat 6) in
  map k_out (d_tasks s) = [[Some 7%N]] /\ d_enq s = [7%N] /\ d_deq s = [7%N] /\ d_qs s = [[];[];[]].
Proof. vm_compute. repeat split. Qed.

(* a dequeue on all-empty: just before returning NULL, k_seen covers 0,1,2; then the result is None *)
Example ex_null_seen :
  let s := drun (dinit 3 ex_alls [[DDeq 0 [] []]]) (repeat 0%nat 4) in
  map k_run (d_tasks s) = [true] /\ map k_todo (d_tasks s) = [[]] /\ map k_seen (d_tasks s) = [[2;1;0]%nat].
Proof. vm_compute. repeat split. Qed.

Example ex_null_result :
  let s := drun (dinit 3 ex_alls [[DDeq 0 [] []]]) (repeat 0%nat 5) in
  map k_out (d_tasks s) = [[None]] /\ map k_seen (d_tasks s) = [[2;1;0]%nat].
Proof. vm_compute. repeat split. Qed.

(* two tasks interleaved: task 1 enqueues on shepherd 1 while task 0's dequeue on shepherd 0 is scanning;
   the dequeue still finds the element because shepherd 1 comes later in its pass *)
Example ex_interleaved :
  let s := drun (dinit 3 ex_alls [[DDeq 0 [] []]; [DEnq 1 9%N]]) [0;0;1;0]%nat in
  map k_out (d_tasks s) = [[Some 9%N]; []].
Proof. vm_compute. reflexivity. Qed.

(* ... and the NULL-despite-non-empty interleaving that O permits: the element arrives behind the scan *)
Example ex_interleaved_null :
  let s := drun (dinit 3 ex_alls [[DDeq 0 [] []]; [DEnq 1 9%N]]) [0;0;0;1;0;0]%nat in
  map k_out (d_tasks s) = [[None]; []] /\ d_qs s = [[];[9%N];[]].
Proof. vm_compute. repeat split. Qed.

(* ------------------------------------------------------------------------------------------------------ *)
(* the sequential acceptor seq_deq_ok is sound for a dequeue that runs alone                               *)

Lemma solo_step_ops : forall s t k,
  nth_error (d_tasks s) t = Some k ->
  exists k1, nth_error (d_tasks (dstep' s t)) t = Some k1 /\ (length (k_ops k1) <= length (k_ops k))%nat.
Proof.
  intros s t k Ek. unfold dstep'. destruct (dstep s t) as [s'|] eqn:E.
  - destruct (dstep_R _ _ _ E) as [k0 [Ek0 R]]. rewrite Ek in Ek0. injection Ek0 as <-.
    destruct R as [Hr Ht|i rest x qs' Hr Ht Hq|i rest Hr Ht Hq|there x ops Hr Ho|me pre lcs ops Hr Ho];
      cbn [d_tasks]; eexists; (split; [eapply nth_error_set_nth_same, Ek|]); cbn [k_ops];
      try rewrite Ho; cbn [length]; lia.
  - exists k. split; [exact Ek|lia].
Qed.

Lemma solo_ops_mono : forall m s t k k',
  nth_error (d_tasks s) t = Some k -> nth_error (d_tasks (drun s (repeat t m))) t = Some k' ->
  (length (k_ops k') <= length (k_ops k))%nat.
Proof.
  induction m as [|m IH]; intros s t k k' Ek Ek'.
  - cbn [repeat drun fold_left] in Ek'. rewrite Ek in Ek'. injection Ek' as <-. lia.
  - change (drun s (repeat t (S m))) with (drun (dstep' s t) (repeat t m)) in Ek'.
    destruct (solo_step_ops s t k Ek) as [k1 [Ek1 Hl]].
    assert (H := IH _ _ _ _ Ek1 Ek'). lia.
Qed.

(* an idle task that has not consumed an operation is unchanged *)
Lemma solo_idle_phase : forall m s t k k',
  nth_error (d_tasks s) t = Some k -> k_run k = false ->
  nth_error (d_tasks (drun s (repeat t m))) t = Some k' ->
  length (k_ops k') = length (k_ops k) -> k' = k.
Proof.
  induction m as [|m IH]; intros s t k k' Ek Hr Ek' Hl.
  - cbn [repeat drun fold_left] in Ek'. rewrite Ek in Ek'. injection Ek' as <-. reflexivity.
  - change (drun s (repeat t (S m))) with (drun (dstep' s t) (repeat t m)) in Ek'.
    destruct (k_ops k) as [|op ops] eqn:Eo.
    + assert (E : dstep' s t = s) by (unfold dstep', dstep; rewrite Ek, Hr, Eo; reflexivity).
      rewrite E in Ek'. apply (IH s t k k' Ek Hr Ek'). rewrite Eo. exact Hl.
    + exfalso.
      assert (E : exists k1, nth_error (d_tasks (dstep' s t)) t = Some k1 /\ k_ops k1 = ops).
      { unfold dstep', dstep. rewrite Ek, Hr, Eo.
        destruct op as [there x|me pre lcs]; cbn [d_tasks]; eexists;
          (split; [eapply nth_error_set_nth_same, Ek|reflexivity]). }
      destruct E as [k1 [Ek1 Ho1]].
      assert (H := solo_ops_mono _ _ _ _ _ Ek1 Ek'). rewrite Ho1 in H. cbn [length] in Hl. lia.
Qed.

(* a running dequeue, alone: what it returns, in terms of the sub-queues at its start *)
Lemma solo_run_phase : forall m s t k k',
  nth_error (d_tasks s) t = Some k -> k_run k = true ->
  nth_error (d_tasks (drun s (repeat t m))) t = Some k' -> k_run k' = false ->
  length (k_ops k') = length (k_ops k) ->
  exists r, k_out k' = k_out k ++ [r] /\
    ((r = None /\ forall i, In i (k_todo k) -> qpop (d_qs s) i = None) \/
     (exists x i pre' post qs', r = Some x /\ k_todo k = pre' ++ i :: post /\
        (forall j, In j pre' -> qpop (d_qs s) j = None) /\ qpop (d_qs s) i = Some (x, qs'))).
Proof.
  induction m as [|m IH]; intros s t k k' Ek Hr Ek' Hr' Hl.
  - cbn [repeat drun fold_left] in Ek'. rewrite Ek in Ek'. injection Ek' as <-. congruence.
  - change (drun s (repeat t (S m))) with (drun (dstep' s t) (repeat t m)) in Ek'.
    destruct (k_todo k) as [|i0 rest] eqn:Et.
    + pose (k1 := mkTask [] (k_seen k) false (k_ops k) (k_out k ++ [None])).
      assert (E1 : nth_error (d_tasks (dstep' s t)) t = Some k1).
      { unfold dstep', dstep. rewrite Ek, Hr, Et. cbn [d_tasks]. eapply nth_error_set_nth_same, Ek. }
      assert (Hk' : k' = k1) by (apply (solo_idle_phase m _ t k1 k' E1 eq_refl Ek'); exact Hl).
      subst k'. exists None. split; [reflexivity|]. left. split; [reflexivity|]. intros i [].
    + destruct (qpop (d_qs s) i0) as [[x qs']|] eqn:Eq.
      * pose (k1 := mkTask [] (k_seen k) false (k_ops k) (k_out k ++ [Some x])).
        assert (E1 : nth_error (d_tasks (dstep' s t)) t = Some k1).
        { unfold dstep', dstep. rewrite Ek, Hr, Et, Eq. cbn [d_tasks]. eapply nth_error_set_nth_same, Ek. }
        assert (Hk' : k' = k1) by (apply (solo_idle_phase m _ t k1 k' E1 eq_refl Ek'); exact Hl).
        subst k'. exists (Some x). split; [reflexivity|]. right.
        exists x, i0, [], rest, qs'. split; [reflexivity|]. split; [reflexivity|].
        split; [intros j []|exact Eq].
      * pose (k1 := mkTask rest (i0 :: k_seen k) true (k_ops k) (k_out k)).
        assert (E1 := qpop_None_stable s t k i0 rest Ek Hr Et Eq). fold k1 in E1.
        assert (Ek1 : nth_error (d_tasks (dstep' s t)) t = Some k1).
        { rewrite E1. cbn [d_tasks]. eapply nth_error_set_nth_same, Ek. }
        destruct (IH _ t k1 k' Ek1 eq_refl Ek' Hr' Hl) as [r [Ho Hcase]].
        assert (Eqs : d_qs (dstep' s t) = d_qs s) by (rewrite E1; reflexivity).
        rewrite Eqs in Hcase. cbn [k1 k_todo k_out] in Ho, Hcase.
        exists r. split; [exact Ho|].
        destruct Hcase as [[Hn Hall]|[x [i [pre' [post [qs' [Hx [Hsplit [Hpre Hq]]]]]]]]].
        -- left. split; [exact Hn|]. intros i [<-|Hi]; [exact Eq|apply Hall, Hi].
        -- right. exists x, i, (i0 :: pre'), post, qs'. split; [exact Hx|].
           split; [rewrite Hsplit; reflexivity|]. split; [|exact Hq].
           intros j [<-|Hj]; [exact Eq|apply Hpre, Hj].
Qed.

Lemma qpop_None_empty : forall qs,
  (forall i, (i < length qs)%nat -> qpop qs i = None) -> forallb is_empty qs = true.
Proof.
  induction qs as [|q qs IH]; intros H; [reflexivity|]. cbn [forallb]. apply andb_true_iff. split.
  - specialize (H O ltac:(cbn [length]; lia)). cbn [qpop] in H. destruct q; [reflexivity|discriminate H].
  - apply IH. intros i Hi. specialize (H (S i) ltac:(cbn [length]; lia)). cbn [qpop] in H.
    destruct (qpop qs i) as [[x qs']|]; [discriminate H|reflexivity].
Qed.

Lemma qpop_None_nth : forall qs i, qpop qs i = None -> is_empty (nth i qs []) = true.
Proof.
  induction qs as [|q qs IH]; intros i H; [destruct i; reflexivity|].
  destruct i as [|i]; cbn [qpop nth] in *.
  - destruct q; [reflexivity|discriminate H].
  - apply IH. destruct (qpop qs i) as [[x qs']|]; [discriminate H|reflexivity].
Qed.

Lemma qpop_Some_nth : forall qs i x qs',
  qpop qs i = Some (x, qs') -> (i < length qs)%nat /\ exists q', nth i qs [] = x :: q'.
Proof.
  induction qs as [|q qs IH]; intros i x qs' H; [destruct i; discriminate H|].
  destruct i as [|i]; cbn [qpop nth length] in *.
  - destruct q as [|y q']; [discriminate H|]. injection H as -> _. split; [lia|]. exists q'. reflexivity.
  - destruct (qpop qs i) as [[y qs'']|] eqn:E; [|discriminate H].
    destruct (IH i y qs'' E) as [Hl Hq]. injection H as -> _. split; [lia|exact Hq].
Qed.

Theorem dq_seq_accept_sound : forall n s t k me pre lcs ops m k',
  alls_ok n (d_alls s) = true -> (me < n)%nat -> length (d_qs s) = n ->
  nth_error (d_tasks s) t = Some k -> k_run k = false -> k_ops k = DDeq me pre lcs :: ops ->
  nth_error (d_tasks (drun s (repeat t m))) t = Some k' -> k_run k' = false -> k_ops k' = ops ->
  exists r, k_out k' = k_out k ++ [r] /\ seq_deq_ok (d_qs s) me r = true.
Proof.
  intros n s t k me pre lcs ops m k' Hok Hme Hlen Ek Hr Ho Ek' Hr' Ho'.
  destruct m as [|m].
  - exfalso. cbn [repeat drun fold_left] in Ek'. rewrite Ek in Ek'. injection Ek' as <-.
    rewrite Ho in Ho'. apply (f_equal (@length dop)) in Ho'. cbn [length] in Ho'. lia.
  - change (drun s (repeat t (S m))) with (drun (dstep' s t) (repeat t m)) in Ek'.
    pose (k1 := mkTask (attempts me pre (nth me (d_alls s) []) lcs) [] true ops (k_out k)).
    assert (E1 : dstep' s t = mkD (d_qs s) (d_alls s) (set_nth (d_tasks s) t k1) (d_enq s) (d_deq s)).
    { unfold dstep', dstep. rewrite Ek, Hr, Ho. reflexivity. }
    assert (Ek1 : nth_error (d_tasks (dstep' s t)) t = Some k1).
    { rewrite E1. cbn [d_tasks]. eapply nth_error_set_nth_same, Ek. }
    destruct (solo_run_phase m _ t k1 k' Ek1 eq_refl Ek' Hr') as [r [Hout Hcase]].
    { rewrite Ho'. reflexivity. }
    assert (Eqs : d_qs (dstep' s t) = d_qs s) by (rewrite E1; reflexivity).
    rewrite Eqs in Hcase. cbn [k1 k_todo k_out] in Hout, Hcase.
    exists r. split; [exact Hout|].
    destruct Hcase as [[-> Hall]|[x [i [pre' [post [qs' [-> [Hsplit [Hpre Hq]]]]]]]]]; cbn [seq_deq_ok].
    + apply qpop_None_empty. intros i Hi. apply Hall.
      apply (alls_ok_attempts n); [exact Hok|exact Hme|lia].
    + destruct (qpop_Some_nth _ _ _ _ Hq) as [Hil [q' Hnth]].
      destruct pre' as [|j pre'].
      * unfold attempts in Hsplit. cbn [app] in Hsplit. injection Hsplit as <- _.
        rewrite Hnth. cbn [is_empty head_is]. apply N.eqb_refl.
      * unfold attempts in Hsplit. cbn [app] in Hsplit. injection Hsplit as <- _.
        rewrite (qpop_None_nth _ _ (Hpre me (or_introl eq_refl))).
        apply existsb_exists. exists (nth i (d_qs s) []). split; [apply nth_In, Hil|].
        rewrite Hnth. cbn [head_is]. apply N.eqb_refl.
Qed.

(* shepherd 0's own sub-queue is empty, 4 is at the head of sub-queue 1: the solo dequeue returns 4, accepted;
   NULL would be rejected, and so would 5 (not a head) *)
Example ex_seq_accept :
  let s := mkD [[];[4;5];[6]]%N ex_alls [mkTask [] [] false [DDeq 0 [] []] []] [4;5;6]%N [] in
  map k_out (d_tasks (drun s (repeat 0%nat 3))) = [[Some 4%N]] /\
  seq_deq_ok (d_qs s) 0 (Some 4%N) = true /\ seq_deq_ok (d_qs s) 0 (Some 6%N) = true /\
  seq_deq_ok (d_qs s) 0 None = false /\ seq_deq_ok (d_qs s) 0 (Some 5%N) = false /\
  seq_deq_ok (d_qs s) 1 (Some 6%N) = false.
Proof. vm_compute. repeat split. Qed.
