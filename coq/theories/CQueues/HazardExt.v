(* C15 extension H: hazardous_scan() and the hazard slots of NON-worker threads (src/hazardptrs.c, the hzptr_list path).

   hazardous_ptr() called by a thread without a worker struct allocates a private slot array and pushes it on hzptr_list.
   hazardous_scan() allocates plist with num_hps + hzptr_list_len entries, copies the workers' slots to plist[0 .. num_hps) and then
       while (hzptr_tmp != NULL) { memcpy(plist + (i * nworkerspershep * HAZARD_PTRS_PER_SHEP), hzptr_tmp, ...); hzptr_tmp = next; }
   with i = number of shepherds (the loop variable after the worker loop), i.e. EVERY external array is copied to the same position
   plist[num_hps ..]; then qsort(plist, num_hps, ...) and binary_search(plist, ptr, num_hps) look at the first num_hps entries only.
   Model: the list-level scan of Hazard.v with the external arrays placed as the code places them.
   Theorem scan_x_ignores_external: the result never depends on the external threads' slots (so a node named only by an external
   thread's hazard slot is freed: scan_x_frees_externally_protected).                                                            *)
From Coq Require Import List NArith ZArith Bool Arith Lia ZifyBool ZifyNat ZifyN.
From QV Require Import CQueues.Hazard CQueues.HazardProofs.
Import ListNotations.
Local Open Scope N_scope.

Definition scan_x (slots : list (list N)) (me : nat) (ext : list (list N)) (fl : list N) : option (list N * list N) :=
  let pl := collect slots me in
  let nhp := length pl in
  let plist := pl ++ last ext [] in                      (* all external arrays land on plist[num_hps ..]; the last copy survives *)
  stage2 (isort (firstn nhp plist) ++ skipn nhp plist)   (* qsort(plist, num_hps, ...) sorts the first num_hps entries in place *)
         (N.of_nat nhp) fl.                              (* binary_search(plist, ptr, num_hps) *)

Lemma at_app_l (l r : list N) i : i < N.of_nat (length l) -> at_ (l ++ r) i = at_ l i.
Proof. intros H. unfold at_. apply app_nth1. lia. Qed.

Lemma bs_loop_app : forall f (l r : list N) x mn mx,
  mx <= N.of_nat (length l) -> bs_loop f (l ++ r) x mn mx = bs_loop f l x mn mx.
Proof.
  induction f as [|f IH]; intros l r x mn mx H.
  - rewrite !bs_loop_O. reflexivity.
  - rewrite !bs_loop_S. destruct (N.ltb_spec mn mx) as [Hlt|Hge]; [|reflexivity]. cbv zeta.
    assert (Hc : mn + (mx - mn) / 2 < mx).
    { assert ((mx - mn) / 2 < mx - mn) by (apply N.div_lt; lia). lia. }
    rewrite at_app_l by lia.
    destruct (at_ l (mn + (mx - mn) / 2) =? x); [reflexivity|].
    destruct (at_ l (mn + (mx - mn) / 2) <? x); apply IH; lia.
Qed.

Lemma bsearch_app (l r : list N) x : binary_search (l ++ r) x (N.of_nat (length l)) = binary_search l x (N.of_nat (length l)).
Proof. unfold binary_search. apply bs_loop_app. lia. Qed.

Lemma stage2_app (l r : list N) fl : stage2 (l ++ r) (N.of_nat (length l)) fl = stage2 l (N.of_nat (length l)) fl.
Proof.
  induction fl as [|p fl IH]; [reflexivity|]. cbn [stage2]. rewrite bsearch_app, IH. reflexivity.
Qed.

Theorem scan_x_ignores_external : forall slots me ext fl, scan_x slots me ext fl = scan slots me fl.
Proof.
  intros slots me ext fl. unfold scan_x, scan.
  rewrite firstn_app, Nat.sub_diag, firstn_all. cbn [firstn]. rewrite app_nil_r.
  rewrite <- (isort_length (collect slots me)) at 2 3. rewrite stage2_app, isort_length. reflexivity.
Qed.

(* consequence: a retired node that only an external thread's hazard slot names is freed *)
Theorem scan_x_frees_externally_protected : forall slots me ext fl kept freed p,
  scan_x slots me ext fl = Some (kept, freed) -> In p (upto0 fl) -> ~ In p (collect slots me) -> In p freed.
Proof.
  intros slots me ext fl kept freed p H Hin Hno. rewrite scan_x_ignores_external in H.
  destruct (scan_partition _ _ _ _ _ H) as (pre & -> & Hperm).
  assert (Hk : In p (kept ++ freed)) by (eapply Permutation.Permutation_in; [apply Permutation.Permutation_sym; exact Hperm|exact Hin]).
  apply in_app_or in Hk. destruct Hk as [Hk|Hk]; [|exact Hk].
  exfalso. apply Hno. eapply scan_frees_unprotected; eauto.
Qed.

(* non-vacuity: 3 workers, worker 0 scans; address 0x1040 is named by the external thread's slot 0 only: it is freed;
   0x1000 is named by worker 1: kept *)
Example ex_external_slot_ignored :
  scan_x [[0;0]; [0x1000;0]; [0;0]] 0 [[0x1040; 0]] [0x1000; 0x1040; 0x1080] = Some ([0x1000], [0x1040; 0x1080]).
Proof. vm_compute. reflexivity. Qed.
