(* C15 qdqueue: theorems about the micro-step machine of DqMicro.v (src/ds/qdqueue.c with the advertisement heap,
   last_consumed and last_ad_* heuristics), for EVERY schedule, every number of shepherds, every allsheps / neighbors
   configuration, every program and ARBITRARY initial values of the hint fields.                                *)
From Coq Require Import List NArith Bool Arith Lia ZifyBool ZifyNat ZifyN Permutation.
From QV Require Import CQueues.Dq CQueues.DqProofs CQueues.DqMicro.
Import ListNotations.
Local Open Scope N_scope.

Ltac inv H := inversion H; subst; clear H.
Ltac invs H := first [discriminate H | injection H as <- <-].

(* ------------------------------------------------------------------------------------------------------ *)
(* runs                                                                                                    *)

Lemma dm_run_app : forall a b s, dm_run s (a ++ b) = dm_run (dm_run s a) b.
Proof. intros a b s. unfold dm_run. apply fold_left_app. Qed.

Lemma dm_run_snoc : forall a t s, dm_run s (a ++ [t]) = dm_step' (dm_run s a) t.
Proof. intros a t s. rewrite dm_run_app. reflexivity. Qed.

Lemma dm_run_invariant : forall (P : dstate -> Prop),
  (forall s t s' r, P s -> dm_step s t = Some (s', r) -> P s') ->
  forall sched s, P s -> P (dm_run s sched).
Proof.
  intros P Hstep sched. induction sched as [|t sched IH]; intros s Hs; cbn [dm_run fold_left].
  - exact Hs.
  - apply IH. unfold dm_step'. destruct (dm_step s t) as [[s' r]|] eqn:E; [eapply Hstep; eassumption|exact Hs].
Qed.

(* ------------------------------------------------------------------------------------------------------ *)
(* the step function as a relation: six kinds of steps                                                     *)

(* the value an enqueue call in flight still has to put, with its destination *)
Definition pend_pc (p : pc) : list (nat * N) :=
  match p with PEnqEmpty qi v => [(qi, v)] | PEnqPut qi v _ => [(qi, v)] | _ => [] end.
Definition opval (me : nat) (o : dmop) : list (nat * N) :=
  match o with DEnq v => [(me, v)] | DEnqThere th v => [(th, v)] | DDeq => [] end.
Definition is_stret (p : pc) : bool := match p with PDeqStRet _ _ => true | _ => false end.

(* the qlfqueue_dequeue sites of qdqueue_dequeue and the sub-queue each one is aimed at *)
Definition deq_site (s : dstate) (k : dtask) : option nat :=
  match k_pc k with
  | PDeqOwn => Some (k_me k)
  | PDeqSteal ash => Some ash
  | PDeqRDeq idx _ => Some (remote s (k_me k) idx)
  | PDeqLcDeq _ l => Some l
  | _ => None
  end.

Definition ret_ok (p : pc) (r : dres) : Prop :=
  match p, r with
  | PEnqRet, DInt _ => True
  | PDeqStRet _ x, DPtr (Some y) => x = y
  | PDeqRetNull, DPtr None => True
  | _, _ => False
  end.

Inductive dstepR (s : dstate) (t : nat) (k : dtask) : dstate -> option dres -> Prop :=
| R_start : forall o rest, k_pc k = PIdle -> k_ops k = o :: rest ->
    dstepR s t k (upd s (dm_subs s) t (mkDT (k_me k) (start (k_me k) o) rest [] (k_out k))) None
| R_enq : forall qi v stat p', k_pc k = PEnqPut qi v stat -> pend_pc p' = [] -> is_stret p' = false ->
    dstepR s t k (mkDM (dm_S s) (dm_alls s) (dm_nbrs s) (qpush (dm_qs s) qi v) (dm_subs s)
                       (set_nth (dm_tasks s) t (tk_goto k p')) (d_enq s ++ [v]) (d_deq s)) None
| R_take : forall i x qs', deq_site s k = Some i -> qpop (dm_qs s) i = Some (x, qs') ->
    dstepR s t k (mkDM (dm_S s) (dm_alls s) (dm_nbrs s) qs' (dm_subs s)
                       (set_nth (dm_tasks s) t (tk_goto k (PDeqStRet i x))) (d_enq s) (d_deq s ++ [x])) None
| R_miss : forall i p', deq_site s k = Some i -> qpop (dm_qs s) i = None -> pend_pc p' = [] -> is_stret p' = false ->
    dstepR s t k (upd s (dm_subs s) t (tk_see k i p')) None
| R_ret : forall subs' r, ret_ok (k_pc k) r ->
    dstepR s t k (upd s subs' t (tk_fin k r)) (Some r)
| R_local : forall subs' p', pend_pc p' = pend_pc (k_pc k) -> is_stret p' = false -> k_pc k <> PIdle ->
    deq_site s k = None -> is_stret (k_pc k) = false ->
    dstepR s t k (upd s subs' t (tk_goto k p')) None.

Lemma plain_enter_push : forall s h shep gen c,
  pend_pc (enter_push s h shep gen c) = [] /\ is_stret (enter_push s h shep gen c) = false.
Proof. intros. unfold enter_push. destruct (find_shep _ _ _); split; reflexivity. Qed.

Lemma plain_enq_nbr : forall s qi gen idx,
  pend_pc (enq_nbr s qi gen idx) = [] /\ is_stret (enq_nbr s qi gen idx) = false.
Proof. intros. unfold enq_nbr. destruct (nth_error _ _); [apply plain_enter_push|split; reflexivity]. Qed.

Lemma plain_after_push : forall s c, pend_pc (after_push s c) = [] /\ is_stret (after_push s c) = false.
Proof. intros s [qi gen idx|ash lc]; cbn [after_push]; [apply plain_enq_nbr|split; reflexivity]. Qed.

Lemma plain_loop_at : forall s idx, pend_pc (loop_at s idx) = [] /\ is_stret (loop_at s idx) = false.
Proof. intros. unfold loop_at. destruct (_ <? _)%nat; split; reflexivity. Qed.

Ltac plain_tac :=
  first [ reflexivity | apply plain_enter_push | apply plain_enq_nbr | apply plain_after_push | apply plain_loop_at
        | match goal with |- context [if ?c then _ else _] => destruct c; plain_tac end
        | match goal with |- context [match ?c with Some _ => _ | None => _ end] => destruct c; plain_tac end ].

Ltac local_tac Epc :=
  apply R_local; rewrite ?Epc;
  [ plain_tac | plain_tac | discriminate | unfold deq_site; rewrite Epc; reflexivity | reflexivity ].

Lemma dm_step_R : forall s t s' r, dm_step s t = Some (s', r) ->
  exists k, nth_error (dm_tasks s) t = Some k /\ dstepR s t k s' r.
Proof.
  intros s t s' r H. unfold dm_step in H.
  destruct (nth_error (dm_tasks s) t) as [k|] eqn:Ek; [|discriminate H].
  exists k. split; [reflexivity|].
  destruct (k_pc k) eqn:Epc.
  - (* PIdle *) destruct (k_ops k) as [|o rest] eqn:Eo; [discriminate H|]. inv H. eapply R_start; eassumption.
  - discriminate H.
  - inv H. local_tac Epc.
  - inv H. eapply R_enq; [exact Epc| |]; destruct stat; reflexivity.
  - inv H. local_tac Epc.
  - destruct (_ <=? _); inv H; local_tac Epc.
  - inv H. local_tac Epc.
  - inv H. apply R_ret. rewrite Epc. exact I.
  - destruct (q_lock _); inv H. local_tac Epc.
  - destruct (push_crit _ _ _); inv H; local_tac Epc.
  - inv H. local_tac Epc.
  - (* PDeqOwn *) unfold try_deq in H. destruct (qpop _ _) as [[x qs']|] eqn:Eq; inv H.
    + eapply R_take; [unfold deq_site; rewrite Epc; reflexivity|exact Eq].
    + eapply R_miss; [unfold deq_site; rewrite Epc; reflexivity|exact Eq|reflexivity|reflexivity].
  - inv H. apply R_ret. rewrite Epc. reflexivity.
  - inv H. local_tac Epc.
  - destruct (q_first _); inv H; local_tac Epc.
  - destruct (q_lock _); inv H. local_tac Epc.
  - destruct (pop_crit _) as [q' [[ash gen]|]]; inv H; local_tac Epc.
  - inv H. local_tac Epc.
  - inv H. local_tac Epc.
  - destruct (q_lc _) as [l|]; [destruct (l =? ash)%nat|]; inv H; local_tac Epc.
  - destruct (_ <? _); inv H; local_tac Epc.
  - inv H. local_tac Epc.
  - (* PDeqSteal *) unfold try_deq in H. destruct (qpop _ _) as [[x qs']|] eqn:Eq; inv H.
    + eapply R_take; [unfold deq_site; rewrite Epc; reflexivity|exact Eq].
    + eapply R_miss; [unfold deq_site; rewrite Epc; reflexivity|exact Eq|reflexivity|reflexivity].
  - inv H. local_tac Epc.
  - inv H. local_tac Epc.
  - (* PDeqRDeq *) unfold try_deq in H. destruct (qpop _ _) as [[x qs']|] eqn:Eq; inv H.
    + eapply R_take; [unfold deq_site; rewrite Epc; reflexivity|exact Eq].
    + eapply R_miss; [unfold deq_site; rewrite Epc; reflexivity|exact Eq| |]; plain_tac.
  - (* PDeqLcDeq *) unfold try_deq in H. destruct (qpop _ _) as [[x qs']|] eqn:Eq; inv H.
    + eapply R_take; [unfold deq_site; rewrite Epc; reflexivity|exact Eq].
    + eapply R_miss; [unfold deq_site; rewrite Epc; reflexivity|exact Eq|reflexivity|reflexivity].
  - destruct (q_first _); inv H; local_tac Epc.
  - inv H. apply R_ret. rewrite Epc. exact I.
Qed.

(* ------------------------------------------------------------------------------------------------------ *)
(* list helpers                                                                                            *)

Lemma flat_map_set_nth_perm : forall (A B : Type) (f : A -> list B) (l : list A) (t : nat) (k k' : A) (extra : list B),
  nth_error l t = Some k -> Permutation (f k) (extra ++ f k') ->
  Permutation (flat_map f l) (extra ++ flat_map f (set_nth l t k')).
Proof.
  intros A B f l t k k' extra Hn Hp.
  destruct (set_nth_split _ _ _ _ Hn) as [l1 [l2 [E [_ Hs]]]].
  rewrite Hs, E. rewrite !flat_map_app. cbn [flat_map].
  eapply perm_trans; [apply Permutation_app_head, Permutation_app_tail, Hp|].
  rewrite <- !app_assoc. rewrite (app_assoc (flat_map f l1) extra).
  rewrite (app_assoc extra (flat_map f l1)).
  apply Permutation_app_tail. apply Permutation_app_comm.
Qed.

Lemma in_set_nth_cases : forall (A : Type) (l : list A) (t : nat) (k k' x : A),
  nth_error l t = Some k -> In x (set_nth l t k') -> x = k' \/ In x l.
Proof. intros A l t k k' x _ H. eapply set_nth_In, H. Qed.

(* ------------------------------------------------------------------------------------------------------ *)
(* 1  conservation                                                                                         *)

Definition pend (k : dtask) : list (nat * N) := pend_pc (k_pc k) ++ flat_map (opval (k_me k)) (k_ops k).

Lemma pend_start : forall me o, pend_pc (start me o) = opval me o.
Proof. intros me [v|th v|]; reflexivity. Qed.

Lemma deq_site_pend : forall s k i, deq_site s k = Some i -> pend_pc (k_pc k) = [].
Proof. intros s k i H. unfold deq_site in H. destruct (k_pc k); try discriminate H; reflexivity. Qed.

Lemma ret_ok_pend : forall p r, ret_ok p r -> pend_pc p = [].
Proof. intros p r H. destruct p; try destruct H; reflexivity. Qed.

(* what a step does to the queues, the ghost histories and the pending values of the stepping task *)
Lemma stepR_effect : forall s t k s' r, dstepR s t k s' r ->
  dm_S s' = dm_S s /\ dm_alls s' = dm_alls s /\ dm_nbrs s' = dm_nbrs s /\
  exists k', dm_tasks s' = set_nth (dm_tasks s) t k' /\ k_me k' = k_me k /\
    ( (pend k' = pend k /\ dm_qs s' = dm_qs s /\ d_enq s' = d_enq s /\ d_deq s' = d_deq s) \/
      (exists qi v, pend k = (qi, v) :: pend k' /\ dm_qs s' = qpush (dm_qs s) qi v /\
                    d_enq s' = d_enq s ++ [v] /\ d_deq s' = d_deq s) \/
      (exists i x qs', pend k' = pend k /\ qpop (dm_qs s) i = Some (x, qs') /\ dm_qs s' = qs' /\
                       d_enq s' = d_enq s /\ d_deq s' = d_deq s ++ [x] /\ deq_site s k = Some i /\
                       k_pc k' = PDeqStRet i x /\ k_out k' = k_out k /\ k_ops k' = k_ops k /\ k_seen k' = k_seen k) ).
Proof.
  intros s t k s' r R.
  destruct R as [o rest Hpc Ho|qi v stat p' Hpc Hp Hs|i x qs' Hd Hq|i p' Hd Hq Hp Hs|subs' r Hr|subs' p' Hp Hs Hni Hd Hs0];
    cbn [upd dm_S dm_alls dm_nbrs dm_tasks dm_qs d_enq d_deq]; (split; [reflexivity|]); (split; [reflexivity|]);
    (split; [reflexivity|]); eexists; (split; [reflexivity|]); (split; [reflexivity|]).
  - left. unfold pend. cbn [k_pc k_ops k_me]. rewrite Hpc, Ho, pend_start. cbn [pend_pc flat_map app]. auto.
  - right; left. exists qi, v. unfold pend. cbn [tk_goto k_pc k_ops k_me]. rewrite Hpc, Hp. cbn [pend_pc app]. auto.
  - right; right. exists i, x, qs'. unfold pend. cbn [tk_goto k_pc k_ops k_me k_out k_seen pend_pc].
    rewrite (deq_site_pend _ _ _ Hd). auto 12.
  - left. unfold pend. cbn [tk_see k_pc k_ops k_me]. rewrite Hp, (deq_site_pend _ _ _ Hd). auto.
  - left. unfold pend. cbn [tk_fin k_pc k_ops k_me pend_pc]. rewrite (ret_ok_pend _ _ Hr). auto.
  - left. unfold pend. cbn [tk_goto k_pc k_ops k_me]. rewrite Hp. auto.
Qed.

Definition consv (ns : nat) (s : dstate) : Prop :=
  length (dm_qs s) = ns /\
  (forall k, In k (dm_tasks s) -> Forall (fun p => (fst p < ns)%nat) (pend k)) /\
  Permutation (d_deq s ++ concat (dm_qs s)) (d_enq s).

Lemma consv_step : forall ns s t s' r, consv ns s -> dm_step s t = Some (s', r) -> consv ns s'.
Proof.
  intros ns s t s' r [HL [HB HP]] H. destruct (dm_step_R _ _ _ _ H) as [k [Ek R]].
  assert (Hk : In k (dm_tasks s)) by (eapply nth_error_In, Ek).
  assert (HBk := HB k Hk).
  destruct (stepR_effect _ _ _ _ _ R) as [_ [_ [_ [k' [Et [_ Hcase]]]]]].
  assert (Hother : Forall (fun p => (fst p < ns)%nat) (pend k') ->
            forall k0, In k0 (dm_tasks s') -> Forall (fun p => (fst p < ns)%nat) (pend k0)).
  { intros H0 k0 Hin. rewrite Et in Hin. destruct (set_nth_In _ _ _ _ _ Hin) as [->|Hin']; [exact H0|apply HB, Hin']. }
  destruct Hcase as [[Hp [Hq [He Hd]]]|[[qi [v [Hp [Hq [He Hd]]]]]|[i [x [qs' [Hp [Hq [Hq' [He [Hd _]]]]]]]]]].
  - unfold consv. rewrite Hq, He, Hd. split; [exact HL|]. split; [|exact HP]. apply Hother. rewrite Hp. exact HBk.
  - rewrite Hp in HBk. inversion HBk as [|p0 l0 Hb1 Hb2]. cbn [fst] in Hb1.
    unfold consv. rewrite Hq, He, Hd. split; [rewrite qpush_length; exact HL|]. split; [apply Hother; exact Hb2|].
    eapply perm_trans; [|apply Permutation_app_tail, HP]. rewrite <- app_assoc.
    apply Permutation_app_head. eapply perm_trans; [apply qpush_perm; lia|]. apply Permutation_cons_append.
  - destruct (qpop_spec _ _ _ _ Hq) as [HPq HLq].
    unfold consv. rewrite Hq', He, Hd. split; [congruence|]. split; [apply Hother; rewrite Hp; exact HBk|].
    eapply perm_trans; [|exact HP]. rewrite <- app_assoc. apply Permutation_app_head. cbn [app].
    apply Permutation_sym, HPq.
Qed.

(* every index in the programs is a shepherd *)
Definition progs_ok (ns : nat) (progs : list (nat * list dmop)) : Prop :=
  forall me p, In (me, p) progs -> (me < ns)%nat /\ forall th v, In (DEnqThere th v) p -> (th < ns)%nat.

Lemma concat_repeat_nil' : forall n, concat (repeat (@nil N) n) = [].
Proof. induction n as [|n IH]; [reflexivity|exact IH]. Qed.

Lemma consv_init : forall ns alls nbrs hn progs, progs_ok ns progs -> consv ns (dm_init ns alls nbrs hn progs).
Proof.
  intros ns alls nbrs hn progs H. unfold consv, dm_init; cbn [dm_qs dm_tasks d_enq d_deq].
  split; [apply repeat_length|]. split.
  - intros k Hk. apply in_map_iff in Hk. destruct Hk as [[me p] [<- Hp]]. unfold pend. cbn [k_pc k_ops k_me pend_pc app fst snd].
    destruct (H me p Hp) as [Hme Hth]. apply Forall_forall. intros [q v] Hin. apply in_flat_map in Hin.
    destruct Hin as [o [Ho Hin]]. destruct o as [v0|th v0|]; cbn [opval] in Hin.
    + destruct Hin as [E|[]]. inv E. exact Hme.
    + destruct Hin as [E|[]]. inv E. cbn [fst]. eapply Hth, Ho.
    + destruct Hin.
  - cbn [app]. rewrite concat_repeat_nil'. apply perm_nil.
Qed.

(* the values still to be enqueued plus the values enqueued are the values of the programs *)
Definition prog_vals (progs : list (nat * list dmop)) : list N :=
  map snd (flat_map (fun p => flat_map (opval (fst p)) (snd p)) progs).

Definition pendinv (vals : list N) (s : dstate) : Prop :=
  Permutation (d_enq s ++ map snd (flat_map pend (dm_tasks s))) vals.

Lemma pendinv_step : forall vals s t s' r, pendinv vals s -> dm_step s t = Some (s', r) -> pendinv vals s'.
Proof.
  intros vals s t s' r HP H. destruct (dm_step_R _ _ _ _ H) as [k [Ek R]].
  destruct (stepR_effect _ _ _ _ _ R) as [_ [_ [_ [k' [Et [_ Hcase]]]]]]. unfold pendinv in *. rewrite Et.
  destruct Hcase as [[Hp [Hq [He Hd]]]|[[qi [v [Hp [Hq [He Hd]]]]]|[i [x [qs' [Hp [Hq [Hq' [He [Hd _]]]]]]]]]].
  - rewrite He. eapply perm_trans; [|exact HP]. apply Permutation_app_head, Permutation_map.
    apply Permutation_sym. apply (flat_map_set_nth_perm _ _ pend _ _ k k' [] Ek). rewrite Hp. apply Permutation_refl.
  - rewrite He. eapply perm_trans; [|exact HP]. rewrite <- app_assoc. apply Permutation_app_head.
    change ([v] ++ map snd (flat_map pend (set_nth (dm_tasks s) t k')))
      with (map snd ([(qi, v)] ++ flat_map pend (set_nth (dm_tasks s) t k'))).
    apply Permutation_map, Permutation_sym. apply (flat_map_set_nth_perm _ _ pend _ _ k k' [(qi, v)] Ek).
    rewrite Hp. apply Permutation_refl.
  - rewrite He. eapply perm_trans; [|exact HP]. apply Permutation_app_head, Permutation_map.
    apply Permutation_sym. apply (flat_map_set_nth_perm _ _ pend _ _ k k' [] Ek). rewrite Hp. apply Permutation_refl.
Qed.

Lemma pendinv_init : forall ns alls nbrs hn progs, pendinv (prog_vals progs) (dm_init ns alls nbrs hn progs).
Proof.
  intros. unfold pendinv, dm_init, prog_vals; cbn [d_enq dm_tasks app]. rewrite flat_map_concat_map, map_map.
  rewrite <- flat_map_concat_map. apply Permutation_refl.
Qed.

(* results: a task that holds or has returned a value took it out of a sub-queue *)
Definition outs_ok (s : dstate) : Prop :=
  forall k, In k (dm_tasks s) ->
    (forall x, In (Some x) (k_out k) -> In x (d_deq s)) /\ (forall i x, k_pc k = PDeqStRet i x -> In x (d_deq s)).

Lemma outs_ok_step : forall s t s' r, outs_ok s -> dm_step s t = Some (s', r) -> outs_ok s'.
Proof.
  intros s t s' r HO H. destruct (dm_step_R _ _ _ _ H) as [k [Ek R]].
  assert (Hk : In k (dm_tasks s)) by (eapply nth_error_In, Ek). destruct (HO k Hk) as [HOo HOp].
  assert (Hmono : forall k' d', (forall x, In x (d_deq s) -> In x d') ->
            ((forall x, In (Some x) (k_out k') -> In x d') /\ (forall i x, k_pc k' = PDeqStRet i x -> In x d')) ->
            forall k0, In k0 (set_nth (dm_tasks s) t k') ->
            (forall x, In (Some x) (k_out k0) -> In x d') /\ (forall i x, k_pc k0 = PDeqStRet i x -> In x d')).
  { intros k' d' Hsub H0 k0 Hin. destruct (set_nth_In _ _ _ _ _ Hin) as [->|Hin']; [exact H0|].
    destruct (HO k0 Hin') as [A B]. split; [intros x Hx; apply Hsub, A, Hx|intros i x Hx; eapply Hsub, B, Hx]. }
  destruct R as [o rest Hpc Ho|qi v stat p' Hpc Hp Hs|i x qs' Hd Hq|i p' Hd Hq Hp Hs|subs' r Hr|subs' p' Hp Hs Hni Hd Hs0];
    unfold outs_ok; cbn [upd dm_tasks d_deq]; apply Hmono; try (intros y Hy; exact Hy);
    cbn [tk_goto tk_see tk_fin k_out k_pc].
  - split; [exact HOo|]. intros i x E. destruct o; discriminate E.
  - split; [exact HOo|]. intros i x E. rewrite E in Hs. discriminate Hs.
  - intros y Hy. apply in_or_app. left; exact Hy.
  - split; [intros y Hy; apply in_or_app; left; apply HOo, Hy|]. intros i0 x0 E. inv E. apply in_or_app. right; left; reflexivity.
  - split; [exact HOo|]. intros i0 x E. rewrite E in Hs. discriminate Hs.
  - split; [|intros i x E; discriminate E]. intros x Hx.
    destruct (k_pc k) eqn:Epc; destruct r as [n|[y|]]; try destruct Hr; try (apply HOo, Hx).
    apply in_app_or in Hx. destruct Hx as [Hx|[E|[]]]; [apply HOo, Hx|]. inv E. eapply HOp. reflexivity.
    apply in_app_or in Hx. destruct Hx as [Hx|[E|[]]]; [apply HOo, Hx|discriminate E].
  - split; [exact HOo|]. intros i x E. rewrite E in Hs. discriminate Hs.
Qed.

Theorem dqm_conservation : forall ns alls nbrs hn progs sched,
  progs_ok ns progs ->
  let s := dm_run (dm_init ns alls nbrs hn progs) sched in
  Permutation (d_deq s ++ concat (dm_qs s)) (d_enq s) /\
  (NoDup (prog_vals progs) -> NoDup (d_deq s)) /\
  (forall k x, In k (dm_tasks s) -> In (Some x) (k_out k) -> In x (d_deq s) /\ In x (d_enq s)).
Proof.
  intros ns alls nbrs hn progs sched Hok s.
  assert (Hc : consv ns s).
  { apply (dm_run_invariant (consv ns)); [apply consv_step|apply consv_init, Hok]. }
  assert (Hp : pendinv (prog_vals progs) s).
  { apply (dm_run_invariant (pendinv (prog_vals progs))); [apply pendinv_step|apply pendinv_init]. }
  assert (Ho : outs_ok s).
  { apply (dm_run_invariant outs_ok); [apply outs_ok_step|]. intros k Hk. unfold dm_init in Hk; cbn [dm_tasks] in Hk.
    apply in_map_iff in Hk. destruct Hk as [p [<- _]]. cbn [k_out k_pc]. split; [intros x []|intros i x E; discriminate E]. }
  destruct Hc as [_ [_ HP]]. split; [exact HP|]. split.
  - intros Hnd. eapply nodup_app_l. eapply Permutation_NoDup; [apply Permutation_sym, HP|].
    eapply nodup_app_l. eapply Permutation_NoDup; [apply Permutation_sym, Hp|exact Hnd].
  - intros k x Hk Hx. destruct (Ho k Hk) as [A _]. split; [apply A, Hx|].
    eapply Permutation_in; [exact HP|]. apply in_or_app. left. apply A, Hx.
Qed.

(* ------------------------------------------------------------------------------------------------------ *)
(* 2  a dequeue returns NULL only after it has observed every sub-queue empty (each at SOME point during the
      call, not all at the same time)                                                                       *)

Definition task_of (s : dstate) (t : nat) : dtask :=
  match nth_error (dm_tasks s) t with Some k => k | None => mkDT O PIdle [] [] [] end.

(* an index enters k_seen only by a step in which that sub-queue is empty in the pre-state (the step is a failed
   qlfqueue_dequeue on it); k_seen is reset when the next call starts and is otherwise unchanged *)
Theorem dqm_seen_was_empty : forall s t s' r,
  dm_step s t = Some (s', r) ->
  let k := task_of s t in let k' := task_of s' t in
  k_seen k' = k_seen k \/
  (k_pc k = PIdle /\ k_seen k' = []) \/
  (exists i, k_seen k' = i :: k_seen k /\ nth i (dm_qs s) [] = [] /\ dm_qs s' = dm_qs s /\ deq_site s k = Some i).
Proof.
  intros s t s' r H k k'. destruct (dm_step_R _ _ _ _ H) as [k0 [Ek R]].
  assert (E0 : k = k0) by (unfold k, task_of; rewrite Ek; reflexivity).
  assert (Ek' : forall kk, dm_tasks s' = set_nth (dm_tasks s) t kk -> k' = kk).
  { intros kk E. unfold k', task_of. rewrite E, (nth_error_set_nth_same _ _ _ _ _ Ek). reflexivity. }
  rewrite E0. clearbody k k'. subst k0.
  destruct R as [o rest Hpc Ho|qi v stat p' Hpc Hp Hs|i x qs' Hd Hq|i p' Hd Hq Hp Hs|subs' r Hr|subs' p' Hp Hs Hni Hd Hs0];
    cbn [upd dm_tasks dm_qs] in *; rewrite (Ek' _ eq_refl); cbn [tk_goto tk_see tk_fin k_seen].
  - right; left. split; [exact Hpc|reflexivity].
  - left; reflexivity.
  - left; reflexivity.
  - right; right. exists i. split; [reflexivity|]. split; [|split; [reflexivity|exact Hd]].
    apply qpop_None_nth in Hq. destruct (nth i (dm_qs s) []); [reflexivity|discriminate Hq].
  - left; reflexivity.
  - left; reflexivity.
Qed.

(* the sub-queues a dequeue standing at this pc must already have found empty *)
Definition seen_req (ns : nat) (alls : list (list nat)) (me : nat) (p : pc) : list nat :=
  match p with
  | PDeqStNull | PPopPre | PPopLock | PPopCrit | PPopUnlockEmpty | PPopUnlock _ _ | PDeqLdLc _ _
  | PDeqLdConsumed _ _ | PDeqCas _ _ _ | PDeqSteal _ | PDeqCasP _ _ => [me]
  | PPushLock _ _ _ (KDeqRepush _ _) | PPushCrit _ _ _ (KDeqRepush _ _) | PPushUnlock _ (KDeqRepush _ _) => [me]
  | PDeqRLdLc idx | PDeqRDeq idx _ => me :: firstn idx (nth me alls [])
  | PDeqLcDeq idx _ | PDeqEmptyChk idx => me :: firstn (S idx) (nth me alls [])
  | PDeqRetNull => me :: firstn (ns - 1) (nth me alls [])
  | _ => []
  end.

Definition cover (ns : nat) (alls : list (list nat)) (s : dstate) : Prop :=
  dm_S s = ns /\ dm_alls s = alls /\
  forall k, In k (dm_tasks s) -> incl (seen_req ns alls (k_me k) (k_pc k)) (k_seen k).

Lemma firstn_S_in : forall (l : list nat) n x d, In x (firstn (S n) l) -> x = nth n l d \/ In x (firstn n l).
Proof.
  induction l as [|a l IH]; intros n x d H; [destruct H|].
  destruct n as [|n]; cbn [firstn nth] in *.
  - destruct H as [E|[]]. left; symmetry; exact E.
  - destruct H as [E|H]; [right; left; exact E|]. destruct (IH n x d H) as [E|H']; [left; exact E|right; right; exact H'].
Qed.

Lemma firstn_le_incl : forall (l : list nat) n m, (n <= m)%nat -> incl (firstn n l) (firstn m l).
Proof.
  induction l as [|a l IH]; intros n m H x Hx; [destruct n; destruct Hx|].
  destruct n as [|n]; [destruct Hx|]. destruct m as [|m]; [lia|]. cbn [firstn] in *.
  destruct Hx as [E|Hx]; [left; exact E|right; eapply IH; [|exact Hx]; lia].
Qed.

Lemma req_enter_push_deq : forall ns alls me s h shep gen a b,
  incl (seen_req ns alls me (enter_push s h shep gen (KDeqRepush a b))) [me].
Proof. intros. unfold enter_push. destruct (find_shep _ _ _); cbn [seen_req]; [apply incl_refl|intros x []]. Qed.

Lemma req_enter_push_enq : forall ns alls me s h shep gen a b c,
  seen_req ns alls me (enter_push s h shep gen (KEnqNbr a b c)) = [].
Proof. intros. unfold enter_push. destruct (find_shep _ _ _); reflexivity. Qed.

Lemma req_enq_nbr : forall ns alls me s qi gen idx, seen_req ns alls me (enq_nbr s qi gen idx) = [].
Proof. intros. unfold enq_nbr. destruct (nth_error _ _); [apply req_enter_push_enq|reflexivity]. Qed.

Lemma req_loop_at : forall ns alls me s idx, dm_S s = ns ->
  incl (seen_req ns alls me (loop_at s idx)) (me :: firstn idx (nth me alls [])).
Proof.
  intros ns alls me s idx HS. unfold loop_at. rewrite HS. destruct (idx <? ns - 1)%nat eqn:E; cbn [seen_req].
  - apply incl_refl.
  - intros x [Hx|Hx]; [left; exact Hx|right]. eapply firstn_le_incl; [|exact Hx]. apply Nat.ltb_ge in E. exact E.
Qed.

Lemma cover_step : forall ns alls s t s' r, cover ns alls s -> dm_step s t = Some (s', r) -> cover ns alls s'.
Proof.
  intros ns alls s t s' r [HS [HA HC]] H. unfold dm_step in H.
  destruct (nth_error (dm_tasks s) t) as [k|] eqn:Ek; [|discriminate H].
  assert (Hk : In k (dm_tasks s)) by (eapply nth_error_In, Ek). assert (HCk := HC k Hk).
  assert (Hupd : forall k' subs', k_me k' = k_me k -> incl (seen_req ns alls (k_me k) (k_pc k')) (k_seen k') ->
            cover ns alls (upd s subs' t k')).
  { intros k' subs' Hme Hi. split; [exact HS|]. split; [exact HA|]. cbn [upd dm_tasks]. intros k0 Hin.
    destruct (set_nth_In _ _ _ _ _ Hin) as [->|Hin']; [rewrite Hme; exact Hi|apply HC, Hin']. }
  assert (Hl0 : incl (seen_req ns alls (k_me k) (loop_at s O)) [k_me k]).
  { eapply incl_tran; [apply req_loop_at, HS|]. cbn [firstn]. apply incl_refl. }
  assert (Htry : forall i on_some on_null,
            try_deq s t k i on_some on_null = Some (s', r) ->
            (forall x, seen_req ns alls (k_me k) (on_some x) = []) ->
            incl (seen_req ns alls (k_me k) on_null) (i :: k_seen k) -> cover ns alls s').
  { intros i on_some on_null Ht Hsome Hnull. unfold try_deq in Ht. destruct (qpop _ _) as [[x qs']|] eqn:Eq; invs Ht.
    - split; [exact HS|]. split; [exact HA|]. cbn [dm_tasks]. intros k0 Hin.
      destruct (set_nth_In _ _ _ _ _ Hin) as [->|Hin']; [|apply HC, Hin'].
      cbn [tk_goto k_me k_pc]. rewrite Hsome. intros y [].
    - apply Hupd; [reflexivity|]. cbn [tk_see k_pc k_seen]. exact Hnull. }
  destruct (k_pc k) eqn:Epc; cbn [seen_req] in HCk.
  - destruct (k_ops k) as [|o rest]; invs H. apply Hupd; [reflexivity|]. cbn [k_pc k_seen]. destruct o; intros x [].
  - discriminate H.
  - invs H. apply Hupd; [reflexivity|]. intros x [].
  - invs H. split; [exact HS|]. split; [exact HA|]. cbn [dm_tasks]. intros k0 Hin.
    destruct (set_nth_In _ _ _ _ _ Hin) as [->|Hin']; [|apply HC, Hin']. cbn [tk_goto k_me k_pc]. destruct stat; intros x [].
  - invs H. apply Hupd; [reflexivity|]. intros x [].
  - destruct (_ <=? _); invs H; apply Hupd; try reflexivity; intros x [].
  - invs H. apply Hupd; [reflexivity|]. cbn [tk_goto k_pc]. rewrite req_enq_nbr. intros x [].
  - invs H. apply Hupd; [reflexivity|]. intros x [].
  - destruct (q_lock _); invs H. apply Hupd; [reflexivity|]. exact HCk.
  - destruct (push_crit _ _ _); invs H; apply Hupd; try reflexivity; [exact HCk|intros x []].
  - invs H. apply Hupd; [reflexivity|]. cbn [tk_goto k_pc k_seen]. destruct c as [qi g idx|a b]; cbn [after_push seen_req].
    + rewrite req_enq_nbr. intros x [].
    + exact HCk.
  - eapply Htry; [exact H|reflexivity|]. cbn [seen_req]. intros x [<-|[]]. left; reflexivity.
  - invs H. apply Hupd; [reflexivity|]. intros y [].
  - invs H. apply Hupd; [reflexivity|]. exact HCk.
  - destruct (q_first _); invs H; apply Hupd; try reflexivity; cbn [tk_goto k_pc k_seen seen_req]; [exact HCk|].
    eapply incl_tran; [exact Hl0|exact HCk].
  - destruct (q_lock _); invs H. apply Hupd; [reflexivity|]. exact HCk.
  - destruct (pop_crit _) as [q' [[ash gen]|]]; invs H; apply Hupd; try reflexivity; exact HCk.
  - invs H. apply Hupd; [reflexivity|]. cbn [tk_goto k_pc k_seen]. eapply incl_tran; [exact Hl0|exact HCk].
  - invs H. apply Hupd; [reflexivity|]. exact HCk.
  - destruct (q_lc _) as [l|]; [destruct (l =? ash)%nat|]; invs H; apply Hupd; try reflexivity; try exact HCk.
    cbn [tk_goto k_pc k_seen]. eapply incl_tran; [apply req_enter_push_deq|exact HCk].
  - destruct (_ <? _); invs H; apply Hupd; try reflexivity; exact HCk.
  - invs H. apply Hupd; [reflexivity|]. cbn [tk_goto k_pc k_seen]. destruct (_ <? _); exact HCk.
  - eapply Htry; [exact H|reflexivity|]. cbn [seen_req]. intros x Hx. right. apply HCk, Hx.
  - invs H. apply Hupd; [reflexivity|]. exact HCk.
  - invs H. apply Hupd; [reflexivity|]. exact HCk.
  - (* PDeqRDeq *) eapply Htry; [exact H|reflexivity|].
    assert (Hgoal : incl (k_me k :: firstn (S idx) (nth (k_me k) alls [])) (remote s (k_me k) idx :: k_seen k)).
    { intros x [<-|Hx]; [right; apply HCk; left; reflexivity|].
      destruct (firstn_S_in _ _ _ O Hx) as [->|Hx']; [left; unfold remote; rewrite HA; reflexivity|].
      right. apply HCk. right; exact Hx'. }
    destruct lc as [l|]; [destruct (l =? _)%nat|]; cbn [seen_req]; exact Hgoal.
  - (* PDeqLcDeq *) eapply Htry; [exact H|reflexivity|]. cbn [seen_req]. intros x Hx. right. apply HCk, Hx.
  - destruct (q_first _); invs H; apply Hupd; try reflexivity; cbn [tk_goto k_pc k_seen seen_req].
    + intros x [<-|[]]. apply HCk. left; reflexivity.
    + eapply incl_tran; [apply req_loop_at, HS|exact HCk].
  - invs H. apply Hupd; [reflexivity|]. intros x [].
Qed.

(* configuration: allsheps[me] names, among its first ns-1 entries, every other shepherd *)
Definition alls_cover (ns : nat) (alls : list (list nat)) : Prop :=
  forall me i, (me < ns)%nat -> (i < ns)%nat -> i <> me -> In i (firstn (ns - 1) (nth me alls [])).

Lemma dm_cfg_ok_alls_cover : forall ns alls nbrs, dm_cfg_ok ns alls nbrs = true -> alls_cover ns alls.
Proof.
  intros ns alls nbrs H me i Hme Hi Hne. unfold dm_cfg_ok in H. rewrite forallb_forall in H.
  specialize (H me ltac:(apply in_seq; lia)). rewrite !andb_true_iff in H. destruct H as [[[HL _] HC] _].
  rewrite forallb_forall in HC. specialize (HC i ltac:(apply in_seq; lia)).
  apply orb_true_iff in HC. destruct HC as [E|E]; [apply Nat.eqb_eq in E; contradiction|].
  apply existsb_exists in E. destruct E as [y [Hy E]]. apply Nat.eqb_eq in E. subst y.
  apply Nat.eqb_eq in HL. rewrite <- HL, firstn_all. exact Hy.
Qed.

Lemma cover_init : forall ns alls nbrs hn progs, cover ns alls (dm_init ns alls nbrs hn progs).
Proof.
  intros. split; [reflexivity|]. split; [reflexivity|]. unfold dm_init; cbn [dm_tasks]. intros k Hk.
  apply in_map_iff in Hk. destruct Hk as [p [<- _]]. intros x [].
Qed.

(* task-local facts that never change *)
Definition me_ok (ns : nat) (s : dstate) : Prop := forall k, In k (dm_tasks s) -> (k_me k < ns)%nat.

Lemma me_ok_step : forall ns s t s' r, me_ok ns s -> dm_step s t = Some (s', r) -> me_ok ns s'.
Proof.
  intros ns s t s' r HM H. destruct (dm_step_R _ _ _ _ H) as [k [Ek R]].
  destruct (stepR_effect _ _ _ _ _ R) as [_ [_ [_ [k' [Et [Hme _]]]]]]. intros k0 Hin. rewrite Et in Hin.
  destruct (set_nth_In _ _ _ _ _ Hin) as [->|Hin']; [rewrite Hme; eapply HM, nth_error_In, Ek|apply HM, Hin'].
Qed.

Lemma me_ok_init : forall ns alls nbrs hn progs, progs_ok ns progs -> me_ok ns (dm_init ns alls nbrs hn progs).
Proof.
  intros ns alls nbrs hn progs H k Hk. unfold dm_init in Hk; cbn [dm_tasks] in Hk.
  apply in_map_iff in Hk. destruct Hk as [[me p] [<- Hp]]. cbn [k_me fst]. apply (H me p Hp).
Qed.

Theorem dqm_null_means_all_empty_at_some_point : forall ns alls nbrs hn progs sched t s' i,
  progs_ok ns progs -> alls_cover ns alls ->
  let s := dm_run (dm_init ns alls nbrs hn progs) sched in
  dm_step s t = Some (s', Some (DPtr None)) ->          (* task t's dequeue returns NULL in this step *)
  (i < ns)%nat ->
  In i (k_seen (task_of s t)) /\ k_seen (task_of s' t) = k_seen (task_of s t) /\
  k_out (task_of s' t) = k_out (task_of s t) ++ [None].
Proof.
  intros ns alls nbrs hn progs sched t s' i Hok Hcov s H Hi.
  assert (Hc : cover ns alls s).
  { apply (dm_run_invariant (cover ns alls)); [apply cover_step|apply cover_init]. }
  assert (Hm : me_ok ns s).
  { apply (dm_run_invariant (me_ok ns)); [apply me_ok_step|apply me_ok_init, Hok]. }
  destruct (dm_step_R _ _ _ _ H) as [k [Ek R]].
  assert (E0 : task_of s t = k) by (unfold task_of; rewrite Ek; reflexivity). rewrite E0.
  assert (Hk : In k (dm_tasks s)) by (eapply nth_error_In, Ek).
  inversion R as [| | | |subs' r0 Hr Es Er|]; subst r0.
  assert (Epc : k_pc k = PDeqRetNull).
  { destruct (k_pc k); try destruct Hr; reflexivity. }
  assert (E1 : task_of (upd s subs' t (tk_fin k (DPtr None))) t = tk_fin k (DPtr None)).
  { unfold task_of. cbn [upd dm_tasks]. rewrite (nth_error_set_nth_same _ _ _ _ _ Ek). reflexivity. }
  rewrite E1. cbn [tk_fin k_seen k_out]. split; [|split; reflexivity].
  destruct Hc as [_ [_ HC]]. specialize (HC k Hk). rewrite Epc in HC. cbn [seen_req] in HC. apply HC.
  destruct (Nat.eq_dec i (k_me k)) as [->|Hne]; [left; reflexivity|right].
  apply Hcov; [apply Hm, Hk|exact Hi|exact Hne].
Qed.
